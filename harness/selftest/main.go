// selftest exercises the explorer itself on toy drivers with known state-space sizes.
package main

import (
	"verif/mc"
)

func main() {
	mc.Main("SELFTEST", func(r *mc.Registry) {
		r.Rule = "toy"
		r.Seq("tree", func(x *mc.X) {
			a := x.Choose(3, "a")
			b := 0
			if a > 0 {
				b = x.Choose(4, "b")
			}
			x.Observe(a, b)
			if a == 2 && b == 3 && len(r.Tier) == 8 {
				x.Fail("a2b3", "toy failure")
			}
		})
		// classic lost update: two threads read-modify-write with points
		for _, bound := range []int{-1, 0, 1, 2} {
			r.Conc("lostupdate", bound, func(x *mc.X) {
				v := 0
				for i := 0; i < 2; i++ {
					x.Go("w", func() {
						x.Point("v", "load")
						t := v
						x.Point("v", "store")
						v = t + 1
					})
				}
				x.AwaitQuiescence()
				x.Observe(v)
				if v != 2 {
					x.NonTrivial()
				}
			}).Name += map[int]string{-1: "-all", 0: "-pb0", 1: "-pb1", 2: "-pb2"}[bound]
		}
		r.Conc("indep-all", -1, func(x *mc.X) {
			a, b := 0, 0
			x.Go("a", func() { x.Point("a", ""); a++; x.Point("a", ""); a++ })
			x.Go("b", func() { x.Point("b", ""); b++; x.Point("b", ""); b++ })
			x.AwaitQuiescence()
			x.Observe(a, b)
		})
	})
}
