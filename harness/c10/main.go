// C10 — Ord instances are strict total orders; sorting is an ordered permutation.
//
// Part 1 (scenarios "grammar", "arity"): every Ord instance expression over a small type grammar
// (depth 2, every tuple arity and HCons chain length 1..21, and New / FromCompare / as.Ord /
// Reversed / ThenComparing applied to each of them) on ALL triples of a value domain: exactly one
// of Less(a,b), Less(b,a), Eqv(a,b); transitivity; Compare/LessEq/Min/Max consistent with Less;
// the structural demand of the constructor (native order, lexicographic over the component
// instances, flipped, tie-break only).
// Part 2 (scenario "sort"): Sort/Min/Max of seq, iterator and list on ALL sequences up to a
// length bound over elements (key, payload) whose payload makes equal keys distinguishable.
package main

import (
	"fmt"
	"math"
	"sort"
	"strings"
	"time"

	"github.com/csgura/fp"
	"github.com/csgura/fp/as"
	"github.com/csgura/fp/hlist"
	"github.com/csgura/fp/iterator"
	"github.com/csgura/fp/list"
	"github.com/csgura/fp/ord"
	"github.com/csgura/fp/seq"
	"verif/mc"
)

// arities holds the component instances used by the generated tuple / HCons blocks.
type arities struct {
	kInt  *inst[int]
	kStr  *inst[string]
	kFlt  *inst[float64]
	kOpt  *inst[fp.Option[string]]
	kPtr  *inst[*int]
	kTim  *inst[time.Time]
	kTu1  *inst[fp.Tuple1[int]]
	hnil  *inst[hlist.Nil]
	tuple [22]*node
	hcons [22]*node
}

// arityInst builds the instance of one tuple arity / HCons chain length. Its domain has the base
// value, an all-alternative-representation copy, an all-different value, and for every position
// k <= maxDecide a value that differs from the base in position k only: comparing "differs at j
// only" with "differs at k only" for all j,k pins the lexicographic priority of every position.
//
// maxDecide exists because the library's TupleN/HCons Compare is exponential in the length p of
// the common prefix of its operands (about p*2^p steps: Compare = Eqv, then Less both ways, each
// of which recurses into the Compare of the tail; measured 7 ms at p=14, ~0.6 s at p=20). The
// quick tier therefore decides positions 1..12 only; the thorough tier decides all 21.
func arityInst[T any](head string, n int, o func() fp.Ord[T], mk func(c []any) T, split func(any) []any, open, sep, close string, kids ...*node) *inst[T] {
	var pats [][]int
	build := func(def int, set ...int) any {
		c := make([]any, n)
		p := make([]int, n)
		for j := range c {
			c[j] = kids[j].at(def)
		}
		for _, k := range set {
			c[k] = kids[k].at(2)
			p[k] = 1
		}
		if def == 2 {
			for j := range p {
				p[j] = 1
			}
		}
		pats = append(pats, p)
		return mk(c)
	}
	dom := []any{build(0), build(1), build(2)}
	if n <= maxDecide {
		dom = append(dom, build(1, n-1))
	}
	for k := 0; k < n && k < maxDecide; k++ {
		dom = append(dom, build(0, k))
	}
	kid := func(j int) *node { return kids[j] }
	nd := &node{name: head, head: head, depth: 2, kids: kids, dom: dom, cSize: 3,
		same: lexSame(kid, split, false), equiv: lexSame(kid, split, true), show: lexShow(kid, split, open, sep, close, nil),
		want: lexWant(kid, split), wantLaw: "lexicographic"}
	// commonPrefix is used to keep the attribution self-check cheap
	nd.commonPrefix = func(a, b int) int {
		p := 0
		for p < n && pats[a][p] == pats[b][p] {
			p++
		}
		if p == n {
			return 0 // equal values: the equality path is linear
		}
		return p
	}
	nd.pickRepresentatives()
	// history family: fresh operands (all components at their 1st, 2nd, 3rd operand) and the value z
	nd.hv = func() []any {
		hvs := make([][]any, n)
		for j := range hvs {
			hvs[j] = kids[j].hv()
		}
		var out []any
		for i := 0; i < 4; i++ {
			c := make([]any, n)
			for j := range c {
				c[j] = hvs[j][i]
			}
			out = append(out, mk(c))
		}
		return out
	}
	nd.mut = prodMut(kids, split)
	return finish(nd, o)
}

var maxDecide = 12

// operands of an arity block sharing a prefix longer than this get the reduced check
const liteFrom = 14

func buildCatalogue() (grammar *catalogue, extra *catalogue, ar *arities) {
	hn := baseHNil()
	grammar = &catalogue{hnil: hn}
	extra = &catalogue{hnil: hn}

	bInt := given("int", []int{0, 1, 2, -1, math.MaxInt, math.MinInt})
	bStr := given("string", []string{"", "a", "b", "ab", "ba", "B"})
	bFlt := given("float64", []float64{0, negZero(), 1.5, -2.5, math.Inf(1), math.Inf(-1)})
	bTime := baseTime()

	// depth 2 — every combinator applied to every combinator — over float64 (two
	// representations of one value, infinities); depth 1 over the other base types (compile time:
	// see harness/c09/inst.go). The derived instances (New, FromCompare, as.Ord, Reversed,
	// ThenComparing) are applied once to every instance and twice to the base instances.
	expand2(grammar, bFlt, true)
	expand1(grammar, bInt, true)
	expand1(grammar, bStr, true)
	expand1(grammar, bTime, true)
	// every combinator over component Ords that deliberately differ from the default order of
	// their type, at element types a library could special-case (custom.go)
	registerCustom(grammar, maxDecide == 21) // maxDecide is 21 exactly in the thorough tier

	add := func(n *node) { extra.add(n) }
	add(hn.n)
	derive(extra, hn, false)
	add(given("int8", []int8{0, 1, -1, 127, -128}).n)
	add(given("int16", []int16{0, 1, -1, 32767, -32768}).n)
	add(given("int32", []int32{0, 1, -1, math.MaxInt32, math.MinInt32}).n)
	add(given("int64", []int64{0, 1, -1, math.MaxInt64, math.MinInt64}).n)
	add(given("uint", []uint{0, 1, 2, math.MaxUint}).n)
	add(given("uint8", []uint8{0, 1, 2, 255}).n)
	add(given("uint16", []uint16{0, 1, 65535}).n)
	add(given("uint32", []uint32{0, 1, math.MaxUint32}).n)
	add(given("uint64", []uint64{0, 1, math.MaxUint64, 1 << 63}).n)
	add(given("uintptr", []uintptr{0, 1, 1 << 40}).n)
	add(given("float32", []float32{0, float32(negZero()), 1.5, -2.5, float32(math.Inf(-1))}).n)
	type myStr string
	add(given("~string", []myStr{"", "a", "b", "aa"}).n)
	for _, g := range []*inst[box[int]]{givenFieldOf(bInt)} {
		add(g.n)
		derive(extra, g, false)
	}
	gs := givenFieldOf(bStr)
	add(gs.n)
	derive(extra, gs, false)
	gf := givenFieldOf(bFlt)
	add(gf.n)
	derive(extra, gf, false)

	ar = &arities{kInt: bInt, kStr: bStr, kFlt: bFlt, kOpt: optionOf(bStr), kPtr: ptrOf(bInt), kTim: bTime, kTu1: tuple1Of(bInt), hnil: hn}
	registerArities(extra, ar)
	// the library builds TupleN from TupleN-1 of the tail (and HCons^n from HCons^n-1), and the
	// blocks are typed so that the tail of block n is block n-1: a defect of one arity is
	// attributed to that arity, not to every larger one
	for k := 2; k <= 21; k++ {
		ar.tuple[k].kids = append(ar.tuple[k].kids, ar.tuple[k-1])
		ar.hcons[k].kids = append(ar.hcons[k].kids, ar.hcons[k-1])
	}
	return
}

func lawScenario(r *mc.Registry, name string, nodes []*node) {
	sc := r.Seq(name, func(x *mc.X) {
		n := nodes[x.Choose(len(nodes), "instance")]
		a := x.Choose(len(n.dom), "a")
		b := x.Choose(len(n.dom), "b")
		c := x.Choose(n.cSize, "c")
		x.Tag(n.name)
		var law, msg string
		if n.commonPrefix != nil && (n.commonPrefix(a, b) > liteFrom || n.commonPrefix(b, c) > liteFrom || n.commonPrefix(a, c) > liteFrom) {
			// thorough tier, operands sharing a prefix longer than liteFrom: one call of the
			// library's Compare costs about p*2^p steps, so only the pair (a,b) is decided, with
			// three calls, once (for the first third operand)
			if c != 0 || n.commonPrefix(a, b) <= liteFrom {
				x.Tag("arity: execution skipped (a pair of operands shares a prefix > 14; the pair itself is decided in another execution)")
				return
			}
			x.Tag("arity: reduced check (Less both ways + Compare) for operands sharing a prefix > 14")
			law, msg = n.lawLite(a, b)
		} else {
			law, msg = n.law(a, b, c)
		}
		x.Logf("ord.%s on a=%s b=%s c=%s: %s", n.name, n.show(n.dom[a]), n.show(n.dom[b]), n.show(n.dom[c]), orOK(law))
		if law != "" {
			cu := n.culprit()
			via := ""
			if cu != n {
				via = fmt.Sprintf(" (attributed to the component instance ord.%s, which violates %q on its own domain)", cu.name, cu.selfcheck())
			}
			x.Fail("ord."+cu.head+"/"+law, "%s%s", msg, via)
		}
		if n.commonPrefix != nil && n.commonPrefix(a, b) > liteFrom {
			x.Observe(n.name, "lite", a, b)
			x.NonTrivial()
			return
		}
		p := n.pattern(a, b, c)
		x.Observe(n.name, p)
		if a != b && b != c && a != c {
			x.NonTrivial()
		}
		if a != b && p[0] == '~' {
			x.Tag("pairs: equivalent under the order, different domain elements")
		}
		if p == "<<<" && a != b && b != c {
			x.Tag("triples: a<b<c (transitivity premise)")
		}
		if n.want != nil {
			if _, k := n.want(n.dom[a], n.dom[b]); k == exact {
				x.Tag("pairs: sign fixed by the structural demand (" + n.wantLaw + ")")
			}
		}
	})
	sc.SplitDepth = 2
}

// historyScenario: every call/write sequence of depth histDepth on one long-lived instance.
func historyScenario(r *mc.Registry, nodes []*node) (mutableNodes int) {
	for _, n := range nodes {
		n.histAlphabet()
		if n.mutable {
			mutableNodes++
		}
	}
	sc := r.Seq("history", func(x *mc.X) {
		n := nodes[x.Choose(len(nodes), "instance")]
		ops := n.histAlphabet()
		seq := make([]int, histDepth)
		writes, calls := 0, 0
		for d := range seq {
			seq[d] = x.Choose(len(ops), "step")
			if ops[seq[d]].kind == "mut" {
				writes++
			} else {
				calls++
			}
		}
		x.Tag("history: " + n.name)
		law, msg, trace := n.history(seq)
		for _, t := range trace {
			x.Logf("%s", t)
		}
		if law != "" {
			cu := n.histCulprit()
			via := ""
			if cu != n {
				via = fmt.Sprintf(" (attributed to the component instance ord.%s, which violates %q in the history family on its own)", cu.name, cu.histcheck())
			}
			x.Fail("ord."+cu.head+"/"+law, "%s%s", msg, via)
		}
		x.Observe(n.name, strings.Join(trace, ";"))
		if writes > 0 && calls > 0 {
			x.NonTrivial()
			x.Tag("history: sequences with a write into a referent between calls")
		}
	})
	sc.SplitDepth = 2
	return
}

func isDerived(n *node) bool {
	switch n.head {
	case "New", "FromCompare", "as.Ord", "Reversed", "ThenComparing":
		return true
	}
	return false
}

func orOK(s string) string {
	if s == "" {
		return "ok"
	}
	return "VIOLATES " + s
}

// ---------- Sort / Min / Max ----------

type el = fp.Tuple2[int, string]

type sortOrd struct {
	name string
	o    fp.Ord[el]
	cmp  func(a, b el) int // reference (native comparisons)
}

func keyCmp(a, b el) int { return sign(a.I1 - b.I1) }
func fullCmp(a, b el) int {
	if s := keyCmp(a, b); s != 0 {
		return s
	}
	return strings.Compare(a.I2, b.I2)
}

func sortOrds() []sortOrd {
	key := ord.GivenField(func(e el) int { return e.I1 })
	return []sortOrd{
		{"GivenField(key)", key, keyCmp},
		{"Reversed(GivenField(key))", key.Reversed(), func(a, b el) int { return -keyCmp(a, b) }},
		{"ThenComparing(GivenField(key),GivenField(payload))", key.ThenComparing(ord.GivenField(func(e el) string { return e.I2 })), fullCmp},
		{"Tuple2(Given[int],Given[string])", ord.Tuple2(ord.Given[int](), ord.Given[string]()), fullCmp},
		{"as.Ord(key<)", as.Ord(func(a, b el) bool { return a.I1 < b.I1 }), keyCmp},
	}
}

type container struct {
	pkg  string
	sort func(s fp.Seq[el], o fp.Ord[el]) fp.Seq[el]
	min  func(s fp.Seq[el], o fp.Ord[el]) fp.Option[el]
	max  func(s fp.Seq[el], o fp.Ord[el]) fp.Option[el]
}

func cp(s fp.Seq[el]) fp.Seq[el] { return append(fp.Seq[el]{}, s...) }

func containers() []container {
	return []container{
		{"seq",
			func(s fp.Seq[el], o fp.Ord[el]) fp.Seq[el] { return seq.Sort(cp(s), o) },
			func(s fp.Seq[el], o fp.Ord[el]) fp.Option[el] { return seq.Min(cp(s), o) },
			func(s fp.Seq[el], o fp.Ord[el]) fp.Option[el] { return seq.Max(cp(s), o) }},
		{"iterator",
			func(s fp.Seq[el], o fp.Ord[el]) fp.Seq[el] { return iterator.Sort(iterator.FromSeq(cp(s)), o) },
			func(s fp.Seq[el], o fp.Ord[el]) fp.Option[el] { return iterator.Min(iterator.FromSeq(cp(s)), o) },
			func(s fp.Seq[el], o fp.Ord[el]) fp.Option[el] { return iterator.Max(iterator.FromSeq(cp(s)), o) }},
		{"list",
			func(s fp.Seq[el], o fp.Ord[el]) fp.Seq[el] { return list.Sort(list.FromSeq(cp(s)), o) },
			func(s fp.Seq[el], o fp.Ord[el]) fp.Option[el] { return list.Min(list.FromSeq(cp(s)), o) },
			func(s fp.Seq[el], o fp.Ord[el]) fp.Option[el] { return list.Max(list.FromSeq(cp(s)), o) }},
		{"list(lazy)", // a lazily produced list (list.Collect over an iterator)
			func(s fp.Seq[el], o fp.Ord[el]) fp.Seq[el] {
				return list.Sort(list.Collect(iterator.FromSeq(cp(s))), o)
			},
			func(s fp.Seq[el], o fp.Ord[el]) fp.Option[el] {
				return list.Min(list.Collect(iterator.FromSeq(cp(s))), o)
			},
			func(s fp.Seq[el], o fp.Ord[el]) fp.Option[el] {
				return list.Max(list.Collect(iterator.FromSeq(cp(s))), o)
			}},
	}
}

func multiset(s []el) string {
	t := make([]string, len(s))
	for i, e := range s {
		t[i] = fmt.Sprintf("%d%s", e.I1, e.I2)
	}
	sort.Strings(t)
	return strings.Join(t, " ")
}

func showEls(s []el) string {
	t := make([]string, len(s))
	for i, e := range s {
		t[i] = fmt.Sprintf("%d%s", e.I1, e.I2)
	}
	return "[" + strings.Join(t, " ") + "]"
}

// checkSortCase runs one of Sort/Min/Max of one container on one input and judges the result.
func checkSortCase(x *mc.X, c container, o sortOrd, op string, in fp.Seq[el]) {
	x.Tag(c.pkg + "." + op + " with " + o.name)
	call := func(what string, f func()) {
		if p := mc.Catch(f); p != nil {
			x.Fail(c.pkg+"."+what+"/panic", "%s.%s(%s, %s) panicked: %v", c.pkg, what, showEls(in), o.name, p)
		}
	}
	var out fp.Seq[el]
	var mn, mx fp.Option[el]
	switch op {
	case "Sort":
		call("Sort", func() { out = c.sort(in, o.o) })
		x.Logf("%s.Sort(%s, %s) = %s", c.pkg, showEls(in), o.name, showEls(out))
		if multiset(out) != multiset(in) {
			x.Fail(c.pkg+".Sort/not-a-permutation", "%s.Sort(%s, %s) = %s is not a permutation of the input", c.pkg, showEls(in), o.name, showEls(out))
		}
		for i := 0; i+1 < len(out); i++ {
			if o.cmp(out[i], out[i+1]) > 0 {
				x.Fail(c.pkg+".Sort/not-ordered", "%s.Sort(%s, %s) = %s: element %d is greater than element %d", c.pkg, showEls(in), o.name, showEls(out), i, i+1)
			}
		}
	case "Min":
		call("Min", func() { mn = c.min(in, o.o) })
		x.Logf("%s.Min(%s, %s) = %v", c.pkg, showEls(in), o.name, mn)
	case "Max":
		call("Max", func() { mx = c.max(in, o.o) })
		x.Logf("%s.Max(%s, %s) = %v", c.pkg, showEls(in), o.name, mx)
	}
	checkExt := func(what string, got fp.Option[el], dir int) {
		if len(in) == 0 {
			if got.IsDefined() {
				x.Fail(c.pkg+"."+what+"/some-for-empty", "%s.%s of the empty input = %v, want None", c.pkg, what, got)
			}
			return
		}
		if got.IsEmpty() {
			x.Fail(c.pkg+"."+what+"/none-for-nonempty", "%s.%s(%s, %s) = None", c.pkg, what, showEls(in), o.name)
		}
		g, member := got.Get(), false
		for _, e := range in {
			if e == g {
				member = true
			}
			if dir*o.cmp(e, g) < 0 {
				x.Fail(c.pkg+"."+what+"/not-extremal", "%s.%s(%s, %s) = %v but %v is beyond it", c.pkg, what, showEls(in), o.name, g, e)
			}
		}
		if !member {
			x.Fail(c.pkg+"."+what+"/not-an-element", "%s.%s(%s, %s) = %v is not an element of the input", c.pkg, what, showEls(in), o.name, g)
		}
	}
	switch op {
	case "Min":
		checkExt("Min", mn, 1)
	case "Max":
		checkExt("Max", mx, -1)
	}
	x.Observe(op, o.name, showEls(out), mn, mx)
	inv, ties := false, false
	for i := range in {
		for j := i + 1; j < len(in); j++ {
			if o.cmp(in[i], in[j]) > 0 {
				inv = true
			}
			if o.cmp(in[i], in[j]) == 0 && in[i] != in[j] {
				ties = true
			}
		}
	}
	if inv {
		x.NonTrivial()
		x.Tag("sort: input has an inversion")
	}
	if ties {
		x.Tag("sort: input has distinguishable elements that tie under the Ord")
	}
}

// sortLongScenario: sorting and selection algorithms often switch strategy at 8/12/16/32/64
// elements, so every container x Ord x {Sort, Min, Max} is also run on ONE position-tagged input
// per length 0..maxLen: the keys are a fixed scrambled sequence with ties, the payload is the index.
func sortLongScenario(r *mc.Registry, maxLen int) {
	cs := containers()
	nOrds := len(sortOrds())
	sc := r.Seq("sort-long", func(x *mc.X) {
		c := cs[x.Choose(len(cs), "container")]
		o := sortOrds()[x.Choose(nOrds, "ord")]
		op := mc.Pick(x, "operation", []string{"Sort", "Min", "Max"})
		n := x.Choose(maxLen+1, "length")
		in := make(fp.Seq[el], n)
		for i := range in {
			in[i] = as.Tuple2((i*37+11)%17, fmt.Sprintf("#%d", i))
		}
		checkSortCase(x, c, o, op, in)
		x.Tag("sort-long: position-tagged input")
	})
	sc.SplitDepth = 3
}

func sortScenario(r *mc.Registry, maxLen int) {
	var alphabet []el
	for k := 0; k < 3; k++ {
		for _, p := range []string{"a", "b"} {
			alphabet = append(alphabet, as.Tuple2(k, p))
		}
	}
	cs := containers()
	nOrds := len(sortOrds())
	sc := r.Seq("sort", func(x *mc.X) {
		c := cs[x.Choose(len(cs), "container")]
		o := sortOrds()[x.Choose(nOrds, "ord")]                       // the Ord instances are constructed inside the execution
		op := mc.Pick(x, "operation", []string{"Sort", "Min", "Max"}) // one per execution: a defect in one cannot hide the others
		n := x.Choose(maxLen+1, "length")
		in := make(fp.Seq[el], n)
		for i := range in {
			in[i] = mc.Pick(x, "element", alphabet)
		}
		checkSortCase(x, c, o, op, in)
	})
	sc.SplitDepth = 5
}

func main() {
	mc.Main("C10", func(r *mc.Registry) {
		r.Rule = "sort-long: execution = (container, Ord, Sort|Min|Max, length n) with ONE position-tagged input per length 0..70 (thorough 300), same judgement as sort; sort-nilable: execution = (nilable element type with its Ord | Reversed, container, Sort|Min|Max, input sequence) for ALL sequences up to the length bound over 4 values one of which is nil/None (so nil occurs in every position and any number of times); judged by a second instance of the same Ord: Sort = permutation without descent, Min/Max = Some(element that nothing is below/above), a nil element comes back as Some(nil), None only for the empty input. history: execution = (Ord instance expression, sequence of histDepth steps) for EVERY sequence over the alphabet {Compare of each ordered pair of three operands, and for operands with a mutable referent a write of new contents in place (operands 0 and 2; contents y and a value z not between x and y, so one write can flip a pair)} on ONE long-lived constructed instance; each call must equal what a freshly constructed instance answers for the current values; all library instances are constructed anew inside every execution. grammar/arity: execution = (Ord instance expression, a, b, c) over the whole value domain of the instance's type (all triples; the arity blocks take c from 3 values and a, b from all values: base, alternative representation, all-different, and differs-at-position-k-only for every k <= 12 in the quick tier and every k in the thorough tier, where pairs sharing a prefix longer than 14 get a reduced check: Less both ways and Compare against the lexicographic demand); each execution calls Less, Eqv, Compare, LessEq, Min, Max of the library's instance and checks trichotomy, transitivity, consistency and the constructor's structural demand; non-trivial = three different domain elements; distinct outcome = (instance, order pattern of the triple). sort: execution = (container, Ord, Sort|Min|Max, input sequence) for ALL sequences up to the length bound over 3 keys x 2 payloads; Sort must return a permutation ordered by the reference comparison, Min/Max any least/greatest element or None for empty; non-trivial = the input has an inversion"
		r.Assumptions = []string{
			"NaN is excluded from the float domains",
			"which of None/Some and nil/non-nil sorts first is not fixed by the property: only that they differ, and the order laws, are demanded",
			"Eqv of an Ord is the equivalence of its order (ContraMap/GivenField/ThenComparing identify values with equal keys); a strict total order additionally needs Eqv transitive and Less compatible with Eqv, which is checked",
			"lexicographic = the first position where the library's own component instance sees a difference decides, a proper prefix is smaller; the component instances are verified as separate catalogue entries",
			"Sort is not required to be stable; for Min/Max any of several tied elements is accepted",
		}
		if r.Thorough() {
			maxDecide = 21
		}
		grammar, extra, ar := buildCatalogue()
		var tup, hc []*node
		quickAr := map[int]bool{1: true, 2: true, 3: true, 21: true}
		for k := 1; k <= 21; k++ {
			if r.Thorough() || quickAr[k] {
				tup = append(tup, ar.tuple[k])
				hc = append(hc, ar.hcons[k])
			}
		}
		grammarNodes := append(append([]*node{}, grammar.nodes...), extra.nodes...)
		arityNodes := append(append([]*node{}, tup...), hc...)
		lawScenario(r, "grammar", grammarNodes)
		lawScenario(r, "arity", arityNodes)
		maxLen := 5
		if r.Thorough() {
			maxLen = 6
		}
		sortScenario(r, maxLen)
		nilLen := 4
		if r.Thorough() {
			nilLen = 6
		}
		nilCasesN := nilableScenario(r, nilLen)
		longLen := 70
		if r.Thorough() {
			longLen = 300
		}
		sortLongScenario(r, longLen)
		if r.Thorough() {
			histDepth = 4
		}
		// history family: the grammar instances (derived instances of the depth-0 and depth-1
		// expressions included) and the arity blocks
		var histNodes []*node
		for _, n := range append(append([]*node{}, grammarNodes...), arityNodes...) {
			if n.hv == nil || n.mkO == nil {
				continue
			}
			// quick tier: the derived instances (New, Reversed, ...) of the depth-2 expressions
			// are left to the thorough tier
			if !r.Thorough() && isDerived(n) && n.depth > 2 {
				continue
			}
			histNodes = append(histNodes, n)
		}
		mutableNodes := historyScenario(r, histNodes)

		heads := map[string]int{}
		for _, n := range append(append([]*node{}, grammarNodes...), arityNodes...) {
			h := n.head
			if strings.HasPrefix(h, "Tuple") && n.depth == 2 && len(n.kids) > 2 {
				h = "TupleN (arity blocks)"
			} else if strings.HasPrefix(h, "HCons^") {
				h = "HCons^n (chain blocks)"
			}
			heads[h]++
		}
		r.Extra["bounds"] = map[string]any{
			"instance_expressions":                     len(grammarNodes) + len(arityNodes),
			"nesting_depth":                            2,
			"history_depth":                            histDepth,
			"history_instances":                        len(histNodes),
			"history_instances_with_mutable_referents": mutableNodes,
			"domain_cap_per_type":                      domCap,
			"domain_cap_sequence_types":                domCap + 2,
			"sequence_domains":                         "nil, empty, views base[:2], base, base[:1] (same start) and base[1:] of one array, an independent copy of base[:2], three independent values",
			"tuple_arities":                            len(tup),
			"arity_deciding_positions":                 maxDecide,
			"hcons_chain_lengths":                      len(hc),
			"instances_per_head_constructor":           heads,
			"sort_max_length":                          maxLen,
			"sort_alphabet":                            "keys {0,1,2} x payloads {a,b}",
			"sort_containers":                          []string{"seq", "iterator", "list (list.FromSeq)", "list (lazy, list.Collect)"},
			"sort_ords":                                5,
			"sort_nilable_cases":                       nilCasesN,
			"sort_nilable_max_length":                  nilLen,
			"sort_nilable_element_types":               "*int (nil, &1, &2, a second &1), []int and fp.Seq[int] (nil, empty / tight values), fp.Option[int] (None), **int (nil, pointer to nil); each with its Ord and the Reversed one",
		}
		r.Extra["uncovered"] = []string{
			"NaN (excluded)",
			"nesting depth 2 over base types other than float64 (depth 1 covers int, string, float64, time.Time); nesting depth 3 and beyond",
			"ord.Ptr on recursive types (the lazy.Eval argument is exercised with lazy.Call, not with a cyclic instance)",
			"Sort/Min/Max with an unlawful Ord (nothing is promised for it)",
			"whether Sort leaves its input unchanged (property C04)",
			"sequences longer than the length bound",
			"quick tier only: operands of TupleN/HCons^n whose first difference is at a position > 12 (the library's Compare needs about p*2^p steps for a common prefix of length p; see FINDINGS.md, observation O1); the thorough tier decides every position",
			"triples (rather than pairs plus 3 third operands) for the arity blocks, and the full law set (LessEq, Min, Max, transitivity) for tuple operands that share a prefix longer than 14, for the same reason",
		}
	})
}
