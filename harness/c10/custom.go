package main

import (
	"fmt"
	"strings"
	"time"
	"unicode"

	"github.com/csgura/fp"
	"github.com/csgura/fp/ord"
)

// Component Ord instances that deliberately differ from the default order of their type (coarser:
// several values tie; or a different order altogether), at element types for which a library
// could special-case (byte/uint8, rune, string, time.Time, int). Every combinator is applied to
// each and checked against the lexicographic / component order built from the SUPPLIED component,
// so a type-specialised shortcut that ignores the component it was given is seen.

func customOrd[T comparable](name string, dom []T, mk func() fp.Ord[T], cmp func(a, b T) int, show func(T) string) *inst[T] {
	same := func(a, b any) bool { return a.(T) == b.(T) }
	equiv := func(a, b any) bool { return cmp(a.(T), b.(T)) == 0 }
	n := newNode(name, anys(dom), same, equiv, func(v any) string { return show(v.(T)) })
	n.want = func(a, b any) (int, int) { return sign(cmp(a.(T), b.(T))), exact }
	n.wantLaw = "supplied-order"
	n.hv = n.baseHV()
	return finish(n, mk)
}

func registerCustom(c *catalogue, thorough bool) {
	deriveOn = thorough
	defer func() { deriveOn = true }()
	// byte: ordered by b/4 (0..3 tie)
	q := func(b byte) byte { return b / 4 }
	expand1(c, customOrd("Coarse[byte / 4]", []byte{0, 3, 4, 7, 8, 255},
		func() fp.Ord[byte] { return ord.ContraMap(ord.Given[byte](), q) },
		func(a, b byte) int { return int(q(a)) - int(q(b)) }, func(b byte) string { return fmt.Sprint(b) }), false)
	// rune: ignoring case
	expand1(c, customOrd("Coarse[rune ignoring case]", []rune{'a', 'A', 'b', 'B', '1'},
		func() fp.Ord[rune] { return ord.ContraMap(ord.Given[rune](), unicode.ToLower) },
		func(a, b rune) int { return int(unicode.ToLower(a)) - int(unicode.ToLower(b)) }, func(r rune) string { return fmt.Sprintf("%q", r) }), false)
	// string: ignoring case
	expand1(c, customOrd("Coarse[string ignoring case]", []string{"a", "A", "b", "B", "ab", ""},
		func() fp.Ord[string] { return ord.ContraMap(ord.Given[string](), strings.ToLower) },
		func(a, b string) int { return strings.Compare(strings.ToLower(a), strings.ToLower(b)) }, func(s string) string { return fmt.Sprintf("%q", s) }), false)
	// int: the REVERSED native order, built with FromCompare
	expand1(c, customOrd("Custom[int descending]", []int{0, 1, 2, -1, 5},
		func() fp.Ord[int] { return ord.FromCompare(func(a, b int) int { return sign(b - a) }) },
		func(a, b int) int { return sign(b - a) }, func(i int) string { return fmt.Sprint(i) }), false)
	// time.Time: to the second
	t0 := time.Date(2024, 2, 29, 12, 0, 0, 5, time.UTC)
	unix := func(t time.Time) int64 { return t.Unix() }
	expand1(c, customOrd("Coarse[time.Time to the second]", []time.Time{t0, t0.Add(7 * time.Nanosecond), t0.Add(time.Second), t0.Add(-time.Hour), t0.Add(time.Second + 1)},
		func() fp.Ord[time.Time] { return ord.ContraMap(ord.Given[int64](), unix) },
		func(a, b time.Time) int { return sign(int(a.Unix() - b.Unix())) }, func(t time.Time) string { return t.Format(time.RFC3339Nano) }), false)
}
