package main

import (
	"fmt"
	"strings"
)

// The history-independence family. ONE constructed Ord instance is kept alive over a sequence of
// Compare calls interleaved with steps that write new contents into the referent of an operand
// IN PLACE (same address: *p = v, s[0] = v). Every call's result must be what a freshly
// constructed instance answers for the current values of the arguments: the order is a function
// of the current values, not of the call history or of addresses. Every sequence of the given
// depth over the alphabet is run.

type histOp struct {
	kind string // "cmp", "mut"
	i, j int    // operand indices (mut: j = which contents)
}

func (n *node) doMut(v any, pick int) bool {
	if n.mut == nil {
		return false
	}
	return n.mut(v, pick)
}

// histAlphabet is fixed per node at registration: Compare of each ordered pair of the three
// operands, and — if an operand has a mutable referent — writes of two different contents (the
// third operand's value y, and a value z that is not between x and y, so that a single write can
// flip the order of a pair) into operands 0 and 2.
func (n *node) histAlphabet() []histOp {
	if n.histOps != nil {
		return n.histOps
	}
	var ops []histOp
	for i := 0; i < 3; i++ {
		for j := 0; j < 3; j++ {
			if i != j {
				ops = append(ops, histOp{"cmp", i, j})
			}
		}
	}
	vals := n.hv()[:3] // a throw-away set of operands to see which can be written
	for _, i := range []int{0, 2} {
		if n.doMut(vals[i], 0) {
			n.mutable = true
			ops = append(ops, histOp{"mut", i, 0}, histOp{"mut", i, 1})
		}
	}
	n.histOps = ops
	return ops
}

// freshO constructs the instance of n anew (with all its components).
func (n *node) freshO() *ordf { return n.mkO() }

// history runs one sequence; "" = holds.
func (n *node) history(seq []int) (law, msg string, trace []string) {
	ops := n.histAlphabet()
	vals := n.hv()[:3] // hv()[3] is only used as contents for writes
	long := n.freshO() // the long-lived instance
	name := []string{"a", "b", "c"}
	defer func() {
		if r := recover(); r != nil {
			law, msg = "panic", fmt.Sprintf("ord.%s panicked in the call sequence [%s]: %v", n.name, strings.Join(trace, "; "), r)
		}
	}()
	for _, k := range seq {
		op := ops[k]
		switch op.kind {
		case "cmp":
			a, b := vals[op.i], vals[op.j]
			got, want := sign(long.compare(a, b)), sign(n.freshO().compare(a, b))
			lgot, lwant := long.less(a, b), n.freshO().less(a, b)
			trace = append(trace, fmt.Sprintf("Compare(%s=%s,%s=%s)=%d", name[op.i], n.show(a), name[op.j], n.show(b), got))
			if got != want || lgot != lwant {
				return "order-depends-on-history", fmt.Sprintf("ord.%s: Compare(%s,%s)=%d, Less=%v on the long-lived instance; a freshly constructed instance gives %d, %v for the same values %s, %s — call sequence on one instance: %s",
					n.name, name[op.i], name[op.j], got, lgot, want, lwant, n.show(a), n.show(b), strings.Join(trace, "; ")), trace
			}
		case "mut":
			before := n.show(vals[op.i])
			n.doMut(vals[op.i], op.j)
			trace = append(trace, fmt.Sprintf("write into the referent of %s: %s becomes %s", name[op.i], before, n.show(vals[op.i])))
		}
	}
	return "", "", trace
}

// histcheck: first law the instance violates in the history family on its own ("" if none);
// used to attribute a failure of a composite instance to its component.
func (n *node) histcheck() string {
	if n.histKnown {
		return n.histMemo
	}
	res := ""
	if n.hv != nil && n.mkO != nil {
		nops := len(n.histAlphabet())
		seq := make([]int, histDepth)
		var rec func(d int) bool
		rec = func(d int) bool {
			if d == histDepth {
				if l, _, _ := n.history(seq); l != "" {
					res = l
					return true
				}
				return false
			}
			for k := 0; k < nops; k++ {
				seq[d] = k
				if rec(d + 1) {
					return true
				}
			}
			return false
		}
		rec(0)
	}
	n.histKnown, n.histMemo = true, res
	return res
}

func (n *node) histCulprit() *node {
	for _, k := range n.kids {
		if k.histcheck() != "" {
			return k.histCulprit()
		}
	}
	return n
}

var histDepth = 3
