package main

import (
	"fmt"
	"sort"
	"strings"

	"github.com/csgura/fp"
	"github.com/csgura/fp/iterator"
	"github.com/csgura/fp/lazy"
	"github.com/csgura/fp/list"
	"github.com/csgura/fp/ord"
	"github.com/csgura/fp/seq"
	"verif/mc"
)

// Sort / Min / Max over NILABLE element types (pointers, slices) and Option, with nil / None among
// the elements in every position: a nil element is a legitimate least (or greatest) element and
// must come back as Some(nil); Min/Max are None only for the empty input.
//
// The judge is a separately constructed instance of the same Ord expression (each expression is
// verified to be a strict total order in the grammar part; where nil sorts is the instance's
// business): Sort must return a permutation with no descent under it, Min/Max an element of the
// input that no element is below/above.

type nilOrd[E any] struct {
	name string
	mk   func() fp.Ord[E]
}

type nilFamily[E any] struct {
	name     string
	alphabet func() []E // built fresh in every execution
	ords     []nilOrd[E]
	key      func(E) string // rendering by contents (nil is rendered as nil)
}

type nilContainer[E any] struct {
	pkg  string
	sort func(s fp.Seq[E], o fp.Ord[E]) fp.Seq[E]
	min  func(s fp.Seq[E], o fp.Ord[E]) fp.Option[E]
	max  func(s fp.Seq[E], o fp.Ord[E]) fp.Option[E]
}

func nilContainers[E any]() []nilContainer[E] {
	c := func(s fp.Seq[E]) fp.Seq[E] { return append(fp.Seq[E]{}, s...) }
	return []nilContainer[E]{
		{"seq",
			func(s fp.Seq[E], o fp.Ord[E]) fp.Seq[E] { return seq.Sort(c(s), o) },
			func(s fp.Seq[E], o fp.Ord[E]) fp.Option[E] { return seq.Min(c(s), o) },
			func(s fp.Seq[E], o fp.Ord[E]) fp.Option[E] { return seq.Max(c(s), o) }},
		{"iterator",
			func(s fp.Seq[E], o fp.Ord[E]) fp.Seq[E] { return iterator.Sort(iterator.FromSeq(c(s)), o) },
			func(s fp.Seq[E], o fp.Ord[E]) fp.Option[E] { return iterator.Min(iterator.FromSeq(c(s)), o) },
			func(s fp.Seq[E], o fp.Ord[E]) fp.Option[E] { return iterator.Max(iterator.FromSeq(c(s)), o) }},
		{"list",
			func(s fp.Seq[E], o fp.Ord[E]) fp.Seq[E] { return list.Sort(list.FromSeq(c(s)), o) },
			func(s fp.Seq[E], o fp.Ord[E]) fp.Option[E] { return list.Min(list.FromSeq(c(s)), o) },
			func(s fp.Seq[E], o fp.Ord[E]) fp.Option[E] { return list.Max(list.FromSeq(c(s)), o) }},
		{"list(lazy)",
			func(s fp.Seq[E], o fp.Ord[E]) fp.Seq[E] { return list.Sort(list.Collect(iterator.FromSeq(c(s))), o) },
			func(s fp.Seq[E], o fp.Ord[E]) fp.Option[E] { return list.Min(list.Collect(iterator.FromSeq(c(s))), o) },
			func(s fp.Seq[E], o fp.Ord[E]) fp.Option[E] { return list.Max(list.Collect(iterator.FromSeq(c(s))), o) }},
	}
}

// nilCase is one (family, Ord) pair with its type erased.
type nilCase struct {
	name string
	run  func(x *mc.X, maxLen int)
}

func nilCases[E any](f nilFamily[E]) []nilCase {
	var out []nilCase
	cs := nilContainers[E]()
	for _, no := range f.ords {
		no := no
		out = append(out, nilCase{f.name + " with " + no.name, func(x *mc.X, maxLen int) {
			c := cs[x.Choose(len(cs), "container")]
			op := mc.Pick(x, "operation", []string{"Sort", "Min", "Max"})
			n := x.Choose(maxLen+1, "length")
			alphabet := f.alphabet()
			in := make(fp.Seq[E], n)
			hasNil := false
			for i := range in {
				k := x.Choose(len(alphabet), "element")
				in[i] = alphabet[k]
				if k == 0 {
					hasNil = true
				}
			}
			o, judge := no.mk(), no.mk() // constructed inside the execution; the judge is a second instance
			show := func(s []E) string {
				t := make([]string, len(s))
				for i, e := range s {
					t[i] = f.key(e)
				}
				return "[" + strings.Join(t, " ") + "]"
			}
			multiset := func(s []E) string {
				t := make([]string, len(s))
				for i, e := range s {
					t[i] = f.key(e)
				}
				sort.Strings(t)
				return strings.Join(t, " ")
			}
			what := c.pkg + "." + op
			x.Tag(what + " over " + f.name + " with " + no.name)
			var out fp.Seq[E]
			var ext fp.Option[E]
			if p := mc.Catch(func() {
				switch op {
				case "Sort":
					out = c.sort(in, o)
				case "Min":
					ext = c.min(in, o)
				case "Max":
					ext = c.max(in, o)
				}
			}); p != nil {
				x.Fail(what+"/panic", "%s(%s, %s) panicked: %v", what, show(in), no.name, p)
			}
			switch op {
			case "Sort":
				x.Logf("%s(%s, %s) = %s", what, show(in), no.name, show(out))
				if multiset(out) != multiset(in) {
					x.Fail(what+"/not-a-permutation", "%s(%s, %s) = %s is not a permutation of the input", what, show(in), no.name, show(out))
				}
				for i := 0; i+1 < len(out); i++ {
					if judge.Less(out[i+1], out[i]) {
						x.Fail(what+"/not-ordered", "%s(%s, %s) = %s: element %d is greater than element %d", what, show(in), no.name, show(out), i, i+1)
					}
				}
				x.Observe(what, no.name, show(out))
			default:
				shown := "None"
				if ext.IsDefined() {
					shown = "Some(" + f.key(ext.Get()) + ")"
				}
				x.Logf("%s(%s, %s) = %s", what, show(in), no.name, shown)
				if len(in) == 0 {
					if ext.IsDefined() {
						x.Fail(what+"/some-for-empty", "%s of the empty input = %s, want None", what, shown)
					}
				} else {
					if ext.IsEmpty() {
						x.Fail(what+"/none-for-nonempty", "%s(%s, %s) = None for a non-empty input (a nil element is a legitimate result: Some(nil))", what, show(in), no.name)
					}
					g, member := ext.Get(), false
					for _, e := range in {
						if f.key(e) == f.key(g) {
							member = true
						}
						if (op == "Min" && judge.Less(e, g)) || (op == "Max" && judge.Less(g, e)) {
							x.Fail(what+"/not-extremal", "%s(%s, %s) = %s but the element %s is beyond it", what, show(in), no.name, shown, f.key(e))
						}
					}
					if !member {
						x.Fail(what+"/not-an-element", "%s(%s, %s) = %s is not an element of the input", what, show(in), no.name, shown)
					}
				}
				x.Observe(what, no.name, shown)
			}
			if hasNil && n >= 2 {
				x.NonTrivial()
				x.Tag("nilable: input of length >= 2 with a nil/None element")
			}
		}})
	}
	return out
}

func ptrKey(p *int) string {
	if p == nil {
		return "nil"
	}
	return fmt.Sprintf("&%d", *p)
}

func sliceKey(s []int) string {
	if s == nil {
		return "nil"
	}
	return fmt.Sprint(s)
}

func intPtr(v int) *int { return &v }

func nilableScenario(r *mc.Registry, maxLen int) int {
	gi := ord.Given[int]
	ptrOrd := func() fp.Ord[*int] { return ord.Ptr(lazy.Call(gi)) }
	sliceOrd := func() fp.Ord[[]int] { return ord.Slice(gi()) }
	seqOrd := func() fp.Ord[fp.Seq[int]] { return ord.Seq(gi()) }
	optOrd := func() fp.Ord[fp.Option[int]] { return ord.Option(gi()) }
	pp := func() fp.Ord[**int] { return ord.Ptr(lazy.Call(ptrOrd)) }
	var cases []nilCase
	cases = append(cases, nilCases(nilFamily[*int]{"*int",
		func() []*int { return []*int{nil, intPtr(1), intPtr(2), intPtr(1)} },
		[]nilOrd[*int]{
			{"Ptr(Given[int])", ptrOrd},
			{"Reversed(Ptr(Given[int]))", func() fp.Ord[*int] { return ptrOrd().Reversed() }},
			{"FromCompare(Ptr(Given[int]))", func() fp.Ord[*int] { return ord.FromCompare(ptrOrd().Compare) }},
		}, ptrKey})...)
	cases = append(cases, nilCases(nilFamily[[]int]{"[]int",
		func() [][]int { return [][]int{nil, {}, {1}, {1, 2}} },
		[]nilOrd[[]int]{
			{"Slice(Given[int])", sliceOrd},
			{"Reversed(Slice(Given[int]))", func() fp.Ord[[]int] { return sliceOrd().Reversed() }},
		}, sliceKey})...)
	cases = append(cases, nilCases(nilFamily[fp.Seq[int]]{"fp.Seq[int]",
		func() []fp.Seq[int] { return []fp.Seq[int]{nil, {2}, {1}, {1, 2}} },
		[]nilOrd[fp.Seq[int]]{
			{"Seq(Given[int])", seqOrd},
			{"Reversed(Seq(Given[int]))", func() fp.Ord[fp.Seq[int]] { return seqOrd().Reversed() }},
		}, func(s fp.Seq[int]) string { return sliceKey(s) }})...)
	cases = append(cases, nilCases(nilFamily[fp.Option[int]]{"fp.Option[int]",
		func() []fp.Option[int] { return []fp.Option[int]{fp.None[int](), fp.Some(1), fp.Some(2), fp.Some(0)} },
		[]nilOrd[fp.Option[int]]{
			{"Option(Given[int])", optOrd},
			{"Reversed(Option(Given[int]))", func() fp.Ord[fp.Option[int]] { return optOrd().Reversed() }},
		}, func(o fp.Option[int]) string { return o.String() }})...)
	cases = append(cases, nilCases(nilFamily[**int]{"**int",
		func() []**int {
			var np *int
			a, b := intPtr(1), intPtr(2)
			return []**int{nil, &np, &a, &b}
		},
		[]nilOrd[**int]{
			{"Ptr(Ptr(Given[int]))", pp},
			{"Reversed(Ptr(Ptr(Given[int])))", func() fp.Ord[**int] { return pp().Reversed() }},
		}, func(p **int) string {
			if p == nil {
				return "nil"
			}
			return "&" + ptrKey(*p)
		}})...)
	sc := r.Seq("sort-nilable", func(x *mc.X) {
		c := cases[x.Choose(len(cases), "case")]
		c.run(x, maxLen)
	})
	sc.SplitDepth = 4
	return len(cases)
}
