package main

import (
	"fmt"
	"math"
	"strings"
	"time"

	"github.com/csgura/fp"
	"github.com/csgura/fp/as"
	"github.com/csgura/fp/hlist"
	"github.com/csgura/fp/lazy"
	"github.com/csgura/fp/ord"
)

// ordf is an fp.Ord[T] with the type erased (all seven observable methods).
type ordf struct {
	less, lesseq, eqv func(a, b any) bool
	compare           func(a, b any) int
	min, max          func(a, b any) any
}

func erase[T any](o fp.Ord[T]) *ordf {
	return &ordf{
		less:    func(a, b any) bool { return o.Less(a.(T), b.(T)) },
		lesseq:  func(a, b any) bool { return o.LessEq(a.(T), b.(T)) },
		eqv:     func(a, b any) bool { return o.Eqv(a.(T), b.(T)) },
		compare: func(a, b any) int { return o.Compare(a.(T), b.(T)) },
		min:     func(a, b any) any { return o.Min(a.(T), b.(T)) },
		max:     func(a, b any) any { return o.Max(a.(T), b.(T)) },
	}
}

// what the structure of an instance demands of sign(Compare(a,b))
const (
	free    = 0 // nothing beyond the order laws (e.g. where None sorts relative to Some)
	exact   = 1 // the sign is determined
	nonzero = 2 // the operands are different values: the sign must not be 0
)

// node is one Ord instance expression with its type erased. Only the thin typed shell inst[T]
// is generic; the oracle is ordinary code (see harness/c09/inst.go for why).
type node struct {
	name  string
	head  string // the constructor a defect is attributed to
	depth int
	kids  []*node
	dom   []any
	cSize int

	o   *ordf
	mkO func() *ordf // constructs the library's instance anew (nil for the harness's own byShow)
	// history family: three freshly built operands, and a write into the referent of a value in
	// place (same address, contents chosen by pick); see hist.go
	hv        func() []any
	mut       func(v any, pick int) bool
	histOps   []histOp
	mutable   bool
	histMemo  string
	histKnown bool
	// want is the structural demand on sign(Compare(a,b)): native order for Given/Time,
	// lexicographic over the component instances for Seq/Slice/Tuple/HCons, the component's
	// answer for Some/Some, non-nil/non-nil and ContraMap, the flipped sign for Reversed, the
	// tie-break composition for ThenComparing. wantLaw names it in the violation key.
	want     func(a, b any) (sign int, kind int)
	wantLaw  string
	same     func(a, b any) bool // structural identity of values (to recognise Min/Max results)
	equiv    func(a, b any) bool // reference equivalence: same value as far as the order may see
	show     func(a any) string
	x, xa, y any
	rest     []any

	// commonPrefix (arity blocks only): length of the common prefix of two domain values; the
	// library's Compare is exponential in it, so the attribution self-check skips long ones
	commonPrefix func(a, b int) int

	memo  string
	known bool
}

// inst is the typed shell: a FACTORY of the library's instance, so that every construction of an
// enclosing instance constructs its components anew.
type inst[T any] struct {
	n  *node
	mk func() fp.Ord[T]
}

// val wraps an instance that is a package variable of the library (there is only one).
func val[T any](o fp.Ord[T]) func() fp.Ord[T] { return func() fp.Ord[T] { return o } }

func sign(c int) int {
	switch {
	case c < 0:
		return -1
	case c > 0:
		return 1
	}
	return 0
}

func newNode(head string, dom []any, same, equiv func(a, b any) bool, show func(any) string, kids ...*node) *node {
	names := make([]string, len(kids))
	depth := 0
	for j, k := range kids {
		names[j] = k.name
		if k.depth+1 > depth {
			depth = k.depth + 1
		}
	}
	name := head
	if len(kids) > 0 {
		name = head + "(" + strings.Join(names, ",") + ")"
	}
	lim := domCap
	if head == "Seq" || head == "Slice" {
		lim = domCap + 2 // the aliasing views
	}
	if len(dom) > lim {
		dom = dom[:lim]
	}
	n := &node{name: name, head: head, depth: depth, kids: kids, dom: dom, cSize: len(dom), same: same, equiv: equiv, show: show}
	n.pickRepresentatives()
	return n
}

func finish[T any](n *node, mk func() fp.Ord[T]) *inst[T] {
	n.mkO = func() *ordf { return erase(mk()) }
	n.o = n.mkO()
	return &inst[T]{n, mk}
}

// baseHV: the history operands of an immutable base type: x, xa, y and a fourth value z used as
// the contents written into referents; z is chosen (by the native reference order) so that it is
// not between x and y: writing it over x or over y then flips the order of the pair.
func (n *node) baseHV() func() []any {
	z := n.y
	if n.want != nil {
		sxy, _ := n.want(n.x, n.y)
		for _, r := range n.rest {
			sxr, _ := n.want(n.x, r)
			sry, _ := n.want(r, n.y)
			if sxr != 0 && sry != 0 && (sxr != sxy || sry != sxy) {
				z = r
				break
			}
		}
	}
	return func() []any { return []any{n.x, n.xa, n.y, z} }
}

// refresh constructs the instance of n and of every component anew. The law family does it at the
// start of every execution: no instance outlives an execution (an instance that carried hidden
// state would otherwise make replays diverge); the structural demands (want) read the components'
// current instances.
func (n *node) refresh() {
	for _, k := range n.kids {
		k.refresh()
	}
	if n.mkO != nil {
		n.o = n.mkO()
	}
}

// pickRepresentatives chooses x, xa (same value as x in a different representation if the
// domain has such a pair), y (a different value) and the remaining values.
func (n *node) pickRepresentatives() {
	d := n.dom
	p, q := 0, -1
outer:
	for a := 0; a < len(d); a++ {
		for b := a + 1; b < len(d); b++ {
			if n.equiv(d[a], d[b]) {
				p, q = a, b
				break outer
			}
		}
	}
	n.x, n.xa, n.y = d[p], d[p], d[p]
	if q >= 0 {
		n.xa = d[q]
	}
	yi := -1
	for k, v := range d {
		if !n.equiv(d[p], v) {
			n.y, yi = v, k
			break
		}
	}
	n.rest = nil
	for k, v := range d {
		if k != p && k != q && k != yi {
			n.rest = append(n.rest, v)
		}
	}
}

func (n *node) elems() []any { return append([]any{n.x, n.xa, n.y}, n.rest...) }

func (n *node) at(k int) any {
	switch k {
	case 0:
		return n.x
	case 1:
		return n.xa
	}
	return n.y
}

// law is the whole oracle for one triple; "" = holds.
func (n *node) law(ia, ib, ic int) (law, msg string) {
	a, b, c := n.dom[ia], n.dom[ib], n.dom[ic]
	n.refresh() // instances constructed for this execution
	o := n.o
	sa, sb, sc := n.show(a), n.show(b), n.show(c)
	defer func() {
		if r := recover(); r != nil {
			law, msg = "panic", fmt.Sprintf("ord.%s panicked on a=%s b=%s c=%s: %v", n.name, sa, sb, sc, r)
		}
	}()
	lab, lba, eab := o.less(a, b), o.less(b, a), o.eqv(a, b)
	cnt := 0
	for _, v := range []bool{lab, lba, eab} {
		if v {
			cnt++
		}
	}
	if cnt != 1 {
		return "trichotomy", fmt.Sprintf("ord.%s: Less(a,b)=%v Less(b,a)=%v Eqv(a,b)=%v (exactly one must hold) for a=%s b=%s", n.name, lab, lba, eab, sa, sb)
	}
	lbc, lac, ebc, eac := o.less(b, c), o.less(a, c), o.eqv(b, c), o.eqv(a, c)
	switch {
	case lab && lbc && !lac:
		return "transitive", fmt.Sprintf("ord.%s: Less(a,b) and Less(b,c) but not Less(a,c) for a=%s b=%s c=%s", n.name, sa, sb, sc)
	case eab && ebc && !eac:
		return "eqv-transitive", fmt.Sprintf("ord.%s: Eqv(a,b) and Eqv(b,c) but not Eqv(a,c) for a=%s b=%s c=%s", n.name, sa, sb, sc)
	case lab && ebc && !lac:
		return "eqv-congruent", fmt.Sprintf("ord.%s: Less(a,b) and Eqv(b,c) but not Less(a,c) for a=%s b=%s c=%s", n.name, sa, sb, sc)
	case eab && lbc && !lac:
		return "eqv-congruent", fmt.Sprintf("ord.%s: Eqv(a,b) and Less(b,c) but not Less(a,c) for a=%s b=%s c=%s", n.name, sa, sb, sc)
	}
	wantSign := 0
	if lab {
		wantSign = -1
	} else if lba {
		wantSign = 1
	}
	if got := o.compare(a, b); sign(got) != wantSign {
		return "compare-consistent", fmt.Sprintf("ord.%s: Compare(a,b)=%d but Less(a,b)=%v Less(b,a)=%v Eqv(a,b)=%v for a=%s b=%s", n.name, got, lab, lba, eab, sa, sb)
	}
	if got := o.lesseq(a, b); got != (lab || eab) {
		return "lesseq-consistent", fmt.Sprintf("ord.%s: LessEq(a,b)=%v but Less(a,b)=%v Eqv(a,b)=%v for a=%s b=%s", n.name, got, lab, eab, sa, sb)
	}
	mn, mx := o.min(a, b), o.max(a, b)
	if !(n.same(mn, a) || n.same(mn, b)) || o.less(a, mn) || o.less(b, mn) {
		return "min-consistent", fmt.Sprintf("ord.%s: Min(a,b)=%s is not a least element of a=%s b=%s", n.name, n.show(mn), sa, sb)
	}
	if !(n.same(mx, a) || n.same(mx, b)) || o.less(mx, a) || o.less(mx, b) {
		return "max-consistent", fmt.Sprintf("ord.%s: Max(a,b)=%s is not a greatest element of a=%s b=%s", n.name, n.show(mx), sa, sb)
	}
	if n.want != nil {
		ws, kind := n.want(a, b)
		switch {
		case kind == exact && ws != wantSign:
			return n.wantLaw, fmt.Sprintf("ord.%s: a %s b but the %s demands a %s b, for a=%s b=%s", n.name, rel(wantSign), wantDesc[n.wantLaw], rel(ws), sa, sb)
		case kind == nonzero && wantSign == 0:
			return n.wantLaw, fmt.Sprintf("ord.%s: Eqv(a,b) for different values a=%s b=%s", n.name, sa, sb)
		}
	}
	return "", ""
}

// lawLite decides one pair with three calls: exactly one of Less(a,b), Less(b,a) or neither,
// Compare agrees, and the sign is the one the structure demands.
func (n *node) lawLite(ia, ib int) (law, msg string) {
	a, b := n.dom[ia], n.dom[ib]
	n.refresh()
	sa, sb := n.show(a), n.show(b)
	defer func() {
		if r := recover(); r != nil {
			law, msg = "panic", fmt.Sprintf("ord.%s panicked on a=%s b=%s: %v", n.name, sa, sb, r)
		}
	}()
	lab, lba, cmp := n.o.less(a, b), n.o.less(b, a), sign(n.o.compare(a, b))
	if lab && lba {
		return "trichotomy", fmt.Sprintf("ord.%s: Less(a,b) and Less(b,a) for a=%s b=%s", n.name, sa, sb)
	}
	got := 0
	if lab {
		got = -1
	} else if lba {
		got = 1
	}
	if cmp != got {
		return "compare-consistent", fmt.Sprintf("ord.%s: Compare(a,b)=%d but Less(a,b)=%v Less(b,a)=%v for a=%s b=%s", n.name, cmp, lab, lba, sa, sb)
	}
	if ws, kind := n.want(a, b); kind == exact && ws != got {
		return n.wantLaw, fmt.Sprintf("ord.%s: a %s b but the %s demands a %s b, for a=%s b=%s", n.name, rel(got), wantDesc[n.wantLaw], rel(ws), sa, sb)
	}
	return "", ""
}

var wantDesc = map[string]string{
	"native-order":    "native order of the underlying values",
	"supplied-order":  "order of the component instance that was supplied",
	"lexicographic":   "lexicographic order over the component instances",
	"component-order": "order of the component instance",
	"flips":           "reversed order of the source instance",
	"tie-break":       "order of the first instance, ties broken by the second,",
	"same-as-source":  "order of the instance it was built from",
}

func rel(s int) string { return [...]string{"<", "~", ">"}[s+1] }

// pattern: the order pattern of the triple as the library answers it (outcome census)
func (n *node) pattern(a, b, c int) string {
	o := n.o
	return rel(sign(o.compare(n.dom[a], n.dom[b]))) + rel(sign(o.compare(n.dom[b], n.dom[c]))) + rel(sign(o.compare(n.dom[a], n.dom[c])))
}

func (n *node) selfcheck() string {
	if n.known {
		return n.memo
	}
	res := ""
outer:
	for a := range n.dom {
		for b := range n.dom {
			for c := 0; c < n.cSize; c++ {
				if n.commonPrefix != nil && (n.commonPrefix(a, b) > 10 || n.commonPrefix(b, c) > 10 || n.commonPrefix(a, c) > 10) {
					continue
				}
				if l, _ := n.law(a, b, c); l != "" {
					res = l
					break outer
				}
			}
		}
	}
	n.known, n.memo = true, res
	return res
}

// culprit descends to the innermost component instance that is itself unlawful on its own
// domain, so that one defect is reported under one constructor.
func (n *node) culprit() *node {
	for _, k := range n.kids {
		if k.selfcheck() != "" {
			return k.culprit()
		}
	}
	return n
}

const domCap = 8

// ---------- base instances ----------

func negZero() float64 { return math.Copysign(0, -1) }

func showNum(v any) string {
	switch f := v.(type) {
	case float64:
		if f == 0 && math.Signbit(f) {
			return "-0"
		}
	case float32:
		if f == 0 && math.Signbit(float64(f)) {
			return "-0"
		}
	case string:
		return fmt.Sprintf("%q", f)
	}
	return fmt.Sprint(v)
}

func anys[T any](s []T) []any {
	out := make([]any, len(s))
	for i, v := range s {
		out[i] = v
	}
	return out
}

func nativeWant[T fp.ImplicitOrd]() func(a, b any) (int, int) {
	return func(a, b any) (int, int) {
		x, y := a.(T), b.(T)
		switch {
		case x < y:
			return -1, exact
		case x > y:
			return 1, exact
		}
		return 0, exact
	}
}

func given[T fp.ImplicitOrd](tname string, dom []T) *inst[T] {
	eqT := func(a, b any) bool { return a.(T) == b.(T) }
	n := newNode("Given["+tname+"]", anys(dom), eqT, eqT, showNum)
	n.want, n.wantLaw = nativeWant[T](), "native-order"
	n.hv = n.baseHV()
	return finish(n, ord.Given[T])
}

func timeSign(a, b any) (int, int) {
	x, y := a.(time.Time), b.(time.Time)
	if x.Unix() != y.Unix() {
		if x.Unix() < y.Unix() {
			return -1, exact
		}
		return 1, exact
	}
	return sign(x.Nanosecond() - y.Nanosecond()), exact
}

func baseTime() *inst[time.Time] {
	t0 := time.Date(2024, 2, 29, 12, 0, 0, 5, time.UTC)
	kst := time.FixedZone("KST", 9*3600)
	dom := []time.Time{t0, t0.In(kst), t0.Add(time.Nanosecond), t0.Add(-time.Hour), {}, time.Unix(0, 0), time.Unix(0, 0).UTC(), t0.Add(time.Second)}
	eqT := func(a, b any) bool { s, _ := timeSign(a, b); return s == 0 }
	n := newNode("Time", anys(dom), eqT, eqT,
		func(v any) string { return v.(time.Time).Format(time.RFC3339Nano) })
	n.want, n.wantLaw = timeSign, "native-order"
	n.hv = n.baseHV()
	return finish[time.Time](n, val[time.Time](ord.Time))
}

func baseHNil() *inst[hlist.Nil] {
	n := newNode("HNil", anys([]hlist.Nil{{}, hlist.Empty()}), func(a, b any) bool { return true }, func(a, b any) bool { return true }, func(any) string { return "HNil" })
	n.want, n.wantLaw = func(a, b any) (int, int) { return 0, exact }, "native-order"
	n.hv = n.baseHV()
	return finish(n, val(ord.HNil))
}

// ---------- combinators: the typed part only converts between T and its components ----------

// optWant: both present -> the component instance decides; both absent -> equal; otherwise the
// values differ (which of None/Some, nil/non-nil sorts first is not fixed by the property).
func optWant(k *node, get func(any) (any, bool)) func(a, b any) (int, int) {
	return func(a, b any) (int, int) {
		av, aok := get(a)
		bv, bok := get(b)
		switch {
		case aok && bok:
			return sign(k.o.compare(av, bv)), exact
		case !aok && !bok:
			return 0, exact
		}
		return 0, nonzero
	}
}

func optSame(k *node, get func(any) (any, bool), eqv bool) func(a, b any) bool {
	return func(a, b any) bool {
		av, aok := get(a)
		bv, bok := get(b)
		if aok != bok {
			return false
		}
		if eqv {
			return !aok || k.equiv(av, bv)
		}
		return !aok || k.same(av, bv)
	}
}

func optShow(k *node, get func(any) (any, bool), none, pre, post string) func(any) string {
	return func(v any) string {
		e, ok := get(v)
		if !ok {
			return none
		}
		return pre + k.show(e) + post
	}
}

func optionOf[T any](k *inst[T]) *inst[fp.Option[T]] {
	dom := []any{fp.None[T](), fp.Option[T]{}}
	for _, v := range k.n.elems() {
		dom = append(dom, fp.Some(v.(T)))
	}
	get := func(v any) (any, bool) {
		o := v.(fp.Option[T])
		if o.IsDefined() {
			return o.Get(), true
		}
		return nil, false
	}
	n := newNode("Option", dom, optSame(k.n, get, false), optSame(k.n, get, true), optShow(k.n, get, "None", "Some(", ")"), k.n)
	n.want, n.wantLaw = optWant(k.n, get), "component-order"
	n.hv = func() []any {
		var out []any
		for _, v := range k.n.hv() {
			out = append(out, fp.Some(v.(T)))
		}
		return out
	}
	n.mut = func(v any, pick int) bool {
		e, ok := get(v)
		return ok && k.n.doMut(e, pick)
	}
	return finish(n, func() fp.Ord[fp.Option[T]] { return ord.Option(k.mk()) })
}

func ptrTo[T any](v any) any { t := v.(T); return &t }

func ptrOf[T any](k *inst[T]) *inst[*T] {
	kn := k.n
	p4 := ptrTo[T](kn.y)
	dom := []any{(*T)(nil), ptrTo[T](kn.x), ptrTo[T](kn.x), ptrTo[T](kn.xa), p4, p4}
	for _, v := range kn.rest {
		dom = append(dom, ptrTo[T](v))
	}
	get := func(v any) (any, bool) {
		p := v.(*T)
		if p == nil {
			return nil, false
		}
		return *p, true
	}
	n := newNode("Ptr", dom, optSame(kn, get, false), optSame(kn, get, true), optShow(kn, get, "nil", "&", ""), kn)
	n.want, n.wantLaw = optWant(kn, get), "component-order"
	n.hv = func() []any { // two pointers to equal targets, one to a different target
		var out []any
		for _, v := range kn.hv() {
			out = append(out, ptrTo[T](v))
		}
		return out
	}
	n.mut = func(v any, pick int) bool { // *p = y or z of the pointee type (same address)
		p := v.(*T)
		if p == nil {
			return false
		}
		*p = kn.hv()[2+pick].(T) // y or z of the pointee type
		return true
	}
	return finish(n, func() fp.Ord[*T] { return ord.Ptr(lazy.Call(k.mk)) })
}

// lexWant: first position where the component instance sees a difference decides; a proper
// prefix is smaller.
func lexWant(kidAt func(j int) *node, split func(any) []any) func(a, b any) (int, int) {
	return func(a, b any) (int, int) {
		as, bs := split(a), split(b)
		for j := 0; j < len(as) && j < len(bs); j++ {
			if s := sign(kidAt(j).o.compare(as[j], bs[j])); s != 0 {
				return s, exact
			}
		}
		return sign(len(as) - len(bs)), exact
	}
}

func lexSame(kidAt func(j int) *node, split func(any) []any, eqv bool) func(a, b any) bool {
	return func(a, b any) bool {
		as, bs := split(a), split(b)
		if len(as) != len(bs) {
			return false
		}
		for j := range as {
			k := kidAt(j)
			if (eqv && !k.equiv(as[j], bs[j])) || (!eqv && !k.same(as[j], bs[j])) {
				return false
			}
		}
		return true
	}
}

func lexShow(kidAt func(j int) *node, split func(any) []any, open, sep, close string, isNil func(any) bool) func(any) string {
	return func(v any) string {
		if isNil != nil && isNil(v) {
			return "nil"
		}
		es := split(v)
		s := make([]string, len(es))
		for j := range es {
			s[j] = kidAt(j).show(es[j])
		}
		return open + strings.Join(s, sep) + close
	}
}

// The domain of a sequence type over an element type with representatives x, xa, y contains
// values that ALIAS one another (an identity fast path in a comparison would only show on these):
//
//	base := [x y xa]                      one backing array
//	0 nil          1 empty
//	2 base[:2]     a view                 [x y]
//	3 [x y]        an independent copy of it
//	4 base         the longer view, same start, [x y xa]
//	5 base[:1]     a shorter view, same start
//	6 base[1:]     a view with a different start, [y xa]
//	7 [y x]   8 [xa]   9 [xa y]           independent values
//
// The representatives handed to an enclosing combinator are x = the view, xa = the copy, y = the
// longer view. (The values are built once: comparisons do not write. The sort scenario builds
// its inputs inside every execution.)
func aliasingSlices[T any](k *node) [][]T {
	x, xa, y := k.x.(T), k.xa.(T), k.y.(T)
	base := []T{x, y, xa}
	return [][]T{nil, {}, base[:2], {x, y}, base, base[:1], base[1:], {y, x}, {xa}, {xa, y}}
}

// histSlices: a view base[:2], an independent copy of it and the longer view base, freshly built
func histSlices[T any](k *node) [][]T {
	kv := k.hv()
	x, xa, y, z := kv[0].(T), kv[1].(T), kv[2].(T), kv[3].(T)
	base := []T{x, y, xa}
	return [][]T{base[:2], {x, y}, base, {z, y}}
}

// writeFirst: s[0] = y or z of the element type (same array, new contents)
func writeFirst[T any](k *node, s []T, pick int) bool {
	if len(s) == 0 {
		return false
	}
	s[0] = k.hv()[2+pick].(T) // y or z of the element type
	return true
}

func (n *node) pickAliasing() {
	d := n.dom
	n.x, n.xa, n.y = d[2], d[3], d[4]
	n.rest = append(append([]any{}, d[:2]...), d[5:]...)
}

func seqOf[T any](k *inst[T]) *inst[fp.Seq[T]] {
	var dom []any
	for _, sl := range aliasingSlices[T](k.n) {
		dom = append(dom, fp.Seq[T](sl))
	}
	split := func(v any) []any { return anys[T](v.(fp.Seq[T])) }
	kid := func(int) *node { return k.n }
	n := newNode("Seq", dom, lexSame(kid, split, false), lexSame(kid, split, true), lexShow(kid, split, "[", " ", "]", func(v any) bool { return v.(fp.Seq[T]) == nil }), k.n)
	n.pickAliasing()
	n.want, n.wantLaw = lexWant(kid, split), "lexicographic"
	n.hv = func() []any {
		var out []any
		for _, sl := range histSlices[T](k.n) {
			out = append(out, fp.Seq[T](sl))
		}
		return out
	}
	n.mut = func(v any, pick int) bool { return writeFirst[T](k.n, v.(fp.Seq[T]), pick) }
	return finish(n, func() fp.Ord[fp.Seq[T]] { return ord.Seq(k.mk()) })
}

func sliceOf[T any](k *inst[T]) *inst[[]T] {
	dom := anys(aliasingSlices[T](k.n))
	split := func(v any) []any { return anys[T](v.([]T)) }
	kid := func(int) *node { return k.n }
	n := newNode("Slice", dom, lexSame(kid, split, false), lexSame(kid, split, true), lexShow(kid, split, "[", " ", "]", func(v any) bool { return v.([]T) == nil }), k.n)
	n.pickAliasing()
	n.want, n.wantLaw = lexWant(kid, split), "lexicographic"
	n.hv = func() []any { return anys(histSlices[T](k.n)) }
	n.mut = func(v any, pick int) bool { return writeFirst[T](k.n, v.([]T), pick) }
	return finish(n, func() fp.Ord[[]T] { return ord.Slice(k.mk()) })
}

func prodNode(head string, dom []any, split func(any) []any, open, sep, close string, kids ...*node) *node {
	kid := func(j int) *node { return kids[j] }
	n := newNode(head, dom, lexSame(kid, split, false), lexSame(kid, split, true), lexShow(kid, split, open, sep, close, nil), kids...)
	n.want, n.wantLaw = lexWant(kid, split), "lexicographic"
	n.mut = prodMut(kids, split)
	return n
}

// prodMut passes a write to the first component that has a mutable referent.
func prodMut(kids []*node, split func(any) []any) func(v any, pick int) bool {
	return func(v any, pick int) bool {
		for j, c := range split(v) {
			if j < len(kids) && kids[j].doMut(c, pick) {
				return true
			}
		}
		return false
	}
}

func tuple1Of[T any](k *inst[T]) *inst[fp.Tuple1[T]] {
	var dom []any
	for _, v := range k.n.elems() {
		dom = append(dom, as.Tuple1(v.(T)))
	}
	split := func(v any) []any { return []any{v.(fp.Tuple1[T]).I1} }
	n := prodNode("Tuple1", dom, split, "(", ",", ")", k.n)
	n.hv = func() []any {
		var out []any
		for _, v := range k.n.hv() {
			out = append(out, as.Tuple1(v.(T)))
		}
		return out
	}
	return finish(n, func() fp.Ord[fp.Tuple1[T]] { return ord.Tuple1(k.mk()) })
}

var pairShapes = [][2]int{{0, 0}, {0, 1}, {1, 0}, {0, 2}, {2, 0}, {2, 2}, {1, 2}, {2, 1}}

func tuple2Of[T any](k *inst[T]) *inst[fp.Tuple2[T, T]] {
	var dom []any
	for _, sh := range pairShapes {
		dom = append(dom, as.Tuple2(k.n.at(sh[0]).(T), k.n.at(sh[1]).(T)))
	}
	split := func(v any) []any { t := v.(fp.Tuple2[T, T]); return []any{t.I1, t.I2} }
	n := prodNode("Tuple2", dom, split, "(", ",", ")", k.n, k.n)
	n.hv = func() []any {
		var out []any
		a, b := k.n.hv(), k.n.hv()
		for i := range a {
			out = append(out, as.Tuple2(a[i].(T), b[i].(T)))
		}
		return out
	}
	return finish(n, func() fp.Ord[fp.Tuple2[T, T]] { return ord.Tuple2(k.mk(), k.mk()) })
}

func hconsOf[T any](k *inst[T], nilI *inst[hlist.Nil]) *inst[hlist.Cons[T, hlist.Nil]] {
	var dom []any
	for _, v := range k.n.elems() {
		dom = append(dom, hlist.Concat(v.(T), hlist.Empty()))
	}
	split := func(v any) []any { c := v.(hlist.Cons[T, hlist.Nil]); return []any{c.Head(), hlist.Tail(c)} }
	n := prodNode("HCons", dom, split, "", "::", "", k.n, nilI.n)
	n.hv = func() []any {
		var out []any
		for _, v := range k.n.hv() {
			out = append(out, hlist.Concat(v.(T), hlist.Empty()))
		}
		return out
	}
	return finish(n, func() fp.Ord[hlist.Cons[T, hlist.Nil]] { return ord.HCons(k.mk(), nilI.mk()) })
}

// box is the source type of ContraMap / GivenField: tag is ignored by the getter, so boxes with
// equal v and different tag are different values that the order must treat as equivalent.
type box[T any] struct {
	v   T
	tag int
}

func unbox[T any](b box[T]) T { return b.v }

func boxNode[T any](head string, k *node) *node {
	dom := []any{box[T]{k.x.(T), 0}, box[T]{k.x.(T), 1}, box[T]{k.xa.(T), 2}, box[T]{k.y.(T), 3}, box[T]{k.y.(T), 0}}
	for j, v := range k.rest {
		dom = append(dom, box[T]{v.(T), 5 + j})
	}
	same := func(a, b any) bool { return k.same(a.(box[T]).v, b.(box[T]).v) && a.(box[T]).tag == b.(box[T]).tag }
	show := func(v any) string { b := v.(box[T]); return fmt.Sprintf("box{%s #%d}", k.show(b.v), b.tag) }
	equiv := func(a, b any) bool { return k.equiv(a.(box[T]).v, b.(box[T]).v) }
	n := newNode(head, dom, same, equiv, show, k)
	n.want = func(a, b any) (int, int) { return sign(k.o.compare(a.(box[T]).v, b.(box[T]).v)), exact }
	n.wantLaw = "component-order"
	n.hv = func() []any {
		var out []any
		for i, v := range k.hv() {
			out = append(out, box[T]{v.(T), i})
		}
		return out
	}
	n.mut = func(v any, pick int) bool { return k.doMut(v.(box[T]).v, pick) }
	return n
}

func contraMapOf[T any](k *inst[T]) *inst[box[T]] {
	return finish(boxNode[T]("ContraMap", k.n), func() fp.Ord[box[T]] { return ord.ContraMap(k.mk(), unbox[T]) })
}

func givenFieldOf[T fp.ImplicitOrd](k *inst[T]) *inst[box[T]] {
	n := boxNode[T]("GivenField", k.n)
	n.kids = nil // GivenField builds its own Given[T]; the order demanded is the native one
	n.name = "GivenField[" + strings.TrimSuffix(strings.TrimPrefix(k.n.name, "Given["), "]") + "]"
	nw := nativeWant[T]()
	n.want = func(a, b any) (int, int) { return nw(a.(box[T]).v, b.(box[T]).v) }
	n.wantLaw = "native-order"
	return finish(n, func() fp.Ord[box[T]] { return ord.GivenField(unbox[T]) })
}

// ---------- instances derived from an instance of the same type ----------

func (n *node) derived(head string, law string, want func(a, b any) (int, int), extraKids ...*node) *node {
	d := &node{name: head + "(" + n.name + ")", head: head, depth: n.depth + 1, kids: append([]*node{n}, extraKids...), dom: n.dom, cSize: n.cSize,
		want: want, wantLaw: law, same: n.same, equiv: n.equiv, show: n.show, x: n.x, xa: n.xa, y: n.y, rest: n.rest, hv: n.hv, mut: n.mut}
	return d
}

// byShow is the harness's own second order on T (by rendered representation), used as the
// tie-breaker handed to ThenComparing.
func byShow[T any](n *node) fp.Ord[T] {
	return ord.FromCompare(func(a, b T) int { return strings.Compare(n.show(a), n.show(b)) })
}

// deriveOn: the custom-component expressions get their derived instances in the thorough tier only
var deriveOn = true

// derive registers New, FromCompare, as.Ord, Reversed, ThenComparing applied to k.
func derive[T any](c *catalogue, k *inst[T], again bool) {
	if !deriveOn {
		return
	}
	src := k.n
	sameAs := func(a, b any) (int, int) { return sign(src.o.compare(a, b)), exact }
	add := func(head, law string, want func(a, b any) (int, int), o func() fp.Ord[T], extraKids ...*node) *inst[T] {
		d := finish(src.derived(head, law, want, extraKids...), o)
		c.add(d.n)
		return d
	}
	add("New", "same-as-source", sameAs, func() fp.Ord[T] { o := k.mk(); return ord.New[T](o, o.Less) })
	add("FromCompare", "same-as-source", sameAs, func() fp.Ord[T] { return ord.FromCompare(k.mk().Compare) })
	add("as.Ord", "same-as-source", sameAs, func() fp.Ord[T] { return as.Ord(k.mk().Less) })
	rev := add("Reversed", "flips", func(a, b any) (int, int) { return -sign(src.o.compare(a, b)), exact }, func() fp.Ord[T] { return k.mk().Reversed() })
	tb := byShow[T](src)
	tbn := &node{name: "byShow", head: "harness.byShow", dom: src.dom, cSize: src.cSize, same: src.same, equiv: src.equiv, show: src.show, o: erase(tb)}
	then := add("ThenComparing", "tie-break", func(a, b any) (int, int) {
		if s := sign(src.o.compare(a, b)); s != 0 {
			return s, exact
		}
		return sign(strings.Compare(src.show(a), src.show(b))), exact
	}, func() fp.Ord[T] { return k.mk().ThenComparing(tb) }, tbn)
	then.n.name = "ThenComparing(" + src.name + ",byShow)"
	// ThenComparing the instance itself and its reverse never changes the order
	add("ThenComparing", "tie-break", sameAs, func() fp.Ord[T] { return k.mk().ThenComparing(k.mk()) }).n.name = "ThenComparing(" + src.name + "," + src.name + ")"
	add("ThenComparing", "tie-break", sameAs, func() fp.Ord[T] { return k.mk().ThenComparing(k.mk().Reversed()) }).n.name = "ThenComparing(" + src.name + ",Reversed(" + src.name + "))"
	if again {
		derive(c, rev, false)
		derive(c, then, false)
	}
}

// ---------- closure of the grammar to a depth bound ----------

type catalogue struct {
	nodes []*node
	hnil  *inst[hlist.Nil]
}

func (c *catalogue) add(n *node) { c.nodes = append(c.nodes, n) }

func expand0[T any](c *catalogue, k *inst[T]) {
	c.add(k.n)
	derive(c, k, false)
}

func expand1[T any](c *catalogue, k *inst[T], again bool) {
	c.add(k.n)
	derive(c, k, again)
	expand0(c, optionOf(k))
	expand0(c, seqOf(k))
	expand0(c, sliceOf(k))
	expand0(c, ptrOf(k))
	expand0(c, tuple1Of(k))
	expand0(c, tuple2Of(k))
	expand0(c, hconsOf(k, c.hnil))
	expand0(c, contraMapOf(k))
}

func expand2[T any](c *catalogue, k *inst[T], again bool) {
	c.add(k.n)
	derive(c, k, again)
	expand1(c, optionOf(k), false)
	expand1(c, seqOf(k), false)
	expand1(c, sliceOf(k), false)
	expand1(c, ptrOf(k), false)
	expand1(c, tuple1Of(k), false)
	expand1(c, tuple2Of(k), false)
	expand1(c, hconsOf(k, c.hnil), false)
	expand1(c, contraMapOf(k), false)
}
