// C16 — lazy.Eval: trampolined evaluation is faithful, stack-safe and run-once.
//
//	(a) eval/*   every Eval expression tree up to a size bound, Get called 0..3 times, compared
//	             with a strict recursive interpreter; every deferred thunk counts its executions.
//	(b) stack/*  tail-recursive countdowns (TailCall, TailCall1..9) and mutual recursion at every
//	             depth <= 2000 and on a ladder up to 2*10^7, under a 1 MiB stack limit, with the
//	             call-stack depth sampled inside the recursive function.
//	(c) conc/*   2-3 threads demanding one shared deferred computation, every interleaving at
//	             the sync.Once operations (overlay) and at a point inside the thunk body.
package main

import (
	"fmt"
	"runtime"
	"runtime/debug"
	"strings"

	"github.com/csgura/fp"
	"github.com/csgura/fp/iterator"
	"github.com/csgura/fp/lazy"
	"github.com/csgura/fp/list"
	"verif/mc"
)

// ---------------------------------------------------------------- (a) expression trees

const (
	opDone = iota
	opCall
	opArg
	opTail
	opTail2
	opMap
	opFlatMap
	opMap2
	opZero // the zero value lazy.Eval[int]{}: a legal Eval that denotes the zero value of T
)

var opNames = []string{"Done", "Call", "Arg", "TailCall", "TailCall2", "Map", "FlatMap", "Map2", "Eval{}"}

type node struct {
	op   int
	v    int // constant (Done/Call) or function index (Map/Map2)
	kids []*node
}

var unaryF = []func(int) int{
	func(a int) int { return 2*a + 1 },
	func(a int) int { return 7 - a },
}
var unaryFNames = []string{"2a+1", "7-a"}

var binaryG = []func(int, int) int{
	func(a, b int) int { return a - b },
	func(a, b int) int { return 10*a + b },
}
var binaryGNames = []string{"a-b", "10a+b"}

func (n *node) String() string {
	switch n.op {
	case opDone:
		return fmt.Sprintf("Done(%d)", n.v)
	case opCall:
		return fmt.Sprintf("Call(->%d)", n.v)
	case opArg:
		return "Done(arg)"
	case opZero:
		return "Eval{}"
	case opTail:
		return fmt.Sprintf("TailCall(->%v)", n.kids[0])
	case opTail2:
		return fmt.Sprintf("TailCall2(f,11,22)(->%v)", n.kids[0])
	case opMap:
		return fmt.Sprintf("Map(%v, %s)", n.kids[0], unaryFNames[n.v])
	case opFlatMap:
		return fmt.Sprintf("FlatMap(%v, arg=>%v)", n.kids[0], n.kids[1])
	case opMap2:
		return fmt.Sprintf("Map2(%v, %v, %s)", n.kids[0], n.kids[1], binaryGNames[n.v])
	}
	return "?"
}

type alt struct {
	op, v, left int
}

var leafAlts = []alt{{opDone, 1, 0}, {opDone, 2, 0}, {opCall, 3, 0}, {opZero, 0, 0}}
var leafAltsBound = append(append([]alt{}, leafAlts...), alt{opArg, 0, 0})
var unaryAlts = []alt{{opTail, 0, 0}, {opTail2, 0, 0}, {opMap, 0, 0}, {opMap, 1, 0}}
var binaryAlts = []alt{{opFlatMap, 0, 0}, {opMap2, 0, 0}, {opMap2, 1, 0}}

// genTree enumerates every tree with exactly n nodes; bound says whether a FlatMap binder
// is in scope (the leaf Done(arg) is available only then).
func genTree(x *mc.X, n int, bound bool) *node {
	if n == 1 {
		alts := leafAlts
		if bound {
			alts = leafAltsBound
		}
		a := alts[x.Choose(len(alts), "leaf")]
		return &node{op: a.op, v: a.v}
	}
	alts := append([]alt{}, unaryAlts...)
	if n >= 3 {
		for _, b := range binaryAlts {
			for l := 1; l <= n-2; l++ {
				alts = append(alts, alt{b.op, b.v, l})
			}
		}
	}
	a := alts[x.Choose(len(alts), "node")]
	nd := &node{op: a.op, v: a.v}
	switch a.op {
	case opTail, opTail2, opMap:
		nd.kids = []*node{genTree(x, n-1, bound)}
	case opFlatMap:
		l := genTree(x, a.left, bound)
		nd.kids = []*node{l, genTree(x, n-1-a.left, true)}
	case opMap2:
		l := genTree(x, a.left, bound)
		nd.kids = []*node{l, genTree(x, n-1-a.left, bound)}
	}
	return nd
}

// strict is the reference: direct strict evaluation of the same program.
func strict(n *node, env int) int {
	switch n.op {
	case opDone, opCall:
		return n.v
	case opArg:
		return env
	case opZero:
		return 0
	case opTail, opTail2:
		return strict(n.kids[0], env)
	case opMap:
		return unaryF[n.v](strict(n.kids[0], env))
	case opFlatMap:
		return strict(n.kids[1], strict(n.kids[0], env))
	case opMap2:
		a := strict(n.kids[0], env)
		b := strict(n.kids[1], env)
		return binaryG[n.v](a, b)
	}
	panic("strict: bad op")
}

type counter struct {
	kind string
	desc string
	runs int
}

type builder struct {
	x        *mc.X
	funcAPI  bool // lazy.Map/lazy.FlatMap instead of the methods
	counters []*counter
	userRuns int // invocations of Map/FlatMap/Map2 callbacks
	badArgs  string
}

func (b *builder) counter(kind string, n *node) *counter {
	c := &counter{kind: kind}
	if b.x != nil && b.x.Recording() {
		c.desc = n.String()
	}
	b.counters = append(b.counters, c)
	return c
}

func (b *builder) tick() {
	if b.x != nil {
		b.x.Tick()
	}
}

// build constructs the library value for n. Thunks created while a continuation runs get
// fresh counters: each is a deferred computation of its own.
func (b *builder) build(n *node, env int) lazy.Eval[int] {
	switch n.op {
	case opDone:
		return lazy.Done(n.v)
	case opArg:
		return lazy.Done(env)
	case opZero:
		return lazy.Eval[int]{}
	case opCall:
		c := b.counter("Call", n)
		return lazy.Call(func() int {
			b.tick()
			c.runs++
			return n.v
		})
	case opTail:
		c := b.counter("TailCall", n)
		return lazy.TailCall(func() lazy.Eval[int] {
			b.tick()
			c.runs++
			return b.build(n.kids[0], env)
		})
	case opTail2:
		c := b.counter("TailCall2", n)
		return lazy.TailCall2(func(a1, a2 int) lazy.Eval[int] {
			b.tick()
			c.runs++
			if a1 != 11 || a2 != 22 {
				b.badArgs = fmt.Sprintf("TailCall2 passed (%d,%d), want (11,22)", a1, a2)
			}
			return b.build(n.kids[0], env)
		}, 11, 22)
	case opMap:
		f := func(a int) int {
			b.tick()
			b.userRuns++
			return unaryF[n.v](a)
		}
		e := b.build(n.kids[0], env)
		if b.funcAPI {
			return lazy.Map(e, f)
		}
		return e.Map(f)
	case opFlatMap:
		k := func(a int) lazy.Eval[int] {
			b.tick()
			b.userRuns++
			return b.build(n.kids[1], a)
		}
		e := b.build(n.kids[0], env)
		if b.funcAPI {
			return lazy.FlatMap(e, k)
		}
		return e.FlatMap(k)
	case opMap2:
		l := b.build(n.kids[0], env)
		r := b.build(n.kids[1], env)
		return lazy.Map2(l, r, func(a1, a2 int) int {
			b.tick()
			b.userRuns++
			return binaryG[n.v](a1, a2)
		})
	}
	panic("build: bad op")
}

// minimalFailing returns the smallest subtree whose own evaluation (with the binder set to
// env) disagrees with strict evaluation; used only to name the violation.
func minimalFailing(n *node, env int, funcAPI bool) (*node, int) {
	for _, k := range n.kids {
		envs := []int{env}
		if n.op == opFlatMap && k == n.kids[1] {
			envs = []int{strict(n.kids[0], env), 0, 1, 2}
		}
		for _, e := range envs {
			b := &builder{funcAPI: funcAPI}
			var got int
			p := mc.Catch(func() { got = b.build(k, e).Get() })
			if p != nil || got != strict(k, e) {
				return minimalFailing(k, e, funcAPI)
			}
		}
	}
	return n, env
}

func count(n *node, pred func(*node) bool) int {
	c := 0
	if pred(n) {
		c++
	}
	for _, k := range n.kids {
		c += count(k, pred)
	}
	return c
}

func evalScenario(maxNodes int) func(x *mc.X) {
	return func(x *mc.X) {
		size := 1 + x.Choose(maxNodes, "nodes")
		tree := genTree(x, size, false)
		gets := x.Choose(4, "number of Get calls")
		funcAPI := false
		if count(tree, func(n *node) bool { return n.op == opMap || n.op == opFlatMap }) > 0 {
			funcAPI = x.Bool("package functions lazy.Map/lazy.FlatMap instead of methods")
		}
		want := strict(tree, 0)
		x.Logf("program: %v", tree)
		x.Logf("strict value: %d; Get called %d times", want, gets)
		// census first, so that it also counts the executions that end in a violation.
		// rule: the program has a deferred thunk and is demanded at least twice (memoisation
		// is exercised), or composes at least two constructors and is demanded
		thunks := count(tree, func(n *node) bool { return n.op == opCall || n.op == opTail || n.op == opTail2 })
		if gets >= 1 && (size >= 2) || gets >= 2 && thunks > 0 {
			x.NonTrivial()
		}
		x.Tag("root=" + opNames[tree.op])
		x.Tag(fmt.Sprintf("gets=%d", gets))
		x.Tag(fmt.Sprintf("nodes=%d", size))
		if thunks > 0 && gets >= 2 {
			x.Tag("thunk-demanded-repeatedly")
		}
		if thunks > 0 && gets == 0 {
			x.Tag("thunk-never-demanded")
		}
		b := &builder{x: x, funcAPI: funcAPI}
		var e lazy.Eval[int]
		if p := mc.Catch(func() { e = b.build(tree, 0) }); p != nil {
			x.Fail("lazy."+opNames[tree.op]+"/panic", "building %v panicked: %v", tree, p)
		}
		for i := 0; i < gets; i++ {
			var got int
			p := mc.Catch(func() { got = e.Get() })
			x.Logf("Get #%d = %d", i+1, got)
			if p != nil || got != want {
				m, env := minimalFailing(tree, 0, funcAPI)
				what := fmt.Sprintf("= %d", got)
				if p != nil {
					what = fmt.Sprintf("panicked: %v", p)
				}
				x.Fail("lazy."+opNames[m.op]+"/wrong-value", "Get #%d of %v %s, strict evaluation gives %d (smallest failing subprogram: %v with arg=%d, strict %d)",
					i+1, tree, what, want, m, env, strict(m, env))
			}
			if b.badArgs != "" {
				x.Fail("lazy.TailCall2/arguments", "%s in %v", b.badArgs, tree)
			}
		}
		executed := 0
		for _, c := range b.counters {
			x.Logf("thunk %s %s executed %d times", c.kind, c.desc, c.runs)
			if c.runs > 1 {
				x.Fail("lazy."+c.kind+"/thunk-ran-twice", "a %s thunk was executed %d times across %d Get calls of %v", c.kind, c.runs, gets, tree)
			}
			if gets == 0 && c.runs != 0 {
				x.Fail("lazy."+c.kind+"/ran-without-demand", "a %s thunk was executed although Get was never called on %v", c.kind, tree)
			}
			executed += c.runs
		}
		// Map/FlatMap/Map2 callbacks are not among the deferred computations the statement
		// lists; whether they run before Get is not checked, only counted
		if gets == 0 && b.userRuns != 0 {
			x.Tag("callback-ran-before-demand")
		}
		x.Observe(tree.String(), gets, want, executed, len(b.counters))
		if len(b.counters) > thunks {
			x.Tag("thunk-created-inside-continuation")
		}
	}
}

// seqOnce: the memoising wrappers outside Eval, called repeatedly from one goroutine.
func seqOnce(x *mc.X) {
	kinds := onceKinds()
	k := kinds[x.Choose(len(kinds), "kind")]
	calls := x.Choose(4, "calls")
	runs := 0
	get := k.make(func() int { x.Tick(); runs++; return 100 + runs }, func() {})
	x.Logf("%s demanded %d times", k.name, calls)
	for i := 0; i < calls; i++ {
		got := get()
		if got != 101 {
			x.Fail(k.name+"/wrong-value", "%s: call #%d returned %d, the thunk returned 101 on its first execution (executions so far: %d)", k.name, i+1, got, runs)
		}
	}
	if runs > 1 {
		x.Fail(k.name+"/thunk-ran-twice", "%s: thunk executed %d times across %d calls", k.name, runs, calls)
	}
	if calls == 0 && runs != 0 {
		x.Fail(k.name+"/ran-without-demand", "%s: thunk executed without demand", k.name)
	}
	x.Observe(k.name, calls, runs)
	if calls >= 2 {
		x.NonTrivial()
	}
	x.Tag("once=" + k.name)
}

// zeroValue: the zero value lazy.Eval[int]{} as the receiver / argument of every exported
// entry point. It denotes the zero value of T (Resume substitutes a function returning zero
// for the missing first function; reflectfp.LazyCall builds Evals from reflect.Zero).
func zeroValue(x *mc.X) {
	type zcase struct {
		name string
		fn   string
		run  func() int
		want int
	}
	var z lazy.Eval[int]
	inc := func(a int) int { return a + 41 }
	cases := []zcase{
		{"Eval{}.Get()", "Eval.Get", func() int { return z.Get() }, 0},
		{"Run(Eval{})", "Run", func() int { return lazy.Run(z) }, 0},
		{"Eval{}.Resume()", "Eval.Resume", func() int {
			v, cont := z.Resume()
			if cont != nil {
				return -1000
			}
			return v
		}, 0},
		{"Eval{}.Map(a+41).Get()", "Eval.Map", func() int { return z.Map(inc).Get() }, 41},
		{"Map(Eval{}, a+41).Get()", "Map", func() int { return lazy.Map(z, inc).Get() }, 41},
		{"Eval{}.FlatMap(v=>Done(v+41)).Get()", "Eval.FlatMap", func() int { return z.FlatMap(func(v int) lazy.Eval[int] { return lazy.Done(v + 41) }).Get() }, 41},
		{"FlatMap(Eval{}, v=>Eval{}).Get()", "FlatMap", func() int { return lazy.FlatMap(z, func(int) lazy.Eval[int] { return lazy.Eval[int]{} }).Get() }, 0},
		{"Done(5).FlatMap(v=>Eval{}).Get()", "Eval.FlatMap", func() int { return lazy.Done(5).FlatMap(func(int) lazy.Eval[int] { return lazy.Eval[int]{} }).Get() }, 0},
		{"Call(->5).FlatMap(v=>Eval{}).Map(a+41).Get()", "Eval.FlatMap", func() int {
			return lazy.Call(func() int { return 5 }).FlatMap(func(int) lazy.Eval[int] { return lazy.Eval[int]{} }).Map(inc).Get()
		}, 41},
		{"Map2(Eval{}, Done(5), a-b).Get()", "Map2", func() int { return lazy.Map2(z, lazy.Done(5), binaryG[0]).Get() }, -5},
		{"Map2(Done(5), Eval{}, a-b).Get()", "Map2", func() int { return lazy.Map2(lazy.Done(5), z, binaryG[0]).Get() }, 5},
		{"Map2(Eval{}, Eval{}, 10a+b).Get()", "Map2", func() int { return lazy.Map2(z, z, binaryG[1]).Get() }, 0},
		{"TailCall(->Eval{}).Get()", "TailCall", func() int { return lazy.TailCall(func() lazy.Eval[int] { return lazy.Eval[int]{} }).Get() }, 0},
		{"TailCall1(_=>Eval{}, 1).Get()", "TailCall1", func() int { return lazy.TailCall1(func(int) lazy.Eval[int] { return lazy.Eval[int]{} }, 1).Get() }, 0},
		{"TailCall(->TailCall(->Eval{})).Map(a+41).Get()", "TailCall", func() int {
			return lazy.TailCall(func() lazy.Eval[int] {
				return lazy.TailCall(func() lazy.Eval[int] { return lazy.Eval[int]{} })
			}).Map(inc).Get()
		}, 41},
		{"Func1(a=>a)(0) then FlatMap(v=>Eval{})", "Eval.FlatMap", func() int {
			return lazy.Func1(func(a int) int { return a })(9).FlatMap(func(int) lazy.Eval[int] { return lazy.Eval[int]{} }).Get()
		}, 0},
	}
	c := cases[x.Choose(len(cases), "entry point")]
	times := 1 + x.Choose(2, "evaluations")
	x.Tag("zero-value=" + c.fn)
	x.NonTrivial()
	for i := 0; i < times; i++ {
		var got int
		p := mc.Catch(func() { got = c.run() })
		x.Logf("%s = %d (want %d), panic: %v", c.name, got, c.want, p)
		if p != nil {
			x.Fail("lazy."+c.fn+"/zero-value-panics", "%s panicked: %v; the zero value Eval[int]{} denotes the zero value of int, strict evaluation gives %d", c.name, p, c.want)
		}
		if got != c.want {
			x.Fail("lazy."+c.fn+"/zero-value-wrong-value", "%s = %d, strict evaluation (Eval[int]{} = 0) gives %d", c.name, got, c.want)
		}
	}
	x.Observe(c.name, times)
}

// ---------------------------------------------------------------- (a') shared sub-expressions

// sharedCtx builds programs as DAGs: one base Eval value that several larger programs are
// derived from. The reference value is computed alongside with plain ints.
type sharedCtx struct {
	x        *mc.X
	counters []*counter
}

type sprog struct {
	e    lazy.Eval[int]
	want int
	desc string
}

func (c *sharedCtx) thunk(kind string) *counter {
	k := &counter{kind: kind}
	c.counters = append(c.counters, k)
	return k
}

func (c *sharedCtx) call(v int) lazy.Eval[int] {
	k := c.thunk("Call")
	return lazy.Call(func() int { c.x.Tick(); k.runs++; return v })
}

func (c *sharedCtx) tail(v int) lazy.Eval[int] {
	k := c.thunk("TailCall")
	return lazy.TailCall(func() lazy.Eval[int] { c.x.Tick(); k.runs++; return lazy.Done(v) })
}

var sharedStarts = []string{"Done(1)", "Call(->3)", "TailCall(->Done(2))", "Map2(Done(1), Call(->3), a-b)", "Eval{}"}
var sharedPatterns = []string{"Map", "FlatMap(v=>Done)", "Map2(base, Done)", "Map2(Done, base)", "mixed", "FlatMap(v=>Call|TailCall)"}

func (c *sharedCtx) start(i int) sprog {
	switch i {
	case 0:
		return sprog{lazy.Done(1), 1, sharedStarts[0]}
	case 1:
		return sprog{c.call(3), 3, sharedStarts[1]}
	case 2:
		return sprog{c.tail(2), 2, sharedStarts[2]}
	case 4:
		return sprog{lazy.Eval[int]{}, 0, sharedStarts[4]}
	}
	return sprog{lazy.Map2(lazy.Done(1), c.call(3), binaryG[0]), 1 - 3, sharedStarts[3]}
}

// bind appends the i-th bind of the given pattern (values are kept small modulo 1000).
func (c *sharedCtx) bind(p sprog, pattern, i int) sprog {
	kind := pattern
	if pattern == 4 {
		kind = i % 4
	}
	small := func(v int) int { return v % 1000 }
	switch kind {
	case 0:
		f := unaryF[i%2]
		return sprog{p.e.Map(func(a int) int { c.x.Tick(); return small(f(a)) }), small(f(p.want)), p.desc + ".Map"}
	case 1:
		return sprog{p.e.FlatMap(func(a int) lazy.Eval[int] { c.x.Tick(); return lazy.Done(a + i + 1) }), p.want + i + 1, p.desc + ".FlatMap"}
	case 2:
		return sprog{lazy.Map2(p.e, lazy.Done(i), func(a, b int) int { return a - b }), p.want - i, p.desc + ".Map2(_,Done)"}
	case 3:
		return sprog{lazy.Map2(lazy.Done(i), p.e, func(a, b int) int { return small(10*a + b) }), small(10*i + p.want), p.desc + ".Map2(Done,_)"}
	}
	if i%2 == 0 {
		return sprog{p.e.FlatMap(func(a int) lazy.Eval[int] { c.x.Tick(); return c.call(a + 1) }), p.want + 1, p.desc + ".FlatMap(Call)"}
	}
	return sprog{p.e.FlatMap(func(a int) lazy.Eval[int] { c.x.Tick(); return c.tail(a + 2) }), p.want + 2, p.desc + ".FlatMap(TailCall)"}
}

var sharedExts = []struct{ name, fn string }{
	{"Map(2a+1)", "Map"}, {"Map(7-a)", "Map"}, {"FlatMap(v=>Done(10v+1))", "FlatMap"}, {"FlatMap(v=>Call(->v+7))", "FlatMap"},
	{"Map2(base, Done(5), a-b)", "Map2"}, {"Map2(Done(5), base, 10a+b)", "Map2"}, {"FlatMap(v=>TailCall(->Done(3v)))", "FlatMap"},
	{"FlatMap(v=>Eval{})", "FlatMap"},
}

func (c *sharedCtx) extend(b sprog, e int) sprog {
	switch e {
	case 0:
		return sprog{b.e.Map(unaryF[0]), unaryF[0](b.want), sharedExts[e].name}
	case 1:
		return sprog{lazy.Map(b.e, unaryF[1]), unaryF[1](b.want), sharedExts[e].name}
	case 2:
		return sprog{b.e.FlatMap(func(a int) lazy.Eval[int] { return lazy.Done(10*a + 1) }), 10*b.want + 1, sharedExts[e].name}
	case 3:
		return sprog{lazy.FlatMap(b.e, func(a int) lazy.Eval[int] { return c.call(a + 7) }), b.want + 7, sharedExts[e].name}
	case 4:
		return sprog{lazy.Map2(b.e, lazy.Done(5), binaryG[0]), b.want - 5, sharedExts[e].name}
	case 5:
		return sprog{lazy.Map2(lazy.Done(5), b.e, binaryG[1]), 50 + b.want, sharedExts[e].name}
	case 7:
		return sprog{b.e.FlatMap(func(int) lazy.Eval[int] { return lazy.Eval[int]{} }), 0, sharedExts[e].name}
	}
	return sprog{b.e.FlatMap(func(a int) lazy.Eval[int] { return c.tail(3 * a) }), 3 * b.want, sharedExts[e].name}
}

// extension sets: every ordered pair of different extensions and one triple per extension
func sharedExtSets() [][]int {
	var out [][]int
	n := len(sharedExts)
	for i := 0; i < n; i++ {
		for j := 0; j < n; j++ {
			if i != j {
				out = append(out, []int{i, j})
			}
		}
	}
	for i := 0; i < n; i++ {
		out = append(out, []int{i, (i + 1) % n, (i + 2) % n})
	}
	return out
}

var sharedModes = []string{
	"all extensions built, evaluated in order",
	"all extensions built, evaluated in reverse order",
	"all extensions built, the first evaluated twice, then the others, then the first again",
	"base evaluated once, then all extensions built and evaluated in order",
	"build one, evaluate it, build the next, evaluate it, ...; finally the first again",
}

const sharedMaxBinds = 12

// sharedBase: one base expression (a start followed by k binds) is extended two or three
// times with different continuations; every derived program must equal strict evaluation in
// every evaluation order, and every thunk (those of the shared base included) runs at most once.
func sharedBase(x *mc.X) {
	sets := sharedExtSets()
	nb := len(sharedStarts) * len(sharedPatterns) * (sharedMaxBinds + 1)
	bi := x.Choose(nb, "base: start x bind pattern x number of binds")
	k := bi % (sharedMaxBinds + 1)
	pattern := bi / (sharedMaxBinds + 1) % len(sharedPatterns)
	st := bi / (sharedMaxBinds + 1) / len(sharedPatterns)
	set := sets[x.Choose(len(sets), "extensions")]
	mode := x.Choose(len(sharedModes), "evaluation order")
	c := &sharedCtx{x: x}
	base := c.start(st)
	for i := 0; i < k; i++ {
		base = c.bind(base, pattern, i)
	}
	x.Logf("base = %s (%d binds, pattern %s), strict value %d", base.desc, k, sharedPatterns[pattern], base.want)
	x.Tag(fmt.Sprintf("shared/binds=%d", k))
	x.Tag("shared/pattern=" + sharedPatterns[pattern])
	x.Tag(fmt.Sprintf("shared/extensions=%d", len(set)))
	if k >= 1 {
		x.NonTrivial()
	}
	get := func(p sprog, what string) {
		var got int
		pv := mc.Catch(func() { got = p.e.Get() })
		x.Logf("%s: base.%s = %d (strict %d)", what, p.desc, got, p.want)
		if pv != nil || got != p.want {
			res := fmt.Sprintf("= %d", got)
			if pv != nil {
				res = fmt.Sprintf("panicked: %v", pv)
			}
			var names []string
			for _, e := range set {
				names = append(names, sharedExts[e].name)
			}
			fn := "Map"
			for _, e := range sharedExts {
				if e.name == p.desc {
					fn = e.fn
				}
			}
			x.Fail("lazy."+fn+"/shared-base-wrong-value", "base = %s (%d binds) extended with %v; %s; %s: base.%s %s, strict evaluation gives %d",
				base.desc, k, names, sharedModes[mode], what, p.desc, res, p.want)
		}
	}
	var progs []sprog
	switch mode {
	case 0, 1, 2, 3:
		if mode == 3 {
			get(sprog{base.e, base.want, "(itself)"}, "base first")
		}
		for _, e := range set {
			progs = append(progs, c.extend(base, e))
		}
		switch mode {
		case 0, 3:
			for i, p := range progs {
				get(p, fmt.Sprintf("evaluation %d", i+1))
			}
		case 1:
			for i := len(progs) - 1; i >= 0; i-- {
				get(progs[i], fmt.Sprintf("evaluation %d", len(progs)-i))
			}
		case 2:
			get(progs[0], "evaluation 1")
			get(progs[0], "evaluation 2")
			for i, p := range progs[1:] {
				get(p, fmt.Sprintf("evaluation %d", i+3))
			}
			get(progs[0], "last evaluation")
		}
	case 4:
		for i, e := range set {
			p := c.extend(base, e)
			progs = append(progs, p)
			get(p, fmt.Sprintf("evaluation %d", i+1))
		}
		get(progs[0], "last evaluation")
	}
	executed := 0
	for _, t := range c.counters {
		if t.runs > 1 {
			x.Fail("lazy."+t.kind+"/thunk-ran-twice", "a %s thunk was executed %d times while programs sharing base = %s were evaluated (%s)", t.kind, t.runs, base.desc, sharedModes[mode])
		}
		executed += t.runs
	}
	x.Observe(bi, fmt.Sprint(set), mode, executed, len(c.counters))
}

// ---------------------------------------------------------------- memoised list cells, head and tail

// listKind builds a lazily produced list with the strict contents listWant; every user
// computation behind a cell (head thunk, tail thunk, generator, mapped function, iterator
// pull, recurrence step) counts its executions per cell index through tick(role, index).
type listKind struct {
	name  string
	build func(tick func(role string, i int)) fp.List[int]
}

// infinite lists: only a prefix is inspected, no cell is the end of the list
var infiniteLists = map[string]bool{"list.Recurrence1": true, "list.Recurrence2": true}

var listWant = []int{10, 11, 12}

func listKinds() []listKind {
	some := func(i int) fp.Option[int] {
		if i < len(listWant) {
			return fp.Some(listWant[i])
		}
		return fp.None[int]()
	}
	gen := func(tick func(string, int), role string) fp.List[int] {
		return list.Generate(func(i int) fp.Option[int] { tick(role, i); return some(i) })
	}
	iter := func(tick func(string, int)) fp.Iterator[int] {
		i := 0
		return fp.MakeIterator(func() bool { return i < len(listWant) }, func() int {
			tick("iterator pull", i)
			v := listWant[i]
			i++
			return v
		})
	}
	return []listKind{
		{"fp.MakeList", func(tick func(string, int)) fp.List[int] {
			var mk func(i int) fp.List[int]
			mk = func(i int) fp.List[int] {
				return fp.MakeList(func() fp.Option[int] { tick("head thunk", i); return some(i) },
					func() fp.List[int] { tick("tail thunk", i); return mk(i + 1) })
			}
			return mk(0)
		}},
		{"list.Generate", func(tick func(string, int)) fp.List[int] { return gen(tick, "generator") }},
		{"list.Map(list.Of)", func(tick func(string, int)) fp.List[int] {
			return list.Map(list.Of(0, 1, 2), func(v int) int { tick("mapped function", v); return listWant[v] })
		}},
		{"list.Map(list.Generate)", func(tick func(string, int)) fp.List[int] {
			return list.Map(gen(tick, "generator"), func(v int) int { tick("mapped function", v-10); return v })
		}},
		{"list.Zip(Generate,Generate)", func(tick func(string, int)) fp.List[int] {
			z := list.Zip(gen(tick, "left generator"), gen(tick, "right generator"))
			return list.Map(z, func(t fp.Tuple2[int, int]) int { tick("mapped function", t.I1-10); return (t.I1 + t.I2) / 2 })
		}},
		{"list.Recurrence1", func(tick func(string, int)) fp.List[int] {
			// infinite: 10, 11, 12, 13 ...; only the first cells are inspected
			return list.Recurrence1(10, func(a int) int { tick("recurrence step", a-10); return a + 1 })
		}},
		{"iterator.ToList", func(tick func(string, int)) fp.List[int] { return iterator.ToList(iter(tick)) }},
		{"list.Collect", func(tick func(string, int)) fp.List[int] { return list.Collect(iter(tick)) }},
		{"list.FromSeq", func(tick func(string, int)) fp.List[int] { return list.FromSeq(fp.Seq[int]{10, 11, 12}) }},
		// the other producers of package list that take a user function or generator (the
		// function of FlatMap-based producers returns non-empty lists: with an empty result the
		// search for the next non-empty one is repeated by head and tail, see r.Extra)
		{"list.FlatMap(one element each)", func(tick func(string, int)) fp.List[int] {
			return list.FlatMap(list.Of(0, 1, 2), func(v int) fp.List[int] { tick("flatmapped function", v); return list.Of(listWant[v]) })
		}},
		{"list.FlatMap(list.Generate)", func(tick func(string, int)) fp.List[int] {
			return list.FlatMap(gen(tick, "generator"), func(v int) fp.List[int] { tick("flatmapped function", v-10); return list.Of(v) })
		}},
		{"list.FlatMap(two and one elements)", func(tick func(string, int)) fp.List[int] {
			return list.FlatMap(list.Of(0, 1), func(v int) fp.List[int] {
				tick("flatmapped function", v)
				if v == 0 {
					return list.Of(10, 11)
				}
				return list.Of(12)
			})
		}},
		{"list.FilterMap(always Some)", func(tick func(string, int)) fp.List[int] {
			return list.FilterMap(list.Of(0, 1, 2), func(v int) fp.Option[int] { tick("filtermapped function", v); return fp.Some(listWant[v]) })
		}},
		{"list.Map2", func(tick func(string, int)) fp.List[int] {
			return list.Map2(list.Of(0, 1, 2), list.Of(10), func(a, b int) int { tick("mapped function", a); return a + b })
		}},
		{"list.Ap", func(tick func(string, int)) fp.List[int] {
			f := func(i int) fp.Func1[int, int] {
				return func(a int) int { tick("applied function", i); return 10 + i + a }
			}
			return list.Ap(list.Of(f(0), f(1), f(2)), list.Of(0))
		}},
		{"list.Flatten(list.Map)", func(tick func(string, int)) fp.List[int] {
			return list.Flatten(list.Map(list.Of(0, 1, 2), func(v int) fp.List[int] { tick("mapped function", v); return list.Of(listWant[v]) }))
		}},
		{"list.Scan", func(tick func(string, int)) fp.List[int] {
			return list.Scan(list.Of(1, 1), 10, func(b, a int) int { tick("scan function", b-10); return b + a })
		}},
		{"list.Combine(Generate,Generate)", func(tick func(string, int)) fp.List[int] {
			l := list.Generate(func(i int) fp.Option[int] {
				tick("left generator", i)
				if i < 2 {
					return fp.Some(10 + i)
				}
				return fp.None[int]()
			})
			r := list.Generate(func(i int) fp.Option[int] {
				tick("right generator", i)
				if i < 1 {
					return fp.Some(12)
				}
				return fp.None[int]()
			})
			return list.Combine(l, r)
		}},
		{"list.Zip3(Generate x3)", func(tick func(string, int)) fp.List[int] {
			z := list.Zip3(gen(tick, "first generator"), gen(tick, "second generator"), gen(tick, "third generator"))
			return list.Map(z, func(t fp.Tuple3[int, int, int]) int {
				tick("mapped function", t.I1-10)
				return (t.I1 + t.I2 + t.I3) / 3
			})
		}},
		{"list.Recurrence2", func(tick func(string, int)) fp.List[int] {
			return list.Recurrence2(10, 11, func(a, b int) int { tick("recurrence step", a-10); return b + 1 })
		}},
		{"list.GenerateFrom", func(tick func(string, int)) fp.List[int] {
			return list.GenerateFrom(5, func(i int) fp.Option[int] { tick("generator", i-5); return some(i - 5) })
		}},
		{"list.Range", func(tick func(string, int)) fp.List[int] { return list.Range(10, 13) }},
		{"list.ReverseSeq", func(tick func(string, int)) fp.List[int] { return list.ReverseSeq(fp.Seq[int]{12, 11, 10}) }},
	}
}

var cellOps = []string{"IsEmpty", "Head", "Tail"}

// listCells: every sequence of IsEmpty / Head / Tail on the cells 0..2 of a lazily produced
// list (Tail(i) yields cell i+1; a cell can be asked again). Values must be those of the
// strict list, and no computation behind a cell runs twice, in whatever order head and tail
// of the same cell are forced.
func listCells(steps int) func(x *mc.X) {
	kinds := listKinds()
	return func(x *mc.X) {
		k := kinds[x.Choose(len(kinds), "list")]
		counts := map[string]int{}
		var order []string
		tick := func(role string, i int) {
			x.Tick()
			key := fmt.Sprintf("%s of cell %d", role, i)
			if counts[key] == 0 {
				order = append(order, key)
			}
			counts[key]++
		}
		var cells []fp.List[int]
		if p := mc.Catch(func() { cells = append(cells, k.build(tick)) }); p != nil {
			x.Fail(k.name+"/panic", "%s: building the list panicked: %v", k.name, p)
		}
		x.Logf("%s, strict contents %v (list.Recurrence1: a prefix)", k.name, listWant)
		headAndTail := map[int]int{}
		for s := 0; s < steps; s++ {
			avail := len(cells)
			if avail > 3 {
				avail = 3
			}
			c := x.Choose(len(cellOps)*avail, "operation x cell")
			op, i := cellOps[c%len(cellOps)], c/len(cellOps)
			empty := i >= len(listWant) && !infiniteLists[k.name]
			if op == "Head" && empty {
				op = "IsEmpty" // Head of the end of the list panics by contract
			}
			var pv any
			switch op {
			case "IsEmpty":
				var got bool
				pv = mc.Catch(func() { got = cells[i].IsEmpty() })
				x.Logf("cell %d .IsEmpty() = %v", i, got)
				if pv == nil && got != empty {
					x.Fail(k.name+"/wrong-value", "%s: cell %d .IsEmpty() = %v, the strict list %v says %v", k.name, i, got, listWant, empty)
				}
				headAndTail[i] |= 1
			case "Head":
				var got int
				pv = mc.Catch(func() { got = cells[i].Head() })
				x.Logf("cell %d .Head() = %d", i, got)
				if pv == nil && got != 10+i {
					x.Fail(k.name+"/wrong-value", "%s: cell %d .Head() = %d, the strict list has %d", k.name, i, got, 10+i)
				}
				headAndTail[i] |= 1
			case "Tail":
				var got fp.List[int]
				pv = mc.Catch(func() { got = cells[i].Tail() })
				x.Logf("cell %d .Tail()", i)
				if pv == nil && i+1 == len(cells) {
					cells = append(cells, got)
				}
				headAndTail[i] |= 2
			}
			if pv != nil {
				x.Fail(k.name+"/panic", "%s: cell %d .%s() panicked: %v", k.name, i, op, pv)
			}
		}
		x.Tag("list=" + k.name)
		both := false
		for _, m := range headAndTail {
			if m == 3 {
				both = true
			}
		}
		if both {
			x.Tag("list/head-and-tail-of-one-cell-forced")
			x.NonTrivial()
		}
		for _, key := range order {
			x.Logf("%s: executed %d times", key, counts[key])
			if counts[key] > 1 {
				role := key[:strings.Index(key, " of cell")]
				x.Fail(k.name+"/"+strings.ReplaceAll(role, " ", "-")+"-ran-twice", "%s: the %s was executed %d times (a memoised list cell runs its computation at most once, whichever of head and tail is forced first)", k.name, key, counts[key])
			}
		}
		x.Observe(k.name, fmt.Sprint(order), len(cells))
	}
}

type boom struct{ n int }

// panicMode: 0 = the thunk panics on its first execution only, 1 = on every execution.
var panicModes = []string{"panics on its first execution only", "panics on every execution"}

// seqPanic: a deferred computation whose execution panics; the caller recovers and asks
// again. Only the number of executions is judged: what a later request returns, or whether
// it panics again, is not stated by the property.
func seqPanic(x *mc.X) {
	kinds := onceKinds()
	k := kinds[x.Choose(len(kinds), "kind")]
	mode := x.Choose(2, "panic mode")
	more := 2 + x.Choose(2, "further requests")
	runs, innerRuns := 0, 0
	get := k.make(func() int {
		x.Tick()
		runs++
		if mode == 1 || runs == 1 {
			panic(boom{runs})
		}
		return 100 + runs
	}, func() { innerRuns++ })
	x.Logf("%s: the thunk %s; requested 1+%d times, every request under recover", k.name, panicModes[mode], more)
	panicked := 0
	for i := 0; i < 1+more; i++ {
		var got int
		p := mc.Catch(func() { got = get() })
		if p != nil {
			panicked++
			x.Logf("request #%d panicked: %v (thunk executions so far: %d)", i+1, p, runs)
		} else {
			x.Logf("request #%d returned %d (thunk executions so far: %d)", i+1, got, runs)
		}
	}
	x.Tag("panic=" + k.name)
	if panicked > 0 {
		x.Tag("panic/first-request-panicked-in-the-caller")
	}
	x.NonTrivial()
	if runs > 1 {
		x.Fail(k.name+"/thunk-ran-twice-after-panic", "%s: the thunk %s and was executed %d times across %d requests (a deferred computation is executed at most once)", k.name, panicModes[mode], runs, 1+more)
	}
	if innerRuns > 1 {
		x.Fail(k.name+"/outer-thunk-ran-twice-after-panic", "%s: the enclosing thunk was executed %d times across %d requests after the inner thunk panicked", k.name, innerRuns, 1+more)
	}
	x.Observe(k.name, mode, more, runs, innerRuns)
}

// concPanic: two threads demand a shared deferred computation whose thunk panics after a
// scheduling point; every caller recovers.
func concPanic(k onceKind) func(x *mc.X) {
	return func(x *mc.X) {
		mode := x.Choose(2, "panic mode")
		gets := 1 + x.Choose(2, "demands per thread")
		const threads = 2
		runs, innerRuns := 0, 0
		get := k.make(func() int {
			runs++
			r := runs
			x.Point("thunk", "inside the thunk body, before the panic")
			if mode == 1 || r == 1 {
				panic(boom{r})
			}
			return 100 + r
		}, func() {
			innerRuns++
			x.Point("outer-thunk", "inside the outer thunk body")
		})
		x.Logf("%s shared by %d threads, %d demands each; the thunk %s", k.name, threads, gets, panicModes[mode])
		returned := make([]int, threads)
		for i := 0; i < threads; i++ {
			i := i
			x.Go(fmt.Sprintf("t%d", i), func() {
				for g := 0; g < gets; g++ {
					mc.Catch(func() { get() })
					returned[i]++
				}
			})
		}
		blocked := x.AwaitQuiescence()
		if x.HasFailed() {
			return
		}
		x.Tag(fmt.Sprintf("conc-panic=%s/%s", k.name, panicModes[mode]))
		if x.Interacted() {
			x.NonTrivial()
		}
		x.Logf("thunk executions: %d, outer thunk executions: %d, requests completed per thread: %v", runs, innerRuns, returned)
		if len(blocked) > 0 {
			x.Fail(k.name+"/blocked-after-panic", "%s: threads still blocked at quiescence after the thunk panicked: %v", k.name, blocked)
		}
		if runs > 1 {
			x.Fail(k.name+"/thunk-ran-twice-after-panic", "%s: the thunk %s and was executed %d times under concurrent demand", k.name, panicModes[mode], runs)
		}
		if innerRuns > 1 {
			x.Fail(k.name+"/outer-thunk-ran-twice-after-panic", "%s: the enclosing thunk was executed %d times under concurrent demand after the inner thunk panicked", k.name, innerRuns)
		}
		x.Observe(mode, gets, runs, innerRuns)
	}
}

// ---------------------------------------------------------------- (b) stack safety

type stackProbe struct {
	x       *mc.X
	steps   int
	base    int
	maxD    int
	maxAt   int
	sampled int
	every   int
	bad     string
	pcs     [1024]uintptr
	variant string
	fn      string
}

var probe *stackProbe

// step is called at the top of every recursive function of the stack scenarios.
func step() {
	p := probe
	k := p.steps
	p.steps++
	if k < 4 || k%p.every == 0 || k&(k-1) == 0 {
		d := runtime.Callers(0, p.pcs[:])
		p.sampled++
		if k < 4 {
			if d > p.base {
				p.base = d
			}
		}
		if d > p.maxD {
			p.maxD, p.maxAt = d, k
		}
		// stack space independent of the depth: the number of frames above the recursive
		// function may not keep growing with the step number (slack of 32 frames over the
		// first four steps)
		if d > p.base+32 {
			p.x.Fail(p.fn+"/stack-grows", "%s: %d call frames at step %d, %d frames during the first steps: the stack grows with the recursion depth",
				p.variant, d, k, p.base)
		}
	}
}

func badArgs(arity int) {
	probe.bad = fmt.Sprintf("TailCall%d delivered wrong arguments", arity)
}

func closureCountdown(n, acc int) lazy.Eval[int] {
	step()
	if n == 0 {
		return lazy.Done(acc)
	}
	return lazy.TailCall(func() lazy.Eval[int] { return closureCountdown(n-1, acc+1) })
}

func isEven1(n int) lazy.Eval[int] {
	step()
	if n == 0 {
		return lazy.Done(1)
	}
	return lazy.TailCall1(isOdd1, n-1)
}

func isOdd1(n int) lazy.Eval[int] {
	step()
	if n == 0 {
		return lazy.Done(0)
	}
	return lazy.TailCall1(isEven1, n-1)
}

func isEven0(n int) lazy.Eval[int] {
	step()
	if n == 0 {
		return lazy.Done(1)
	}
	return lazy.TailCall(func() lazy.Eval[int] { return isOdd0(n - 1) })
}

func isOdd0(n int) lazy.Eval[int] {
	step()
	if n == 0 {
		return lazy.Done(0)
	}
	return lazy.TailCall(func() lazy.Eval[int] { return isEven0(n - 1) })
}

// tail-recursive loops whose base case is the zero value Eval[int]{} (value 0)
func zeroBase0(n int) lazy.Eval[int] {
	step()
	if n == 0 {
		return lazy.Eval[int]{}
	}
	return lazy.TailCall(func() lazy.Eval[int] { return zeroBase0(n - 1) })
}

func zeroBase1(n int) lazy.Eval[int] {
	step()
	if n == 0 {
		return lazy.Eval[int]{}
	}
	return lazy.TailCall1(zeroBase1, n-1)
}

func zeroBase3(n, a, b int) lazy.Eval[int] {
	step()
	if a != 7 || b != 8 {
		badArgs(3)
	}
	if n == 0 {
		return lazy.Eval[int]{}
	}
	return lazy.TailCall3(zeroBase3, n-1, a, b)
}

// three functions calling each other in a ring through TailCall3/TailCall2/TailCall1
func ringA(n, acc, tag int) lazy.Eval[int] {
	step()
	if n == 0 {
		return lazy.Done(acc*10 + tag)
	}
	return lazy.TailCall2(ringB, n-1, acc+1)
}

func ringB(n, acc int) lazy.Eval[int] {
	step()
	if n == 0 {
		return lazy.Done(acc*10 + 2)
	}
	return lazy.TailCall1(ringC, [2]int{n - 1, acc + 1})
}

func ringC(a [2]int) lazy.Eval[int] {
	step()
	if a[0] == 0 {
		return lazy.Done(a[1]*10 + 3)
	}
	return lazy.TailCall3(ringA, a[0]-1, a[1]+1, 1)
}

type stackVariant struct {
	name  string
	fn    string          // the library function the recursion goes through (violation keys)
	run   func(n int) int // builds and evaluates without retaining the Eval
	want  func(n int) int
	steps func(n int) int
}

func stackVariants() []stackVariant {
	vs := []stackVariant{
		{"TailCall", "lazy.TailCall", func(n int) int {
			return lazy.TailCall(func() lazy.Eval[int] { return closureCountdown(n, 0) }).Get()
		}, func(n int) int { return n }, func(n int) int { return n + 1 }},
	}
	for a := 1; a <= maxTailCallArity; a++ {
		a := a
		want := func(n int) int { return n }
		if a == 1 {
			want = func(n int) int { return -1 }
		}
		vs = append(vs, stackVariant{fmt.Sprintf("TailCall%d", a), fmt.Sprintf("lazy.TailCall%d", a), func(n int) int { return startCountdown(a, n).Get() }, want, func(n int) int { return n + 1 }})
	}
	parity := func(n int) int { return 1 - n%2 }
	vs = append(vs,
		stackVariant{"mutual(TailCall1)", "lazy.TailCall1", func(n int) int { return lazy.TailCall1(isEven1, n).Get() }, parity, func(n int) int { return n + 1 }},
		stackVariant{"mutual(TailCall)", "lazy.TailCall", func(n int) int {
			return lazy.TailCall(func() lazy.Eval[int] { return isEven0(n) }).Get()
		}, parity, func(n int) int { return n + 1 }},
		stackVariant{"ring(TailCall3,2,1)", "lazy.TailCall3", func(n int) int { return lazy.TailCall3(ringA, n, 0, 1).Get() },
			func(n int) int { return n*10 + []int{1, 2, 3}[n%3] }, func(n int) int { return n + 1 }},
	)
	zero := func(int) int { return 0 }
	vs = append(vs,
		stackVariant{"TailCall/base case Eval{}", "lazy.TailCall", func(n int) int {
			return lazy.TailCall(func() lazy.Eval[int] { return zeroBase0(n) }).Get()
		}, zero, func(n int) int { return n + 1 }},
		stackVariant{"TailCall1/base case Eval{}", "lazy.TailCall1", func(n int) int { return lazy.TailCall1(zeroBase1, n).Get() }, zero, func(n int) int { return n + 1 }},
		stackVariant{"TailCall3/base case Eval{}", "lazy.TailCall3", func(n int) int { return lazy.TailCall3(zeroBase3, n, 7, 8).Get() }, zero, func(n int) int { return n + 1 }},
	)
	return vs
}

func runStack(x *mc.X, v stackVariant, n int, every int) {
	old := debug.SetMaxStack(1 << 20)
	defer debug.SetMaxStack(old)
	probe = &stackProbe{x: x, every: every, variant: v.name, fn: v.fn}
	defer func() { probe = nil }()
	x.Logf("%s, recursion depth %d, stack limit 1 MiB", v.name, n)
	var got int
	if p := mc.Catch(func() { got = v.run(n) }); p != nil {
		x.Fail(v.fn+"/panic", "%s depth %d panicked: %v", v.name, n, p)
	}
	p := probe
	x.Logf("result %d after %d steps; call frames: first steps %d, maximum %d (at step %d), %d samples", got, p.steps, p.base, p.maxD, p.maxAt, p.sampled)
	if got != v.want(n) {
		x.Fail(v.fn+"/wrong-value", "%s depth %d = %d, want %d", v.name, n, got, v.want(n))
	}
	if p.steps != v.steps(n) {
		x.Fail(v.fn+"/thunk-executions", "%s depth %d: the recursive function ran %d times, want %d (each TailCall thunk exactly once)", v.name, n, p.steps, v.steps(n))
	}
	if p.bad != "" {
		x.Fail(v.fn+"/arguments", "%s depth %d: %s", v.name, n, p.bad)
	}
	x.Observe(v.name, n, got, p.maxD-p.base)
}

// ---------------------------------------------------------------- (c) concurrent demand

type onceKind struct {
	name string
	// make wraps thunk (which returns 100+its execution number) into a shared deferred
	// computation and returns the function the callers use to demand it. inner is called
	// inside a second, nested deferred computation where the kind has one.
	make func(thunk func() int, inner func()) func() int
}

func onceKinds() []onceKind {
	return []onceKind{
		{"lazy.Call", func(th func() int, _ func()) func() int { e := lazy.Call(th); return e.Get }},
		{"lazy.TailCall", func(th func() int, _ func()) func() int {
			e := lazy.TailCall(func() lazy.Eval[int] { return lazy.Done(th()) })
			return e.Get
		}},
		{"lazy.TailCall1", func(th func() int, _ func()) func() int {
			e := lazy.TailCall1(func(d int) lazy.Eval[int] { return lazy.Done(th() + d) }, 0)
			return e.Get
		}},
		{"lazy.Memoize", func(th func() int, _ func()) func() int { return lazy.Memoize(th) }},
		{"fp.Memoize", func(th func() int, _ func()) func() int {
			m := fp.Memoize(th)
			return func() int { return m.Apply() }
		}},
		{"fp.MakeList/head", func(th func() int, _ func()) func() int {
			l := fp.MakeList(func() fp.Option[int] { return fp.Some(th()) }, func() fp.List[int] { return list.Empty[int]() })
			return func() int {
				if l.IsEmpty() {
					return -1
				}
				return l.Head()
			}
		}},
		{"fp.MakeList/tail", func(th func() int, _ func()) func() int {
			l := fp.MakeList(func() fp.Option[int] { return fp.Some(0) }, func() fp.List[int] { return list.Of(th()) })
			return func() int { return l.Tail().Head() }
		}},
		{"list.Generate/cell", func(th func() int, _ func()) func() int {
			l := list.Generate(func(i int) fp.Option[int] {
				if i == 0 {
					return fp.Some(th())
				}
				return fp.None[int]()
			})
			return func() int { return l.Head() }
		}},
		{"list.Map/cell", func(th func() int, _ func()) func() int {
			l := list.Map(list.Of(7), func(int) int { return th() })
			return func() int { return l.Head() }
		}},
		{"list.Collect/cell", func(th func() int, _ func()) func() int {
			// the first element is pulled eagerly by Collect; executing the tail cell pulls one
			// more, so every further pull is one execution of that deferred cell
			i := 0
			l := list.Collect(fp.MakeIterator(func() bool { return i < 5 }, func() int {
				i++
				if i >= 2 {
					return th()
				}
				return i
			}))
			return func() int { return l.Tail().Head() }
		}},
		{"lazy.Call.Map", func(th func() int, _ func()) func() int {
			e := lazy.Call(th).Map(func(a int) int { return a })
			return e.Get
		}},
		{"lazy.TailCall>Call", func(th func() int, inner func()) func() int {
			e := lazy.TailCall(func() lazy.Eval[int] {
				inner()
				return lazy.Call(th)
			})
			return e.Get
		}},
		{"lazy.Map2(Call,Call)", func(th func() int, inner func()) func() int {
			e := lazy.Map2(lazy.Call(func() int { inner(); return 0 }), lazy.Call(th), func(a, b int) int { return a + b })
			return e.Get
		}},
	}
}

func concScenario(k onceKind, shapes [][2]int) func(x *mc.X) {
	return func(x *mc.X) {
		sh := shapes[x.Choose(len(shapes), "threads x demands per thread")]
		threads, gets := sh[0], sh[1]
		x.Logf("%s shared by %d threads, %d demands each", k.name, threads, gets)
		runs, innerRuns := 0, 0
		thunk := func() int {
			runs++
			r := runs
			x.Point("thunk", "inside the thunk body")
			return 100 + r
		}
		inner := func() {
			innerRuns++
			x.Point("outer-thunk", "inside the outer thunk body")
		}
		get := k.make(thunk, inner)
		results := make([][]int, threads)
		for i := 0; i < threads; i++ {
			i := i
			x.Go(fmt.Sprintf("t%d", i), func() {
				for g := 0; g < gets; g++ {
					results[i] = append(results[i], get())
				}
			})
		}
		blocked := x.AwaitQuiescence()
		if x.HasFailed() {
			return
		}
		if len(blocked) > 0 {
			x.Fail(k.name+"/blocked", "%s: threads still blocked at quiescence: %v", k.name, blocked)
		}
		x.Logf("thunk executions: %d, outer thunk executions: %d, results per thread: %v", runs, innerRuns, results)
		if runs > 1 {
			x.Fail(k.name+"/thunk-ran-twice", "%s: the thunk was executed %d times under concurrent demand; results %v", k.name, runs, results)
		}
		if innerRuns > 1 {
			x.Fail(k.name+"/outer-thunk-ran-twice", "%s: the outer thunk was executed %d times under concurrent demand", k.name, innerRuns)
		}
		for i, rs := range results {
			if len(rs) != gets {
				x.Fail(k.name+"/caller-did-not-return", "%s: thread t%d returned from %d of %d calls", k.name, i, len(rs), gets)
			}
			for _, v := range rs {
				if v != results[0][0] {
					x.Fail(k.name+"/callers-disagree", "%s: callers received different values: %v", k.name, results)
				}
				if v != 101 {
					x.Fail(k.name+"/wrong-value", "%s: a caller received %d, the single execution of the thunk returned 101; results %v", k.name, v, results)
				}
			}
		}
		x.Observe(runs, innerRuns, fmt.Sprint(results))
		if x.Interacted() {
			x.NonTrivial()
		}
		x.Tag(fmt.Sprintf("conc=%s/threads=%d,demands=%d", k.name, threads, gets))
	}
}

func main() {
	mc.Main("C16", func(r *mc.Registry) {
		r.Rule = "eval/*: every expression tree with at most N nodes over {Done 1|2, Call ->3, the zero value Eval[int]{} (= 0), Done(arg) under a FlatMap binder, TailCall, TailCall2, Map f, FlatMap, Map2 g} x Get called 0..3 times x (methods | package functions); non-trivial = demanded and at least two nodes, or a thunk demanded at least twice; distinct = (program, gets, value, thunk executions). " +
			"stack/*: variant x every depth 0..2000, and variant x ladder rung; call frames sampled inside the recursive function at steps 0..3, powers of two and every 128th (ladder: 65536th) step. " +
			"eval/list-cells: lazily produced list in {fp.MakeList, list.Generate, list.Map over a strict and over a generated list, list.Zip, list.Recurrence1, iterator.ToList, list.Collect, list.FromSeq} x every sequence of 4 (thorough 5) operations IsEmpty/Head/Tail on the cells 0..2 reached so far; values against the strict list, every head thunk / tail thunk / generator / mapped function / iterator pull / recurrence step at most once per cell; non-trivial = head and tail of one cell both forced. " +
			"eval/zero-value: Eval[int]{} as receiver/argument of Get, Run, Resume, Map, FlatMap, Map2 and as the result of FlatMap continuations and TailCall/TailCall1 thunks, evaluated 1..2 times; the stack scenarios include loops whose base case is Eval[int]{}. " +
			"eval/shared-base: (start in {Done, Call, TailCall, Map2, Eval{}} x bind pattern in {Map, FlatMap->Done, Map2(base,_), Map2(_,base), mixed, FlatMap->Call|TailCall} x 0..12 binds) = one shared base Eval value x (every ordered pair of 8 different extensions through Map/FlatMap/Map2 (one returns Eval{}), and 8 triples) x 5 build/evaluation orders; every derived program is compared with strict evaluation, every thunk incl. those of the shared base runs <= 1 time. " +
			"eval/panicking-thunk: deferred-computation kind x (thunk panics on its first execution only | on every execution) x 3..4 requests, each under recover; conc-panic/*: the same thunks (panic after a scheduling point) demanded by 2 threads 1..2 times each, every interleaving. Only the execution count (<= 1) is judged there. " +
			"conc-noreduction/*: the shapes 2x1, 2x2, 3x1 of conc/* again without sleep sets, every schedule with at most 3 preemptions (catches conflicts on plain variables that the cell-based independence relation cannot see). " +
			"conc/*: every interleaving (sleep sets) of the threads at every sync.Once entry/exit of the library and at a point inside each thunk body; non-trivial = the scheduler switched between two started threads"
		r.Assumptions = []string{
			"'executed at most once, even when the result is requested repeatedly' is read literally: it also holds for a thunk whose execution panicked (sync.Once marks itself done on panic); what later requests return, or whether they panic, is not demanded",
			"the zero value lazy.Eval[T]{} is a legal program denoting the zero value of T (Eval.Resume documents and implements it; reflectfp.LazyCall starts from reflect.Zero of the Eval type)",
			"the strict interpreter in the driver (direct recursion over the same tree) defines 'the same value as direct strict evaluation'",
			"call-stack depth is measured in frames (runtime.Callers) and by the 1 MiB runtime stack limit; a fatal stack overflow kills the worker and is reported with key crash",
			"the ladder 10^4..2*10^7 is a finite set of depths, not an enumeration of all depths up to 2*10^7; every depth is enumerated up to 2000",
			"the overlay shim of sync.Once (entry blocks while another caller runs the function, done is set when the function returns) preserves the semantics of sync.Once; plain memory accesses between two scheduling points are attributed to the preceding point",
		}
		if !mc.Instrumented {
			panic("C16 must be built with the overlay (-tags verifrt)")
		}
		maxNodes := 5
		if r.Thorough() {
			maxNodes = 6
		}
		sc := r.Seq("eval/trees", evalScenario(maxNodes))
		sc.SplitDepth = 3
		sc.Shard = true
		sc = r.Seq("eval/shared-base", sharedBase)
		sc.SplitDepth = 2
		sc.Shard = true
		r.Seq("eval/zero-value", zeroValue)
		cellSteps := 4
		if r.Thorough() {
			cellSteps = 5
		}
		sc = r.Seq("eval/list-cells", listCells(cellSteps))
		sc.SplitDepth = 2
		sc.Shard = true
		r.Seq("eval/memoize-sequential", seqOnce)
		r.Seq("eval/panicking-thunk", seqPanic)

		// (b)
		variants := stackVariants()
		var vnames []string
		for _, v := range variants {
			vnames = append(vnames, v.name)
		}
		// one flat choice (depth, variant) so that a worker never has to execute a prefix it
		// does not own
		sc = r.Seq("stack/every-depth<=2000", func(x *mc.X) {
			c := x.Choose(2001*len(variants), "depth x variant")
			n := c / len(variants)
			v := variants[c%len(variants)]
			runStack(x, v, n, 128)
			if n >= 64 {
				x.NonTrivial()
			}
			x.Tag("stack=" + v.name)
		})
		sc.SplitDepth = 1
		sc.Shard = true
		ladder := []int{10000, 100000, 1000000}
		if r.Thorough() {
			ladder = append(ladder, 10000000, 20000000)
		}
		sc = r.Seq("stack/ladder", func(x *mc.X) {
			c := x.Choose(len(ladder)*len(variants), "rung x variant")
			n := ladder[c/len(variants)]
			v := variants[c%len(variants)]
			runStack(x, v, n, 65536)
			x.NonTrivial()
			x.Tag(fmt.Sprintf("ladder=%d", n))
		})
		sc.SplitDepth = 1
		sc.Shard = true

		// (c)
		var cnames []string
		for _, k := range onceKinds() {
			cnames = append(cnames, k.name)
			shapes := [][2]int{{2, 1}, {2, 2}, {3, 1}}
			if r.Thorough() {
				shapes = append(shapes, [2]int{3, 2}, [2]int{4, 1})
			}
			sc := r.Conc("conc/"+k.name, -1, concScenario(k, shapes))
			sc.SplitDepth = 3
			sc = r.Conc("conc-panic/"+k.name, -1, concPanic(k))
			sc.SplitDepth = 3
			// The sleep-set reduction judges independence by the cell of the hooked operation
			// only; a plain variable written after the thunk returns and read by another
			// caller right after an atomic flag (a memo that publishes "done" before the
			// value) is a conflict it cannot see. The same shapes are therefore also explored
			// without reduction, every schedule with at most 3 preemptions.
			sc = r.Conc("conc-noreduction/"+k.name, 3, concScenario(k, [][2]int{{2, 1}, {2, 2}, {3, 1}}))
			sc.SplitDepth = 3
		}
		r.Extra["bounds"] = map[string]any{
			"max_nodes":          maxNodes,
			"constructors":       opNames,
			"unary_functions":    unaryFNames,
			"binary_functions":   binaryGNames,
			"get_calls":          "0..3",
			"stack_variants":     vnames,
			"every_depth_up_to":  2000,
			"ladder":             ladder,
			"stack_limit_bytes":  1 << 20,
			"concurrent_kinds":   cnames,
			"concurrent_threads": "2..3 (thorough: ..4), 1..2 demands per thread, all interleavings",
		}
		r.Extra["uncovered"] = []string{
			"depths between 2000 and 2*10^7 other than the ladder rungs (a run at every depth is infeasible; stack depth in frames is constant from step 4 on in every run made)",
			"TailCallN for N beyond 9 does not exist in lazy/tailcall_gen.go (genfp.MaxFunc = 10 is exclusive)",
			"seq/list/iterator.FoldRight: built on TailCall but not tail-recursive (the combining function runs after the recursive result), so the property's stack claim does not apply; their memoised cells are covered through fp.MakeList and list.Generate",
			"fn1.Memoize (memoises on the first argument only; not named by the property)",
			"a thunk that demands itself re-entrantly (sync.Once self-deadlock; not part of the statement)",
			"heap retention of a demanded TailCall chain (the property speaks about stack space only)",
		}
	})
}
