// C02 — failure short-circuits left to right; callbacks run exactly as the definition runs
// them; successes pass through Recover*/OrElse*/Or* untouched; panics of a supplied function are
// captured as a Failure exposing the panic value.
//
// The catalogue drivers (every combinator of option/try/either/statet at every arity, every
// subset of failing positions, instrumented callbacks) are shared with C01: package
// verif/harness/c01/drv and the generated packages below it; this file adds the hand-written
// recover and panic scenarios.
package main

import (
	"errors"
	"fmt"
	"reflect"
	"runtime"
	"strings"

	"github.com/csgura/fp"
	"github.com/csgura/fp/either"
	"github.com/csgura/fp/future"
	"github.com/csgura/fp/try"
	"verif/harness/c01/cat"
	"verif/harness/c01/drv"
	"verif/mc"
)

// ---------------------------------------------------------------------------------------------
// recover scenarios

// rc is the context of one recover execution: the handler log and the letters picked.
type rc struct {
	x   *mc.X
	log []string
}

func (c *rc) call(id string, args ...any) {
	c.x.Tick()
	var s []string
	for _, a := range args {
		if err, ok := a.(error); ok {
			s = append(s, drv.ErrName(err))
		} else {
			s = append(s, fmt.Sprint(a))
		}
	}
	c.log = append(c.log, id+"("+strings.Join(s, ",")+")")
}

// recCase is one Recover/Or-like method: call applies it to m with logging handlers; onFail
// gives, for a failed m carrying err (tok = its rendering), the demanded result and handler log.
// The handlers whose every invocation is only checked to carry the original error (predicates)
// log under the id "defined".
type recCase[M any] struct {
	name   string
	call   func(c *rc, m M) any
	onFail func(c *rc, err string, plain string) (res string, log []string)
}

func runRec[M any](r *mc.Registry, pkg string, dom []domEntry[M], cases []recCase[M]) {
	for _, cs := range cases {
		cs := cs
		r.Seq("recover/"+pkg+"."+cs.name, func(x *mc.X) {
			drv.NewEnv(x, "C02", pkg+"."+cs.name, true)
			d := dom[x.Choose(len(dom), "m")]
			c := &rc{x: x}
			plain := drv.Show(d.mk(c))
			c.log = nil
			got := drv.Show(cs.call(c, d.mk(c)))
			// calls made while rendering (running a StateT) are part of the handler log
			x.Logf("%s.%s on %s -> %s, handler calls %v", pkg, cs.name, d.name, got, c.log)
			handlerLog, predLog := []string{}, []string{}
			for _, l := range c.log {
				if strings.HasPrefix(l, "defined(") {
					predLog = append(predLog, l)
				} else if !strings.HasPrefix(l, "op(") {
					handlerLog = append(handlerLog, l)
				}
			}
			x.Tag(pkg + "." + cs.name)
			if d.fail == "" {
				x.Tag("success")
				want := plain
				if strings.HasPrefix(cs.name, "OrElse") || strings.HasPrefix(cs.name, "OrZero") {
					want = plain[strings.Index(plain, "(")+1 : len(plain)-1] // these return the value itself
				}
				if got != want {
					x.Fail("success-changed", "%s.%s changed the successful value %s into %s", pkg, cs.name, plain, got)
				}
				if len(handlerLog)+len(predLog) > 0 {
					x.Fail("handler-on-success", "%s.%s invoked its handler on the successful value %s: %v", pkg, cs.name, plain, c.log)
				}
				x.Observe(got)
				return
			}
			x.Tag("failure")
			x.NonTrivial()
			want, wantLog := cs.onFail(c, d.fail, plain)
			for _, l := range predLog {
				if !strings.Contains(l, "("+d.fail+")") && !strings.Contains(l, ","+d.fail+")") {
					x.Fail("handler-wrong-error", "%s.%s passed %s to its predicate, the failure carries %s", pkg, cs.name, l, d.fail)
				}
			}
			if strings.Join(handlerLog, " ") != strings.Join(wantLog, " ") {
				key := "handler-calls"
				if len(handlerLog) == len(wantLog) {
					key = "handler-wrong-error"
				}
				x.Fail(key, "%s.%s on %s: handler calls %v, want %v (exactly once, with the original error)", pkg, cs.name, d.name, handlerLog, wantLog)
			}
			if got != want {
				x.Fail("recovered-value", "%s.%s on %s returned %s, want %s", pkg, cs.name, d.name, got, want)
			}
			x.Observe(got, len(c.log))
		})
	}
}

type domEntry[M any] struct {
	name string
	mk   func(c *rc) M
	fail string // rendering of the failure ("" = success)
}

func registerRecover(r *mc.Registry) {
	E := drv.E
	// ---- fp.Try methods --------------------------------------------------------------------
	tryDom := []domEntry[fp.Try[string]]{
		{"Success(a)", func(*rc) fp.Try[string] { return fp.Success("a") }, ""},
		{`Success("")`, func(*rc) fp.Try[string] { return fp.Success("") }, ""},
		{"Failure(e1)", func(*rc) fp.Try[string] { return fp.Failure[string](E[1]) }, "e1"},
		{"Failure(e2)", func(*rc) fp.Try[string] { return fp.Failure[string](E[2]) }, "e2"},
		// the library's own errors: a handler must receive them like any other error
		{"Failure(ErrOptionEmpty)", func(*rc) fp.Try[string] { return fp.Failure[string](fp.ErrOptionEmpty) }, "ErrOptionEmpty"},
		{"FromOption(None)", func(*rc) fp.Try[string] { return try.FromOption(fp.None[string]()) }, "ErrOptionEmpty"},
		{"Failure(ErrTryNotFailed)", func(*rc) fp.Try[string] { return fp.Failure[string](fp.ErrTryNotFailed) }, "ErrTryNotFailed"},
		{"Failure(ErrFutureNotFailed)", func(*rc) fp.Try[string] { return fp.Failure[string](fp.ErrFutureNotFailed) }, "ErrFutureNotFailed"},
		{"Failure(wrapped ErrOptionEmpty)", func(*rc) fp.Try[string] { return fp.Failure[string](drv.WrappedOptionEmpty) }, "wrapped(ErrOptionEmpty)"},
	}
	isE1 := func(c *rc, l int) func(error) bool {
		return func(err error) bool {
			c.call("defined", err)
			return l == 0 || (l == 2 && err == E[1])
		}
	}
	definedFor := func(l int, err string) bool { return l == 0 || (l == 2 && err == "e1") }
	var lDef, lAlt int
	runRec(r, "Try", tryDom, []recCase[fp.Try[string]]{
		{"OrElse", func(c *rc, m fp.Try[string]) any { return m.OrElse("alt") },
			func(c *rc, err, plain string) (string, []string) { return "alt", nil }},
		{"OrZero", func(c *rc, m fp.Try[string]) any { return m.OrZero() },
			func(c *rc, err, plain string) (string, []string) { return "", nil }},
		{"OrElseGet", func(c *rc, m fp.Try[string]) any {
			return m.OrElseGet(func() string { c.call("f"); return "alt" })
		}, func(c *rc, err, plain string) (string, []string) { return "alt", []string{"f()"} }},
		{"Or", func(c *rc, m fp.Try[string]) any {
			lAlt = c.x.Choose(2, "alt")
			return m.Or(func() fp.Try[string] { c.call("f"); return altTry(lAlt) })
		}, func(c *rc, err, plain string) (string, []string) { return drv.Show(altTry(lAlt)), []string{"f()"} }},
		{"OrTry", func(c *rc, m fp.Try[string]) any {
			lAlt = c.x.Choose(2, "alt")
			return m.OrTry(altTry(lAlt))
		}, func(c *rc, err, plain string) (string, []string) { return drv.Show(altTry(lAlt)), nil }},
		{"Recover", func(c *rc, m fp.Try[string]) any {
			return m.Recover(func(err error) string { c.call("f", err); return "rec" })
		}, func(c *rc, err, plain string) (string, []string) { return "S(rec)", []string{"f(" + err + ")"} }},
		{"RecoverWith", func(c *rc, m fp.Try[string]) any {
			lAlt = c.x.Choose(2, "alt")
			return m.RecoverWith(func(err error) fp.Try[string] { c.call("f", err); return altTry(lAlt) })
		}, func(c *rc, err, plain string) (string, []string) {
			return drv.Show(altTry(lAlt)), []string{"f(" + err + ")"}
		}},
		{"RecoverCase", func(c *rc, m fp.Try[string]) any {
			lDef = c.x.Choose(3, "isDefinedAt")
			return m.RecoverCase(isE1(c, lDef), func(err error) string { c.call("then", err); return "rec" })
		}, func(c *rc, err, plain string) (string, []string) {
			if definedFor(lDef, err) {
				return "S(rec)", []string{"then(" + err + ")"}
			}
			return plain, nil
		}},
		{"RecoverCaseWith", func(c *rc, m fp.Try[string]) any {
			lDef = c.x.Choose(3, "isDefinedAt")
			lAlt = c.x.Choose(2, "alt")
			return m.RecoverCaseWith(isE1(c, lDef), func(err error) fp.Try[string] { c.call("then", err); return altTry(lAlt) })
		}, func(c *rc, err, plain string) (string, []string) {
			if definedFor(lDef, err) {
				return drv.Show(altTry(lAlt)), []string{"then(" + err + ")"}
			}
			return plain, nil
		}},
	})

	// ---- fp.Option methods -----------------------------------------------------------------
	optDom := []domEntry[fp.Option[string]]{
		{"Some(a)", func(*rc) fp.Option[string] { return fp.Some("a") }, ""},
		{`Some("")`, func(*rc) fp.Option[string] { return fp.Some("") }, ""},
		{"None", func(*rc) fp.Option[string] { return fp.None[string]() }, "None"},
		{"zero-value", func(*rc) fp.Option[string] { return fp.Option[string]{} }, "None"},
	}
	runRec(r, "Option", optDom, []recCase[fp.Option[string]]{
		{"OrElse", func(c *rc, m fp.Option[string]) any { return m.OrElse("alt") },
			func(c *rc, err, plain string) (string, []string) { return "alt", nil }},
		{"OrZero", func(c *rc, m fp.Option[string]) any { return m.OrZero() },
			func(c *rc, err, plain string) (string, []string) { return "", nil }},
		{"OrElseGet", func(c *rc, m fp.Option[string]) any {
			return m.OrElseGet(func() string { c.call("f"); return "alt" })
		}, func(c *rc, err, plain string) (string, []string) { return "alt", []string{"f()"} }},
		{"Or", func(c *rc, m fp.Option[string]) any {
			lAlt = c.x.Choose(2, "alt")
			return m.Or(func() fp.Option[string] { c.call("f"); return drv.AltOption(lAlt) })
		}, func(c *rc, err, plain string) (string, []string) {
			return drv.Show(drv.AltOption(lAlt)), []string{"f()"}
		}},
		{"OrOption", func(c *rc, m fp.Option[string]) any {
			lAlt = c.x.Choose(2, "alt")
			return m.OrOption(drv.AltOption(lAlt))
		}, func(c *rc, err, plain string) (string, []string) { return drv.Show(drv.AltOption(lAlt)), nil }},
		{"OrPtr", func(c *rc, m fp.Option[string]) any {
			lAlt = c.x.Choose(2, "alt")
			return m.OrPtr(drv.AltPtr(lAlt))
		}, func(c *rc, err, plain string) (string, []string) { return drv.Show(drv.AltOption(lAlt)), nil }},
		{"Recover", func(c *rc, m fp.Option[string]) any {
			return m.Recover(func() string { c.call("f"); return "rec" })
		}, func(c *rc, err, plain string) (string, []string) { return "Some(rec)", []string{"f()"} }},
	})

	// ---- Either ----------------------------------------------------------------------------
	eitherDom := []domEntry[fp.Either[string, string]]{
		{"Right(a)", func(*rc) fp.Either[string, string] { return fp.Right[string]("a") }, ""},
		{`Right("")`, func(*rc) fp.Either[string, string] { return fp.Right[string]("") }, ""},
		{"Left(l1)", func(*rc) fp.Either[string, string] { return fp.Left[string, string]("l1") }, "L(l1)"},
	}
	runRec(r, "Either", eitherDom, []recCase[fp.Either[string, string]]{
		{"Recover", func(c *rc, m fp.Either[string, string]) any {
			return m.Recover(func() string { c.call("f"); return "rec" })
		}, func(c *rc, err, plain string) (string, []string) { return "R(rec)", []string{"f()"} }},
		{"OrElse(either)", func(c *rc, m fp.Either[string, string]) any { return either.OrElse(m, "alt") },
			func(c *rc, err, plain string) (string, []string) { return "alt", nil }},
		{"OrElseGet(either)", func(c *rc, m fp.Either[string, string]) any {
			return either.OrElseGet(m, func() string { c.call("f"); return "alt" })
		}, func(c *rc, err, plain string) (string, []string) { return "alt", []string{"f()"} }},
	})

	// ---- fp.StateT methods -----------------------------------------------------------------
	// The action moves the state (also when it fails); every result is rendered on the initial
	// states 0,1,2, so the handler is demanded once per run. Which state a state-aware handler
	// receives is not demanded here (C17).
	type ST = fp.StateT[int, string]
	mkST := func(fail error) func(c *rc) ST {
		return func(c *rc) ST {
			return func(s int) (fp.Try[string], int) {
				c.call("op", s)
				if fail != nil {
					return fp.Failure[string](fail), 3*s + 1
				}
				return fp.Success("a" + drv.Itoa(s)), 3*s + 1
			}
		}
	}
	stDom := []domEntry[ST]{
		{"succeeds", mkST(nil), ""},
		{"fails(e1)", mkST(E[1]), "e1"},
		{"fails(e2)", mkST(E[2]), "e2"},
		{"fails(ErrOptionEmpty)", mkST(fp.ErrOptionEmpty), "ErrOptionEmpty"},
		{"fails(ErrTryNotFailed)", mkST(fp.ErrTryNotFailed), "ErrTryNotFailed"},
	}
	runs := func(f func(s int) string) string { // rendering of a state function on 0,1,2
		var b []string
		for _, s := range drv.States {
			b = append(b, fmt.Sprintf("%d->%s", s, f(s)))
		}
		return "{" + strings.Join(b, " ") + "}"
	}
	times3 := func(l string) []string { return []string{l, l, l} }
	altST := func(c *rc, l int) ST {
		return func(s int) (fp.Try[string], int) {
			if l == 0 {
				return fp.Failure[string](E[0]), s + 1
			}
			return fp.Success("alt"), s + 1
		}
	}
	altSTShow := func(l int, s int) string {
		if l == 0 {
			return fmt.Sprintf("(F(ek),%d)", s+1)
		}
		return fmt.Sprintf("(S(alt),%d)", s+1)
	}
	runRec(r, "StateT", stDom, []recCase[ST]{
		{"Recover", func(c *rc, m ST) any {
			return m.Recover(func(err error) string { c.call("f", err); return "rec" })
		}, func(c *rc, err, plain string) (string, []string) {
			return runs(func(s int) string { return fmt.Sprintf("(S(rec),%d)", 3*s+1) }), times3("f(" + err + ")")
		}},
		{"RecoverT", func(c *rc, m ST) any {
			lAlt = c.x.Choose(2, "alt")
			return m.RecoverT(func(err error) fp.Try[string] { c.call("f", err); return altTry(lAlt) })
		}, func(c *rc, err, plain string) (string, []string) {
			return runs(func(s int) string { return fmt.Sprintf("(%s,%d)", drv.Show(altTry(lAlt)), 3*s+1) }), times3("f(" + err + ")")
		}},
		{"RecoverWithState", func(c *rc, m ST) any {
			return m.RecoverWithState(func(s int, err error) string { c.call("f", err); return "rec" })
		}, func(c *rc, err, plain string) (string, []string) {
			return runs(func(s int) string { return fmt.Sprintf("(S(rec),%d)", 3*s+1) }), times3("f(" + err + ")")
		}},
		{"RecoverWithStateT", func(c *rc, m ST) any {
			lAlt = c.x.Choose(2, "alt")
			return m.RecoverWithStateT(func(s int, err error) fp.Try[string] { c.call("f", err); return altTry(lAlt) })
		}, func(c *rc, err, plain string) (string, []string) {
			return runs(func(s int) string { return fmt.Sprintf("(%s,%d)", drv.Show(altTry(lAlt)), 3*s+1) }), times3("f(" + err + ")")
		}},
		{"RecoverWith", func(c *rc, m ST) any {
			lAlt = c.x.Choose(2, "alt")
			return m.RecoverWith(func(err error) ST { c.call("f", err); return altST(c, lAlt) })
		}, func(c *rc, err, plain string) (string, []string) {
			return runs(func(s int) string { return altSTShow(lAlt, 3*s+1) }), times3("f(" + err + ")")
		}},
		{"RecoverCase", func(c *rc, m ST) any {
			lDef = c.x.Choose(3, "isDefinedAt")
			return m.RecoverCase(isE1(c, lDef), func(err error) string { c.call("then", err); return "rec" })
		}, func(c *rc, err, plain string) (string, []string) {
			if definedFor(lDef, err) {
				return runs(func(s int) string { return fmt.Sprintf("(S(rec),%d)", 3*s+1) }), times3("then(" + err + ")")
			}
			return plain, nil
		}},
		{"RecoverCaseT", func(c *rc, m ST) any {
			lDef = c.x.Choose(3, "isDefinedAt")
			lAlt = c.x.Choose(2, "alt")
			return m.RecoverCaseT(isE1(c, lDef), func(err error) fp.Try[string] { c.call("then", err); return altTry(lAlt) })
		}, func(c *rc, err, plain string) (string, []string) {
			if definedFor(lDef, err) {
				return runs(func(s int) string { return fmt.Sprintf("(%s,%d)", drv.Show(altTry(lAlt)), 3*s+1) }), times3("then(" + err + ")")
			}
			return plain, nil
		}},
		{"RecoverCaseWith", func(c *rc, m ST) any {
			lDef = c.x.Choose(3, "isDefinedAt")
			lAlt = c.x.Choose(2, "alt")
			return m.RecoverCaseWith(isE1(c, lDef), func(err error) ST { c.call("then", err); return altST(c, lAlt) })
		}, func(c *rc, err, plain string) (string, []string) {
			if definedFor(lDef, err) {
				return runs(func(s int) string { return altSTShow(lAlt, 3*s+1) }), times3("then(" + err + ")")
			}
			return plain, nil
		}},
	})
}

func altTry(l int) fp.Try[string] {
	if l == 0 {
		return fp.Failure[string](drv.E[0])
	}
	return fp.Success("alt")
}

// ---------------------------------------------------------------------------------------------
// panic capture

type syncExec struct{}

func (syncExec) ExecuteUnsafe(r fp.Runnable) { r.Run() }

type panicVal struct {
	name string
	do   func()             // panics
	ok   func(got any) bool // is `got` (what the failure exposes) the panic value?
}

var someStruct = struct{}{}

var panicVals = []panicVal{
	{`"s"`, func() { panic("s") }, func(g any) bool { return g == "s" }},
	{"error e1", func() { panic(drv.E[1]) }, func(g any) bool { e, ok := g.(error); return ok && e == drv.E[1] }},
	{"the library sentinel fp.ErrOptionEmpty", func() { panic(fp.ErrOptionEmpty) }, func(g any) bool { e, ok := g.(error); return ok && e == fp.ErrOptionEmpty }},
	{"7", func() { panic(7) }, func(g any) bool { return g == 7 }},
	{"nil", func() { panic(nil) }, func(g any) bool {
		if g == nil {
			return true
		}
		_, ok := g.(*runtime.PanicNilError)
		return ok
	}},
	{"struct{}{}", func() { panic(someStruct) }, func(g any) bool { return g == someStruct }},
	{"runtime error (nil map write)", func() { var m map[string]int; m["k"] = 1 }, func(g any) bool {
		e, ok := g.(runtime.Error)
		return ok && strings.Contains(e.Error(), "nil map")
	}},
	{"runtime error (index out of range)", func() { var s []int; i := 3; _ = s[i] }, func(g any) bool {
		e, ok := g.(runtime.Error)
		return ok && strings.Contains(e.Error(), "index out of range")
	}},
}

// exposed returns the panic value a failure's error exposes (through a Panic() accessor of the
// error or of an error it wraps).
func exposed(err error) (any, bool) {
	type panicker interface{ Panic() any }
	var p panicker
	if errors.As(err, &p) {
		return p.Panic(), true
	}
	return nil, false
}

type captureCase struct {
	name string
	// run calls the library function with a supplied function that does `body` and then returns
	// normally per `ret` (0: zero value/nil error, 1: a value, 2..4: (value, error)); it returns
	// the resulting Try rendered plus its error.
	run func(x *mc.X, calls *int, body func(), ret int) (res string, err error, completed bool)
	// want gives the rendering demanded for a normal return
	want func(ret int) string
}

func registerCapture(r *mc.Registry) {
	E := drv.E
	strOf := func(t fp.Try[string]) (string, error, bool) {
		if t.IsSuccess() {
			return drv.Show(t), nil, true
		}
		var err error
		if p := mc.Catch(func() { err = t.Failed().Get() }); p != nil {
			return "F(!uninitialized: a Failure without an error)", nil, true
		}
		return drv.Show(t), err, true
	}
	unitOf := func(t fp.Try[fp.Unit]) (string, error, bool) {
		if t.IsSuccess() {
			return drv.Show(t), nil, true
		}
		var err error
		if p := mc.Catch(func() { err = t.Failed().Get() }); p != nil {
			return "F(!uninitialized: a Failure without an error)", nil, true
		}
		return drv.Show(t), err, true
	}
	// return shapes: zero value, a value, (value, e2), (value, the library's own fp.ErrOptionEmpty),
	// (value, fp.ErrFutureNotFailed); functions without an error result ignore retErr
	vals := []string{"", "v", "v", "v", "v"}
	retErr := []error{nil, nil, E[2], fp.ErrOptionEmpty, fp.ErrFutureNotFailed}
	wantErr := func(ret int) string {
		if retErr[ret] != nil {
			return "F(" + drv.ErrName(retErr[ret]) + ")"
		}
		return ""
	}
	cases := []captureCase{
		{"try.Of", func(x *mc.X, calls *int, body func(), ret int) (string, error, bool) {
			return strOf(try.Of(func() string { *calls++; x.Tick(); body(); return vals[ret] }))
		}, func(ret int) string { return "S(" + vals[ret] + ")" }},
		{"try.Call", func(x *mc.X, calls *int, body func(), ret int) (string, error, bool) {
			return strOf(try.Call(func() (string, error) {
				*calls++
				x.Tick()
				body()
				return vals[ret], retErr[ret]
			}))
		}, func(ret int) string {
			if w := wantErr(ret); w != "" {
				return w
			}
			return "S(" + vals[ret] + ")"
		}},
		{"try.CallUnit", func(x *mc.X, calls *int, body func(), ret int) (string, error, bool) {
			return unitOf(try.CallUnit(func() error {
				*calls++
				x.Tick()
				body()
				return retErr[ret]
			}))
		}, func(ret int) string {
			if w := wantErr(ret); w != "" {
				return w
			}
			return "S(())"
		}},
		{"future.Apply(sync executor)", func(x *mc.X, calls *int, body func(), ret int) (string, error, bool) {
			f := future.Apply(func() string { *calls++; x.Tick(); body(); return vals[ret] }, syncExec{})
			if !f.IsCompleted() {
				return "", nil, false
			}
			return strOf(f.Value())
		}, func(ret int) string { return "S(" + vals[ret] + ")" }},
		{"future.Apply2(sync executor)", func(x *mc.X, calls *int, body func(), ret int) (string, error, bool) {
			f := future.Apply2(func() (string, error) {
				*calls++
				x.Tick()
				body()
				return vals[ret], retErr[ret]
			}, syncExec{})
			if !f.IsCompleted() {
				return "", nil, false
			}
			return strOf(f.Value())
		}, func(ret int) string {
			if w := wantErr(ret); w != "" {
				return w
			}
			return "S(" + vals[ret] + ")"
		}},
	}
	for _, cs := range cases {
		cs := cs
		r.Seq("capture/"+cs.name, func(x *mc.X) {
			drv.NewEnv(x, "C02", cs.name, true)
			which := x.Choose(len(panicVals)+1, "panic") // 0 = no panic
			ret := x.Choose(5, "return")
			calls := 0
			body := func() {}
			if which > 0 {
				body = panicVals[which-1].do
			}
			var res string
			var err error
			var completed bool
			escaped := mc.Catch(func() { res, err, completed = cs.run(x, &calls, body, ret) })
			x.Tag(cs.name)
			if which == 0 {
				x.Tag("normal-return")
				x.Logf("%s, function returns normally (case %d) -> %s", cs.name, ret, res)
				if escaped != nil {
					x.Fail("panic-on-normal-return", "%s panicked although the function returned normally: %v", cs.name, escaped)
				}
				if !completed {
					x.Fail("not-completed", "%s on a synchronous executor returned a future that is not completed", cs.name)
				}
				if want := cs.want(ret); res != want {
					x.Fail("normal-return-changed", "%s: the function returned normally (case %d) but the result is %s, want %s", cs.name, ret, res, want)
				}
			} else {
				pv := panicVals[which-1]
				x.Tag("panic " + pv.name)
				x.NonTrivial()
				x.Logf("%s, function panics with %s -> %s (escaped: %v)", cs.name, pv.name, res, escaped)
				if escaped != nil {
					x.Fail("panic-escaped("+pv.name+")", "%s let the panic %s escape: %v", cs.name, pv.name, escaped)
				}
				if !completed {
					x.Fail("not-completed", "%s on a synchronous executor returned a future that is not completed", cs.name)
				}
				if !strings.HasPrefix(res, "F(") {
					x.Fail("panic-lost("+pv.name+")", "%s: the function panicked with %s but the result is %s", cs.name, pv.name, res)
				}
				if err == nil {
					x.Fail("panic-lost("+pv.name+")", "%s: the function panicked with %s and the result is a Failure without an error value: %s", cs.name, pv.name, res)
				}
				got, ok := exposed(err)
				if !ok {
					x.Fail("panic-value-not-exposed("+pv.name+")", "%s: the Failure's error (%T) has no Panic() accessor", cs.name, err)
				}
				if !pv.ok(got) {
					x.Fail("panic-value-not-exposed("+pv.name+")", "%s: the function panicked with %s but Panic() gives %v (%v)", cs.name, pv.name, got, reflect.TypeOf(got))
				}
			}
			if calls != 1 {
				x.Fail("supplied-function-calls", "%s invoked the supplied function %d times", cs.name, calls)
			}
			if which > 0 && strings.HasPrefix(res, "F(") {
				res = "F(<panic>)" // the wrapper's text contains a stack trace
			}
			x.Observe(which, ret, res)
		})
	}
}

func main() {
	mc.Main("C02", func(r *mc.Registry) {
		drv.Register(r, "C02", cat.Cases(), cat.Covered)
		registerRecover(r)
		registerCapture(r)
	})
}
