package main

import (
	"bytes"
	"context"
	_ "embed"
	"fmt"
	"go/ast"
	"go/parser"
	"go/token"
	"os"
	"os/exec"
	"path/filepath"
	"regexp"
	"sort"
	"strconv"
	"strings"
	"syscall"
	"time"

	"verif/mc"
)

//go:embed lawlib/lawlib.go
var lawlibSource string

func internal(format string, args ...any) {
	panic(mc.InternalError{Msg: "c08: " + fmt.Sprintf(format, args...)})
}

func goEnv() []string {
	env := os.Environ()
	env = append(env, "GOFLAGS=-mod=mod", "GOPROXY=off", "GOSUMDB=off", "GOTOOLCHAIN=local")
	return env
}

// c08Root is below the per-run scratch directory of vcheck (removed by vcheck on exit); a
// harness binary started by hand falls back to /var/tmp, never to /tmp.
func c08Root() string {
	if os.Getenv("VERIF_SCRATCH_DIR") == "" {
		return "/var/tmp/verif-c08-scratch"
	}
	return filepath.Join(mc.ScratchDir(), "c08")
}

// ensureGombok builds gombok once per run from the tree under test (under a file lock, the
// worker processes share the binary).
func ensureGombok() string {
	root := c08Root()
	if err := os.MkdirAll(root, 0o755); err != nil {
		internal("mkdir %s: %v", root, err)
	}
	bin := filepath.Join(root, "gombok")
	if _, err := os.Stat(bin); err == nil {
		return bin
	}
	lock, err := os.OpenFile(filepath.Join(root, "gombok.lock"), os.O_CREATE|os.O_RDWR, 0o644)
	if err != nil {
		internal("lock: %v", err)
	}
	defer lock.Close()
	if err := syscall.Flock(int(lock.Fd()), syscall.LOCK_EX); err != nil {
		internal("flock: %v", err)
	}
	defer syscall.Flock(int(lock.Fd()), syscall.LOCK_UN)
	if _, err := os.Stat(bin); err == nil {
		return bin
	}
	tmp := fmt.Sprintf("%s.%d", bin, os.Getpid())
	var out []byte
	for attempt := 0; attempt < 3; attempt++ {
		cmd := exec.Command("go", "build", "-o", tmp, "./cmd/gombok")
		cmd.Dir = mc.RepoDir()
		cmd.Env = goEnv()
		if out, err = cmd.CombinedOutput(); err == nil || !strings.Contains(string(out), "signal: killed") {
			break
		}
		time.Sleep(5 * time.Second)
	}
	if err != nil {
		// gombok of the tree under test does not build: nothing is emitted, nothing to check;
		// this is not a statement about emitted instances, so it is an internal error (exit 2)
		internal("gombok does not build from %s: %v\n%s", mc.RepoDir(), err, out)
	}
	if err := os.Rename(tmp, bin); err != nil {
		internal("rename: %v", err)
	}
	return bin
}

type report struct{ key, msg string }

// outcome of one scenario (cached per process: the explorer re-executes an execution for its
// determinism self-test and for the evidence sample, the pipeline is run once).
type outcome struct {
	reports    []report
	counts     map[string]int64
	states     int64
	trans      int64
	incomplete string
	log        []string
	obs        []string
}

func (o *outcome) report(key, format string, args ...any) {
	for _, r := range o.reports {
		if r.key == key {
			return
		}
	}
	o.reports = append(o.reports, report{key, fmt.Sprintf(format, args...)})
}

func (o *outcome) count(name string, n int64) { o.counts[name] += n }
func (o *outcome) logf(format string, args ...any) {
	if len(o.log) < 400 {
		o.log = append(o.log, fmt.Sprintf(format, args...))
	}
}

type runner struct {
	skipHelpers map[string]bool // on-demand instances whose law call did not compile / crashed
	ps          *pkgSpec
	dir         string
	gombok      string
	out         *outcome
	nGen        int
	nBuild      int
}

func (r *runner) write(rel, content string) {
	p := filepath.Join(r.dir, rel)
	if err := os.MkdirAll(filepath.Dir(p), 0o755); err != nil {
		internal("mkdir: %v", err)
	}
	if err := os.WriteFile(p, []byte(content), 0o644); err != nil {
		internal("write %s: %v", p, err)
	}
}

func (r *runner) command(timeout time.Duration, dir string, extraEnv []string, name string, args ...string) (string, int, bool) {
	ctx, cancel := context.WithTimeout(context.Background(), timeout)
	defer cancel()
	cmd := exec.CommandContext(ctx, name, args...)
	cmd.Dir = dir
	cmd.Env = append(goEnv(), extraEnv...)
	var buf bytes.Buffer
	cmd.Stdout = &buf
	cmd.Stderr = &buf
	err := cmd.Run()
	timedOut := ctx.Err() != nil
	code := 0
	if err != nil {
		code = -1
		if ee, ok := err.(*exec.ExitError); ok {
			code = ee.ExitCode()
		} else if !timedOut {
			internal("cannot run %s: %v", name, err)
		}
	}
	return buf.String(), code, timedOut
}

func (r *runner) setup() {
	os.RemoveAll(r.dir)
	gomod := fmt.Sprintf("module scratchmod\n\ngo 1.21\n\nrequire github.com/csgura/fp v0.0.0\n\nreplace github.com/csgura/fp => %s\n", mc.RepoDir())
	r.write("go.mod", gomod)
	sum, err := os.ReadFile(filepath.Join(mc.RepoDir(), "go.sum"))
	if err != nil {
		internal("go.sum: %v", err)
	}
	r.write("go.sum", string(sum))
	r.write("lawlib/lawlib.go", lawlibSource)
	r.write("tp/tp.go", r.ps.tpSource())
	if r.ps.GvSrc != "" {
		r.write("gv/gv.go", goFile("gv", r.ps.GvSrc))
	}
	r.write("cmd/main.go", cmdMain)
}

const deriveFile = "w_derive_generated.go"

// generate writes the working package for the active targets and runs gombok on it the way
// go generate does (cwd = package directory, GOPACKAGE, GOFILE).
func (r *runner) generate(active []*target) (ok bool, output string) {
	wdir := filepath.Join(r.dir, "w")
	os.RemoveAll(wdir)
	r.write("w/w.go", r.ps.workingSource(active))
	r.nGen++
	out, code, timedOut := r.command(10*time.Minute, wdir, []string{"GOPACKAGE=w", "GOFILE=w.go", "GOLINE=1", "GOARCH=amd64", "GOOS=linux"}, r.gombok)
	for attempt := 0; code == -1 && !timedOut; attempt++ {
		// killed by a signal from outside (gombok itself exits with 0, 1 or 2): not a verdict
		if attempt == 2 {
			panic(gaveUp{fmt.Sprintf("%s: gombok was killed three times", r.ps.Name)})
		}
		time.Sleep(time.Duration(5*(attempt+1)) * time.Second)
		out, code, timedOut = r.command(10*time.Minute, wdir, []string{"GOPACKAGE=w", "GOFILE=w.go", "GOLINE=1", "GOARCH=amd64", "GOOS=linux"}, r.gombok)
	}
	for attempt := 0; !timedOut && envTrouble.MatchString(out); attempt++ {
		// the Go build cache / toolchain was disturbed while gombok loaded the package
		if attempt == 2 {
			panic(gaveUp{fmt.Sprintf("%s: gombok could not load the package: %s", r.ps.Name, excerpt(out, 4))})
		}
		time.Sleep(time.Duration(10*(attempt+1)) * time.Second)
		out, code, timedOut = r.command(10*time.Minute, wdir, []string{"GOPACKAGE=w", "GOFILE=w.go", "GOLINE=1", "GOARCH=amd64", "GOOS=linux"}, r.gombok)
	}
	if timedOut {
		// 300 times the normal running time: a hang cannot be told from an overloaded machine,
		// so this is "not decided", never a violation
		panic(gaveUp{fmt.Sprintf("%s: gombok did not finish within 10 minutes", r.ps.Name)})
	}
	if code != 0 {
		return false, fmt.Sprintf("%s\n(gombok exit status %d)", out, code)
	}
	return true, out
}

// envTrouble recognises output of the Go tools that speaks of the environment (build cache
// trimmed under our feet, toolchain files missing, memory), not of the program.
var envTrouble = regexp.MustCompile(`go-build[^\n]*no such file|could not import [^\n]*\(open |without types was imported|signal: killed|cannot allocate memory|no space left on device|is not in std|internal error: package`)

type emitted struct {
	decl       *ast.FuncDecl
	start, end int
	src        string
}

func (r *runner) parseDerived() (map[string]*emitted, string, error) {
	p := filepath.Join(r.dir, "w", deriveFile)
	b, err := os.ReadFile(p)
	if err != nil {
		return map[string]*emitted{}, "", nil // nothing emitted
	}
	fset := token.NewFileSet()
	f, err := parser.ParseFile(fset, p, b, 0)
	if err != nil {
		return nil, string(b), err
	}
	lines := strings.Split(string(b), "\n")
	out := map[string]*emitted{}
	for _, d := range f.Decls {
		if fd, ok := d.(*ast.FuncDecl); ok && fd.Recv == nil {
			s, e := fset.Position(fd.Pos()).Line, fset.Position(fd.End()).Line
			out[fd.Name.Name] = &emitted{fd, s, e, strings.Join(lines[s-1:e], "\n")}
		}
	}
	// instances emitted as variables
	for _, d := range f.Decls {
		if gd, ok := d.(*ast.GenDecl); ok && gd.Tok == token.VAR {
			for _, sp := range gd.Specs {
				vs := sp.(*ast.ValueSpec)
				s, e := fset.Position(gd.Pos()).Line, fset.Position(gd.End()).Line
				for _, n := range vs.Names {
					out[n.Name] = &emitted{nil, s, e, strings.Join(lines[s-1:e], "\n")}
				}
			}
		}
	}
	return out, string(b), nil
}

// reaches reports whether the emitted function from refers (transitively) to the emitted
// function to.
func reaches(em map[string]*emitted, from, to string) bool {
	seen := map[string]bool{}
	var visit func(n string) bool
	visit = func(n string) bool {
		if n == to {
			return true
		}
		if seen[n] {
			return false
		}
		seen[n] = true
		e := em[n]
		if e == nil || e.decl == nil || e.decl.Body == nil {
			return false
		}
		found := false
		ast.Inspect(e.decl.Body, func(x ast.Node) bool {
			if id, ok := x.(*ast.Ident); ok && !found && id.Name != n && em[id.Name] != nil {
				if visit(id.Name) {
					found = true
				}
			}
			return !found
		})
		return found
	}
	return visit(from)
}

type sigParam struct {
	name   string
	tcName string
	tparam string
}

// signature decodes "func X[A any, B any](eqA fp.Eq[A], ...)".
func signature(fd *ast.FuncDecl) (tparams []string, params []sigParam, odd string) {
	if fd.Type.TypeParams != nil {
		for _, f := range fd.Type.TypeParams.List {
			for _, n := range f.Names {
				tparams = append(tparams, n.Name)
			}
		}
	}
	if fd.Type.Params != nil {
		for _, f := range fd.Type.Params.List {
			tcName, tp := "", ""
			if ix, ok := f.Type.(*ast.IndexExpr); ok {
				if sel, ok := ix.X.(*ast.SelectorExpr); ok {
					tcName = sel.Sel.Name
				}
				if id, ok := ix.Index.(*ast.Ident); ok {
					tp = id.Name
				}
			}
			if tcName == "" || tp == "" {
				odd = "a parameter is not a typeclass instance of a type parameter"
			}
			names := f.Names
			if len(names) == 0 {
				names = []*ast.Ident{{Name: "_"}}
			}
			for _, n := range names {
				params = append(params, sigParam{n.Name, tcName, tp})
			}
		}
	}
	return
}

func usesIdent(fd *ast.FuncDecl, name string) bool {
	found := false
	if fd.Body == nil {
		return false
	}
	ast.Inspect(fd.Body, func(n ast.Node) bool {
		if id, ok := n.(*ast.Ident); ok && id.Name == name {
			found = true
		}
		return !found
	})
	return found
}

// checkSignature decides "a generic type yields a function taking one instance per type
// parameter actually used": every parameter is an instance of this typeclass for a distinct
// type parameter that occurs somewhere in a field type (a type argument of a recursive self
// reference counts), and the body refers to it. A missing parameter shows up as a compile
// error of the emitted body or of the law call. Returns the law calls.
func (r *runner) checkSignature(t *target, em *emitted) (calls []lawCall, bad string) {
	if em.decl == nil { // emitted as a variable
		if len(t.TParams) > 0 {
			return nil, "a generic target was emitted as a variable"
		}
		return []lawCall{{t, t.ID, t.InstName}}, ""
	}
	tps, params, odd := signature(em.decl)
	if odd != "" {
		return nil, odd
	}
	if len(tps) != len(t.TParams) {
		return nil, fmt.Sprintf("the function has %d type parameters, the type has %d", len(tps), len(t.TParams))
	}
	seen := map[string]bool{}
	idx := map[string]int{}
	for i, n := range tps {
		idx[n] = i
	}
	for _, p := range params {
		i, ok := idx[p.tparam]
		switch {
		case !ok:
			return nil, fmt.Sprintf("parameter %s is an instance for %s, which is not a type parameter", p.name, p.tparam)
		case p.tcName != tcs[t.TC].Name:
			return nil, fmt.Sprintf("parameter %s is an instance of %s, not of %s", p.name, p.tcName, tcs[t.TC].Name)
		case seen[p.tparam]:
			return nil, fmt.Sprintf("more than one instance parameter for type parameter %s", p.tparam)
		case i < len(t.Phantom) && t.Phantom[i]:
			return nil, fmt.Sprintf("parameter %s is an instance for type parameter %s, which no field uses", p.name, p.tparam)
		case !usesIdent(em.decl, p.name):
			return nil, fmt.Sprintf("parameter %s (instance for type parameter %s) is never used by the function", p.name, p.tparam)
		}
		seen[p.tparam] = true
	}
	if len(t.TParams) == 0 {
		return []lawCall{{t, t.ID, t.InstName + "()"}}, ""
	}
	for _, in := range t.Insts {
		var args []string
		for _, p := range params {
			args = append(args, fmt.Sprintf("lawlib.%s[%s]()", tcs[t.TC].Ref, in.args[idx[p.tparam]]))
		}
		calls = append(calls, lawCall{t, fmt.Sprintf("%s[%s]", t.ID, strings.Join(in.args, ",")),
			fmt.Sprintf("%s[%s](%s)", t.InstName, strings.Join(in.args, ", "), strings.Join(args, ", "))})
	}
	return calls, ""
}

var errLine = regexp.MustCompile(`^(?:\./)?(?:w/)?([A-Za-z0-9_]+\.go):(\d+):(?:\d+:)? (.*)$`)

type buildErr struct {
	file string
	line int
	msg  string
}

func parseBuildErrors(out string) (errs []buildErr, other []string) {
	for _, l := range strings.Split(out, "\n") {
		l = strings.TrimRight(l, "\r")
		if l == "" || strings.HasPrefix(l, "#") {
			continue
		}
		if m := errLine.FindStringSubmatch(l); m != nil {
			n, _ := strconv.Atoi(m[2])
			errs = append(errs, buildErr{m[1], n, m[3]})
		} else if strings.HasPrefix(l, "\t") && len(errs) > 0 {
			errs[len(errs)-1].msg += " " + strings.TrimSpace(l)
		} else {
			other = append(other, l)
		}
	}
	return
}

func (r *runner) build() (string, bool) {
	for attempt := 0; ; attempt++ {
		r.nBuild++
		out, code, timedOut := r.command(15*time.Minute, r.dir, nil, "go", "build", "-trimpath", "-p", "2", "-gcflags=scratchmod/w=-e", "-o", filepath.Join(r.dir, "lawbin"), "./cmd")
		if timedOut {
			panic(gaveUp{fmt.Sprintf("%s: go build did not finish within 15 minutes", r.ps.Name)})
		}
		if code != 0 && envTrouble.MatchString(out) {
			// the toolchain was killed from outside (memory pressure of the machine): not a verdict
			if attempt < 2 {
				time.Sleep(time.Duration(5*(attempt+1)) * time.Second)
				continue
			}
			panic(gaveUp{fmt.Sprintf("%s: the Go toolchain was killed three times: %s", r.ps.Name, excerpt(out, 4))})
		}
		return out, code == 0
	}
}

func excerpt(s string, n int) string {
	ls := strings.Split(s, "\n")
	if len(ls) > n {
		ls = append(ls[:n], "...")
	}
	return strings.Join(ls, "\n")
}

// How a failing gombok run is classified. Both a deliberate rejection and a crash end in a Go
// panic with a goroutine trace (gombok rejects with panic("can't summon array type, ...")), so
// the trace does not tell them apart; the panic VALUE does:
//   - rejection: the message is one gombok wrote itself and names the problem in the input
//     ("can't summon ...", "can't derive ...", "... not supported"); it is counted, not reported;
//   - crash: the panic value comes from the Go runtime or a library ("runtime error: invalid
//     memory address", "interface conversion", "index out of range", fp's own panics, "fatal
//     error") - the generator fell over, nothing names a problem of the input: generator-crash/...;
//   - any other non-zero exit ("format error": the emitted text is not Go; silence):
//     generator-failure/...
var diagnostic = regexp.MustCompile(`(?m)^panic: can't |^can't derive|^panic: [^\n]*(not supported|unsupported)`)
var panicLine = regexp.MustCompile(`(?m)^(panic: [^\n]*|fatal error: [^\n]*)$`)

type failureKind int

const (
	rejectedWithDiagnostic failureKind = iota
	generatorCrash
	generatorFailure
)

func classifyGombokFailure(out string) failureKind {
	pl := panicLine.FindString(out)
	runtimeish := strings.Contains(pl, "runtime error") || strings.HasPrefix(pl, "fatal error") ||
		strings.Contains(pl, "interface conversion") || strings.Contains(out, "[signal ")
	switch {
	case pl != "" && !runtimeish && diagnostic.MatchString(out):
		return rejectedWithDiagnostic
	case pl != "":
		return generatorCrash
	case diagnostic.MatchString(out) && !strings.Contains(out, "format error"):
		return rejectedWithDiagnostic
	}
	return generatorFailure
}

func without(ts []*target, drop map[*target]bool) []*target {
	var out []*target
	for _, t := range ts {
		if !drop[t] {
			out = append(out, t)
		}
	}
	return out
}

// dependents of the dropped instances (transitively) within ts.
func dependents(ts []*target, dropped map[*target]bool) []*target {
	names := map[string]bool{}
	for t := range dropped {
		names[t.InstName] = true
	}
	var out []*target
	for changed := true; changed; {
		changed = false
		for _, t := range ts {
			if dropped[t] {
				continue
			}
			for _, d := range t.Deps {
				if names[d] {
					dropped[t] = true
					names[t.InstName] = true
					out = append(out, t)
					changed = true
					break
				}
			}
		}
	}
	return out
}

// isolate finds one target whose presence makes ok fail (ok(all) is known to be false).
func isolate(ts []*target, ok func([]*target) bool) *target {
	cur := ts
	for len(cur) > 1 {
		a, b := cur[:len(cur)/2], cur[len(cur)/2:]
		if !ok(a) {
			cur = a
			continue
		}
		if !ok(b) {
			cur = b
			continue
		}
		// only the combination fails: grow a by elements of b until it fails
		acc := append([]*target(nil), a...)
		for _, t := range b {
			acc = append(acc, t)
			if !ok(acc) {
				return t
			}
		}
		return b[len(b)-1]
	}
	return cur[0]
}

func (r *runner) countTarget(t *target, prefix string) {
	for _, c := range t.Counts {
		r.out.count(prefix+c, 1)
	}
	r.out.count(prefix+"typeclass/"+tcs[t.TC].Name, 1)
}

func lawTargets(ts []*target) []*target {
	var out []*target
	for _, t := range ts {
		if !t.NoLaw {
			out = append(out, t)
		}
	}
	return out
}

// gaveUp ends the pipeline of a package without a verdict (the run is marked incomplete).
type gaveUp struct{ why string }

// run is the whole pipeline of one scratch package.
func (r *runner) run() {
	o := r.out
	defer func() {
		if p := recover(); p != nil {
			g, ok := p.(gaveUp)
			if !ok {
				panic(p)
			}
			o.incomplete = g.why
			o.logf("gave up: %s", g.why)
		}
	}()
	r.setup()
	active := lawTargets(r.ps.Targets)
	o.count("packages", 1)
	o.count("targets-enumerated", int64(len(active)))
	// differential oracle ("start from a non-initial state"): what gombok emits for a target
	// must not depend on the directives it processed before it in the same run
	solo := map[*target]string{}
	for _, t := range active {
		if !t.Solo {
			continue
		}
		if ok, _ := r.generate([]*target{t}); ok {
			if em, _, err := r.parseDerived(); err == nil && em[t.InstName] != nil {
				solo[t] = em[t.InstName].src
			}
		}
	}
	dropAll := func(culprits ...*target) {
		drop := map[*target]bool{}
		for _, c := range culprits {
			drop[c] = true
			if strings.Contains(c.ID, "/on-demand/") {
				if r.skipHelpers == nil {
					r.skipHelpers = map[string]bool{}
				}
				r.skipHelpers[c.InstName] = true
			}
		}
		for _, d := range dependents(r.ps.Targets, drop) {
			if !d.NoLaw {
				o.count("blocked-by-a-failing-dependency", 1)
				o.logf("blocked: %s (depends on a failing instance)", d.ID)
			}
		}
		active = without(active, drop)
	}
	killed, toolFailures := 0, 0
	for round := 0; ; round++ {
		if round > len(r.ps.Targets)+8 {
			internal("%s: the failure isolation does not converge", r.ps.Name)
		}
		if len(active) == 0 {
			return
		}
		// ---- gombok
		ok, gout := r.generate(active)
		if !ok {
			o.logf("gombok fails on the package: %s", excerpt(gout, 6))
			c := active[0]
			if len(active) > 1 {
				c = isolate(active, func(sub []*target) bool { k, _ := r.generate(sub); return k })
			}
			_, cout := r.generate([]*target{c})
			if cout == "" {
				cout = gout
			}
			switch classifyGombokFailure(cout) {
			case rejectedWithDiagnostic:
				o.count("rejected/with-diagnostic/"+tcs[c.TC].Name, 1)
				r.countTarget(c, "rejected/")
				o.logf("rejected with a diagnostic: %s: %s", c.ID, excerpt(cout, 3))
			case generatorCrash:
				o.report("generator-crash/"+c.ID, "gombok crashes (Go panic that is not one of its diagnostics) when %s is derived:\n%s\ninput:\n%s", c.ID, excerpt(cout, 25), r.inputOf(c))
			default:
				o.report("generator-failure/"+c.ID, "gombok fails (no diagnostic that names the problem) when %s is derived:\n%s\ninput:\n%s", c.ID, excerpt(cout, 25), r.inputOf(c))
			}
			dropAll(c)
			continue
		}
		// ---- what was emitted
		em, src, perr := r.parseDerived()
		if perr != nil {
			o.report("compile/"+r.ps.Name+"/generated-file-does-not-parse", "the generated file does not parse: %v\n%s", perr, excerpt(src, 60))
			return
		}
		for _, t := range active {
			if want, ok := solo[t]; ok && em[t.InstName] != nil {
				o.count("differential-comparisons (alone vs after other directives)", 1)
				if got := em[t.InstName].src; got != want {
					o.report("order-dependence/"+t.ID, "%s: the function gombok emits for this directive depends on the directives before it in the same package.\nalone in the package:\n%s\nin this package:\n%s\ninput:\n%s", t.ID, excerpt(want, 40), excerpt(got, 40), r.inputOf(t))
				}
				delete(solo, t)
			}
		}
		var calls []lawCall
		progressed := false
		uncallable := map[*target]bool{}
		for _, t := range active {
			e := em[t.InstName]
			if e == nil {
				o.count("rejected/not-emitted/"+tcs[t.TC].Name, 1)
				r.countTarget(t, "rejected/")
				o.logf("not emitted: %s (%s); gombok said: %s", t.ID, t.InstName, excerpt(gout, 4))
				dropAll(t)
				progressed = true
				continue
			}
			cs, bad := r.checkSignature(t, e)
			if bad != "" {
				o.report("signature/"+t.ID, "%s: %s\nemitted:\n%s", t.ID, bad, excerpt(e.src, 30))
				// the instance stays in the package (others may refer to it) but cannot be called
				uncallable[t] = true
				continue
			}
			calls = append(calls, cs...)
		}
		if progressed {
			continue
		}
		// ---- compile
		// instances gombok derived on demand (recursive=true) are emitted instances too: the
		// non-generic ones are law-checked under the expectations of a target that reaches them
		calls = append(calls, r.onDemandCalls(em, active, uncallable)...)
		law, lawLines := lawSource(calls)
		r.write("w/zz_law.go", law)
		bout, ok := r.build()
		if !ok {
			errs, other := parseBuildErrors(bout)
			blame := map[*target][]string{}
			byInst := map[string]*target{}
			for _, t := range r.ps.Targets {
				byInst[t.InstName] = t
			}
			var unattributed []string
			for _, e := range errs {
				var t *target
				switch e.file {
				case deriveFile:
					helper := ""
					for name, m := range em {
						if e.line >= m.start && e.line <= m.end {
							t = byInst[name]
							helper = name
						}
					}
					if t == nil && helper != "" {
						// an instance gombok derived on demand (recursive=true): the error belongs to
						// every target whose emitted function reaches it
						hit := false
						for _, at := range active {
							if reaches(em, at.InstName, helper) {
								blame[at] = append(blame[at], fmt.Sprintf("%s:%d: (in %s, derived on demand) %s", e.file, e.line, helper, e.msg))
								hit = true
							}
						}
						if hit {
							continue
						}
					}
				case "zz_law.go":
					t = lawLines[e.line]
				}
				if t == nil {
					if e.file == "zz_law.go" || e.file == "w.go" || e.file == "tp.go" || e.file == "gv.go" || e.file == "lawlib.go" {
						internal("%s: the harness' own source does not compile: %s:%d: %s", r.ps.Name, e.file, e.line, e.msg)
					}
					unattributed = append(unattributed, fmt.Sprintf("%s:%d: %s", e.file, e.line, e.msg))
				} else {
					blame[t] = append(blame[t], fmt.Sprintf("%s:%d: %s", e.file, e.line, e.msg))
				}
			}
			if len(errs) == 0 {
				// compile errors carry positions; anything else (toolchain disturbed from outside,
				// linker) is not a verdict: try again, then give the package up
				if toolFailures++; toolFailures > 2 {
					panic(gaveUp{fmt.Sprintf("%s: go build fails without a compile error: %s", r.ps.Name, excerpt(bout, 8))})
				}
				time.Sleep(10 * time.Second)
				continue
			}
			_ = other
			if len(blame) == 0 {
				// errors in the generated files that no emitted function contains (imports, stray
				// declarations): isolate by rebuilding subsets
				o.logf("unattributed build failure: %s", excerpt(strings.Join(unattributed, "\n"), 12))
				c := active[0]
				if len(active) > 1 {
					c = isolate(active, func(sub []*target) bool { return r.buildsAlone(sub) })
				}
				o.report("compile/"+c.ID, "the package does not compile when %s is derived:\n%s", c.ID, excerpt(bout, 25))
				dropAll(c)
				continue
			}
			var cul []*target
			for t := range blame {
				cul = append(cul, t)
			}
			sort.Slice(cul, func(i, j int) bool { return cul[i].ID < cul[j].ID })
			for _, t := range cul {
				src := ""
				if e := em[t.InstName]; e != nil {
					src = e.src
				}
				o.report("compile/"+t.ID, "the code emitted for %s does not compile:\n%s\ninput:\n%s\nemitted:\n%s", t.ID, strings.Join(blame[t], "\n"), r.inputOf(t), excerpt(src, 40))
			}
			dropAll(cul...)
			continue
		}
		// ---- run the laws
		lout, code, timedOut := r.command(10*time.Minute, r.dir, nil, filepath.Join(r.dir, "lawbin"))
		done, crashed := r.parseLawOutput(lout, calls)
		if !done && code == -1 && !timedOut {
			// killed by a signal from outside (a Go program that dies by itself exits with 2)
			if killed++; killed > 2 {
				panic(gaveUp{fmt.Sprintf("%s: the law program was killed three times", r.ps.Name)})
			}
			continue
		}
		if !done {
			if crashed == nil {
				internal("%s: the law program ended without a verdict (exit %d):\n%s", r.ps.Name, code, excerpt(lout, 30))
			}
			what := "the process died"
			if timedOut {
				what = "no result within 10 minutes (normal: under a second)"
			}
			tail := lout
			if i := strings.LastIndex(tail, "B\t"); i >= 0 {
				tail = tail[i:]
			}
			o.report("crash/"+crashed.ID, "law test of %s: %s (exit %d):\n%s", crashed.ID, what, code, excerpt(tail, 25))
			dropAll(crashed)
			continue
		}
		for _, t := range active {
			if !uncallable[t] {
				r.countTarget(t, "")
				o.states++
			}
		}
		return
	}
}

// onDemandCalls makes law calls for the emitted functions that belong to no directive.
func (r *runner) onDemandCalls(em map[string]*emitted, active []*target, uncallable map[*target]bool) []lawCall {
	own := map[string]bool{}
	for _, t := range r.ps.Targets {
		own[t.InstName] = true
	}
	var names []string
	for n := range em {
		names = append(names, n)
	}
	sort.Strings(names)
	var out []lawCall
	for _, n := range names {
		e := em[n]
		if own[n] || r.skipHelpers[n] || e.decl == nil || e.decl.Type.TypeParams != nil || (e.decl.Type.Params != nil && len(e.decl.Type.Params.List) > 0) {
			continue
		}
		tc := tcID(-1)
		for c := Eq; c < nTC; c++ {
			if strings.HasPrefix(n, tcs[c].Name) && (tc < 0 || len(tcs[c].Name) > len(tcs[tc].Name)) {
				tc = c
			}
		}
		if tc < 0 {
			continue
		}
		var user *target
		for _, t := range active {
			if !uncallable[t] && t.TC == tc && reaches(em, t.InstName, n) {
				user = t
				break
			}
		}
		if user == nil {
			continue
		}
		pt := &target{ID: fmt.Sprintf("%s/on-demand/%s@%s", tcs[tc].Name, strings.TrimPrefix(n, tcs[tc].Name), r.ps.Name), TC: tc, Type: strings.TrimPrefix(n, tcs[tc].Name), InstName: n, Opt: user.Opt}
		out = append(out, lawCall{pt, pt.ID, n + "()"})
		r.out.count("instances-derived-on-demand/"+tcs[tc].Name, 1)
	}
	return out
}

// buildsAlone: gombok + build of a subset (used only to isolate unattributed failures).
func (r *runner) buildsAlone(sub []*target) bool {
	ok, _ := r.generate(sub)
	if !ok {
		return false
	}
	em, _, perr := r.parseDerived()
	if perr != nil {
		return false
	}
	var calls []lawCall
	for _, t := range sub {
		if e := em[t.InstName]; e != nil {
			if cs, bad := r.checkSignature(t, e); bad == "" {
				calls = append(calls, cs...)
			}
		}
	}
	law, _ := lawSource(calls)
	r.write("w/zz_law.go", law)
	_, ok = r.build()
	return ok
}

// verdicts of a law run are committed only when the run is complete (a crashing target is
// removed and the program is run again)
type verdicts struct {
	reports []report
	counts  map[string]int64
	trans   int64
	obs     []string
}

func (r *runner) parseLawOutput(out string, calls []lawCall) (done bool, crashed *target) {
	byID := map[string]*target{}
	for _, c := range calls {
		byID[c.id] = c.t
	}
	v := &verdicts{counts: map[string]int64{}}
	var open *target
	for _, l := range strings.Split(out, "\n") {
		f := strings.Split(l, "\t")
		switch f[0] {
		case "B":
			if len(f) > 1 {
				open = byID[f[1]]
			}
		case "E":
			open = nil
		case "R":
			if len(f) < 6 {
				continue
			}
			n, _ := strconv.ParseInt(f[4], 10, 64)
			v.trans += n
			v.counts["law-evaluations/"+f[2]] += n
			v.obs = append(v.obs, f[1]+" "+f[2]+" "+f[3])
			if f[3] != "ok" {
				v.reports = append(v.reports, report{"law/" + f[1] + "/" + f[2], fmt.Sprintf("%s: %s\ninput:\n%s\nemitted instance: %s", f[1], f[5], r.inputOf(byID[f[1]]), r.emittedSource(byID[f[1]]))})
			}
		case "C":
			if len(f) == 3 {
				n, _ := strconv.ParseInt(f[2], 10, 64)
				v.counts[f[1]] += n
			}
		case "DONE":
			done = true
		}
	}
	if !done {
		return false, open
	}
	o := r.out
	for _, rp := range v.reports {
		o.report(rp.key, "%s", rp.msg)
	}
	for k, n := range v.counts {
		o.count(k, n)
	}
	o.trans += v.trans
	o.obs = append(o.obs, v.obs...)
	return true, nil
}

// inputOf is the part of the input program that concerns t.
func (r *runner) inputOf(t *target) string {
	if t == nil {
		return ""
	}
	base := t.Type
	if i := strings.Index(base, "["); i >= 0 {
		base = base[:i]
	}
	var b strings.Builder
	for _, td := range r.ps.Types {
		if td.Name == base {
			b.WriteString(td.Src + "\n")
		}
	}
	if strings.Contains(t.ID, "/on-demand/") {
		b.WriteString("(instance derived on demand for a recursive=true directive of this package)\n")
		return b.String()
	}
	b.WriteString(t.directive())
	return b.String()
}

func (r *runner) emittedSource(t *target) string {
	if t == nil {
		return ""
	}
	em, _, err := r.parseDerived()
	if err != nil || em[t.InstName] == nil {
		return ""
	}
	return "\n" + excerpt(em[t.InstName].src, 40)
}
