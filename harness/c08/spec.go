package main

import (
	"fmt"
	"sort"
	"strings"
)

// ---------------------------------------------------------------- typeclasses

type tcID int

const (
	Eq tcID = iota
	Ord
	Hashable
	Monoid
	Clone
	Show
	nTC
)

type tcInfo struct {
	Name  string // typeclass name = prefix of the generated instance
	Pkg   string // derive package (import path github.com/csgura/fp/<Pkg>)
	Check string // lawlib function
	Ref   string // lawlib reference instance for a type parameter
}

var tcs = [nTC]tcInfo{
	{"Eq", "eq", "CheckEq", "RefEq"},
	{"Ord", "ord", "CheckOrd", "RefOrd"},
	{"Hashable", "hash", "CheckHash", "RefHash"},
	{"Monoid", "monoid", "CheckMonoid", "RefMonoid"},
	{"Clone", "clone", "CheckClone", "RefClone"},
	{"Show", "show", "CheckShow", "RefShow"},
}

type tcSet [nTC]bool

func allTC() tcSet { return tcSet{true, true, true, true, true, true} }
func only(ids ...tcID) tcSet {
	var s tcSet
	for _, i := range ids {
		s[i] = true
	}
	return s
}
func (s tcSet) and(o tcSet) tcSet {
	for i := range s {
		s[i] = s[i] && o[i]
	}
	return s
}

// ---------------------------------------------------------------- field kinds

// kind is a field type together with the typeclasses whose derive package has an instance for
// it (read off eq/, ord/, hash/, monoid/, clone/, show/ of the pinned tree).
type kind struct {
	id  string
	typ string   // as written in the working package
	tcs tcSet    // supported typeclasses
	aux []string // auxiliary declarations the field type needs
}

var kinds = []kind{
	{"int", "int", allTC(), nil},
	{"str", "string", allTC(), nil},
	{"ints", "[]int", allTC(), nil},
	{"pint", "*int", allTC(), nil},
	{"optint", "fp.Option[int]", allTC(), nil},
	{"seqstr", "fp.Seq[string]", allTC(), nil},
	// no GoMap instance in ord and hash
	{"mapsi", "map[string]int", only(Eq, Monoid, Clone, Show), nil},
	{"tup2", "fp.Tuple2[int, string]", allTC(), nil},
	// nested struct that has its own derived instance in the working package
	{"nest", "Inner", allTC(), []string{"Inner"}},
	// named non-struct types: Given/Number/Sum/Product/Int accept ~int, only Eq/Ord/Sum/Clone accept ~string
	{"myint", "MyInt", allTC(), []string{"MyInt"}},
	{"label", "Label", only(Eq, Ord, Monoid, Clone), []string{"Label"}},
	// nested comparable struct without an instance of its own: eq.Given / clone.Given
	{"nestg", "Plain", only(Eq, Clone), []string{"Plain"}},
	// instantiated generic struct and pointer to a recursive struct, both with own derived instances
	{"wrapint", "Wrap[int]", allTC(), []string{"Wrap"}},
	{"pnode", "*Node", allTC(), []string{"Node"}},
	// types of another package
	{"fname", "tp.Name", only(Eq, Ord, Monoid, Clone), nil},
	{"finner", "tp.Inner", only(Eq, Clone), nil},
}

func kindByID(id string) kind {
	for _, k := range kinds {
		if k.id == id {
			return k
		}
	}
	panic("no kind " + id)
}

// aux declarations; "derive" lists the types that need an instance of their own for every
// typeclass a dependent target uses.
var auxDecl = map[string]string{
	"Inner": "type Inner struct {\n\tx int\n\ty string\n}",
	"MyInt": "type MyInt int",
	"Label": "type Label string",
	"Plain": "type Plain struct {\n\tX int\n\tY string\n}",
	"Wrap":  "type Wrap[T any] struct {\n\tv T\n\tn int\n}",
	"Node":  "type Node struct {\n\tv     int\n\tleft  *Node\n\tright *Node\n}",
}

var auxDerives = map[string]string{"Inner": "Inner", "Wrap": "Wrap[any]", "Node": "Node"}

// ---------------------------------------------------------------- targets and packages

// instantiation of a generic target in the law test
type instn struct {
	args []string // type arguments
}

type target struct {
	ID       string // stable id: <Typeclass>/<family>/<shape>
	TC       tcID
	Type     string // derive target as written in the directive, e.g. SIntStr, Wrap[any], tp.Pub
	InstName string // name of the generated instance
	RecTrue  bool   // @fp.Derive(recursive=true)
	Derive   string // derive package (default: the typeclass' own)
	// generic targets
	TParams []string // names of the type parameters
	Phantom []bool   // type parameter occurs in NO field type (not even as a type argument of a self reference)
	Insts   []instn
	Opt     string   // lawlib.Opt literal
	Deps    []string // generated instances of the same package this one refers to
	Counts  []string // census buckets
	NoLaw   bool     // dependency only (law-checked in its own family)
	Solo    bool     // differential oracle: the emitted function must be the same text as when the target is the only directive of the package
}

type typeDecl struct {
	Name string
	Src  string
}

type pkgSpec struct {
	Name    string
	Types   []typeDecl
	Targets []*target
	WExtra  string // more declarations of the working package (instances, @fp.ImportGiven)
	TpExtra string // more declarations of the package of the field types
	GvSrc   string // declarations of the third package (imported givens / custom derive package)
}

func (p *pkgSpec) addType(name, src string) {
	for _, t := range p.Types {
		if t.Name == name {
			return
		}
	}
	p.Types = append(p.Types, typeDecl{name, src})
}

func (p *pkgSpec) hasTarget(inst string) bool {
	for _, t := range p.Targets {
		if t.InstName == inst {
			return true
		}
	}
	return false
}

func capital(s string) string { return strings.ToUpper(s[:1]) + s[1:] }

// addAux declares an auxiliary type and, if it needs one, its own derive target (dependency).
func (p *pkgSpec) addAux(name string, tc tcID) []string {
	p.addType(name, auxDecl[name])
	d, ok := auxDerives[name]
	if !ok {
		return nil
	}
	inst := tcs[tc].Name + name
	if !p.hasTarget(inst) {
		t := &target{ID: tcs[tc].Name + "/aux/" + strings.ToLower(name), TC: tc, Type: d, InstName: inst, NoLaw: true}
		if name == "Wrap" {
			t.TParams = []string{"T"}
		}
		p.Targets = append(p.Targets, t)
	}
	return []string{inst}
}

// shape is a struct over field kinds.
type shape struct {
	kinds  []string
	public bool
}

func (s shape) id() string {
	id := strings.Join(s.kinds, "+")
	if s.public {
		id = "pub:" + id
	}
	return id
}

func (s shape) typeName() string {
	n := "S"
	if s.public {
		n = "P"
	}
	for _, k := range s.kinds {
		n += capital(k)
	}
	return n
}

func (s shape) tcs() tcSet {
	r := allTC()
	for _, k := range s.kinds {
		r = r.and(kindByID(k).tcs)
	}
	return r
}

func (s shape) decl() string {
	var b strings.Builder
	fmt.Fprintf(&b, "type %s struct {\n", s.typeName())
	for i, k := range s.kinds {
		f := fmt.Sprintf("f%d", i+1)
		if s.public {
			f = fmt.Sprintf("F%d", i+1)
		}
		fmt.Fprintf(&b, "\t%s %s\n", f, kindByID(k).typ)
	}
	b.WriteString("}")
	return b.String()
}

// addShape adds one struct and a derive target for every supported typeclass.
func (p *pkgSpec) addShape(family string, s shape, want tcSet) int {
	n := 0
	sup := s.tcs().and(want)
	for tc := Eq; tc < nTC; tc++ {
		if !sup[tc] {
			continue
		}
		p.addType(s.typeName(), s.decl())
		t := &target{ID: fmt.Sprintf("%s/%s/%s", tcs[tc].Name, family, s.id()), TC: tc, Type: s.typeName(), InstName: tcs[tc].Name + s.typeName()}
		for _, k := range s.kinds {
			for _, a := range kindByID(k).aux {
				t.Deps = append(t.Deps, p.addAux(a, tc)...)
			}
			t.Counts = append(t.Counts, "field-kind/"+k)
		}
		t.Counts = append(t.Counts, fmt.Sprintf("fields/%d", len(s.kinds)), "family/"+family)
		p.Targets = append(p.Targets, t)
		n++
	}
	return n
}

func (p *pkgSpec) lawTargets() int {
	n := 0
	for _, t := range p.Targets {
		if !t.NoLaw {
			n++
		}
	}
	return n
}

// ---------------------------------------------------------------- enumeration of the plain family

func plainShapes(thorough bool) []shape {
	var ids []string
	for _, k := range kinds {
		ids = append(ids, k.id)
	}
	n := len(ids)
	var out []shape
	seen := map[string]bool{}
	add := func(ks ...string) {
		s := shape{kinds: append([]string(nil), ks...)}
		if !seen[s.id()] {
			seen[s.id()] = true
			out = append(out, s)
		}
	}
	for _, k := range ids { // every one-field struct
		add(k)
	}
	if thorough {
		for _, a := range ids { // every ordered pair
			for _, b := range ids {
				add(a, b)
			}
		}
	} else {
		for i, k := range ids { // every kind first and second, next to two different neighbours
			add(k, ids[(i+1)%n])
			add(ids[(i+5)%n], k)
		}
	}
	step := 2
	if thorough {
		step = 1
	}
	for i := 0; i < n; i += step { // three fields: every kind at every position
		add(ids[i], ids[(i+1)%n], ids[(i+2)%n])
		if thorough {
			add(ids[(i+2)%n], ids[(i+7)%n], ids[i])
		}
	}
	step = 4
	if thorough {
		step = 1
	}
	for i := 0; i < n; i += step { // four fields
		add(ids[i], ids[(i+3)%n], ids[(i+6)%n], ids[(i+9)%n])
	}
	if thorough { // every ordered triple over a core of five kinds
		core := []string{"int", "str", "seqstr", "pint", "nest"}
		for _, a := range core {
			for _, b := range core {
				for _, c := range core {
					add(a, b, c)
				}
			}
		}
	}
	// equal field types next to each other (position-distinguishable only by declaration order)
	add("int", "int")
	add("str", "str", "str")
	add("seqstr", "seqstr")
	add("pint", "pint", "int", "int")
	return out
}

func plainPackages(thorough bool) []*pkgSpec {
	chunk := 10
	if thorough {
		chunk = 30
	}
	var out []*pkgSpec
	cur := &pkgSpec{}
	flush := func() {
		if cur.lawTargets() > 0 {
			cur.Name = fmt.Sprintf("plain/%02d", len(out)+1)
			out = append(out, cur)
		}
		cur = &pkgSpec{}
	}
	for _, s := range plainShapes(thorough) {
		cur.addShape("plain", s, allTC())
		if cur.lawTargets() >= chunk {
			flush()
		}
	}
	// public fields (the generated conversions use the exported names)
	for _, ks := range [][]string{{"int", "str"}, {"seqstr", "pint", "mapsi"}, {"nest", "optint"}, {"tup2", "ints", "myint", "label"}} {
		cur.addShape("plain", shape{kinds: ks, public: true}, allTC())
	}
	flush()
	return out
}

func sortedKeys[V any](m map[string]V) []string {
	var ks []string
	for k := range m {
		ks = append(ks, k)
	}
	sort.Strings(ks)
	return ks
}
