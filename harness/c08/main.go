// C08 — gombok @fp.Derive: the emitted instances compile, are lawful and field-wise, and
// instance resolution follows the documented precedence.
//
// The input programs are enumerated (spec.go, families.go): struct shapes over the field
// kinds each typeclass package supports x typeclass x placement of overriding instances x
// @fp.ImportGiven. Every scratch package is one scenario: its single execution writes a
// scratch Go module, runs gombok (built once per run from the tree under test) the way
// `go generate` does, compiles the package together with a generated law test (lawlib) and
// runs it; the law test evaluates every law over all pairs/triples of Dom(type).
package main

import (
	"fmt"
	"os"
	"os/exec"
	"path/filepath"
	"sort"
	"strings"
	"time"

	"verif/mc"
)

var cache = map[string]*outcome{}

func scenario(ps *pkgSpec) func(x *mc.X) {
	return func(x *mc.X) {
		o := cache[ps.Name]
		if o == nil || os.Getenv("C08_NOCACHE") != "" {
			o = runPackage(ps)
			// a package that reports something is run again from scratch: only verdicts that
			// reproduce are reported (the Go build cache and the toolchain are shared with other
			// jobs on the machine; a disturbed run must not become a violation)
			if needsConfirmation(o) {
				time.Sleep(3 * time.Second)
				o2 := runPackage(ps)
				if reportKeys(o) != reportKeys(o2) {
					time.Sleep(10 * time.Second)
					o3 := runPackage(ps)
					switch reportKeys(o3) {
					case reportKeys(o2):
						o = o2
					case reportKeys(o):
					default:
						o3.reports = nil
						o3.incomplete = ps.Name + ": three runs of the pipeline gave three different sets of verdicts (disturbed environment); nothing reported"
						o = o3
					}
				}
			}
			cache[ps.Name] = o
		}
		for _, l := range o.log {
			x.Logf("%s", l)
		}
		for _, rp := range o.reports {
			x.Report(rp.key, "%s", rp.msg)
		}
		for _, k := range sortedKeys(o.counts) {
			x.Count(k, o.counts[k])
		}
		x.AddStates(o.states)
		x.AddTransitions(o.trans)
		if o.incomplete != "" {
			x.Incomplete(o.incomplete)
		}
		if os.Getenv("C08_ONLY") != "" {
			x.Incomplete("restricted by C08_ONLY")
		}
		sort.Strings(o.obs)
		x.Observe(strings.Join(o.obs, ";"))
		if o.states > 0 {
			x.NonTrivial()
		}
	}
}

// needsConfirmation: verdicts of the law program (a binary that ran to its end marker) are
// deterministic; everything that involves the Go toolchain or gombok's package loading is
// confirmed by a second run.
func needsConfirmation(o *outcome) bool {
	for _, r := range o.reports {
		if !strings.HasPrefix(r.key, "law/") {
			return true
		}
	}
	return false
}

func reportKeys(o *outcome) string {
	var ks []string
	for _, r := range o.reports {
		ks = append(ks, r.key)
	}
	sort.Strings(ks)
	return strings.Join(ks, "\n")
}

func runPackage(ps *pkgSpec) *outcome {
	o := &outcome{counts: map[string]int64{}}
	dir := filepath.Join(c08Root(), fmt.Sprintf("%s-%d", strings.ReplaceAll(ps.Name, "/", "_"), os.Getpid()))
	r := &runner{ps: ps, dir: dir, gombok: ensureGombok(), out: o}
	r.run()
	o.count("gombok-runs", int64(r.nGen))
	o.count("go-builds", int64(r.nBuild))
	if d := os.Getenv("C08_DUMP"); d != "" { // development aid: keep the last state of the scratch module
		os.MkdirAll(d, 0o755)
		exec.Command("cp", "-r", dir, filepath.Join(d, strings.ReplaceAll(ps.Name, "/", "_"))).Run()
	}
	os.RemoveAll(dir)
	return o
}

func main() {
	mc.Main("C08", func(r *mc.Registry) {
		pkgs := allPackages(r.Thorough())
		if f := os.Getenv("C08_ONLY"); f != "" { // development aid: the run is marked incomplete
			var sel []*pkgSpec
			for _, ps := range pkgs {
				if strings.Contains(ps.Name, f) {
					sel = append(sel, ps)
				}
			}
			pkgs = sel
		}
		names := map[string]bool{}
		ids := map[string]string{}
		nTargets := 0
		for _, ps := range pkgs {
			if names[ps.Name] {
				panic("duplicate scenario " + ps.Name)
			}
			names[ps.Name] = true
			for _, t := range ps.Targets {
				if t.NoLaw {
					continue
				}
				if prev, dup := ids[t.ID]; dup {
					panic("duplicate target id " + t.ID + " in " + prev + " and " + ps.Name)
				}
				ids[t.ID] = ps.Name
				nTargets++
			}
			r.Seq(ps.Name, scenario(ps))
		}
		// the soft deadline is a safety net for a loaded machine (about 8 CPU minutes quick, 25
		// thorough; 35 s / 100 s wall on 16 idle cores)
		r.Deadline = 12 * time.Minute
		if r.Thorough() {
			r.Deadline = 40 * time.Minute
		}
		r.Rule = "one scenario = one scratch package (working package + package of the field types + third package) holding a batch of derive targets; its single execution runs gombok from the tree under test, compiles the result with a generated law test and evaluates every law over all pairs (triples for transitivity/associativity) of Dom(type) = every combination of 2-3 values per field; an execution is non-trivial when at least one target was law-checked; states = law-checked targets, transitions = law evaluations"
		r.Assumptions = []string{
			"only field kinds for which the derive package has an instance are enumerated (support matrix in spec.go, read off eq/ ord/ hash/ monoid/ clone/ show/); for an unsupported kind gombok emits a reference to a not yet existing local instance (its way of asking the user for one), which is not checked",
			"the primitive instances (eq.Seq, ord.Seq, monoid.Option ...) are the subject of C09/C10/C11/C18; slice domains are nil, [e0], [e1 e0] so that ord.Seq's known defect on sequences that differ after the first element does not show up here as a defect of the deriver",
			"a target gombok rejects with a diagnostic, or does not emit, is counted (rejected/...) and not a violation; a gombok failure without a diagnostic (runtime error, format error) is reported",
			"the order of the instance parameters of a generic target is taken from the emitted signature; the set of parameters is checked",
		}
		r.Extra["bounds"] = map[string]any{
			"typeclasses":       []string{"Eq", "Ord", "Hashable", "Monoid", "Clone", "Show"},
			"field_kinds":       kindIDs(),
			"fields_per_struct": "1..4",
			"values_per_field":  "3 (2 for four-field structs), overridden fields keep all",
			"packages":          len(pkgs),
			"targets":           nTargets,
		}
		r.Extra["uncovered"] = uncovered
	})
}

func kindIDs() []string {
	var out []string
	for _, k := range kinds {
		out = append(out, k.id+" = "+k.typ)
	}
	return out
}
