// Package lawlib is the law-test runtime of the C08 check. Its source is embedded into the
// harness and copied into every scratch module as package scratchmod/lawlib; the generated
// law file of a scratch package contains one Check* call per derive target, everything else
// (value domains, reference semantics, the shared-storage walker) lives here and works by
// reflection, so that the generated code stays small.
//
// Output protocol (stdout, one record per line, tab separated):
//
//	B <id>                          a target starts (a crash after this line is the target's)
//	R <id> <law> ok|FAIL <n> <msg>  verdict of one law over n evaluations
//	C <name> <n>                    census counter
//	E <id>                          the target is finished
//	DONE                            the whole program finished
package lawlib

import (
	"errors"
	"fmt"
	"io"
	"os"
	"reflect"
	"runtime/debug"
	"sort"
	"strconv"
	"strings"
	"unsafe"

	"github.com/csgura/fp"
)

// ---------------------------------------------------------------- output

type Out struct {
	W      io.Writer
	Census map[string]int64
}

func NewOut() *Out {
	// an instance that recurses without end dies at 64 MiB of stack instead of 1 GiB
	debug.SetMaxStack(64 << 20)
	return &Out{W: os.Stdout, Census: map[string]int64{}}
}

func oneLine(s string) string {
	s = strings.ReplaceAll(s, "\t", " ")
	s = strings.ReplaceAll(s, "\n", " | ")
	if len(s) > 900 {
		s = s[:900] + "..."
	}
	return s
}

func (o *Out) res(id, law string, evals int, fail string) {
	v := "ok"
	if fail != "" {
		v = "FAIL"
	}
	fmt.Fprintf(o.W, "R\t%s\t%s\t%s\t%d\t%s\n", id, law, v, evals, oneLine(fail))
}

func (o *Out) Count(name string, n int64) { o.Census[name] += n }

// Finish prints the census and the end marker.
func (o *Out) Finish() {
	var ks []string
	for k := range o.Census {
		ks = append(ks, k)
	}
	sort.Strings(ks)
	for _, k := range ks {
		fmt.Fprintf(o.W, "C\t%s\t%d\n", k, o.Census[k])
	}
	fmt.Fprintln(o.W, "DONE")
}

// Target runs the check of one derive target; a panic while the instance is built or used is
// the target's verdict, the other targets still run.
func (o *Out) Target(id string, f func()) {
	fmt.Fprintf(o.W, "B\t%s\n", id)
	func() {
		defer func() {
			if r := recover(); r != nil {
				o.res(id, "panic", 1, fmt.Sprintf("panic: %v", r))
			}
		}()
		f()
	}()
	fmt.Fprintf(o.W, "E\t%s\n", id)
}

// ---------------------------------------------------------------- override semantics

// Hits counts calls of the marker instances (Clone overrides cannot differ semantically).
var Hits = map[string]int{}

func Hit(tag string) { Hits[tag]++ }

// Opt describes what the harness expects of one target.
type Opt struct {
	// Over maps a type key ("scratchmod/tp.Name", "string", "github.com/csgura/fp.Seq") to the
	// semantic tag of the instance that the documented precedence selects for values of that
	// type: "W"/"P" case-insensitive / length-only strings (working package / package of the
	// type), "D" first-byte-only strings (custom derive package), "L" length-only sequences,
	// "S" order-insensitive sequences, "I" (imported given: natural semantics, marker only),
	// "F1" structs compared by their first field only.
	Over map[string]string
	// Vals overrides the number of values per field (0 = 3 for up to three fields, else 2).
	Vals int
	// Hot restricts the one-hot walk of a struct with more than six fields to these field
	// positions (1-based). ord.HCons costs 2^k steps when the k-th field decides, so an Ord over
	// the HList representation (22 fields and more) is only evaluated with early deciders.
	Hot []int
	// Cross names the behaviour of a local instance function of the derived typeclass that
	// takes an instance of ANOTHER typeclass for the element type of a sequence field; the
	// element type's entry in Over says which instance of that other typeclass the documented
	// precedence selects. "sorted": Show prints "<sorted:e1,e2>" in the (stable) order of the
	// element Ord; "dedupe": Monoid appends the elements of b that are not Eq-equal to one of a.
	Cross string
}

func stringElems(v reflect.Value) ([]string, bool) {
	if v.Kind() != reflect.Slice || v.Type().Elem().Kind() != reflect.String {
		return nil, false
	}
	out := make([]string, v.Len())
	for i := range out {
		out[i] = v.Index(i).String()
	}
	return out, true
}

// refShowSorted is what the marker ShowSeq prints for a sequence of strings.
func refShowSorted(sem string, els []string) string {
	c := append([]string(nil), els...)
	sort.SliceStable(c, func(i, j int) bool { return refCmpString(sem, c[i], c[j]) < 0 })
	return "<sorted:" + strings.Join(c, ",") + ">"
}

// refDedupe is the Combine of the marker MonoidSeq.
func refDedupe(sem string, a, b []string) []string {
	r := append([]string(nil), a...)
	for _, y := range b {
		dup := false
		for _, x := range a {
			if normString(sem, x) == normString(sem, y) {
				dup = true
			}
		}
		if !dup {
			r = append(r, y)
		}
	}
	return r
}

func typeKey(t reflect.Type) string {
	n := t.Name()
	if n == "" {
		return t.String()
	}
	if i := strings.Index(n, "["); i >= 0 {
		n = n[:i]
	}
	if t.PkgPath() == "" {
		return n
	}
	return t.PkgPath() + "." + n
}

func (p Opt) sem(t reflect.Type) string {
	if len(p.Over) == 0 {
		return ""
	}
	return p.Over[typeKey(t)]
}

func normString(sem, s string) string {
	switch sem {
	case "W":
		return strings.ToLower(s)
	case "P":
		return "len" + strconv.Itoa(len(s))
	case "D":
		if s == "" {
			return ""
		}
		return s[:1]
	}
	return s
}

// refCmpString is the order the marker Ord instances implement.
func refCmpString(sem, a, b string) int {
	switch sem {
	case "W":
		return strings.Compare(strings.ToLower(a), strings.ToLower(b))
	case "P":
		return len(a) - len(b)
	case "D":
		return strings.Compare(normString("D", a), normString("D", b))
	}
	return strings.Compare(a, b)
}

// refCombineString is the Combine the marker Monoid instances implement ("" is their Empty).
func refCombineString(sem, a, b string) (string, bool) {
	switch sem {
	case "W":
		return b + a, true
	case "P", "D":
		if sem == "D" {
			// first non-empty wins
			if a != "" {
				return a, true
			}
			return b, true
		}
		if b > a {
			return b, true
		}
		return a, true
	}
	return "", false
}

// ---------------------------------------------------------------- reflection helpers

var errorType = reflect.TypeOf((*error)(nil)).Elem()

func typeOf[T any]() reflect.Type { return reflect.TypeOf((*T)(nil)).Elem() }

// open makes a field of an addressable struct usable irrespective of export status.
func open(v reflect.Value) reflect.Value {
	if v.CanAddr() {
		return reflect.NewAt(v.Type(), unsafe.Pointer(v.UnsafeAddr())).Elem()
	}
	return v
}

func addressable(v reflect.Value) reflect.Value {
	if v.CanAddr() {
		return v
	}
	c := reflect.New(v.Type()).Elem()
	c.Set(v)
	return c
}

func sortedKeys(m reflect.Value) []reflect.Value {
	ks := m.MapKeys()
	sort.Slice(ks, func(i, j int) bool { return fmt.Sprint(ks[i]) < fmt.Sprint(ks[j]) })
	return ks
}

func isOption(t reflect.Type) bool {
	return t.Kind() == reflect.Struct && t.PkgPath() == "github.com/csgura/fp" && strings.HasPrefix(t.Name(), "Option[") &&
		t.NumField() == 2 && t.Field(0).Name == "present" && t.Field(0).Type.Kind() == reflect.Bool && t.Field(1).Name == "v"
}

// dump is the structural value under the expected semantics: nil and empty containers are the
// same, pointers are followed, values of an overridden type are replaced by their normal form.
func dump(v reflect.Value, p Opt, sb *strings.Builder, depth int) {
	if depth > 40 {
		sb.WriteString("<deep>")
		return
	}
	sem := p.sem(v.Type())
	switch v.Kind() {
	case reflect.Int, reflect.Int8, reflect.Int16, reflect.Int32, reflect.Int64:
		fmt.Fprintf(sb, "%d", v.Int())
	case reflect.Uint, reflect.Uint8, reflect.Uint16, reflect.Uint32, reflect.Uint64:
		fmt.Fprintf(sb, "%d", v.Uint())
	case reflect.String:
		fmt.Fprintf(sb, "%q", normString(sem, v.String()))
	case reflect.Bool:
		fmt.Fprintf(sb, "%v", v.Bool())
	case reflect.Ptr:
		if v.IsNil() {
			sb.WriteString("nil")
			return
		}
		sb.WriteString("&")
		dump(v.Elem(), p, sb, depth+1)
	case reflect.Slice:
		if sem == "L" {
			fmt.Fprintf(sb, "[len %d]", v.Len())
			return
		}
		var els []string
		for i := 0; i < v.Len(); i++ {
			var eb strings.Builder
			dump(v.Index(i), p, &eb, depth+1)
			els = append(els, eb.String())
		}
		if sem == "S" {
			sort.Strings(els)
		}
		sb.WriteString("[" + strings.Join(els, " ") + "]")
	case reflect.Map:
		sb.WriteString("{")
		for i, k := range sortedKeys(v) {
			if i > 0 {
				sb.WriteString(" ")
			}
			fmt.Fprintf(sb, "%v:", k)
			dump(v.MapIndex(k), p, sb, depth+1)
		}
		sb.WriteString("}")
	case reflect.Struct:
		v = addressable(v)
		if sem == "F1" { // the selected instance looks at the first field only
			sb.WriteString("(")
			dump(open(v.Field(0)), p, sb, depth+1)
			sb.WriteString(", _)")
			return
		}
		if isOption(v.Type()) {
			if !open(v.Field(0)).Bool() {
				sb.WriteString("None")
				return
			}
			sb.WriteString("Some(")
			dump(open(v.Field(1)), p, sb, depth+1)
			sb.WriteString(")")
			return
		}
		sb.WriteString("(")
		for i := 0; i < v.NumField(); i++ {
			if i > 0 {
				sb.WriteString(", ")
			}
			dump(open(v.Field(i)), p, sb, depth+1)
		}
		sb.WriteString(")")
	case reflect.Interface:
		if v.IsNil() {
			sb.WriteString("nil")
			return
		}
		if e, ok := v.Interface().(error); ok {
			fmt.Fprintf(sb, "error(%q)", e.Error())
			return
		}
		panic("lawlib: dump: interface value that is not an error")
	default:
		panic("lawlib: dump: unsupported kind " + v.Kind().String())
	}
}

func dumpOf(v reflect.Value, p Opt) string {
	var sb strings.Builder
	dump(v, p, &sb, 0)
	return sb.String()
}

// fieldDumps are the dumps of the top-level fields (one pseudo field for a non-struct type).
func fieldDumps(v reflect.Value, p Opt) []string {
	if v.Kind() != reflect.Struct || isOption(v.Type()) {
		return []string{dumpOf(v, p)}
	}
	v = addressable(v)
	out := make([]string, v.NumField())
	for i := range out {
		out[i] = dumpOf(open(v.Field(i)), p)
	}
	return out
}

func fieldNames(t reflect.Type) []string {
	if t.Kind() != reflect.Struct || isOption(t) {
		return []string{"<value>"}
	}
	out := make([]string, t.NumField())
	for i := range out {
		out[i] = t.Field(i).Name
	}
	return out
}

func fieldType(t reflect.Type, i int) reflect.Type {
	if t.Kind() != reflect.Struct || isOption(t) {
		return t
	}
	return t.Field(i).Type
}

func fieldValue(v reflect.Value, i int) reflect.Value {
	if v.Kind() != reflect.Struct || isOption(v.Type()) {
		return v
	}
	return open(addressable(v).Field(i))
}

// ---------------------------------------------------------------- value domains

type gen struct {
	desc string
	mk   func() reflect.Value // a fresh value, sharing no storage with any other build
}

func konst(t reflect.Type, v any) gen {
	return gen{fmt.Sprintf("%#v", v), func() reflect.Value { return reflect.ValueOf(v).Convert(t) }}
}

// WorkingPkg is the package gombok runs in: its structs are taken apart field by field
// whatever the visibility; of a struct of another scratch package only the exported fields
// are visible to the generated code, the others keep their zero value in every domain.
const WorkingPkg = "scratchmod/w"

func hiddenField(t reflect.Type, i int) bool {
	return t.Field(i).PkgPath != "" && t.PkgPath() != WorkingPkg && strings.HasPrefix(t.PkgPath(), "scratchmod/")
}

func fieldDom(t reflect.Type, i int, p Opt, depth int) []gen {
	if hiddenField(t, i) {
		ft := t.Field(i).Type
		return []gen{{"_", func() reflect.Value { return reflect.Zero(ft) }}}
	}
	return domOf(t.Field(i).Type, p, depth)
}

// pick2 are the two element values used inside pointers, options, slices and maps: the first
// and the second one, for a struct element the first and the last ("all second values": the
// one whose every field holds something, so that storage inside the element is reachable).
func pick2(t reflect.Type, ed []gen) []gen {
	if len(ed) < 2 {
		return ed
	}
	if t.Kind() == reflect.Struct && !isOption(t) {
		return []gen{ed[0], ed[len(ed)-1]}
	}
	return ed[:2]
}

// richSecond puts the richest value of a struct element in second place (slices and maps
// take their elements by index).
func richSecond(t reflect.Type, ed []gen) []gen {
	if len(ed) > 2 && t.Kind() == reflect.Struct && !isOption(t) {
		c := append([]gen(nil), ed...)
		c[1], c[len(c)-1] = c[len(c)-1], c[1]
		return c
	}
	return ed
}

// domOf is the small domain of a component type: 2-3 values. Slices form a chain
// nil, [e0], [e1 e0] (plus [e0 e1] when the slice type itself is overridden), so that every
// pair is ordered by its first element or by being a prefix: the lawfulness of the primitive
// instances themselves is the subject of C09/C10/C11, not of this check.
func domOf(t reflect.Type, p Opt, depth int) []gen {
	switch t.Kind() {
	case reflect.Int, reflect.Int8, reflect.Int16, reflect.Int32, reflect.Int64,
		reflect.Uint, reflect.Uint8, reflect.Uint16, reflect.Uint32, reflect.Uint64:
		return []gen{konst(t, 0), konst(t, 1), konst(t, 2)}
	case reflect.String:
		return []gen{konst(t, "A"), konst(t, "a"), konst(t, "b")} // ascending
	case reflect.Bool:
		return []gen{konst(t, false), konst(t, true)}
	case reflect.Interface:
		if t != errorType {
			panic("lawlib: domOf: interface type " + t.String())
		}
		mk := func(msg string) gen {
			return gen{"error(" + msg + ")", func() reflect.Value {
				v := reflect.New(t).Elem()
				v.Set(reflect.ValueOf(errors.New(msg)))
				return v
			}}
		}
		return []gen{{"nil", func() reflect.Value { return reflect.Zero(t) }}, mk("x"), mk("y")}
	case reflect.Ptr:
		out := []gen{{"nil", func() reflect.Value { return reflect.Zero(t) }}}
		if depth <= 0 {
			return out
		}
		ed := domOf(t.Elem(), p, depth-1)
		for _, e := range pick2(t.Elem(), ed) {
			e := e
			out = append(out, gen{"&" + e.desc, func() reflect.Value {
				v := reflect.New(t.Elem())
				v.Elem().Set(e.mk())
				return v.Convert(t) // t may be a named pointer type
			}})
		}
		return out
	case reflect.Slice:
		ed := richSecond(t.Elem(), domOf(t.Elem(), p, depth))
		mk := func(idx ...int) gen {
			var ds []string
			for _, j := range idx {
				ds = append(ds, ed[j].desc)
			}
			return gen{"[" + strings.Join(ds, " ") + "]", func() reflect.Value {
				s := reflect.MakeSlice(t, len(idx), len(idx))
				for i, j := range idx {
					s.Index(i).Set(ed[j].mk())
				}
				return s
			}}
		}
		out := []gen{{"nil", func() reflect.Value { return reflect.Zero(t) }}, mk(0)}
		if len(ed) > 1 {
			out = append(out, mk(1, 0))
			if p.sem(t) != "" {
				// the sequence instance is a local one: more values, so that the candidate
				// element instances (natural, W, P) give different results
				out = append(out, mk(0, 1), mk(1))
				if len(ed) > 2 {
					out = append(out, mk(2), mk(2, 0))
				}
			}
		}
		return out
	case reflect.Map:
		if t.Key().Kind() != reflect.String {
			panic("lawlib: domOf: map key " + t.Key().String())
		}
		ed := richSecond(t.Elem(), domOf(t.Elem(), p, depth))
		mk := func(keys []string, idx ...int) gen {
			var ds []string
			for i, j := range idx {
				ds = append(ds, keys[i]+":"+ed[j].desc)
			}
			return gen{"{" + strings.Join(ds, " ") + "}", func() reflect.Value {
				m := reflect.MakeMap(t)
				for i, k := range keys {
					m.SetMapIndex(reflect.ValueOf(k).Convert(t.Key()), ed[idx[i]].mk())
				}
				return m
			}}
		}
		out := []gen{{"nil", func() reflect.Value { return reflect.Zero(t) }}, mk([]string{"k"}, 0)}
		if len(ed) > 1 {
			out = append(out, mk([]string{"k", "j"}, 1, 0))
		}
		return out
	case reflect.Struct:
		if isOption(t) {
			ed := domOf(t.Field(1).Type, p, depth)
			out := []gen{{"None", func() reflect.Value { return reflect.Zero(t) }}}
			for _, e := range pick2(t.Field(1).Type, ed) {
				e := e
				out = append(out, gen{"Some(" + e.desc + ")", func() reflect.Value {
					v := reflect.New(t).Elem()
					open(v.Field(0)).SetBool(true)
					open(v.Field(1)).Set(e.mk())
					return v
				}})
			}
			return out
		}
		if t.NumField() == 0 {
			return []gen{{"()", func() reflect.Value { return reflect.Zero(t) }}}
		}
		comps := make([][]gen, t.NumField())
		for i := range comps {
			comps[i] = fieldDom(t, i, p, depth)
		}
		build := func(idx []int) gen {
			idx = append([]int(nil), idx...)
			var ds []string
			for i, j := range idx {
				ds = append(ds, comps[i][j].desc)
			}
			return gen{"(" + strings.Join(ds, ", ") + ")", func() reflect.Value {
				v := reflect.New(t).Elem()
				for i, j := range idx {
					open(v.Field(i)).Set(comps[i][j].mk())
				}
				return v
			}}
		}
		at := func(i, j int) int {
			if j >= len(comps[i]) {
				return len(comps[i]) - 1
			}
			return j
		}
		var out []gen
		seen := map[string]bool{}
		add := func(idx []int) {
			g := build(idx)
			if !seen[g.desc] && len(out) < 3 {
				seen[g.desc] = true
				out = append(out, g)
			}
		}
		n := len(comps)
		idx := make([]int, n)
		add(idx) // all first values
		idx[0] = at(0, 1)
		add(idx) // the first component differs
		for i := range idx {
			idx[i] = at(i, 1)
		}
		add(idx) // all second values
		for i := range idx {
			idx[i] = at(i, 2)
		}
		add(idx)
		idx = make([]int, n)
		idx[n-1] = at(n-1, 1)
		add(idx) // the last component differs
		return out
	}
	panic("lawlib: domOf: unsupported type " + t.String())
}

// domain is Dom(T): every combination of the field values.
type domain[T any] struct {
	t      reflect.Type
	descs  []string
	mk     []func() T
	nfield int
}

func buildDomain[T any](p Opt) *domain[T] {
	t := typeOf[T]()
	d := &domain[T]{t: t}
	conv := func(g gen) func() T {
		return func() T {
			v := addressable(g.mk())
			return *(v.Addr().Interface().(*T))
		}
	}
	if t.Kind() != reflect.Struct || isOption(t) {
		d.nfield = 1
		for _, g := range domOf(t, p, 2) {
			d.descs = append(d.descs, g.desc)
			d.mk = append(d.mk, conv(g))
		}
		return d
	}
	n := t.NumField()
	d.nfield = n
	per := p.Vals
	if per == 0 {
		per = 3
		if n > 3 && n <= 6 {
			per = 2
		}
	}
	comps := make([][]gen, n)
	for i := range comps {
		c := fieldDom(t, i, p, 2)
		limit := per
		if p.sem(t.Field(i).Type) != "" && limit < 7 {
			limit = 7 // an overridden field keeps all its values
		}
		if len(c) > limit {
			c = c[:limit]
		}
		comps[i] = c
	}
	idx := make([]int, n)
	oneHot, hot, hotVal := n > 6, -1, 1 // more than six fields: a one-hot walk instead of all combinations
	for {
		cur := append([]int(nil), idx...)
		var ds []string
		for i, j := range cur {
			ds = append(ds, comps[i][j].desc)
		}
		desc := "{" + strings.Join(ds, ", ") + "}"
		if oneHot {
			desc = "{all first values}"
			if hot >= 0 {
				desc = fmt.Sprintf("{all first values but %s = %s}", t.Field(hot).Name, comps[hot][cur[hot]].desc)
			}
		}
		g := gen{desc, func() reflect.Value {
			v := reflect.New(t).Elem()
			for i, j := range cur {
				open(v.Field(i)).Set(comps[i][j].mk())
			}
			return v
		}}
		d.descs = append(d.descs, g.desc)
		d.mk = append(d.mk, conv(g))
		if oneHot {
			// base value, then every field in turn at its second value, then at its third
			for i := range idx {
				idx[i] = 0
			}
			hot++
			if hot >= n {
				hot, hotVal = 0, hotVal+1
			}
			isHot := func(f int) bool {
				if len(p.Hot) == 0 {
					return true
				}
				for _, h := range p.Hot {
					if h == f+1 {
						return true
					}
				}
				return false
			}
			for hotVal <= 2 && (hotVal >= len(comps[hot]) || !isHot(hot)) {
				hot++
				if hot >= n {
					hot, hotVal = 0, hotVal+1
				}
			}
			if hotVal > 2 || (hotVal == 2 && n > 12) {
				break
			}
			idx[hot] = hotVal
			continue
		}
		k := n - 1
		for k >= 0 {
			idx[k]++
			if idx[k] < len(comps[k]) {
				break
			}
			idx[k] = 0
			k--
		}
		if k < 0 {
			break
		}
	}
	return d
}

type vals[T any] struct {
	d    *domain[T]
	v    []T
	rv   []reflect.Value
	nd   []string   // normalised dump (expected equality classes)
	fd   [][]string // normalised field dumps
	raw  []string   // plain structural dump
	rawf [][]string
}

func (d *domain[T]) build(p Opt) *vals[T] {
	vs := &vals[T]{d: d}
	for _, mk := range d.mk {
		x := mk()
		rv := reflect.ValueOf(&x).Elem()
		vs.v = append(vs.v, x)
		vs.rv = append(vs.rv, rv)
		vs.nd = append(vs.nd, dumpOf(rv, p))
		vs.fd = append(vs.fd, fieldDumps(rv, p))
		vs.raw = append(vs.raw, dumpOf(rv, Opt{}))
		vs.rawf = append(vs.rawf, fieldDumps(rv, Opt{}))
	}
	return vs
}

func rvOf[T any](x T) reflect.Value { return reflect.ValueOf(&x).Elem() }

// ---------------------------------------------------------------- Eq, Hashable

func census[T any](o *Out, tc string, vs *vals[T]) {
	o.Count("targets/"+tc, 1)
	o.Count(fmt.Sprintf("dom-size/%s/fields=%d", tc, vs.d.nfield), int64(len(vs.v)))
	cls := map[string]bool{}
	for _, s := range vs.nd {
		cls[s] = true
	}
	if len(cls) < len(vs.v) {
		o.Count("targets-with-equal-but-distinct-values/"+tc, 1)
	}
}

func checkEqv[T any](o *Out, id string, vs *vals[T], eqv func(a, b T) bool) {
	n, fail := 0, ""
	for i := range vs.v {
		for j := range vs.v {
			n++
			got := eqv(vs.v[i], vs.v[j])
			want := vs.nd[i] == vs.nd[j]
			if got != want && fail == "" {
				fail = fmt.Sprintf("Eqv(%s, %s) = %v, the conjunction of the field equalities is %v", vs.d.descs[i], vs.d.descs[j], got, want)
				if want {
					fail += " (all fields equal)"
				} else {
					for k := range vs.fd[i] {
						if vs.fd[i][k] != vs.fd[j][k] {
							fail += fmt.Sprintf(" (field %s differs: %s vs %s)", fieldNames(vs.d.t)[k], vs.fd[i][k], vs.fd[j][k])
							break
						}
					}
				}
			}
		}
	}
	o.res(id, "eq-conjunction", n, fail)
}

func CheckEq[T any](o *Out, id string, inst fp.Eq[T], p Opt) {
	vs := buildDomain[T](p).build(p)
	census(o, "Eq", vs)
	checkEqv(o, id, vs, inst.Eqv)
}

func CheckHash[T any](o *Out, id string, inst fp.Hashable[T], p Opt) {
	vs := buildDomain[T](p).build(p)
	census(o, "Hashable", vs)
	checkEqv(o, id, vs, inst.Eqv)
	n, fail := 0, ""
	hs := make([]uint32, len(vs.v))
	for i := range vs.v {
		hs[i] = inst.Hash(vs.v[i])
		n++
		if h2 := inst.Hash(vs.v[i]); h2 != hs[i] && fail == "" {
			fail = fmt.Sprintf("Hash(%s) = %d, then %d", vs.d.descs[i], hs[i], h2)
		}
	}
	o.res(id, "hash-deterministic", n, fail)
	n, fail = 0, ""
	distinct := map[uint32]bool{}
	for i := range vs.v {
		distinct[hs[i]] = true
		for j := range vs.v {
			if vs.nd[i] == vs.nd[j] {
				n++
				// a second, separately built value (no shared pointers)
				if h := inst.Hash(vs.d.mk[j]()); h != hs[i] && fail == "" {
					fail = fmt.Sprintf("%s and %s are equal field by field but Hash gives %d and %d", vs.d.descs[i], vs.d.descs[j], hs[i], h)
				}
			}
		}
	}
	o.res(id, "hash-agrees-with-eq", n, fail)
	if len(distinct) > 1 {
		o.Count("hash-targets-with-distinct-hashes", 1)
	}
}

// ---------------------------------------------------------------- Ord

func sign(c int) int {
	switch {
	case c < 0:
		return -1
	case c > 0:
		return 1
	}
	return 0
}

func CheckOrd[T any](o *Out, id string, inst fp.Ord[T], p Opt) {
	vs := buildDomain[T](p).build(p)
	census(o, "Ord", vs)
	checkEqv(o, id, vs, inst.Eqv)
	N := len(vs.v)
	less := make([][]bool, N)
	n, fail, failLex, failPrec := 0, "", "", ""
	nLex, nPrec := 0, 0
	type fkey struct {
		f    int
		a, b string
	}
	sig := map[fkey]int{}
	sigBy := map[fkey][2]int{}
	names := fieldNames(vs.d.t)
	for i := range vs.v {
		less[i] = make([]bool, N)
		for j := range vs.v {
			less[i][j] = inst.Less(vs.v[i], vs.v[j])
		}
	}
	for i := range vs.v {
		for j := range vs.v {
			n++
			eq := vs.nd[i] == vs.nd[j]
			lt, gt := less[i][j], less[j][i]
			c := inst.Compare(vs.v[i], vs.v[j])
			switch {
			case fail != "":
			case eq && (lt || gt):
				fail = fmt.Sprintf("%s and %s are equal field by field but Less gives %v / %v", vs.d.descs[i], vs.d.descs[j], lt, gt)
			case !eq && lt == gt:
				fail = fmt.Sprintf("trichotomy: %s and %s differ, Less(a,b)=%v and Less(b,a)=%v", vs.d.descs[i], vs.d.descs[j], lt, gt)
			case eq && c != 0, lt && c >= 0, gt && c <= 0:
				fail = fmt.Sprintf("Compare(%s, %s) = %d but Less(a,b)=%v Less(b,a)=%v", vs.d.descs[i], vs.d.descs[j], c, lt, gt)
			}
			if eq || lt == gt {
				continue
			}
			// lexicographic: the first differing field alone decides
			f := 0
			for vs.fd[i][f] == vs.fd[j][f] {
				f++
			}
			s := 1
			if lt {
				s = -1
			}
			nLex++
			k := fkey{f, vs.fd[i][f], vs.fd[j][f]}
			if prev, ok := sig[k]; ok && prev != s && failLex == "" {
				w := sigBy[k]
				failLex = fmt.Sprintf("not lexicographic in declaration order: %s vs %s and %s vs %s agree on the fields before %q and have the same pair of values (%s, %s) there, but compare %d and %d",
					vs.d.descs[w[0]], vs.d.descs[w[1]], vs.d.descs[i], vs.d.descs[j], names[f], k.a, k.b, prev, s)
			} else if !ok {
				sig[k] = s
				sigBy[k] = [2]int{i, j}
			}
			// documented precedence: an overridden field is ordered by the selected instance
			if sem := p.sem(fieldType(vs.d.t, f)); sem != "" && fieldType(vs.d.t, f).Kind() == reflect.String {
				nPrec++
				want := sign(refCmpString(sem, fieldValue(vs.rv[i], f).String(), fieldValue(vs.rv[j], f).String()))
				if want != s && failPrec == "" {
					failPrec = fmt.Sprintf("field %q: %s vs %s compares %d, the instance selected by the documented precedence (%s) gives %d", names[f], vs.d.descs[i], vs.d.descs[j], s, sem, want)
				}
			}
		}
	}
	o.res(id, "ord-total", n, fail)
	o.res(id, "ord-lexicographic", nLex, failLex)
	if nPrec > 0 || len(p.Over) > 0 {
		o.res(id, "ord-precedence", nPrec, failPrec)
	}
	n, fail = 0, ""
	for i := 0; i < N; i++ {
		for j := 0; j < N; j++ {
			if !less[i][j] {
				continue
			}
			for k := 0; k < N; k++ {
				n++
				if less[j][k] && !less[i][k] && fail == "" {
					fail = fmt.Sprintf("transitivity: %s < %s < %s but not a < c", vs.d.descs[i], vs.d.descs[j], vs.d.descs[k])
				}
			}
		}
	}
	o.res(id, "ord-transitive", n, fail)
}

// ---------------------------------------------------------------- Monoid

func CheckMonoid[T any](o *Out, id string, inst fp.Monoid[T], p Opt) {
	// The structural (not normalised) value is used: Combine produces values, not classes.
	raw := Opt{}
	vs := buildDomain[T](p).build(p)
	census(o, "Monoid", vs)
	N := len(vs.v)
	names := fieldNames(vs.d.t)
	empty := inst.Empty()
	comb := make([][]T, N)
	cd := make([][]string, N)
	cf := make([][][]string, N)
	for i := range vs.v {
		comb[i] = make([]T, N)
		cd[i] = make([]string, N)
		cf[i] = make([][]string, N)
		for j := range vs.v {
			comb[i][j] = inst.Combine(vs.v[i], vs.v[j])
			rv := rvOf(comb[i][j])
			cd[i][j] = dumpOf(rv, raw)
			cf[i][j] = fieldDumps(rv, raw)
		}
	}
	// identity, whole value and per field
	n, fail := 0, ""
	for i := range vs.v {
		n += 2
		l := fieldDumps(rvOf(inst.Combine(inst.Empty(), vs.v[i])), raw)
		r := fieldDumps(rvOf(inst.Combine(vs.v[i], inst.Empty())), raw)
		for f := range names {
			if fail != "" {
				break
			}
			if l[f] != vs.rawf[i][f] {
				fail = fmt.Sprintf("Combine(Empty, %s): field %q is %s, want %s (Empty = %s)", vs.d.descs[i], names[f], l[f], vs.rawf[i][f], dumpOf(rvOf(empty), raw))
			} else if r[f] != vs.rawf[i][f] {
				fail = fmt.Sprintf("Combine(%s, Empty): field %q is %s, want %s (Empty = %s)", vs.d.descs[i], names[f], r[f], vs.rawf[i][f], dumpOf(rvOf(empty), raw))
			}
		}
	}
	o.res(id, "monoid-identity-per-field", n, fail)
	// field-wise independence
	type fkey struct {
		f    int
		a, b string
	}
	seen := map[fkey]string{}
	by := map[fkey][2]int{}
	n, fail = 0, ""
	failPrec, nPrec := "", 0
	for i := range vs.v {
		for j := range vs.v {
			for f := range names {
				n++
				k := fkey{f, vs.rawf[i][f], vs.rawf[j][f]}
				if prev, ok := seen[k]; ok && prev != cf[i][j][f] && fail == "" {
					w := by[k]
					fail = fmt.Sprintf("not field-wise: field %q of Combine(%s, %s) is %s but of Combine(%s, %s) it is %s, although both pairs have (%s, %s) in that field",
						names[f], vs.d.descs[w[0]], vs.d.descs[w[1]], prev, vs.d.descs[i], vs.d.descs[j], cf[i][j][f], k.a, k.b)
				} else if !ok {
					seen[k] = cf[i][j][f]
					by[k] = [2]int{i, j}
				}
				if p.Cross == "dedupe" {
					if a, ok := stringElems(fieldValue(vs.rv[i], f)); ok {
						b, _ := stringElems(fieldValue(vs.rv[j], f))
						got, _ := stringElems(fieldValue(rvOf(comb[i][j]), f))
						sem := p.sem(fieldType(vs.d.t, f).Elem())
						nPrec++
						if want := refDedupe(sem, a, b); fmt.Sprint(got) != fmt.Sprint(want) && failPrec == "" {
							failPrec = fmt.Sprintf("field %q of Combine(%s, %s) is %q; the local MonoidSeq with the Eq instance the documented precedence selects for the element type (%q) gives %q", names[f], vs.d.descs[i], vs.d.descs[j], got, sem, want)
						}
					}
				}
				if sem := p.sem(fieldType(vs.d.t, f)); sem != "" && fieldType(vs.d.t, f).Kind() == reflect.String {
					if want, ok := refCombineString(sem, fieldValue(vs.rv[i], f).String(), fieldValue(vs.rv[j], f).String()); ok {
						nPrec++
						if got := fieldValue(rvOf(comb[i][j]), f).String(); got != want && failPrec == "" {
							failPrec = fmt.Sprintf("field %q of Combine(%s, %s) is %q, the instance selected by the documented precedence (%s) gives %q", names[f], vs.d.descs[i], vs.d.descs[j], got, sem, want)
						}
					}
				}
			}
		}
	}
	o.res(id, "monoid-fieldwise", n, fail)
	if nPrec > 0 || len(p.Over) > 0 || p.Cross != "" {
		o.res(id, "monoid-precedence", nPrec, failPrec)
	}
	// associativity
	n, fail = 0, ""
	for i := range vs.v {
		for j := range vs.v {
			for k := range vs.v {
				n++
				l := dumpOf(rvOf(inst.Combine(comb[i][j], vs.v[k])), raw)
				r := dumpOf(rvOf(inst.Combine(vs.v[i], comb[j][k])), raw)
				if l != r && fail == "" {
					fail = fmt.Sprintf("associativity: x=%s y=%s z=%s: (x+y)+z = %s, x+(y+z) = %s", vs.d.descs[i], vs.d.descs[j], vs.d.descs[k], l, r)
				}
			}
		}
	}
	o.res(id, "monoid-associative", n, fail)
	// the inputs were only read
	for i := range vs.v {
		if now := dumpOf(vs.rv[i], raw); now != vs.raw[i] {
			o.Count("monoid-combine-changed-an-input", 1)
			break
		}
	}
}

// ---------------------------------------------------------------- Clone

type region struct {
	kind  string
	start uintptr
	size  uintptr
	path  string
}

func regions(v reflect.Value, path string, out *[]region, seen map[[2]uintptr]bool) {
	switch v.Kind() {
	case reflect.Ptr:
		if v.IsNil() {
			return
		}
		sz := v.Type().Elem().Size()
		key := [2]uintptr{v.Pointer(), sz}
		if sz > 0 {
			*out = append(*out, region{"pointer target", v.Pointer(), sz, path})
		}
		if seen[key] {
			return
		}
		seen[key] = true
		regions(v.Elem(), path+".*", out, seen)
	case reflect.Slice:
		if v.Cap() == 0 {
			return
		}
		sz := uintptr(v.Cap()) * v.Type().Elem().Size()
		if sz > 0 {
			*out = append(*out, region{"slice array", v.Pointer(), sz, path})
		}
		full := v.Slice(0, v.Cap())
		for i := 0; i < full.Len(); i++ {
			regions(full.Index(i), fmt.Sprintf("%s[%d]", path, i), out, seen)
		}
	case reflect.Map:
		if v.IsNil() {
			return
		}
		*out = append(*out, region{"map", v.Pointer(), 1, path})
		for _, k := range sortedKeys(v) {
			tmp := reflect.New(v.Type().Elem()).Elem()
			tmp.Set(v.MapIndex(k))
			regions(tmp, fmt.Sprintf("%s[%v]", path, k), out, seen)
		}
	case reflect.Struct:
		for i := 0; i < v.NumField(); i++ {
			regions(open(v.Field(i)), path+"."+v.Type().Field(i).Name, out, seen)
		}
	}
}

func regionsOf(v reflect.Value) []region {
	var out []region
	regions(v, "", &out, map[[2]uintptr]bool{})
	return out
}

func overlap(a, b region) bool {
	if (a.kind == "map") != (b.kind == "map") {
		return false
	}
	if a.kind == "map" {
		return a.start == b.start
	}
	return a.start < b.start+b.size && b.start < a.start+a.size
}

// scramble overwrites every mutable location reachable from the addressable value v
// (children first, then the location itself).
func scramble(v reflect.Value, depth int) {
	if depth > 40 {
		return
	}
	switch v.Kind() {
	case reflect.Int, reflect.Int8, reflect.Int16, reflect.Int32, reflect.Int64:
		v.SetInt(v.Int() + 100)
	case reflect.Uint, reflect.Uint8, reflect.Uint16, reflect.Uint32, reflect.Uint64:
		v.SetUint(v.Uint() + 100)
	case reflect.String:
		v.SetString(v.String() + "~")
	case reflect.Bool:
		v.SetBool(!v.Bool())
	case reflect.Ptr:
		if v.IsNil() {
			v.Set(reflect.New(v.Type().Elem()).Convert(v.Type()))
			return
		}
		scramble(v.Elem(), depth+1)
		v.Set(reflect.Zero(v.Type()))
	case reflect.Slice:
		n := v.Len()
		if v.Cap() > 0 {
			full := v.Slice(0, v.Cap())
			for i := 0; i < full.Len(); i++ {
				scramble(full.Index(i), depth+1)
			}
		}
		v.Set(reflect.MakeSlice(v.Type(), n+1, n+1))
	case reflect.Map:
		if v.Type().Key().Kind() != reflect.String {
			return
		}
		extra := reflect.ValueOf("~new").Convert(v.Type().Key())
		if v.IsNil() {
			m := reflect.MakeMap(v.Type())
			m.SetMapIndex(extra, reflect.Zero(v.Type().Elem()))
			v.Set(m)
			return
		}
		for _, k := range sortedKeys(v) {
			tmp := reflect.New(v.Type().Elem()).Elem()
			tmp.Set(v.MapIndex(k))
			scramble(tmp, depth+1)
			v.SetMapIndex(k, tmp)
		}
		v.SetMapIndex(extra, reflect.Zero(v.Type().Elem()))
		v.Set(reflect.Zero(v.Type()))
	case reflect.Struct:
		for i := 0; i < v.NumField(); i++ {
			scramble(open(v.Field(i)), depth+1)
		}
	}
}

func CheckClone[T any](o *Out, id string, inst fp.Clone[T], p Opt) {
	raw := Opt{}
	d := buildDomain[T](p)
	vs := d.build(p)
	census(o, "Clone", vs)
	n, failEq, failShare, failPrec := 0, "", "", ""
	withStorage := 0
	want := ""
	for _, s := range p.Over {
		if s == "W" || s == "P" || s == "D" || s == "I" {
			want = s
		}
	}
	total := map[string]int{}
	for i := range d.mk {
		n++
		orig := new(T)
		*orig = d.mk[i]()
		ov := reflect.ValueOf(orig).Elem()
		pre := dumpOf(ov, raw)
		for k := range Hits {
			delete(Hits, k)
		}
		cl := new(T)
		*cl = inst.Clone(*orig)
		cv := reflect.ValueOf(cl).Elem()
		for _, tag := range []string{"W", "P", "D", "I"} {
			total[tag] += Hits[tag]
			if want != "" && tag != want && Hits[tag] > 0 && failPrec == "" {
				failPrec = fmt.Sprintf("Clone(%s): marker instance %s was called; the documented precedence selects %s", d.descs[i], tag, want)
			}
		}
		if got := dumpOf(cv, raw); got != pre && failEq == "" {
			failEq = fmt.Sprintf("Clone(%s) = %s", pre, got)
		}
		if now := dumpOf(ov, raw); now != pre && failEq == "" {
			failEq = fmt.Sprintf("Clone changed its argument from %s to %s", pre, now)
		}
		ro, rc := regionsOf(ov), regionsOf(cv)
		if len(ro) > 0 {
			withStorage++
		}
		for _, b := range rc {
			for _, a := range ro {
				if overlap(a, b) && failShare == "" {
					failShare = fmt.Sprintf("Clone(%s): the clone's %s at path %s is storage of the original (%s at path %s)", d.descs[i], b.kind, b.path, a.kind, a.path)
				}
			}
		}
		// mutate and compare: overwrite everything reachable from the clone, the original must
		// not notice; then the other way round on a fresh pair
		scramble(cv, 0)
		if now := dumpOf(ov, raw); now != pre && failShare == "" {
			failShare = fmt.Sprintf("Clone(%s): after overwriting every location reachable from the clone the original reads %s", d.descs[i], now)
		}
		orig2 := new(T)
		*orig2 = d.mk[i]()
		cl2 := new(T)
		*cl2 = inst.Clone(*orig2)
		before := dumpOf(reflect.ValueOf(cl2).Elem(), raw)
		scramble(reflect.ValueOf(orig2).Elem(), 0)
		if now := dumpOf(reflect.ValueOf(cl2).Elem(), raw); now != before && failShare == "" {
			failShare = fmt.Sprintf("Clone(%s): after overwriting every location reachable from the original the clone reads %s, before %s", d.descs[i], now, before)
		}
	}
	o.res(id, "clone-equal", n, failEq)
	o.res(id, "clone-no-shared-storage", n, failShare)
	if want != "" {
		if failPrec == "" && total[want] == 0 {
			failPrec = fmt.Sprintf("the instance selected by the documented precedence (%s) was never called over the whole domain", want)
		}
		o.res(id, "clone-precedence", n, failPrec)
	}
	if withStorage > 0 {
		o.Count("clone-targets-with-mutable-storage", 1)
	}
}

// ---------------------------------------------------------------- Show

func CheckShow[T any](o *Out, id string, inst fp.Show[T], p Opt) {
	vs := buildDomain[T](p).build(p)
	census(o, "Show", vs)
	n, fail, failPrec := 0, "", ""
	want := ""
	hasOverField := false
	for f := 0; f < vs.d.nfield; f++ {
		if s := p.sem(fieldType(vs.d.t, f)); s == "W" || s == "P" || s == "D" || s == "I" {
			want = s
			hasOverField = true
		}
	}
	failCross, nCross := "", 0
	failOrder, nOrder := "", 0
	var names []string
	if vs.d.t.Kind() == reflect.Struct && !isOption(vs.d.t) {
		for i := 0; i < vs.d.t.NumField(); i++ {
			if !hiddenField(vs.d.t, i) && !strings.HasPrefix(vs.d.t.Field(i).Name, "_") {
				names = append(names, vs.d.t.Field(i).Name)
			}
		}
	}
	outs := map[string]bool{}
	for i := range vs.v {
		n++
		s1 := inst.Show(vs.v[i])
		s2 := inst.Show(vs.v[i])
		outs[s1] = true
		if s1 != s2 && fail == "" {
			fail = fmt.Sprintf("Show(%s) = %q, then %q", vs.d.descs[i], s1, s2)
		}
		if len(names) > 0 && failOrder == "" {
			nOrder++
			pos := 0
			for _, nm := range names {
				k := strings.Index(s1[pos:], nm+":")
				if k < 0 {
					failOrder = fmt.Sprintf("Show(%s) = %q: the fields are not shown with their names in declaration order %v (no %q after offset %d)", vs.d.descs[i], s1, names, nm+":", pos)
					break
				}
				pos += k + len(nm) + 1
			}
		}
		if p.Cross == "sorted" {
			for f := 0; f < vs.d.nfield; f++ {
				if els, ok := stringElems(fieldValue(vs.rv[i], f)); ok {
					nCross++
					want := refShowSorted(p.sem(fieldType(vs.d.t, f).Elem()), els)
					if !strings.Contains(s1, want) && failCross == "" {
						failCross = fmt.Sprintf("Show(%s) = %q does not contain %q: the local ShowSeq must be given the Ord instance the documented precedence selects for the element type (%q)", vs.d.descs[i], s1, want, p.sem(fieldType(vs.d.t, f).Elem()))
					}
				}
			}
		}
		if hasOverField && failPrec == "" {
			for _, tag := range []string{"W", "P", "D", "I"} {
				if strings.Contains(s1, "<"+tag+":") != (tag == want) {
					failPrec = fmt.Sprintf("Show(%s) = %q: marker of instance %s present=%v; the documented precedence selects %s", vs.d.descs[i], s1, tag, strings.Contains(s1, "<"+tag+":"), want)
				}
			}
		}
	}
	o.res(id, "show-deterministic", n, fail)
	if hasOverField {
		o.res(id, "show-precedence", n, failPrec)
	}
	if p.Cross == "sorted" {
		o.res(id, "show-cross-typeclass-precedence", nCross, failCross)
	}
	if len(names) > 0 {
		o.res(id, "show-fields-in-declaration-order", nOrder, failOrder)
	}
	if len(outs) > 1 {
		o.Count("show-targets-with-distinct-outputs", 1)
	}
}

// ---------------------------------------------------------------- reference instances

// The instances handed to a derived generic function for its type parameters.

func RefEq[T any]() fp.Eq[T] {
	return fp.EqFunc[T](func(a, b T) bool { return dumpOf(rvOf(a), Opt{}) == dumpOf(rvOf(b), Opt{}) })
}

func cmpAny(a, b reflect.Value) int {
	switch a.Kind() {
	case reflect.Int, reflect.Int8, reflect.Int16, reflect.Int32, reflect.Int64:
		return sign(int(a.Int() - b.Int()))
	case reflect.String:
		return strings.Compare(a.String(), b.String())
	}
	panic("lawlib: RefOrd: unsupported kind " + a.Kind().String())
}

func RefOrd[T any]() fp.Ord[T] {
	return fp.CompareFunc[T](func(a, b T) int { return cmpAny(rvOf(a), rvOf(b)) })
}

type refHash[T any] struct{ fp.Eq[T] }

func (r refHash[T]) Hash(a T) uint32 {
	var h uint32 = 2166136261
	for _, c := range []byte(dumpOf(rvOf(a), Opt{})) {
		h = (h ^ uint32(c)) * 16777619
	}
	return h
}

func RefHash[T any]() fp.Hashable[T] { return refHash[T]{RefEq[T]()} }

type refMonoid[T any] struct{}

func (refMonoid[T]) Empty() T { var z T; return z }
func (refMonoid[T]) Combine(a, b T) T {
	av, bv := rvOf(a), rvOf(b)
	r := reflect.New(av.Type()).Elem()
	switch av.Kind() {
	case reflect.Int, reflect.Int8, reflect.Int16, reflect.Int32, reflect.Int64:
		r.SetInt(av.Int() + bv.Int())
	case reflect.String:
		r.SetString(av.String() + bv.String())
	default:
		panic("lawlib: RefMonoid: unsupported kind " + av.Kind().String())
	}
	return r.Interface().(T)
}

func RefMonoid[T any]() fp.Monoid[T] { return refMonoid[T]{} }

func RefClone[T any]() fp.Clone[T] { return fp.CloneFunc[T](func(a T) T { return a }) }

func RefShow[T any]() fp.Show[T] {
	return fp.ShowFunc[T](func(a T) string { return dumpOf(rvOf(a), Opt{}) })
}
