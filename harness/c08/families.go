package main

import (
	"fmt"
	"strings"
)

// What is deliberately not checked (README silent or ambiguous, or outside the statement).
var uncovered = []string{
	"field kinds without an instance in the derive package (gombok emits a reference to a local instance the user has to write; the result compiles only with that instance)",
	"precedence between an instance found by name and one found by type inside one package (README ranks packages, not lookups within a package)",
	"precedence between the derive package and a package imported with @fp.ImportGiven (README silent); only imports that add an otherwise missing instance are enumerated",
	"local overrides of Tuple/HCons/HNil/Labelled/Named/Ptr/GoMap/Option instances (README rows 2-4, 6, 8, 12-14): only named types, basic string, Slice and Seq overrides are enumerated",
	"recursion through slices/maps/Option (the statement names recursion through pointers; a recursive slice field makes the emitted function call itself eagerly)",
	"struct types of another package with unexported fields (gombok silently derives over the exported fields only; README silent)",
	"@fp.Value types (AsTuple/Builder based conversions) are covered by C07; targets here are plain structs, whose conversions gombok emits inline",
	"typeclasses other than Eq, Ord, Hashable, Monoid, Clone, Show (js, read ... live under test/internal)",
	"structs with more than four fields (>= 22 fields switch to the HList representation: C07/C14 territory)",
}

type typeSpec struct {
	name    string // type name
	decl    string
	derive  string // type expression in the directive (default name)
	tcs     tcSet
	tparams []string
	phantom []bool
	deps    []string // type names whose instances this one refers to
	kinds   []string // census
}

// addTyped adds one type and its derive targets.
func (p *pkgSpec) addTyped(family, label string, ts typeSpec, want tcSet, mod func(t *target)) {
	if ts.decl != "" {
		p.addType(ts.name, ts.decl)
	}
	for tc := Eq; tc < nTC; tc++ {
		if !ts.tcs[tc] || !want[tc] {
			continue
		}
		d := ts.derive
		if d == "" {
			d = ts.name
		}
		t := &target{ID: fmt.Sprintf("%s/%s/%s", tcs[tc].Name, family, label), TC: tc, Type: d,
			InstName: tcs[tc].Name + strings.ReplaceAll(ts.name, "tp.", "Tp"), TParams: ts.tparams, Phantom: ts.phantom}
		for _, dep := range ts.deps {
			t.Deps = append(t.Deps, tcs[tc].Name+dep)
		}
		switch len(ts.tparams) {
		case 1:
			t.Insts = []instn{{[]string{"int"}}, {[]string{"string"}}}
		case 2:
			t.Insts = []instn{{[]string{"int", "string"}}, {[]string{"string", "string"}}}
		}
		t.Counts = append(t.Counts, "family/"+family)
		for _, k := range ts.kinds {
			t.Counts = append(t.Counts, "shape/"+k)
		}
		if mod != nil {
			mod(t)
		}
		p.Targets = append(p.Targets, t)
	}
}

// ---------------------------------------------------------------- generic targets

func genericPackages(thorough bool) []*pkgSpec {
	all := allTC()
	g := []typeSpec{
		{name: "G1", decl: "type G1[T any] struct {\n\tv T\n}", derive: "G1[any]", tcs: all, tparams: []string{"T"}},
		{name: "G2", decl: "type G2[T any] struct {\n\tv T\n\tn int\n}", derive: "G2[any]", tcs: all, tparams: []string{"T"}},
		{name: "G3", decl: "type G3[T any] struct {\n\tv []T\n}", derive: "G3[any]", tcs: all, tparams: []string{"T"}},
		{name: "G4", decl: "type G4[T any] struct {\n\tv fp.Option[T]\n\tw fp.Seq[T]\n}", derive: "G4[any]", tcs: all, tparams: []string{"T"}},
		{name: "G5", decl: "type G5[A, B any] struct {\n\ta A\n\tb B\n}", derive: "G5[any, any]", tcs: all, tparams: []string{"A", "B"}},
		{name: "G6", decl: "type G6[A, B any] struct {\n\tb B\n\ta A\n}", derive: "G6[any, any]", tcs: all, tparams: []string{"A", "B"}},
		{name: "G7", decl: "type G7[A, B any] struct {\n\ta A\n\tn int\n}", derive: "G7[any, any]", tcs: all, tparams: []string{"A", "B"}, phantom: []bool{false, true}},
		{name: "G8", decl: "type G8[A, B any] struct {\n\tb B\n}", derive: "G8[any, any]", tcs: all, tparams: []string{"A", "B"}, phantom: []bool{true, false}},
		{name: "G9", decl: "type G9[A, B any] struct {\n\tt fp.Tuple2[A, B]\n}", derive: "G9[any, any]", tcs: all, tparams: []string{"A", "B"}},
		{name: "G10", decl: "type G10[T comparable] struct {\n\tv T\n\tp *T\n}", derive: "G10[int]", tcs: all, tparams: []string{"T"}},
		{name: "G11", decl: "type G11[T any] struct {\n\tm map[string]T\n\tn int\n}", derive: "G11[any]", tcs: only(Eq, Monoid, Clone, Show), tparams: []string{"T"}},
		{name: "G12", decl: "type G12[T any] struct {\n\tA T\n\tB T\n\tC *T\n}", derive: "G12[any]", tcs: all, tparams: []string{"T"}},
	}
	users := []typeSpec{
		{name: "UseG2", decl: "type UseG2 struct {\n\tg G2[int]\n\ts string\n}", tcs: all, deps: []string{"G2"}},
		{name: "UseG7", decl: "type UseG7 struct {\n\tg G7[int, string]\n}", tcs: all, deps: []string{"G7"}},
		{name: "UseG5", decl: "type UseG5 struct {\n\tg G5[string, int]\n\th G5[int, int]\n}", tcs: all, deps: []string{"G5"}},
		{name: "UseG6", decl: "type UseG6 struct {\n\tg G6[int, string]\n\tn int\n}", tcs: all, deps: []string{"G6"}},
		{name: "UseG8", decl: "type UseG8 struct {\n\tn int\n\tg G8[string, int]\n}", tcs: all, deps: []string{"G8"}},
	}
	mark := func(t *target) { t.Counts = append(t.Counts, fmt.Sprintf("generic/type-params=%d", len(t.TParams))) }
	var out []*pkgSpec
	per := 2
	if thorough {
		per = 4
	}
	for i := 0; i < len(g); i += per {
		p := &pkgSpec{Name: fmt.Sprintf("generic/%02d", len(out)+1)}
		for _, ts := range g[i:min(i+per, len(g))] {
			p.addTyped("generic", ts.name, ts, all, mark)
		}
		out = append(out, p)
	}
	byName := map[string]typeSpec{}
	for _, ts := range g {
		byName[ts.name] = ts
	}
	for i, u := range users {
		p := &pkgSpec{Name: fmt.Sprintf("generic/use-%d", i+1)}
		dep := byName[u.deps[0]]
		p.addTyped("generic", dep.name, dep, all, func(t *target) { t.NoLaw = true; t.ID = strings.Replace(t.ID, "/generic/", "/aux/", 1) })
		p.addTyped("generic", u.name, u, all, func(t *target) { t.Counts = append(t.Counts, "generic/field-of-instantiated-generic") })
		out = append(out, p)
	}
	return out
}

// ---------------------------------------------------------------- recursive types, recursive=true

func recursivePackages(thorough bool) []*pkgSpec {
	all := allTC()
	var out []*pkgSpec
	recTrue := func(t *target) { t.RecTrue = true; t.Counts = append(t.Counts, "directive/recursive=true") }
	plain := func(t *target) { t.Counts = append(t.Counts, "directive/plain") }

	node := func(name string) typeSpec {
		return typeSpec{name: name, decl: fmt.Sprintf("type %s struct {\n\tv     int\n\tleft  *%s\n\tright *%s\n}", name, name, name), tcs: all, kinds: []string{"recursive-node"}}
	}
	p := &pkgSpec{Name: "recursive/node"}
	p.addTyped("recursive", "node", node("Node"), all, plain)
	p.addTyped("recursive", "tree(node-inside)", typeSpec{name: "Tree", decl: "type Tree struct {\n\troot *Node\n\tn    int\n}", tcs: all, deps: []string{"Node"}, kinds: []string{"pointer-to-recursive"}}, all, plain)
	out = append(out, p)

	p = &pkgSpec{Name: "recursive/node-rectrue"}
	p.addTyped("recursive", "node(recursive=true)", node("NodeR"), all, recTrue)
	p.addTyped("recursive", "pubnode(recursive=true)", typeSpec{name: "PNode", decl: "type PNode struct {\n\tV    string\n\tNext *PNode\n}", tcs: all, kinds: []string{"recursive-list"}}, all, recTrue)
	out = append(out, p)

	// recursive and generic; the type parameters first used in and out of declaration order
	p = &pkgSpec{Name: "recursive/generic"}
	gmark := func(t *target) { t.Counts = append(t.Counts, "directive/plain", "generic/recursive") }
	p.addTyped("recursive", "generic-list[A,B]", typeSpec{name: "RG", decl: "type RG[A, B any] struct {\n\tav   A\n\tbv   B\n\tnext *RG[A, B]\n}", derive: "RG[any, any]", tcs: all, tparams: []string{"A", "B"}, kinds: []string{"recursive-generic"}}, all, gmark)
	p.addTyped("recursive", "generic-list[A,B]-params-used-in-reverse", typeSpec{name: "RH", decl: "type RH[A, B any] struct {\n\tbv   B\n\tav   A\n\tnext *RH[A, B]\n}", derive: "RH[any, any]", tcs: all, tparams: []string{"A", "B"}, kinds: []string{"recursive-generic"}}, all, gmark)
	// B occurs in a field type only as a type argument of the self reference: that counts as
	// "used" (an instance parameter for it is allowed, and so is its absence)
	p.addTyped("recursive", "generic-list[A,B]-B-unused", typeSpec{name: "RP", decl: "type RP[A, B any] struct {\n\tav   A\n\tnext *RP[A, B]\n}", derive: "RP[any, any]", tcs: all, tparams: []string{"A", "B"}, kinds: []string{"recursive-generic"}}, all, gmark)
	p.addTyped("recursive", "generic-tree[T]", typeSpec{name: "RT", decl: "type RT[T any] struct {\n\tv     T\n\tleft  *RT[T]\n\tright *RT[T]\n}", derive: "RT[any]", tcs: all, tparams: []string{"T"}, kinds: []string{"recursive-generic"}}, all, gmark)
	out = append(out, p)

	p = &pkgSpec{Name: "recursive/list-mutual"}
	p.addTyped("recursive", "link", typeSpec{name: "Link", decl: "type Link struct {\n\tv    string\n\tnext *Link\n}", tcs: all, kinds: []string{"recursive-list"}}, all, plain)
	p.addTyped("recursive", "mutual-a", typeSpec{name: "MA", decl: "type MA struct {\n\tv int\n\tb *MB\n}", tcs: all, deps: []string{"MB"}, kinds: []string{"mutually-recursive"}}, all, plain)
	p.addTyped("recursive", "mutual-b", typeSpec{name: "MB", decl: "type MB struct {\n\tw string\n\ta *MA\n}", tcs: all, deps: []string{"MA"}, kinds: []string{"mutually-recursive"}}, all, plain)
	out = append(out, p)

	// recursive=true: instances of nested types are derived on demand
	inP := "type InP struct {\n\tX int\n\tY []int\n}"
	inQ := "type InQ struct {\n\tP InP\n\tS string\n}"
	bag := "type Bag []int"
	p = &pkgSpec{Name: "rectrue/nested"}
	p.addType("InP", inP)
	p.addType("InQ", inQ)
	p.addTyped("rectrue", "nested1", typeSpec{name: "R1", decl: "type R1 struct {\n\ta InP\n\tb int\n}", tcs: all, kinds: []string{"nested-public-struct"}}, all, recTrue)
	p.addTyped("rectrue", "nested2", typeSpec{name: "R2", decl: "type R2 struct {\n\ta InQ\n}", tcs: all, kinds: []string{"nested-two-levels"}}, all, recTrue)
	out = append(out, p)

	p = &pkgSpec{Name: "rectrue/named"}
	p.addType("Bag", bag)
	p.addType("MyInt", auxDecl["MyInt"])
	p.addType("Label", auxDecl["Label"])
	p.addTyped("rectrue", "named-slice", typeSpec{name: "R3", decl: "type R3 struct {\n\ta int\n\tb Bag\n}", tcs: all, kinds: []string{"named-slice"}}, all, recTrue)
	p.addTyped("rectrue", "named-basic", typeSpec{name: "R4", decl: "type R4 struct {\n\ta MyInt\n\tb Label\n}", tcs: all, kinds: []string{"named-basic"}}, all, recTrue)
	p.addTyped("rectrue", "no-nesting", typeSpec{name: "R5", decl: "type R5 struct {\n\ta int\n\tb fp.Seq[string]\n\tc *int\n}", tcs: all, kinds: []string{"no-nesting"}}, all, recTrue)
	out = append(out, p)

	p = &pkgSpec{Name: "rectrue/library-types"}
	p.addTyped("rectrue", "option+gomap", typeSpec{name: "R6", decl: "type R6 struct {\n\ta fp.Option[int]\n\tb map[string]int\n}", tcs: only(Eq, Monoid, Clone, Show), kinds: []string{"library-generic-types"}}, all, recTrue)
	p.addTyped("rectrue", "tuple+option", typeSpec{name: "R7", decl: "type R7 struct {\n\ta fp.Tuple2[int, string]\n\tb fp.Option[string]\n}", tcs: all, kinds: []string{"library-generic-types"}}, all, recTrue)
	p.addTyped("rectrue", "seq", typeSpec{name: "R8", decl: "type R8 struct {\n\ta fp.Seq[int]\n}", tcs: all, kinds: []string{"library-generic-types"}}, all, recTrue)
	out = append(out, p)

	p = &pkgSpec{Name: "rectrue/foreign-and-generic"}
	p.addType("Wrap", auxDecl["Wrap"])
	p.addTyped("rectrue", "foreign-struct", typeSpec{name: "R9", decl: "type R9 struct {\n\ta tp.Inner\n\tb int\n}", tcs: all, kinds: []string{"nested-foreign-struct"}}, all, recTrue)
	p.addType("Tagged", "type Tagged[T, P any] struct {\n\tV []T\n}")
	p.addTyped("rectrue", "nested-generic-with-unused-parameter", typeSpec{name: "R11", decl: "type R11 struct {\n\tn int\n\tt Tagged[int, string]\n}", tcs: all, kinds: []string{"nested-generic-struct"}}, all, recTrue)
	p.addTyped("rectrue", "slice-of-nested-generic-with-unused-parameter", typeSpec{name: "R12", decl: "type R12 struct {\n\tt []Tagged[string, int]\n}", tcs: all, kinds: []string{"nested-generic-struct"}}, all, recTrue)
	p.addTyped("rectrue", "nested-generic", typeSpec{name: "R10", decl: "type R10 struct {\n\ta Wrap[int]\n\tb string\n}", tcs: all, kinds: []string{"nested-generic-struct"}}, all, recTrue)
	out = append(out, p)

	// recursive=true over three and four levels: Root -> Mid -> Leaf, where Mid is reached
	// through each container kind or directly; Leaf holds a slice, a map and a pointer (not
	// comparable), a map-free variant serves Ord and Hashable
	out = append(out, chainPackages()...)

	// recursive=true and the visibility of the nested struct's fields: a plain struct of the
	// working package with (a) exported, (b) mixed, (c) unexported fields, each holding a slice,
	// a map and a pointer, reached directly, through a pointer and through a slice
	for _, vis := range []struct{ label, s, m, p string }{
		{"exported", "S", "M", "P"},
		{"mixed", "S", "m", "p"},
		{"unexported", "s", "m", "p"},
	} {
		p = &pkgSpec{Name: "rectrue/nested-" + vis.label}
		p.addType("T", fmt.Sprintf("type T struct {\n\t%s []int\n\t%s map[string]int\n\t%s *int\n}", vis.s, vis.m, vis.p))
		// no GoMap instance in ord and hash
		p.addType("H", fmt.Sprintf("type H struct {\n\t%s []int\n\t%s *int\n}", vis.s, vis.p))
		vmark := func(t *target) {
			recTrue(t)
			t.Counts = append(t.Counts, "nested-field-visibility/"+vis.label)
		}
		kinds := []string{"nested-struct-with-storage"}
		p.addTyped("rectrue", "nested-"+vis.label+"/direct+pointer+slice", typeSpec{name: "VT", decl: "type VT struct {\n\ta T\n\tb *T\n\tc []T\n}", tcs: only(Eq, Monoid, Clone, Show), kinds: kinds}, all, vmark)
		p.addTyped("rectrue", "nested-"+vis.label+"/direct", typeSpec{name: "VD", decl: "type VD struct {\n\tn int\n\ta T\n}", tcs: only(Eq, Clone), kinds: kinds}, all, vmark)
		p.addTyped("rectrue", "nested-"+vis.label+"/pointer", typeSpec{name: "VP", decl: "type VP struct {\n\ta *T\n}", tcs: only(Clone), kinds: kinds}, all, vmark)
		p.addTyped("rectrue", "nested-"+vis.label+"/slice", typeSpec{name: "VL", decl: "type VL struct {\n\ta []T\n\tn int\n}", tcs: only(Clone), kinds: kinds}, all, vmark)
		p.addTyped("rectrue", "nested-"+vis.label+"/no-map:direct+pointer+slice", typeSpec{name: "VH", decl: "type VH struct {\n\ta H\n\tb *H\n\tc []H\n}", tcs: only(Ord, Hashable), kinds: kinds}, all, vmark)
		out = append(out, p)
	}

	// the same nested types without recursive=true: only Clone has an instance for them
	// (clone.Given accepts any type)
	p = &pkgSpec{Name: "norec/clone"}
	p.addType("InP", inP)
	p.addType("Bag", bag)
	p.addTyped("norec", "nested-struct-with-slice", typeSpec{name: "C1", decl: "type C1 struct {\n\ta InP\n\tb int\n}", tcs: only(Clone), kinds: []string{"nested-public-struct"}}, all, plain)
	p.addTyped("norec", "named-slice", typeSpec{name: "C2", decl: "type C2 struct {\n\ta int\n\tb Bag\n}", tcs: only(Clone), kinds: []string{"named-slice"}}, all, plain)
	out = append(out, p)
	return out
}

var chainContainers = []struct{ label, sfx, typ string }{
	{"slice", "Sl", "[]%s"},
	{"pointer", "Pt", "*%s"},
	{"option", "Op", "fp.Option[%s]"},
	{"seq", "Sq", "fp.Seq[%s]"},
	{"gomap", "Gm", "map[string]%s"},
	{"direct", "Di", "%s"},
}

// addChain declares Leaf<sfx> and the given intermediate levels and Root<sfx>, and derives
// Root<sfx> with recursive=true. fields are the root's fields after "n int", with %s standing
// for the first intermediate type; mids[i] is the container (format string) in which level
// i+1 sits inside level i (the last one holds the leaf directly).
func (p *pkgSpec) addChain(label, sfx string, withMap bool, rootFields []string, inner []string) {
	leaf := "Leaf" + sfx
	if withMap {
		p.addType(leaf, fmt.Sprintf("type %s struct {\n\tD []int\n\tm map[string]int\n\tp *int\n}", leaf))
	} else {
		p.addType(leaf, fmt.Sprintf("type %s struct {\n\tD []int\n\tp *int\n}", leaf))
	}
	// levels: Mid<sfx> (first), Mid<sfx>2 ... the last one has the leaf as a direct field
	next := leaf
	for i := len(inner); i >= 0; i-- {
		name := "Mid" + sfx
		if i > 0 {
			name = fmt.Sprintf("Mid%s%d", sfx, i+1)
		}
		field := next
		if i < len(inner) {
			field = fmt.Sprintf(inner[i], next)
		}
		p.addType(name, fmt.Sprintf("type %s struct {\n\tl %s\n\ts string\n}", name, field))
		next = name
	}
	decl := "type Root" + sfx + " struct {\n\tn int\n"
	for i, f := range rootFields {
		decl += fmt.Sprintf("\t%c %s\n", 'a'+i, fmt.Sprintf(f, "Mid"+sfx))
	}
	decl += "}"
	tcs := only(Ord, Hashable)
	if withMap {
		tcs = only(Eq, Monoid, Clone, Show)
	}
	for _, f := range append(append([]string{}, rootFields...), inner...) {
		if strings.HasPrefix(f, "map[") {
			tcs = tcs.and(only(Eq, Monoid, Clone, Show))
		}
	}
	p.addTyped("rectrue", label, typeSpec{name: "Root" + sfx, decl: decl, tcs: tcs, kinds: []string{"chain"}}, allTC(), func(t *target) {
		t.RecTrue = true
		t.Counts = append(t.Counts, "directive/recursive=true", fmt.Sprintf("chain-depth/%d", 3+len(inner)))
		for _, f := range append(append([]string{}, rootFields...), inner...) {
			for _, c := range chainContainers {
				if c.typ == f {
					t.Counts = append(t.Counts, "chain-level-reached-through/"+c.label)
				}
			}
		}
	})
}

func chainPackages() []*pkgSpec {
	var out []*pkgSpec
	// depth 3, one container kind per chain
	for i := 0; i < len(chainContainers); i += 2 {
		p := &pkgSpec{Name: "rectrue/chain-" + chainContainers[i].label + "-" + chainContainers[i+1].label}
		for _, c := range chainContainers[i : i+2] {
			p.addChain("chain3/"+c.label, c.sfx+"M", true, []string{c.typ}, nil)
			p.addChain("chain3/"+c.label, c.sfx+"H", false, []string{c.typ}, nil)
		}
		out = append(out, p)
	}
	// the same intermediate type twice, container first and direct first
	p := &pkgSpec{Name: "rectrue/chain-order"}
	for _, v := range []struct {
		label, sfx string
		fields     []string
	}{
		{"chain3/slice-then-direct", "SD", []string{"[]%s", "%s"}},
		{"chain3/direct-then-slice", "DS", []string{"%s", "[]%s"}},
		{"chain3/pointer-then-direct", "PD", []string{"*%s", "%s"}},
		{"chain3/direct-then-option", "DO", []string{"%s", "fp.Option[%s]"}},
	} {
		p.addChain(v.label, v.sfx+"M", true, v.fields, nil)
		p.addChain(v.label, v.sfx+"H", false, v.fields, nil)
	}
	out = append(out, p)
	// depth 4 (and 5)
	p = &pkgSpec{Name: "rectrue/chain-depth4"}
	for _, v := range []struct {
		label, sfx string
		root       string
		inner      []string
	}{
		{"chain4/slice>pointer", "A", "[]%s", []string{"*%s"}},
		{"chain4/option>seq", "B", "fp.Option[%s]", []string{"fp.Seq[%s]"}},
		{"chain4/direct>gomap", "C", "%s", []string{"map[string]%s"}},
		{"chain5/pointer>direct>slice", "E", "*%s", []string{"%s", "[]%s"}},
	} {
		p.addChain(v.label, v.sfx+"M", true, []string{v.root}, v.inner)
		p.addChain(v.label, v.sfx+"H", false, []string{v.root}, v.inner)
	}
	out = append(out, p)
	return out
}

// ---------------------------------------------------------------- named non-struct and foreign targets

func namedPackages(thorough bool) []*pkgSpec {
	all := allTC()
	p := &pkgSpec{Name: "named/basic"}
	mark := func(t *target) { t.Counts = append(t.Counts, "directive/named-non-struct") }
	p.addTyped("named", "int", typeSpec{name: "NInt", decl: "type NInt int", tcs: all}, all, mark)
	p.addTyped("named", "string", typeSpec{name: "NStr", decl: "type NStr string", tcs: all}, all, mark)
	p2 := &pkgSpec{Name: "named/composite"}
	p2.addTyped("named", "slice", typeSpec{name: "NSl", decl: "type NSl []int", tcs: all}, all, mark)
	p2.addTyped("named", "map", typeSpec{name: "NMap", decl: "type NMap map[string]int", tcs: only(Eq, Monoid, Clone, Show)}, all, mark)
	p2.addTyped("named", "pointer", typeSpec{name: "NPtr", decl: "type NPtr *int", tcs: all}, all, mark)
	p3 := &pkgSpec{Name: "named/generic-seq"}
	p3.addTyped("named", "seq[T]", typeSpec{name: "NSeq", decl: "type NSeq[T any] fp.Seq[T]", derive: "NSeq[any]", tcs: all, tparams: []string{"T"}}, all, mark)
	p3.addTyped("named", "tuple", typeSpec{name: "NTup", decl: "type NTup fp.Tuple2[int, string]", tcs: all}, all, mark)

	f := &pkgSpec{Name: "foreign/pub"}
	fm := func(t *target) { t.Counts = append(t.Counts, "directive/type-of-another-package") }
	f.addTyped("foreign", "pub", typeSpec{name: "tp.Pub", tcs: all}, all, fm)
	f.addTyped("foreign", "box[T]", typeSpec{name: "tp.Box", derive: "tp.Box[any]", tcs: all, tparams: []string{"T"}}, all, fm)
	f2 := &pkgSpec{Name: "foreign/field"}
	f2.addTyped("foreign", "pub", typeSpec{name: "tp.Pub", tcs: all}, all, func(t *target) { t.NoLaw = true; t.ID = strings.Replace(t.ID, "/foreign/", "/aux/", 1) })
	f2.addTyped("foreign", "field-of-foreign-struct", typeSpec{name: "UsePub", decl: "type UsePub struct {\n\tn int\n\tp tp.Pub\n}", tcs: all, deps: []string{"TpPub"}}, all, fm)
	// derive targets declared OUTSIDE the working package whose fields have types of the same
	// foreign package, which declares its own, recognisably different instances for them: the
	// package of the (field) type comes before the derive package, also when the instance being
	// generated is for a foreign type (explicit directive, or pulled in by recursive=true)
	var own []*pkgSpec
	for _, v := range []struct {
		label, sem string
		work, rec  bool
	}{{"type-package", "P", false, false}, {"both", "W", true, false}, {"type-package,recursive=true", "P", false, true}} {
		q := &pkgSpec{Name: "foreign/own-instances-" + v.label}
		for tc := Eq; tc < nTC; tc++ {
			q.TpExtra += markerDecl(tc, tcs[tc].Name+"Name", "Name", "P", tc%2 == 1)
			if v.work {
				q.WExtra += markerDecl(tc, tcs[tc].Name+"TpName", "tp.Name", "W", false)
			}
		}
		mod := func(t *target) {
			fm(t)
			t.Opt = overOpt(tpNameKey, v.sem)
			t.RecTrue = v.rec
			t.Counts = append(t.Counts, "placement/foreign-target/"+v.label)
		}
		if v.rec {
			// not Eq: tp.Acct is comparable, so eq.Given[tp.Acct] (Go's ==) is the instance the
			// precedence selects for the field, with and without recursive=true; nothing is derived
			// for Acct and tp.EqName is legitimately not consulted
			noEq := only(Ord, Hashable, Monoid, Clone, Show)
			q.addTyped("foreign", "own-instances/"+v.label+"/card(acct-inside)", typeSpec{name: "Card", decl: "type Card struct {\n\tn int\n\ta tp.Acct\n}", tcs: noEq}, all, mod)
			q.addTyped("foreign", "own-instances/"+v.label+"/cards(slice-of-acct)", typeSpec{name: "Cards", decl: "type Cards struct {\n\ta []tp.Acct\n}", tcs: noEq}, all, mod)
		} else {
			q.addTyped("foreign", "own-instances/"+v.label+"/acct", typeSpec{name: "tp.Acct", tcs: all}, all, mod)
		}
		own = append(own, q)
	}
	// a generic type of another package whose own package declares an instance FUNCTION for it
	g := &pkgSpec{Name: "foreign/generic-own-instance"}
	g.TpExtra = `// EqBox looks at V only
func EqBox[T any](e fp.Eq[T]) fp.Eq[Box[T]] {
	return eq.New(func(a, b Box[T]) bool { return e.Eqv(a.V, b.V) })
}

`
	gm := func(t *target) {
		fm(t)
		t.Opt = overOpt("scratchmod/tp.Box", "F1")
		t.Counts = append(t.Counts, "placement/type-package(generic instance function)")
	}
	g.addTyped("foreign", "generic-own-instance/box[int]+str", typeSpec{name: "UB", decl: "type UB struct {\n\tb tp.Box[int]\n\ts string\n}", tcs: only(Eq)}, all, gm)
	g.addTyped("foreign", "generic-own-instance/seq-of-box[string]", typeSpec{name: "UB2", decl: "type UB2 struct {\n\tb []tp.Box[string]\n}", tcs: only(Eq)}, all, gm)
	own = append(own, g)
	return append([]*pkgSpec{p, p2, p3, f, f2}, own...)
}

// ---------------------------------------------------------------- documented precedence

// markerInstance is an instance for a string-like type that is recognisably different from
// the derive package's: W case-insensitive, P length only, D first byte only; b+a / longest /
// first non-empty as Combine; Clone and Show carry a marker.
func markerExpr(tc tcID, typ, sem string) string {
	norm := map[string]string{
		"W": "strings.ToLower(string(%s))",
		"P": "strings.Repeat(\"x\", len(%s))",
		"D": "string(%s)[:min(1, len(%s))]",
	}[sem]
	n := func(v string) string { return strings.ReplaceAll(norm, "%s", v) }
	eqx := fmt.Sprintf("eq.New(func(a, b %s) bool { return %s == %s })", typ, n("a"), n("b"))
	switch tc {
	case Eq:
		return eqx
	case Ord:
		if sem == "P" {
			return fmt.Sprintf("ord.FromCompare(func(a, b %s) int { return len(a) - len(b) })", typ)
		}
		return fmt.Sprintf("ord.FromCompare(func(a, b %s) int { return strings.Compare(%s, %s) })", typ, n("a"), n("b"))
	case Hashable:
		return fmt.Sprintf("hash.New(%s, func(a %s) uint32 { return hash.String.Hash(%s) })", eqx, typ, n("a"))
	case Monoid:
		comb := map[string]string{
			"W": "return b + a",
			"P": "if b > a {\n\t\treturn b\n\t}\n\treturn a",
			"D": "if a != \"\" {\n\t\treturn a\n\t}\n\treturn b",
		}[sem]
		return fmt.Sprintf("monoid.New(func() %s { return \"\" }, func(a, b %s) %s {\n\t%s\n})", typ, typ, typ, comb)
	case Clone:
		return fmt.Sprintf("clone.New(func(a %s) %s {\n\tlawlib.Hit(%q)\n\treturn a\n})", typ, typ, sem)
	case Show:
		return fmt.Sprintf("show.New(func(a %s) string { return \"<%s:\" + string(a) + \">\" })", typ, sem)
	}
	panic("tc")
}

func markerDecl(tc tcID, name, typ, sem string, asFunc bool) string {
	ty := fmt.Sprintf("fp.%s[%s]", tcs[tc].Name, typ)
	if asFunc {
		return fmt.Sprintf("func %s() %s {\n\treturn %s\n}\n\n", name, ty, markerExpr(tc, typ, sem))
	}
	return fmt.Sprintf("var %s %s = %s\n\n", name, ty, markerExpr(tc, typ, sem))
}

func overOpt(key, sem string) string {
	if sem == "" {
		return "lawlib.Opt{}"
	}
	return fmt.Sprintf("lawlib.Opt{Over: map[string]string{%q: %q}}", key, sem)
}

const tpNameKey = "scratchmod/tp.Name"

func precedencePackages(thorough bool) []*pkgSpec {
	type variant struct {
		label    string
		work     string // "", "TpName" or "Name": name form of the working package's instance
		typ      string // "", "var" or "func": form of the instance in the type's package
		quick    bool
		workFunc bool
	}
	vs := []variant{
		{"none", "", "", true, false},
		{"working(EqTpName)", "TpName", "", true, false},
		{"working(EqName,func)", "Name", "", false, true},
		{"type-package(var)", "", "var", true, false},
		{"type-package(func)", "", "func", false, false},
		{"both(EqTpName,var)", "TpName", "var", true, false},
		{"both(EqName,func)", "Name", "func", false, true},
		{"both(EqTpName,func)", "TpName", "func", false, false},
		{"both(EqName,var)", "Name", "var", false, false},
	}
	shapes := []struct{ label, name, decl string }{
		{"int+name+str", "O1", "type O1 struct {\n\tf1 int\n\tf2 tp.Name\n\tf3 string\n}"},
		{"name", "O2", "type O2 struct {\n\tf1 tp.Name\n}"},
		{"name+name", "O3", "type O3 struct {\n\tf1 tp.Name\n\tf2 tp.Name\n}"},
		{"seq[name]+opt[name]+ptr[name]", "O4", "type O4 struct {\n\tf1 fp.Seq[tp.Name]\n\tf2 fp.Option[tp.Name]\n\tf3 *tp.Name\n}"},
	}
	var out []*pkgSpec
	for _, v := range vs {
		if !v.quick && !thorough {
			continue
		}
		p := &pkgSpec{Name: "precedence/" + v.label}
		sem, placement := "", "none"
		sup := only(Eq, Ord, Monoid, Clone) // the derive packages' own instances for a named string
		if v.typ != "" {
			sem, placement, sup = "P", "type-package", allTC()
			for tc := Eq; tc < nTC; tc++ {
				p.TpExtra += markerDecl(tc, tcs[tc].Name+"Name", "Name", "P", v.typ == "func")
			}
		}
		if v.work != "" {
			sem, sup = "W", allTC()
			if placement == "none" {
				placement = "working-package"
			} else {
				placement = "both"
			}
			for tc := Eq; tc < nTC; tc++ {
				p.WExtra += markerDecl(tc, tcs[tc].Name+v.work, "tp.Name", "W", v.workFunc)
			}
		}
		for _, s := range shapes {
			p.addTyped("precedence", v.label+"/"+s.label, typeSpec{name: s.name, decl: s.decl, tcs: sup}, allTC(), func(t *target) {
				t.Opt = overOpt(tpNameKey, sem)
				t.Counts = append(t.Counts, "placement/"+placement)
			})
		}
		out = append(out, p)
	}

	// overriding instances for a basic type and for the slice/Seq constructors (README rows
	// Basic, Slice; section 7 shows EqSeq)
	p := &pkgSpec{Name: "precedence/basic-string"}
	for tc := Eq; tc < nTC; tc++ {
		p.WExtra += markerDecl(tc, tcs[tc].Name+"String", "string", "W", false)
	}
	for _, s := range []struct{ label, name, decl string }{
		{"str+int", "B1", "type B1 struct {\n\tf1 string\n\tf2 int\n}"},
		{"int+seqstr+tup2", "B2", "type B2 struct {\n\tf1 int\n\tf2 fp.Seq[string]\n\tf3 fp.Tuple2[int, string]\n}"},
	} {
		p.addTyped("precedence", "working(EqString)/"+s.label, typeSpec{name: s.name, decl: s.decl, tcs: allTC()}, allTC(), func(t *target) {
			t.Opt = overOpt("string", "W")
			t.Counts = append(t.Counts, "placement/working-package(basic type)")
		})
	}
	out = append(out, p)

	p = &pkgSpec{Name: "precedence/seq-slice"}
	p.WExtra = `func EqSeq[T any](e fp.Eq[T]) fp.Eq[fp.Seq[T]] {
	return eq.New(func(a, b fp.Seq[T]) bool { return len(a) == len(b) })
}

func EqSlice[T any](e fp.Eq[T]) fp.Eq[[]T] {
	return eq.New(func(a, b []T) bool { return len(a) == len(b) })
}
`
	for _, s := range []struct{ label, name, decl, key string }{
		{"seqstr+int", "Q1", "type Q1 struct {\n\tf1 fp.Seq[string]\n\tf2 int\n}", "github.com/csgura/fp.Seq"},
		{"seqint", "Q2", "type Q2 struct {\n\tf1 fp.Seq[int]\n}", "github.com/csgura/fp.Seq"},
		{"str+ints", "Q3", "type Q3 struct {\n\tf1 string\n\tf2 []int\n}", "[]int"},
	} {
		key := s.key
		p.addTyped("precedence", "working(EqSeq,EqSlice)/"+s.label, typeSpec{name: s.name, decl: s.decl, tcs: only(Eq)}, allTC(), func(t *target) {
			t.Opt = overOpt(key, "L")
			t.Counts = append(t.Counts, "placement/working-package(constructor)")
		})
	}
	out = append(out, p)
	return out
}

// crossPackages: a local instance function of the derived typeclass asks for an instance of
// ANOTHER typeclass (README section 7: EqSeq[T](..., ordT fp.Ord[T])); the documented
// precedence also governs that second lookup. The overriding Ord / Eq instances of the element
// type are recognisably different, and what the derived Eq / Hashable / Show / Monoid computes
// depends on which one was handed to the local function.
const crossLocal = `// @fp.ImportGiven
var _ ord.Derives[fp.Ord[any]]

// @fp.ImportGiven
var _ eq.Derives[fp.Eq[any]]

func sortedBy[T any](s fp.Seq[T], o fp.Ord[T]) []T {
	c := append([]T(nil), s...)
	sort.SliceStable(c, func(i, j int) bool { return o.Less(c[i], c[j]) })
	return c
}

// equal as multisets of ordT-equivalence classes
func EqSeq[T any](ordT fp.Ord[T]) fp.Eq[fp.Seq[T]] {
	return eq.New(func(a, b fp.Seq[T]) bool {
		if len(a) != len(b) {
			return false
		}
		x, y := sortedBy(a, ordT), sortedBy(b, ordT)
		for i := range x {
			if ordT.Compare(x[i], y[i]) != 0 {
				return false
			}
		}
		return true
	})
}

func HashableSeq[T any](ordT fp.Ord[T]) fp.Hashable[fp.Seq[T]] {
	return hash.New(EqSeq(ordT), func(a fp.Seq[T]) uint32 { return uint32(len(a)) })
}

func ShowSeq[T any](ordT fp.Ord[T]) fp.Show[fp.Seq[T]] {
	return show.New(func(a fp.Seq[T]) string {
		var parts []string
		for _, v := range sortedBy(a, ordT) {
			parts = append(parts, fmt.Sprint(v))
		}
		return "<sorted:" + strings.Join(parts, ",") + ">"
	})
}

// appends the elements of b that are not eqT-equal to an element of a
func MonoidSeq[T any](eqT fp.Eq[T]) fp.Monoid[fp.Seq[T]] {
	return monoid.New(func() fp.Seq[T] { return nil }, func(a, b fp.Seq[T]) fp.Seq[T] {
		r := append(fp.Seq[T](nil), a...)
		for _, y := range b {
			dup := false
			for _, x := range a {
				if eqT.Eqv(x, y) {
					dup = true
				}
			}
			if !dup {
				r = append(r, y)
			}
		}
		return r
	})
}

`

func crossPackages() []*pkgSpec {
	var out []*pkgSpec
	for _, v := range []struct {
		label     string
		work, typ bool
	}{{"none", false, false}, {"working", true, false}, {"type-package", false, true}, {"both", true, true}} {
		p := &pkgSpec{Name: "precedence/cross-typeclass-" + v.label, WExtra: crossLocal}
		semName, semStr := "", ""
		if v.typ {
			semName = "P"
			p.TpExtra = markerDecl(Ord, "OrdName", "Name", "P", false) + markerDecl(Eq, "EqName", "Name", "P", false)
		}
		if v.work {
			semName, semStr = "W", "W"
			p.WExtra += markerDecl(Ord, "OrdTpName", "tp.Name", "W", false) + markerDecl(Eq, "EqTpName", "tp.Name", "W", false) +
				markerDecl(Ord, "OrdString", "string", "W", false) + markerDecl(Eq, "EqString", "string", "W", false)
		}
		over := func(seq string) string {
			m := map[string]string{tpNameKey: semName, "string": semStr, "github.com/csgura/fp.Seq": seq}
			var parts []string
			for _, k := range sortedKeys(m) {
				if m[k] != "" {
					parts = append(parts, fmt.Sprintf("%q: %q", k, m[k]))
				}
			}
			return "map[string]string{" + strings.Join(parts, ", ") + "}"
		}
		for _, sh := range []struct{ label, name, decl string }{
			{"int+seq[name]", "XN", "type XN struct {\n\tf1 int\n\tf2 fp.Seq[tp.Name]\n}"},
			{"seq[string]+int", "XS", "type XS struct {\n\tf1 fp.Seq[string]\n\tf2 int\n}"},
		} {
			p.addTyped("precedence", "cross-typeclass/"+v.label+"/"+sh.label, typeSpec{name: sh.name, decl: sh.decl, tcs: only(Eq, Hashable, Monoid, Show)}, allTC(), func(t *target) {
				switch t.TC {
				case Eq, Hashable:
					t.Opt = fmt.Sprintf("lawlib.Opt{Over: %s}", over("S"))
					t.Counts = append(t.Counts, "cross-typeclass/"+tcs[t.TC].Name+"-needs-Ord")
				case Show:
					t.Opt = fmt.Sprintf("lawlib.Opt{Over: %s, Cross: \"sorted\"}", over("X"))
					t.Counts = append(t.Counts, "cross-typeclass/Show-needs-Ord")
				case Monoid:
					t.Opt = fmt.Sprintf("lawlib.Opt{Over: %s, Cross: \"dedupe\"}", over("X"))
					t.Counts = append(t.Counts, "cross-typeclass/Monoid-needs-Eq")
				}
				t.Counts = append(t.Counts, "placement/cross-typeclass/"+v.label)
			})
		}
		out = append(out, p)
	}
	return out
}

// ---------------------------------------------------------------- @fp.ImportGiven

func givenPackages(thorough bool) []*pkgSpec {
	// README section 7: a local EqSeq that needs an Ord, made available by importing ord's givens
	p := &pkgSpec{Name: "importgiven/readme-example"}
	p.WExtra = `// @fp.ImportGiven
var _ ord.Derives[fp.Ord[any]]

// EqSeq overrides eq.Seq: equal as multisets
func EqSeq[T any](eqT fp.Eq[T], ordT fp.Ord[T]) fp.Eq[fp.Seq[T]] {
	return eq.New(func(a, b fp.Seq[T]) bool {
		return eq.Seq(eqT).Eqv(seq.Sort(a, ordT), seq.Sort(b, ordT))
	})
}
`
	for _, s := range []struct{ label, name, decl string }{
		{"seqint+seqtup", "I1", "type I1 struct {\n\tlist  fp.Seq[int]\n\ttlist fp.Seq[fp.Tuple2[int, int]]\n}"},
		{"seqstr+int", "I2", "type I2 struct {\n\tf1 fp.Seq[string]\n\tf2 int\n}"},
	} {
		p.addTyped("importgiven", "readme-example/"+s.label, typeSpec{name: s.name, decl: s.decl, tcs: only(Eq)}, allTC(), func(t *target) {
			t.Opt = overOpt("github.com/csgura/fp.Seq", "S")
			t.Counts = append(t.Counts, "importgiven/other-typeclass-of-the-derive-package")
		})
	}

	// instances of a third package fill a gap of the derive package
	q := &pkgSpec{Name: "importgiven/third-package"}
	q.GvSrc = `type Derives[T any] interface{}

var HashableName fp.Hashable[tp.Name] = hash.New(eq.Given[tp.Name](), func(a tp.Name) uint32 { return hash.String.Hash(string(a)) })

var ShowName fp.Show[tp.Name] = show.New(func(a tp.Name) string { return "<I:" + string(a) + ">" })
`
	q.WExtra = `// @fp.ImportGiven
var _ gv.Derives[fp.Hashable[any]]

// @fp.ImportGiven
var _ gv.Derives[fp.Show[any]]
`
	for _, s := range []struct{ label, name, decl string }{
		{"int+name", "J1", "type J1 struct {\n\tf1 int\n\tf2 tp.Name\n}"},
		{"name+seq[name]", "J2", "type J2 struct {\n\tf1 tp.Name\n\tf2 fp.Seq[tp.Name]\n}"},
	} {
		q.addTyped("importgiven", "third-package/"+s.label, typeSpec{name: s.name, decl: s.decl, tcs: only(Hashable, Show)}, allTC(), func(t *target) {
			t.Opt = overOpt(tpNameKey, "I")
			t.Counts = append(t.Counts, "importgiven/third-package-fills-a-gap")
		})
	}
	return []*pkgSpec{p, q}
}

// ---------------------------------------------------------------- custom derive package, rejected inputs

// customPackages: the derive package is a scratch package that has an instance for the field
// type *by name* (README table, column "Derive Package": eq.Duration); the package of the
// type and the working package still come first. Which of the derive package's own
// candidates (by name / by type) is taken when nothing overrides it is not documented.
func customPackages(thorough bool) []*pkgSpec {
	gv := `type Derives[T any] interface{}

func Given[T comparable]() fp.Eq[T] { return fp.EqGiven[T]() }

var String = Given[string]()

// Name is found by name: first byte only
var Name fp.Eq[tp.Name] = ` + markerExpr(Eq, "tp.Name", "D") + `

var HNil fp.Eq[hlist.Nil] = fp.EqGiven[hlist.Nil]()

func HCons[H any, T hlist.HList](heq fp.Eq[H], teq fp.Eq[T]) fp.Eq[hlist.Cons[H, T]] {
	return eq.New(func(a, b hlist.Cons[H, T]) bool {
		return heq.Eqv(hlist.Head(a), hlist.Head(b)) && teq.Eqv(hlist.Tail(a), hlist.Tail(b))
	})
}

func ContraMap[T, U any](instance fp.Eq[T], fn func(U) T) fp.Eq[U] {
	return eq.New(func(a, b U) bool { return instance.Eqv(fn(a), fn(b)) })
}
`
	var out []*pkgSpec
	for _, v := range []struct {
		label, sem string
		work, typ  bool
	}{{"type-package", "P", false, true}, {"working", "W", true, false}, {"both", "W", true, true}} {
		p := &pkgSpec{Name: "custom-derive-package/" + v.label, GvSrc: gv}
		if v.typ {
			p.TpExtra = markerDecl(Eq, "EqName", "Name", "P", false)
		}
		if v.work {
			p.WExtra = markerDecl(Eq, "EqTpName", "tp.Name", "W", false)
		}
		sem := v.sem
		for _, s := range []struct{ label, name, decl string }{
			{"int+name+str", "K1", "type K1 struct {\n\tf1 int\n\tf2 tp.Name\n\tf3 string\n}"},
			{"name+name", "K2", "type K2 struct {\n\tf1 tp.Name\n\tf2 tp.Name\n}"},
		} {
			p.addTyped("custom-derive-package", v.label+"/"+s.label, typeSpec{name: s.name, decl: s.decl, tcs: only(Eq)}, allTC(), func(t *target) {
				t.Derive = "gv"
				t.Opt = overOpt(tpNameKey, sem)
				t.Counts = append(t.Counts, "placement/"+v.label+" over a by-name instance of the derive package")
			})
		}
		out = append(out, p)
	}
	return out
}

// rejectedPackage: inputs gombok refuses with a diagnostic are counted, not reported, and the
// rest of the package is still checked.
func rejectedPackage() *pkgSpec {
	p := &pkgSpec{Name: "rejected/array-field"}
	p.addTyped("rejected", "array-field", typeSpec{name: "A1", decl: "type A1 struct {\n\ta [2]int\n}", tcs: only(Eq, Monoid)}, allTC(), nil)
	// gombok prints "can't derive not named type" and emits nothing for this directive
	p.addTyped("rejected", "unnamed-target-type", typeSpec{name: "NotNamed", derive: "[]int", tcs: only(Eq)}, allTC(), nil)
	p.addTyped("rejected", "neighbour-of-rejected", typeSpec{name: "A2", decl: "type A2 struct {\n\ta int\n\tb string\n}", tcs: only(Eq, Ord)}, allTC(), nil)
	return p
}

// ---------------------------------------------------------------- field kind error

// errorPackage: the predeclared type error has no instance in any derive package; gombok
// refers to a local instance (EqError ...), which the working package supplies here.
func errorPackage() *pkgSpec {
	p := &pkgSpec{Name: "plain-error/01"}
	p.WExtra = `func errMsg(e error) string {
	if e == nil {
		return ""
	}
	return "!" + e.Error()
}

var EqError fp.Eq[error] = eq.New(func(a, b error) bool { return errMsg(a) == errMsg(b) })

var OrdError fp.Ord[error] = ord.FromCompare(func(a, b error) int { return strings.Compare(errMsg(a), errMsg(b)) })

var HashableError fp.Hashable[error] = hash.New(EqError, func(a error) uint32 { return hash.String.Hash(errMsg(a)) })

// the first error wins
var MonoidError fp.Monoid[error] = monoid.New(func() error { return nil }, func(a, b error) error {
	if a != nil {
		return a
	}
	return b
})

var CloneError fp.Clone[error] = clone.New(func(a error) error { return a })

var ShowError fp.Show[error] = show.New(func(a error) string { return "<" + errMsg(a) + ">" })

`
	mark := func(t *target) { t.Counts = append(t.Counts, "field-kind/error") }
	for _, sh := range []struct{ label, name, decl string }{
		{"error", "E1", "type E1 struct {\n\terr error\n}"},
		{"int+error+str", "E2", "type E2 struct {\n\tn   int\n\terr error\n\ts   string\n}"},
		{"opt[error]+int", "E3", "type E3 struct {\n\te fp.Option[error]\n\tn int\n}"},
		{"seq[error]", "E4", "type E4 struct {\n\tes fp.Seq[error]\n}"},
		{"pub:error+ints", "E5", "type E5 struct {\n\tErr error\n\tL   []int\n}"},
	} {
		p.addTyped("plain", "error-kind/"+sh.label, typeSpec{name: sh.name, decl: sh.decl, tcs: allTC()}, allTC(), mark)
	}
	return p
}

// visibilityPackages: exported and unexported fields in every relative order. The oracles
// identify a field by its declaration position (reflection over the struct type): Ord must be
// lexicographic in that order, Show must show the names in that order, Eq / Monoid / Clone are
// checked field by field. Plain structs, @fp.Value structs, structs of another package (their
// unexported fields are invisible to the generated code and stay zero) and structs reached
// through recursive=true (their on-demand instances are law-checked themselves).
func visibilityPackages() []*pkgSpec {
	all := allTC()
	mark := func(t *target) { t.Counts = append(t.Counts, "family/visibility-order") }
	orders := []struct {
		label string
		pub   []bool
	}{
		{"priv+pub", []bool{false, true}},
		{"pub+priv", []bool{true, false}},
		{"priv+pub+priv", []bool{false, true, false}},
		{"pub+priv+pub", []bool{true, false, true}},
	}
	distinct := []string{"int", "string", "[]int"}
	fieldsOf := func(pub []bool, same bool) string {
		var b strings.Builder
		for i, e := range pub {
			name := fmt.Sprintf("p%d", i+1)
			if e {
				name = fmt.Sprintf("Q%d", i+1)
			}
			typ := distinct[i]
			if same {
				typ = "int"
			}
			fmt.Fprintf(&b, "\t%s %s\n", name, typ)
		}
		return b.String()
	}
	plain := &pkgSpec{Name: "visibility-order/plain"}
	value := &pkgSpec{Name: "visibility-order/fp.Value"}
	rec := &pkgSpec{Name: "visibility-order/recursive=true"}
	for i, o := range orders {
		for _, same := range []bool{false, true} {
			sfx, lab := "D", "distinct-types"
			if same {
				sfx, lab = "S", "same-type"
			}
			name := fmt.Sprintf("M%d%s", i+1, sfx)
			decl := fmt.Sprintf("type %s struct {\n%s}", name, fieldsOf(o.pub, same))
			plain.addTyped("plain", "visibility-order/"+o.label+"/"+lab, typeSpec{name: name, decl: decl, tcs: all}, all, mark)
			if !same {
				vname := "V" + name
				value.addTyped("plain", "visibility-order/fp.Value/"+o.label, typeSpec{name: vname, decl: fmt.Sprintf("// @fp.Value\ntype %s struct {\n%s}", vname, fieldsOf(o.pub, false)), tcs: all}, all, mark)
			}
			// the mixed struct nested (directly and in a slice) under recursive=true
			nname := "N" + name
			rec.addType(nname, fmt.Sprintf("type %s struct {\n%s}", nname, fieldsOf(o.pub, same)))
			if !same || len(o.pub) == 3 {
				rec.addTyped("rectrue", "visibility-order/"+o.label+"/"+lab, typeSpec{name: "H" + name, decl: fmt.Sprintf("type H%s struct {\n\tn int\n\ta %s\n\tb []%s\n}", name, nname, nname), tcs: all}, all, func(t *target) {
					mark(t)
					t.RecTrue = true
					t.Counts = append(t.Counts, "directive/recursive=true")
				})
			}
		}
	}
	foreign := &pkgSpec{Name: "visibility-order/type-package"}
	fm := func(t *target) { mark(t); t.Counts = append(t.Counts, "directive/type-of-another-package") }
	foreign.addTyped("foreign", "visibility-order/pub+priv+pub/distinct-types", typeSpec{name: "tp.Vis4", tcs: all}, all, fm)
	foreign.addTyped("foreign", "visibility-order/pub+priv+pub/same-type", typeSpec{name: "tp.Vis5", tcs: all}, all, fm)
	foreignRec := &pkgSpec{Name: "visibility-order/type-package,recursive=true"}
	foreignRec.addTyped("rectrue", "visibility-order/type-package/pub+priv+pub", typeSpec{name: "HV", decl: "type HV struct {\n\tn int\n\ta tp.Vis4\n\tb []tp.Vis5\n}", tcs: all}, all, func(t *target) {
		fm(t)
		t.RecTrue = true
	})
	return []*pkgSpec{plain, value, rec, foreign, foreignRec}
}

// hotOrd: the derived Ord of a struct in HList representation (22 fields and more) goes through
// ord.HCons, whose Less costs 2^k steps when the k-th field is the first that differs (each
// level asks the next one twice: about 10 s per comparison at k = 22, hours at k = 30). The
// deciding field is therefore put at positions 1 and 22 for exactly 22 fields and at positions
// 1, 12 and 16 for more; up to 21 fields (TupleN, linear) every position decides in turn.
func hotOrd(t *target, n int) {
	switch {
	case t.TC == Ord && n == 22:
		t.Opt = "lawlib.Opt{Hot: []int{1, 22}}"
	case t.TC == Ord && n > 22:
		t.Opt = "lawlib.Opt{Hot: []int{1, 12, 16}}"
	}
}

// fieldCountPackages: the number of fields decides the representation (TupleN up to 21 fields,
// an HList from 22 on); int and string fields alternate, the values are a one-hot walk.
func fieldCountPackages() []*pkgSpec {
	all := allTC()
	decl := func(name string, n int, value bool) string {
		var b strings.Builder
		if value {
			b.WriteString("// @fp.Value\n")
		}
		fmt.Fprintf(&b, "type %s struct {\n", name)
		for i := 1; i <= n; i++ {
			typ := "int"
			if i%2 == 0 {
				typ = "string"
			}
			fmt.Fprintf(&b, "\tf%d %s\n", i, typ)
		}
		b.WriteString("}")
		return b.String()
	}
	var out []*pkgSpec
	for _, g := range []struct {
		label  string
		counts []int
	}{{"1-9", []int{1, 2, 8, 9}}, {"20-21", []int{20, 21}}, {"22-23", []int{22, 23}}, {"30", []int{30}}} {
		p := &pkgSpec{Name: "field-count/" + g.label}
		for _, n := range g.counts {
			n := n
			p.addTyped("plain", fmt.Sprintf("field-count/%d", n), typeSpec{name: fmt.Sprintf("F%d", n), decl: decl(fmt.Sprintf("F%d", n), n, false), tcs: all}, all, func(t *target) {
				t.Counts = append(t.Counts, fmt.Sprintf("field-count/%d", n))
				hotOrd(t, n)
			})
		}
		out = append(out, p)
	}
	p := &pkgSpec{Name: "field-count/fp.Value"}
	for _, n := range []int{2, 9, 21, 22, 23} {
		n := n
		p.addTyped("plain", fmt.Sprintf("field-count/fp.Value/%d", n), typeSpec{name: fmt.Sprintf("VF%d", n), decl: decl(fmt.Sprintf("VF%d", n), n, true), tcs: all}, all, func(t *target) {
			t.Counts = append(t.Counts, fmt.Sprintf("field-count/fp.Value/%d", n))
			hotOrd(t, n)
		})
	}
	out = append(out, p)
	return out
}

// bytesPackage: []byte fields (eq and hash have Bytes instances, the other packages use Slice).
func bytesPackage() *pkgSpec {
	p := &pkgSpec{Name: "plain-bytes/01"}
	mark := func(t *target) { t.Counts = append(t.Counts, "field-kind/bytes") }
	for _, sh := range []struct{ label, name, decl string }{
		{"int+bytes", "Y1", "type Y1 struct {\n\tn int\n\tb []byte\n}"},
		{"bytes+str", "Y2", "type Y2 struct {\n\tb []byte\n\ts string\n}"},
		{"opt[bytes]+seq[bytes]", "Y3", "type Y3 struct {\n\to fp.Option[[]byte]\n\tl fp.Seq[[]byte]\n}"},
	} {
		p.addTyped("plain", "bytes-kind/"+sh.label, typeSpec{name: sh.name, decl: sh.decl, tcs: allTC()}, allTC(), mark)
	}
	return p
}

// ---------------------------------------------------------------- directive sequences

// seqPackages: several derive directives of one typeclass in one package (one gombok run)
// whose targets share a nested type, over {plain, recursive=true} in every source order. What
// a directive gets must not depend on the directives processed before it: a recursive=true
// Clone must be deep whatever came first, and the emitted function must be the same text as
// when the directive is alone in its package (checked for every recursive=true target and for
// every plain target that no recursive=true directive of the same nested type precedes; a plain
// target that follows one legitimately finds the generated instance in the working package).
// The plain Clone targets keep the key form of the known norec finding.
func seqPackages(thorough bool) []*pkgSpec {
	type kindSpec struct {
		label  string
		shared [][2]string // declarations of the shared nested types
		fields []string    // the field list of the 1st, 2nd, 3rd holder
		sfx    string
	}
	kindsS := []kindSpec{
		{"shared-struct-with-slice", [][2]string{{"InS", "type InS struct {\n\tX int\n\tY []int\n}"}},
			[]string{"n int\n\ta InS", "a []InS\n\ts string", "p *InS"}, "S"},
		{"shared-named-slice", [][2]string{{"Bag", "type Bag []int"}},
			[]string{"n int\n\ta Bag", "a fp.Option[Bag]\n\ts string", "a map[string]Bag"}, "B"},
		{"shared-generic-struct", [][2]string{{"Wr", "type Wr[T any] struct {\n\tV []T\n\tN int\n}"}},
			[]string{"a Wr[int]", "a []Wr[int]\n\tn int", "a *Wr[int]"}, "G"},
		{"shared-type-of-another-package", nil,
			[]string{"n int\n\ta tp.Pub", "a []tp.Pub", "a *tp.Pub"}, "T"},
	}
	ordinal := []string{"1st", "2nd", "3rd"}
	orders := []string{"PP", "PR", "RP", "RR"}
	if thorough {
		orders = append(orders, "PPR", "PRP", "RPP", "PRR", "RPR", "RRP")
	}
	var out []*pkgSpec
	for _, order := range orders {
		p := &pkgSpec{Name: "sequence/" + order}
		for _, k := range kindsS {
			for _, d := range k.shared {
				p.addType(d[0], d[1])
			}
			seenR := false
			for i, c := range order {
				rec := c == 'R'
				name := fmt.Sprintf("Q%s%d", k.sfx, i+1)
				decl := fmt.Sprintf("type %s struct {\n\t%s\n}", name, k.fields[i])
				family, label := "norec", fmt.Sprintf("seq-%s/%s/%s", order, k.label, ordinal[i])
				if rec {
					family, label = "seq", fmt.Sprintf("%s/%s/%s(recursive=true)", order, k.label, ordinal[i])
				}
				soloOK := rec || !seenR
				p.addTyped(family, label, typeSpec{name: name, decl: decl, tcs: only(Clone), kinds: []string{"directive-sequence"}}, allTC(), func(t *target) {
					t.RecTrue = rec
					t.Solo = soloOK
					t.Counts = append(t.Counts, "directive-sequence/"+order, "directive-sequence/"+k.label)
				})
				seenR = seenR || rec
			}
		}
		// the other typeclasses: a plain derive is accepted where the nested type has an
		// instance of its own (an explicit directive); two orders are enough
		if order == "PR" || order == "RP" {
			for i, c := range order {
				rec := c == 'R'
				name := fmt.Sprintf("QO%d", i+1)
				fields := []string{"n int\n\ta MyInt\n\tb Inner", "a []Inner\n\tm MyInt"}[i]
				label := fmt.Sprintf("%s/nested-with-own-instance/%s", order, ordinal[i])
				if rec {
					label += "(recursive=true)"
				}
				p.addType("MyInt", auxDecl["MyInt"])
				p.addType(name, fmt.Sprintf("type %s struct {\n\t%s\n}", name, fields))
				for tc := Eq; tc < nTC; tc++ {
					t := &target{ID: fmt.Sprintf("%s/seq/%s", tcs[tc].Name, label), TC: tc, Type: name, InstName: tcs[tc].Name + name, RecTrue: rec, Solo: rec,
						Counts: []string{"family/seq", "directive-sequence/" + order, "directive-sequence/nested-with-own-instance"}}
					t.Deps = append(t.Deps, p.addAux("Inner", tc)...)
					p.Targets = append(p.Targets, t)
				}
			}
		}
		out = append(out, p)
	}
	return out
}

func allPackages(thorough bool) []*pkgSpec {
	var out []*pkgSpec
	out = append(out, plainPackages(thorough)...)
	out = append(out, genericPackages(thorough)...)
	out = append(out, recursivePackages(thorough)...)
	out = append(out, namedPackages(thorough)...)
	out = append(out, precedencePackages(thorough)...)
	out = append(out, crossPackages()...)
	out = append(out, givenPackages(thorough)...)
	out = append(out, rejectedPackage())
	out = append(out, seqPackages(thorough)...)
	out = append(out, errorPackage())
	out = append(out, bytesPackage())
	out = append(out, visibilityPackages()...)
	out = append(out, fieldCountPackages()...)
	if thorough {
		out = append(out, customPackages(thorough)...)
	}
	return out
}
