// C19 — CopyOnWriteMap is linearizable; ComputeIfAbsent is atomic per key.
// Every interleaving of 2-3 threads (1-2 operations each, keys {a,b}) on one real
// mutable.CopyOnWriteMap, at the granularity of atomic.Value Load/Store, Mutex Lock/Unlock
// (overlay shims) and one scheduling point inside every user function; each complete
// history is checked for linearizability against a sequential Go-map specification by brute
// force.
package main

import (
	"fmt"
	"sort"
	"strings"

	"github.com/csgura/fp"
	"github.com/csgura/fp/mutable"
	"verif/mc"
)

type opKind int

const (
	oGet opKind = iota
	oUpdated
	oRemoved
	oInc
	oDel
	oCIA
	oCI
	oSize
	oIter
	oRemoved2 // Removed(a, b): one call, two keys
	oIterLate // Iterator() whose result is held and drained only after every thread has finished
)

type opSpec struct {
	kind opKind
	key  string
}

func (o opSpec) String() string {
	n := []string{"Get", "Updated", "Removed", "UpdatedWith(inc)", "UpdatedWith(del)", "ComputeIfAbsent", "ComputeIf(<5)", "Size", "Iterator", "Removed(a,b)", "Iterator(held)"}[o.kind]
	if o.kind == oSize || o.kind == oIter || o.kind == oRemoved2 || o.kind == oIterLate {
		return n
	}
	return n + "(" + o.key + ")"
}

var alphabet = []opSpec{
	{oGet, "a"}, {oUpdated, "a"}, {oRemoved, "a"}, {oInc, "a"}, {oDel, "a"}, {oCIA, "a"}, {oCI, "a"},
	{oUpdated, "b"}, {oRemoved, "b"}, {oCIA, "b"}, {oSize, ""}, {oIter, ""}, {oRemoved2, ""}, {oIterLate, ""},
}

// event is one completed (or pending) operation of the history.
type event struct {
	thread, idx int
	op          opSpec
	arg         int // value written by Updated / produced by f
	call, ret   int // logical timestamps; ret = -1 while pending
	res         string
	panicked    any
	held        *fp.Iterator[fp.Tuple2[string, int]] // oIterLate: the iterator returned by the call
}

type spec map[string]int

func (s spec) clone() spec {
	n := spec{}
	for k, v := range s {
		n[k] = v
	}
	return n
}

func (s spec) dump() string {
	var ks []string
	for k, v := range s {
		ks = append(ks, fmt.Sprintf("%s=%d", k, v))
	}
	sort.Strings(ks)
	return "{" + strings.Join(ks, ",") + "}"
}

// apply runs e's operation on the sequential specification and returns the result string.
func (s spec) apply(e *event) string {
	k := e.op.key
	switch e.op.kind {
	case oGet:
		if v, ok := s[k]; ok {
			return fmt.Sprintf("Some(%d)", v)
		}
		return "None"
	case oUpdated:
		s[k] = e.arg
		return ""
	case oRemoved:
		delete(s, k)
		return ""
	case oInc:
		s[k] = s[k] + 1
		return ""
	case oDel:
		delete(s, k)
		return ""
	case oCIA:
		if v, ok := s[k]; ok {
			return fmt.Sprint(v)
		}
		s[k] = e.arg
		return fmt.Sprint(e.arg)
	case oCI:
		if v, ok := s[k]; ok && !(v < 5) {
			return fmt.Sprint(v)
		}
		s[k] = e.arg
		return fmt.Sprint(e.arg)
	case oSize:
		return fmt.Sprint(len(s))
	case oIter, oIterLate:
		return s.dump()
	case oRemoved2:
		delete(s, "a")
		delete(s, "b")
		return ""
	}
	panic("unreachable")
}

// linearizable reports whether some total order of the events that respects real-time
// precedence replays on the specification with every recorded result.
func linearizable(init spec, evs []*event) bool {
	n := len(evs)
	done := make([]bool, n)
	var rec func(s spec, left int) bool
	rec = func(s spec, left int) bool {
		if left == 0 {
			return true
		}
		for i, e := range evs {
			if done[i] {
				continue
			}
			// e is minimal iff no other undone event returned before e was called
			minimal := true
			for j, f := range evs {
				if j != i && !done[j] && f.ret >= 0 && f.ret < e.call {
					minimal = false
					break
				}
			}
			if !minimal {
				continue
			}
			ns := s.clone()
			if got := ns.apply(e); got != e.res {
				continue
			}
			done[i] = true
			if rec(ns, left-1) {
				done[i] = false
				return true
			}
			done[i] = false
		}
		return false
	}
	return rec(init, n)
}

func scenario(init string, threads [][]opSpec) func(x *mc.X) {
	return func(x *mc.X) {
		m := &mutable.CopyOnWriteMap[string, int]{}
		initSpec := spec{}
		if init == "a0" || init == "ab" {
			m.Updated("a", 0)
			initSpec["a"] = 0
		}
		if init == "ab" {
			m.Updated("b", 7)
			initSpec["b"] = 7
		}
		clock := 0
		var evs []*event
		for t, ops := range threads {
			t, ops := t, ops
			x.Go(fmt.Sprintf("t%d", t), func() {
				for i, o := range ops {
					e := &event{thread: t, idx: i, op: o, arg: 10*(t+1) + i, ret: -1}
					clock++
					e.call = clock
					evs = append(evs, e)
					e.panicked = mc.Catch(func() { e.res = run(x, m, e) })
					clock++
					e.ret = clock
				}
			})
		}
		blocked := x.AwaitQuiescence()
		if x.HasFailed() {
			return
		}
		if len(blocked) > 0 {
			x.Fail("blocked", "threads still blocked at quiescence: %v", blocked)
		}
		if x.Interacted() {
			x.NonTrivial()
		}
		// an Iterator is a snapshot taken during the call that returned it: whenever it is drained,
		// it must show the content of an instant inside that call's interval
		for _, e := range evs {
			if e.held != nil {
				e := e
				x.NoPoints(func() {
					p := mc.Catch(func() { e.res = drain(*e.held) })
					if e.panicked == nil {
						e.panicked = p
					}
				})
			}
		}
		var hist []string
		for _, e := range evs {
			hist = append(hist, fmt.Sprintf("t%d.%s[%d,%d]->%s", e.thread, e.op, e.call, e.ret, e.res))
		}
		x.Logf("history: %s", strings.Join(hist, "  "))
		for _, e := range evs {
			if e.panicked != nil {
				x.Fail("panic/"+strings.SplitN(e.op.String(), "(", 2)[0], "%s panicked because of a concurrent operation: %v; history: %s", e.op, e.panicked, strings.Join(hist, "  "))
			}
		}
		// per-key ComputeIfAbsent agreement (stated explicitly by the property)
		for _, k := range []string{"a", "b"} {
			var vals []string
			onlyCIA := true
			for _, e := range evs {
				if (e.op.key == k && e.op.kind != oCIA && e.op.kind != oGet) || e.op.kind == oRemoved2 {
					onlyCIA = false
				}
			}
			if onlyCIA {
				for _, e := range evs {
					if e.op.kind == oCIA && e.op.key == k {
						vals = append(vals, e.res)
					}
				}
				for _, v := range vals {
					if v != vals[0] {
						x.Fail("ComputeIfAbsent/different-values", "concurrent ComputeIfAbsent(%s) calls returned different values %v; history: %s", k, vals, strings.Join(hist, "  "))
					}
				}
				if len(vals) > 0 {
					var stored string
					x.NoPoints(func() { stored = fmt.Sprint(m.Get(k)) })
					if stored != "Some("+vals[0]+")" {
						x.Fail("ComputeIfAbsent/not-stored", "ComputeIfAbsent(%s) returned %s but the map holds %s", k, vals[0], stored)
					}
				}
			}
		}
		if !linearizable(initSpec, evs) {
			kinds := map[string]bool{}
			for _, e := range evs {
				kinds[strings.SplitN(e.op.String(), "(", 2)[0]] = true
			}
			var ks []string
			for k := range kinds {
				ks = append(ks, k)
			}
			sort.Strings(ks)
			x.Fail("not-linearizable/"+strings.Join(ks, "+"), "history is not linearizable w.r.t. the sequential map specification (init %s): %s", initSpec.dump(), strings.Join(hist, "  "))
		}
		// final state must equal the state of some linearization: checked by appending a
		// final snapshot read that is ordered after everything
		var final string
		x.NoPoints(func() { final = snapshot(m) })
		clock++
		fe := &event{thread: -1, op: opSpec{oIter, ""}, call: clock, ret: clock + 1, res: final}
		if !linearizable(initSpec, append(append([]*event{}, evs...), fe)) {
			x.Fail("final-state", "final content %s is not the result of any linearization; history: %s", final, strings.Join(hist, "  "))
		}
		x.Observe(strings.Join(hist, "|"), final)
	}
}

func snapshot(m *mutable.CopyOnWriteMap[string, int]) string {
	return drain(m.Iterator())
}

func drain(it fp.Iterator[fp.Tuple2[string, int]]) string {
	s := spec{}
	for it.HasNext() {
		t := it.Next()
		s[t.I1] = t.I2
	}
	return s.dump()
}

func run(x *mc.X, m *mutable.CopyOnWriteMap[string, int], e *event) string {
	k := e.op.key
	switch e.op.kind {
	case oGet:
		return fmt.Sprint(m.Get(k))
	case oUpdated:
		m.Updated(k, e.arg)
	case oRemoved:
		m.Removed(k)
	case oInc:
		m.UpdatedWith(k, func(ov fp.Option[int]) fp.Option[int] {
			x.Point("user-fn", "remap")
			return fp.Some(ov.OrElse(0) + 1)
		})
	case oDel:
		m.UpdatedWith(k, func(ov fp.Option[int]) fp.Option[int] {
			x.Point("user-fn", "remap")
			return fp.None[int]()
		})
	case oCIA:
		return fmt.Sprint(m.ComputeIfAbsent(k, func() int {
			x.Point("user-fn", "f")
			return e.arg
		}))
	case oCI:
		return fmt.Sprint(m.ComputeIf(k, func(v int) bool {
			x.Point("user-fn", "pred")
			return v < 5
		}, func() int {
			x.Point("user-fn", "f")
			return e.arg
		}))
	case oSize:
		return fmt.Sprint(m.Size())
	case oIter:
		return snapshot(m)
	case oRemoved2:
		m.Removed("a", "b")
	case oIterLate:
		it := m.Iterator()
		e.held = &it
	}
	return ""
}

func names(ops []opSpec) string {
	var s []string
	for _, o := range ops {
		s = append(s, o.String())
	}
	return strings.Join(s, ";")
}

func main() {
	mc.Main("C19", func(r *mc.Registry) {
		r.Rule = "scenario = (initial content, one operation list per thread); every interleaving of the threads at each atomic.Value Load/Store, Mutex Lock/Unlock and inside each user function; non-trivial = the scheduler switched between threads that had both started; distinct = distinct (history with results, final content)"
		r.Assumptions = []string{
			"scheduling points: every atomic.Value and sync.Mutex operation (overlay shims: sequentially consistent, non-reentrant mutex) and every element read of a range over a Go map, every m[k]=v and delete(m,k) in packages fp and mutable (vinstr -mappoints; map iteration order is canonical, sorted by key), so an in-place write to a published snapshot is interleaved with the readers' loops",
			"plain (unsynchronised) accesses other than those map operations are not scheduling points; data races on them are outside this check",
			"user functions (remap, f, pred) are pure and thread-tagged, so extra or discarded evaluations are unobservable (the property does not forbid them)",
			"sequential specification as in DESIGN.md appendix A.3",
		}
		if !mc.Instrumented {
			panic("C19 must be built with the overlay (-tags verifrt)")
		}
		inits := []string{"nil", "a0", "ab"}
		add := func(bound int, init string, threads [][]opSpec) {
			var ns []string
			for _, t := range threads {
				ns = append(ns, names(t))
			}
			pre := ""
			if bound >= 0 {
				pre = fmt.Sprintf("pb%d/", bound)
			}
			sc := r.Conc(fmt.Sprintf("%sinit=%s/%s", pre, init, strings.Join(ns, " || ")), bound, scenario(init, threads))
			sc.SplitDepth = 4
		}
		A := alphabet
		for _, init := range inits {
			// two threads, one operation each (unordered pairs)
			for i := range A {
				for j := i; j < len(A); j++ {
					add(-1, init, [][]opSpec{{A[i]}, {A[j]}})
					// the same pair without the sleep-set reduction (whose independence relation only sees the
					// hooked cells), every schedule with at most 3 preemptions
					add(3, init, [][]opSpec{{A[i]}, {A[j]}})
				}
			}
			// two threads: two operations against one
			for i := range A {
				for j := range A {
					for l := range A {
						if !r.Thorough() && init != "ab" && (A[i].key == "b" || A[j].key == "b" || A[l].key == "b") {
							continue
						}
						add(-1, init, [][]opSpec{{A[i], A[j]}, {A[l]}})
					}
				}
			}
			if !r.Thorough() {
				// quick: three threads only for the agreement clause - two ComputeIfAbsent on one key
				// against one writer of that key (thorough has every three-thread combination)
				for _, w := range A {
					if w.key == "a" && w.kind != oGet && w.kind != oCIA {
						add(-1, init, [][]opSpec{{{oCIA, "a"}}, {{oCIA, "a"}}, {w}})
					}
				}
			}
			if r.Thorough() {
				// two threads, two operations each, on key a and the snapshot reads
				var Aa []opSpec
				for _, o := range A {
					if o.key != "b" {
						Aa = append(Aa, o)
					}
				}
				for i := range Aa {
					for j := range Aa {
						for l := range Aa {
							for m := range Aa {
								if l*len(Aa)+m < i*len(Aa)+j {
									continue
								}
								add(-1, init, [][]opSpec{{Aa[i], Aa[j]}, {Aa[l], Aa[m]}})
							}
						}
					}
				}
				// three threads, one operation each
				for i := range A {
					for j := i; j < len(A); j++ {
						for l := j; l < len(A); l++ {
							add(-1, init, [][]opSpec{{A[i]}, {A[j]}, {A[l]}})
						}
					}
				}
				// three threads: two operations, one, one (key a and the snapshot reads)
				for i := range Aa {
					for j := range Aa {
						for l := range Aa {
							for m := l; m < len(Aa); m++ {
								add(-1, init, [][]opSpec{{Aa[i], Aa[j]}, {Aa[l]}, {Aa[m]}})
							}
						}
					}
				}
				// four threads, one operation each
				for i := range Aa {
					for j := i; j < len(Aa); j++ {
						for l := j; l < len(Aa); l++ {
							for m := l; m < len(Aa); m++ {
								add(-1, init, [][]opSpec{{Aa[i]}, {Aa[j]}, {Aa[l]}, {Aa[m]}})
							}
						}
					}
				}
			}
		}
	})
}
