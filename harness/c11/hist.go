package main

import (
	"fmt"
	"strings"
)

// The history-independence family. ONE constructed Monoid/Semigroup instance is kept alive over a
// sequence of Combine/Empty calls interleaved with steps that write new contents into the
// referent of an operand IN PLACE (same address: *p = v, s[0] = v, m["a"] = v). Every call's
// result must be (extensionally) what a freshly constructed instance returns for the current
// values of the arguments: Combine and Empty are functions of the current values, not of the call
// history or of addresses. Every sequence of the given depth over the alphabet is run.
//
// The caller owns what an instance returns: a further kind of step writes into the value most
// recently RETURNED by the long-lived instance (the result of Empty() or of Combine) when it has a
// mutable referent (a map, a slice, a pointer). An instance that hands out the same mutable value
// again later (a memoised Empty, a cached result) then answers differently from a fresh instance.

type histOp struct {
	kind string // "combine", "empty", "mut", "mutr"
	i, j int    // operand indices (mut/mutr: j = which contents)
}

func (n *node) doMut(v any, pick int) bool {
	if n.mut == nil {
		return false
	}
	return n.mut(v, pick)
}

// operands of the history family: three values of a freshly built domain (positions 1..3: the
// first value of most domains is nil / None / zero)
func (n *node) histValues() []any {
	d := n.mk()
	return []any{d[1%len(d)], d[2%len(d)], d[3%len(d)]}
}

func (n *node) histAlphabet() []histOp {
	if n.histOps != nil {
		return n.histOps
	}
	var ops []histOp
	for i := 0; i < 3; i++ {
		for j := 0; j < 3; j++ {
			if i != j {
				ops = append(ops, histOp{"combine", i, j})
			}
		}
	}
	if n.empty != nil {
		ops = append(ops, histOp{"empty", 0, 0})
	}
	vals := n.histValues() // a throw-away set of operands to see which can be written
	for _, i := range []int{0, 2} {
		if n.doMut(vals[i], 0) {
			n.mutable = true
			ops = append(ops, histOp{"mut", i, 0}, histOp{"mut", i, 1})
		}
	}
	// writes into a returned value: possible if Empty() or some Combine result has a mutable referent
	fresh := n.mkOps()
	returned := []any{fresh.combine(vals[0], vals[1]), fresh.combine(vals[1], vals[2])}
	if fresh.empty != nil {
		returned = append(returned, fresh.empty())
	}
	for _, v := range returned {
		if n.doMut(v, 0) {
			n.mutable = true
			ops = append(ops, histOp{"mutr", 0, 0}, histOp{"mutr", 0, 1})
			break
		}
	}
	n.histOps = ops
	return ops
}

// history runs one sequence; "" = holds.
func (n *node) history(seq []int) (law, msg string, trace []string) {
	alphabet := n.histAlphabet()
	vals := n.histValues()
	long := n.mkOps() // the long-lived instance
	name := []string{"a", "b", "c"}
	var last any // the value most recently returned by the long-lived instance
	haveLast := false
	defer func() {
		if r := recover(); r != nil {
			law, msg = "panic", fmt.Sprintf("%s panicked in the call sequence [%s]: %v", n.name, strings.Join(trace, "; "), r)
		}
	}()
	for _, k := range seq {
		op := alphabet[k]
		switch op.kind {
		case "combine":
			a, b := vals[op.i], vals[op.j]
			sa, sb := n.show(a), n.show(b)
			got := long.combine(a, b)
			gotS := n.show(got)
			want := n.mkOps().combine(a, b)
			last, haveLast = got, true
			trace = append(trace, fmt.Sprintf("Combine(%s=%s,%s=%s)=%s", name[op.i], sa, name[op.j], sb, gotS))
			if !n.eqv(got, want) {
				return "combine-depends-on-history", fmt.Sprintf("%s: Combine(%s,%s)=%s on the long-lived instance, a freshly constructed instance gives %s for the same values %s, %s — call sequence on one instance: %s",
					n.name, name[op.i], name[op.j], gotS, n.show(want), sa, sb, strings.Join(trace, "; ")), trace
			}
		case "empty":
			got, want := long.empty(), n.mkOps().empty()
			last, haveLast = got, true
			trace = append(trace, "Empty()="+n.show(got))
			if !n.eqv(got, want) {
				return "empty-depends-on-history", fmt.Sprintf("%s: Empty()=%s on the long-lived instance, a freshly constructed instance gives %s — call sequence on one instance: %s", n.name, n.show(got), n.show(want), strings.Join(trace, "; ")), trace
			}
		case "mutr":
			if !haveLast {
				trace = append(trace, "(nothing returned yet)")
				continue
			}
			before := n.show(last)
			if n.doMut(last, op.j) {
				trace = append(trace, fmt.Sprintf("the caller writes into the returned value: %s becomes %s", before, n.show(last)))
			} else {
				trace = append(trace, "(the returned value "+before+" has no mutable referent)")
			}
		case "mut":
			before := n.show(vals[op.i])
			n.doMut(vals[op.i], op.j)
			trace = append(trace, fmt.Sprintf("write into the referent of %s: %s becomes %s", name[op.i], before, n.show(vals[op.i])))
		}
	}
	return "", "", trace
}

func (n *node) histcheck() string {
	if n.histKnown {
		return n.histMemo
	}
	res := ""
	nops := len(n.histAlphabet())
	seq := make([]int, histDepth)
	var rec func(d int) bool
	rec = func(d int) bool {
		if d == histDepth {
			if l, _, _ := n.history(seq); l != "" {
				res = l
				return true
			}
			return false
		}
		for k := 0; k < nops; k++ {
			seq[d] = k
			if rec(d + 1) {
				return true
			}
		}
		return false
	}
	rec(0)
	n.histKnown, n.histMemo = true, res
	return res
}

func (n *node) histCulprit() *node {
	for _, k := range n.kids {
		if k.histcheck() != "" {
			return k.histCulprit()
		}
	}
	return n
}

var histDepth = 3
