package main

import (
	"fmt"

	"github.com/csgura/fp"
	"github.com/csgura/fp/iterator"
	"github.com/csgura/fp/list"
	"github.com/csgura/fp/monoid"
	"github.com/csgura/fp/seq"
	"verif/mc"
)

// The long-input family: algorithms often switch strategy at 8/12/16/32/64 elements (chunking,
// divide and conquer), so every Reduce / FoldMap / Fold implementation is also run on ONE
// position-tagged input per length 0..maxLen (every element distinguishable: its index), with a
// non-commutative monoid (String, MergeSeq) and a numeric one (Sum), and compared with the plain
// left-to-right loop. The exhaustive family over all short inputs stays what it is.

type longCase struct {
	name string
	run  func(x *mc.X, n int) (got, want string)
}

func longCases[T any](mname string, mk func() fp.Monoid[T], elem func(i int) T, show func(T) string) []longCase {
	build := func(n int) fp.Seq[T] {
		s := make(fp.Seq[T], n)
		for i := range s {
			s[i] = elem(i)
		}
		return s
	}
	ints := func(n int) fp.Seq[int] {
		s := make(fp.Seq[int], n)
		for i := range s {
			s[i] = i
		}
		return s
	}
	type impl struct {
		name string
		f    func(m fp.Monoid[T], n int) T
	}
	impls := []impl{
		{"seq.Reduce", func(m fp.Monoid[T], n int) T { return seq.Reduce(build(n), m) }},
		{"iterator.Reduce", func(m fp.Monoid[T], n int) T { return iterator.Reduce(iterator.FromSeq(build(n)), m) }},
		{"list.Reduce", func(m fp.Monoid[T], n int) T { return list.Reduce(list.FromSeq(build(n)), m) }},
		{"list.Reduce(lazy list)", func(m fp.Monoid[T], n int) T { return list.Reduce(list.Collect(iterator.FromSeq(build(n))), m) }},
		{"seq.FoldMap", func(m fp.Monoid[T], n int) T { return seq.FoldMap(ints(n), m, elem) }},
		{"list.FoldMap", func(m fp.Monoid[T], n int) T { return list.FoldMap(list.FromSeq(ints(n)), m, elem) }},
		{"list.FoldMap(lazy list)", func(m fp.Monoid[T], n int) T { return list.FoldMap(list.Collect(iterator.FromSeq(ints(n))), m, elem) }},
		{"seq.Fold", func(m fp.Monoid[T], n int) T { return seq.Fold(build(n), m.Empty(), m.Combine) }},
		{"iterator.Fold", func(m fp.Monoid[T], n int) T { return iterator.Fold(iterator.FromSeq(build(n)), m.Empty(), m.Combine) }},
		{"list.Fold", func(m fp.Monoid[T], n int) T { return list.Fold(list.FromSeq(build(n)), m.Empty(), m.Combine) }},
		{"list.FoldLeft", func(m fp.Monoid[T], n int) T { return list.FoldLeft(list.FromSeq(build(n)), m.Empty(), m.Combine) }},
	}
	var out []longCase
	for _, im := range impls {
		im := im
		out = append(out, longCase{im.name + " with " + mname, func(x *mc.X, n int) (string, string) {
			ref := mk()
			want := ref.Empty()
			for i := 0; i < n; i++ {
				want = ref.Combine(want, elem(i))
			}
			return show(im.f(mk(), n)), show(want)
		}})
	}
	return out
}

func longScenario(r *mc.Registry, maxLen int) int {
	var cases []longCase
	cases = append(cases, longCases("monoid.String", mval(monoid.String), func(i int) string { return fmt.Sprintf("<%d>", i) }, func(s string) string { return s })...)
	cases = append(cases, longCases("monoid.MergeSeq[int]", monoid.MergeSeq[int], func(i int) fp.Seq[int] { return fp.Seq[int]{i} }, func(s fp.Seq[int]) string { return fmt.Sprint([]int(s)) })...)
	cases = append(cases, longCases("monoid.Sum[int]", monoid.Sum[int], func(i int) int { return 1 << uint(i%60) * (i + 1) }, func(v int) string { return fmt.Sprint(v) })...)
	sc := r.Seq("fold-long", func(x *mc.X) {
		c := cases[x.Choose(len(cases), "case")]
		n := x.Choose(maxLen+1, "length")
		x.Tag("long: " + c.name)
		var got, want string
		if p := mc.Catch(func() { got, want = c.run(x, n) }); p != nil {
			x.Fail(implOf(c.name)+"/panic", "%s on the position-tagged input of length %d panicked: %v", c.name, n, p)
		}
		x.Logf("%s, length %d: %s (left fold %s)", c.name, n, got, want)
		if got != want {
			x.Fail(implOf(c.name)+"/not-the-left-fold", "%s on the position-tagged input of length %d = %s, the left-to-right fold of Combine from Empty is %s", c.name, n, got, want)
		}
		x.Observe(c.name, n, want)
		if n > 7 {
			x.NonTrivial()
		}
	})
	sc.SplitDepth = 2
	return len(cases)
}

// implOf: "seq.FoldMap with monoid.String" -> "seq.FoldMap"
func implOf(name string) string {
	for i := 0; i < len(name); i++ {
		if name[i] == ' ' || name[i] == '(' {
			return name[:i]
		}
	}
	return name
}
