package main

import (
	"errors"
	"fmt"
	"math"
	"sort"
	"strings"

	"github.com/csgura/fp"
	"github.com/csgura/fp/as"
	"github.com/csgura/fp/hash"
	"github.com/csgura/fp/hlist"
	"github.com/csgura/fp/immutable"
	"github.com/csgura/fp/lazy"
	"github.com/csgura/fp/monoid"
	"github.com/csgura/fp/semigroup"
)

// node is one Monoid/Semigroup instance expression with its type erased. Only the thin typed
// shell inst[T] is generic; the oracle is ordinary code (see harness/c09/inst.go for why).
type node struct {
	name  string // e.g. monoid.Option(monoid.String)
	pkg   string // "monoid", "semigroup" or "fp"
	head  string // e.g. monoid.Option (the constructor a defect is attributed to)
	depth int
	kids  []*node
	// dom is a prototype of the value domain, used for sizes and for printing only: it is never
	// handed to the library. mk builds the domain FRESH (new backing arrays, new maps, new
	// pointers) and is called at the start of every execution, so that an instance that writes
	// into an operand (e.g. into the spare capacity of a slice) cannot carry state from one
	// execution to the next and is caught inside the execution that does it.
	dom []any
	mk  func() []any

	combine func(a, b any) any // the current instance (re-installed by refresh)
	empty   func() any         // nil for a semigroup
	mkOps   func() ops         // constructs the library's instance anew
	// history family (hist.go): a write into the referent of a value in place
	mut       func(v any, pick int) bool
	histOps   []histOp
	mutable   bool
	histMemo  string
	histKnown bool
	// eqv is extensional equality of values of the type (functions on a test domain, maps by
	// content, nil == empty, lazy values by their result, pointers by target)
	eqv  func(a, b any) bool
	show func(a any) string
	// meaning: what the NAME of the instance says Combine computes (only for the instances the
	// property names: Sum, Product, Any, All, Endo, Dual, Merge*); nil otherwise
	meaning      func(a, b any) (want any, alt any, hasAlt bool)
	meaningEmpty any
	meaningWhat  string
	noAssoc      bool // floats: associativity excluded by the property

	memo  string
	known bool
}

// inst is the typed shell: FACTORIES of the library's instance, so that every construction of an
// enclosing instance constructs its components anew.
type inst[T any] struct {
	n    *node
	mkM  func() fp.Monoid[T]    // nil for a semigroup-only instance
	mkSg func() fp.Semigroup[T] // always set
}

// ops is one constructed instance with its type erased.
type ops struct {
	combine func(a, b any) any
	empty   func() any // nil for a semigroup
}

func finishM[T any](n *node, mk func() fp.Monoid[T]) *inst[T] {
	n.mkOps = func() ops {
		m := mk()
		return ops{func(a, b any) any { return m.Combine(a.(T), b.(T)) }, func() any { return m.Empty() }}
	}
	n.install(n.mkOps())
	return &inst[T]{n, mk, func() fp.Semigroup[T] { return mk() }}
}

func finishS[T any](n *node, mk func() fp.Semigroup[T]) *inst[T] {
	n.mkOps = func() ops {
		sg := mk()
		return ops{combine: func(a, b any) any { return sg.Combine(a.(T), b.(T)) }}
	}
	n.install(n.mkOps())
	return &inst[T]{n, nil, mk}
}

func (n *node) install(o ops) { n.combine, n.empty = o.combine, o.empty }

// refresh constructs the instance of n and of every component anew; the law family does it at the
// start of every execution, so no instance outlives an execution.
func (n *node) refresh() {
	for _, k := range n.kids {
		k.refresh()
	}
	n.install(n.mkOps())
}

// mval / sval wrap instances that are package variables of the library (there is only one).
func mval[T any](m fp.Monoid[T]) func() fp.Monoid[T] { return func() fp.Monoid[T] { return m } }
func sval[T any](sg fp.Semigroup[T]) func() fp.Semigroup[T] {
	return func() fp.Semigroup[T] { return sg }
}

func newNode(pkg, ctor string, mkDom func() []any, eqv func(a, b any) bool, show func(any) string, kids ...*node) *node {
	names := make([]string, len(kids))
	depth := 0
	for j, k := range kids {
		names[j] = k.name
		if k.depth+1 > depth {
			depth = k.depth + 1
		}
	}
	head := pkg + "." + ctor
	name := head
	if len(kids) > 0 {
		name = head + "(" + strings.Join(names, ",") + ")"
	}
	mk := func() []any {
		d := mkDom()
		if len(d) > domCap {
			d = d[:domCap]
		}
		return d
	}
	return &node{name: name, pkg: pkg, head: head, depth: depth, kids: kids, dom: mk(), mk: mk, eqv: eqv, show: show}
}

// fixed wraps a domain of immutable values (numbers, strings, bools, unit types).
func fixed[T any](s []T) func() []any { return func() []any { return anys(s) } }

const domCap = 6

// law is the whole oracle for one triple; "" = holds. The domain is built fresh; ALL results are
// computed first and compared afterwards. Besides the algebraic laws it demands that Combine and
// Empty behave as functions of values: a result that was returned must not change when Combine is
// called again later (result-changed-later), and no operand — including the part of its backing
// array beyond its length, which other live values may share — may be written (operand-modified).
func (n *node) law(ia, ib, ic int) (law, msg, outcome string) {
	n.refresh() // instances constructed for this execution
	dom := n.mk()
	a, b, c := dom[ia], dom[ib], dom[ic]
	before := make([]string, len(dom))
	for i, v := range dom {
		before[i] = n.show(v)
	}
	sa, sb, sc := before[ia], before[ib], before[ic]
	defer func() {
		if r := recover(); r != nil {
			law, msg = "panic", fmt.Sprintf("%s panicked on a=%s b=%s c=%s: %v", n.name, sa, sb, sc, r)
		}
	}()
	type result struct {
		what string
		v    any
		s    string
	}
	var results []*result
	call := func(what string, x, y any) any {
		v := n.combine(x, y)
		results = append(results, &result{what, v, n.show(v)})
		return v
	}
	ab := call("Combine(a,b)", a, b)
	bc := call("Combine(b,c)", b, c)
	l := call("Combine(Combine(a,b),c)", ab, c)
	r := call("Combine(a,Combine(b,c))", a, bc)
	var e, ea, ae any
	if n.empty != nil {
		e = n.empty()
		results = append(results, &result{"Empty()", e, n.show(e)})
		ea = call("Combine(Empty(),a)", e, a)
		ae = call("Combine(a,Empty())", a, e)
	}
	// later calls with the same left operands, then everything is looked at again
	call("Combine(a,c)", a, c)
	call("Combine(Combine(a,b),b)", ab, b)
	call("Combine(b,a)", b, a)
	outcome = results[2].s
	for _, res := range results {
		if now := n.show(res.v); now != res.s {
			return "result-changed-later", fmt.Sprintf("%s: %s returned %s, but after later Combine calls the same value reads %s (a=%s b=%s c=%s)", n.name, res.what, res.s, now, sa, sb, sc), outcome
		}
	}
	for i, v := range dom {
		if now := n.show(v); now != before[i] {
			return "operand-modified", fmt.Sprintf("%s: the domain value %s reads %s after Combine was called on a=%s b=%s c=%s (Combine wrote into an operand or into storage it shares)", n.name, before[i], now, sa, sb, sc), outcome
		}
	}
	if !n.noAssoc && !n.eqv(l, r) {
		return "associative", fmt.Sprintf("%s: Combine(Combine(a,b),c)=%s but Combine(a,Combine(b,c))=%s for a=%s b=%s c=%s", n.name, n.show(l), n.show(r), sa, sb, sc), outcome
	}
	if n.empty != nil {
		if !n.eqv(ea, a) {
			return "left-identity", fmt.Sprintf("%s: Combine(Empty(),a)=%s for a=%s (Empty()=%s)", n.name, n.show(ea), sa, n.show(e)), outcome
		}
		if !n.eqv(ae, a) {
			return "right-identity", fmt.Sprintf("%s: Combine(a,Empty())=%s for a=%s (Empty()=%s)", n.name, n.show(ae), sa, n.show(e)), outcome
		}
		if e2 := n.empty(); !n.eqv(e, e2) {
			return "empty-changed", fmt.Sprintf("%s: Empty() returned %s and later %s", n.name, n.show(e), n.show(e2)), outcome
		}
		if n.meaningEmpty != nil && !n.eqv(e, n.meaningEmpty) {
			return "meaning", fmt.Sprintf("%s: Empty()=%s but %s has the neutral element %s", n.name, n.show(e), n.meaningWhat, n.show(n.meaningEmpty)), outcome
		}
	}
	if n.meaning != nil {
		// the reference works on yet another fresh copy of the operands
		d2 := n.mk()
		want, alt, hasAlt := n.meaning(d2[ia], d2[ib])
		if !n.eqv(ab, want) && !(hasAlt && n.eqv(ab, alt)) {
			return "meaning", fmt.Sprintf("%s: Combine(a,b)=%s but %s gives %s for a=%s b=%s", n.name, n.show(ab), n.meaningWhat, n.show(want), sa, sb), outcome
		}
	}
	return "", "", outcome
}

func (n *node) selfcheck() string {
	if n.known {
		return n.memo
	}
	res := ""
outer:
	for a := range n.dom {
		for b := range n.dom {
			for c := range n.dom {
				if l, _, _ := n.law(a, b, c); l != "" {
					res = l
					break outer
				}
			}
		}
	}
	n.known, n.memo = true, res
	return res
}

// culprit descends to the innermost component instance that is itself unlawful on its own
// domain, so that one defect is reported under one constructor.
func (n *node) culprit() *node {
	for _, k := range n.kids {
		if k.selfcheck() != "" {
			return k.culprit()
		}
	}
	return n
}

func anys[T any](s []T) []any {
	out := make([]any, len(s))
	for i, v := range s {
		out[i] = v
	}
	return out
}

func showV(v any) string {
	if s, ok := v.(string); ok {
		return fmt.Sprintf("%q", s)
	}
	return fmt.Sprint(v)
}

func eqComparable[T comparable](a, b any) bool { return a.(T) == b.(T) }

// ---------- named base instances ----------

func named(n *node, what string, emptyV any, f func(a, b any) any) *node {
	n.meaningWhat, n.meaningEmpty = what, emptyV
	n.meaning = func(a, b any) (any, any, bool) { return f(a, b), nil, false }
	return n
}

func isFloat[T any]() bool {
	var z T
	switch any(z).(type) {
	case float32, float64:
		return true
	}
	return false
}

func sumNode[T fp.ImplicitOrd](pkg, tname string, dom []T) *node {
	var zero T
	n := named(newNode(pkg, "Sum["+tname+"]", fixed(dom), eqComparable[T], showV), "addition (modulo overflow)", zero, func(a, b any) any { return a.(T) + b.(T) })
	n.noAssoc = isFloat[T]()
	return n
}

func productNode[T fp.ImplicitNum](pkg, tname string, dom []T) *node {
	n := named(newNode(pkg, "Product["+tname+"]", fixed(dom), eqComparable[T], showV), "multiplication (modulo overflow)", T(1), func(a, b any) any { return a.(T) * b.(T) })
	n.noAssoc = isFloat[T]()
	return n
}

func boolNode(pkg, ctor, what string, emptyV bool, f func(a, b bool) bool) *node {
	return named(newNode(pkg, ctor, fixed([]bool{false, true}), eqComparable[bool], showV), what, emptyV, func(a, b any) any { return f(a.(bool), b.(bool)) })
}

var intDom = []int{0, 1, 2, -1, math.MaxInt, math.MinInt}
var strDom = []string{"", "a", "b", "ab"}
var fltDom = []float64{0, 1.5, -2, 0.5, 1e300}

func seqEq[T comparable](a, b []T) bool {
	if len(a) != len(b) {
		return false
	}
	for i := range a {
		if a[i] != b[i] {
			return false
		}
	}
	return true
}

// showSlice prints the elements and, after a bar, the rest of the backing array up to the
// capacity: it is the snapshot used to see writes into spare capacity.
func showSlice[T any](s []T) string {
	if s == nil {
		return "nil"
	}
	if cap(s) > len(s) {
		return fmt.Sprintf("%v|spare%v", s, s[len(s):cap(s)])
	}
	return fmt.Sprint(s)
}

// freshIntSeqs: nil, empty, tight slices, and operands with SPARE CAPACITY that are sub-slices
// of a larger live array (two of them of the same array), built anew on every call.
func freshIntSeqs() [][]int {
	base := []int{1, 2, 3, 4}
	other := []int{2, 9, 8}
	grown := append(make([]int, 0, 4), 2, 1)
	return [][]int{nil, base[:1], base[:2], other[:1], grown, {}}
}

// writeFirstInt: s[0] = 7 or 8 (same array, new contents)
func writeFirstInt(s []int, pick int) bool {
	if len(s) == 0 {
		return false
	}
	s[0] = 7 + pick
	return true
}

func concatInts(a, b []int) []int { return append(append([]int{}, a...), b...) }

func mergeSeqI() *inst[fp.Seq[int]] {
	mk := func() []any {
		var dom []any
		for _, s := range freshIntSeqs() {
			dom = append(dom, fp.Seq[int](s))
		}
		return dom
	}
	n := named(newNode("monoid", "MergeSeq[int]", mk, func(a, b any) bool { return seqEq(a.(fp.Seq[int]), b.(fp.Seq[int])) }, func(v any) string { return showSlice(v.(fp.Seq[int])) }),
		"concatenation (a then b)", fp.Seq[int]{}, func(a, b any) any { return fp.Seq[int](concatInts(a.(fp.Seq[int]), b.(fp.Seq[int]))) })
	n.mut = func(v any, pick int) bool { return writeFirstInt(v.(fp.Seq[int]), pick) }
	return finishM(n, monoid.MergeSeq[int])
}

func mergeSliceI() *inst[[]int] {
	mk := func() []any { return anys(freshIntSeqs()) }
	n := named(newNode("monoid", "MergeSlice[int]", mk, func(a, b any) bool { return seqEq(a.([]int), b.([]int)) }, func(v any) string { return showSlice(v.([]int)) }),
		"concatenation (a then b)", []int{}, func(a, b any) any { return concatInts(a.([]int), b.([]int)) })
	n.mut = func(v any, pick int) bool { return writeFirstInt(v.([]int), pick) }
	return finishM(n, monoid.MergeSlice[int])
}

// maps are compared and shown through a plain Go map
type kv = map[string]int

var kvShapes = [][][2]any{nil, {}, {{"a", 1}}, {{"a", 2}}, {{"b", 1}}, {{"a", 1}, {"b", 2}}}

func showKV(m kv) string {
	var ks []string
	for k := range m {
		ks = append(ks, k)
	}
	sort.Strings(ks)
	var s []string
	for _, k := range ks {
		s = append(s, fmt.Sprintf("%s:%d", k, m[k]))
	}
	return "{" + strings.Join(s, " ") + "}"
}

func kvEq(a, b kv) bool {
	if len(a) != len(b) {
		return false
	}
	for k, v := range a {
		if w, ok := b[k]; !ok || w != v {
			return false
		}
	}
	return true
}

func unionRight(a, b kv) kv {
	out := kv{}
	for k, v := range a {
		out[k] = v
	}
	for k, v := range b {
		out[k] = v
	}
	return out
}

func mergeGoMapI() *inst[kv] {
	mk := func() []any {
		var dom []any
		for _, sh := range kvShapes {
			var m kv
			if sh != nil {
				m = kv{}
				for _, e := range sh {
					m[e[0].(string)] = e[1].(int)
				}
			}
			dom = append(dom, m)
		}
		return dom
	}
	n := named(newNode("monoid", "MergeGoMap[string,int]", mk, func(a, b any) bool { return kvEq(a.(kv), b.(kv)) }, func(v any) string { return showKV(v.(kv)) }),
		"union, the right operand wins on a common key", kv{}, func(a, b any) any { return unionRight(a.(kv), b.(kv)) })
	n.mut = func(v any, pick int) bool { // m["a"] = .. (same map)
		m := v.(kv)
		if m == nil {
			return false
		}
		m["a"] = 5 + pick
		return true
	}
	return finishM(n, monoid.MergeGoMap[string, int])
}

func fpMapToKV(m fp.Map[string, int]) kv {
	out := kv{}
	for it := m.Iterator(); it.HasNext(); {
		e := it.Next()
		out[e.I1] = e.I2
	}
	return out
}

func kvToFpMap(m kv, base fp.Map[string, int]) fp.Map[string, int] {
	var ks []string
	for k := range m {
		ks = append(ks, k)
	}
	sort.Strings(ks)
	for _, k := range ks {
		base = base.Updated(k, m[k])
	}
	return base
}

func mergeMapI() *inst[fp.Map[string, int]] {
	mk := func() []any {
		var dom []any
		for j, sh := range kvShapes {
			var m fp.Map[string, int] // zero value
			if sh != nil && j != 3 {
				m = immutable.Map[string, int](hash.String)
			}
			for _, e := range sh {
				m = m.Updated(e[0].(string), e[1].(int))
			}
			dom = append(dom, m)
		}
		return dom
	}
	show := func(v any) string {
		m := v.(fp.Map[string, int])
		kind := "hamt"
		if m.Base == nil {
			kind = "zero"
		} else if _, ok := m.Base.(fp.UnsafeGoMap[string, int]); ok {
			kind = "gomap"
		}
		return "fp.Map/" + kind + showKV(fpMapToKV(m))
	}
	n := named(newNode("monoid", "MergeMap[string,int]", mk, func(a, b any) bool {
		return kvEq(fpMapToKV(a.(fp.Map[string, int])), fpMapToKV(b.(fp.Map[string, int])))
	}, show),
		"union, the right operand wins on a common key", fp.Map[string, int]{}, func(a, b any) any {
			return kvToFpMap(unionRight(fpMapToKV(a.(fp.Map[string, int])), fpMapToKV(b.(fp.Map[string, int]))), fp.Map[string, int]{})
		})
	return finishM(n, monoid.MergeMap[string, int])
}

func setToKV(s fp.Set[int]) kv {
	out := kv{}
	for it := s.Iterator(); it.HasNext(); {
		out[fmt.Sprint(it.Next())] = 1
	}
	return out
}

func mergeSetI() *inst[fp.Set[int]] {
	hs := hash.Number[int]()
	var zero fp.Set[int]
	mk := func() []any {
		return []any{zero, immutable.Set(hs), immutable.Set(hs, 1), zero.Incl(2), immutable.Set(hs, 1, 2), immutable.Set(hs, 2, 3)}
	}
	show := func(v any) string {
		var ks []string
		for k := range setToKV(v.(fp.Set[int])) {
			ks = append(ks, k)
		}
		sort.Strings(ks)
		return "Set{" + strings.Join(ks, " ") + "}"
	}
	n := named(newNode("monoid", "MergeSet[int]", mk, func(a, b any) bool { return kvEq(setToKV(a.(fp.Set[int])), setToKV(b.(fp.Set[int]))) }, show),
		"set union", zero, func(a, b any) any {
			out := immutable.Set(hs)
			for _, s := range []fp.Set[int]{a.(fp.Set[int]), b.(fp.Set[int])} {
				for it := s.Iterator(); it.HasNext(); {
					out = out.Incl(it.Next())
				}
			}
			return out
		})
	return finishM(n, monoid.MergeSet[int])
}

// Endo over int: functions are compared extensionally on the test points
var endoPoints = []int{0, 1, 2}

func endoEq(a, b any) bool {
	f, g := a.(fp.Endo[int]), b.(fp.Endo[int])
	for _, p := range endoPoints {
		if f(p) != g(p) {
			return false
		}
	}
	return true
}

func endoShow(v any) string {
	f := v.(fp.Endo[int])
	var s []string
	for _, p := range endoPoints {
		s = append(s, fmt.Sprintf("%d->%d", p, f(p)))
	}
	return "fn{" + strings.Join(s, " ") + "}"
}

func endoDom() []any {
	return []any{fp.Endo[int](func(x int) int { return x }), fp.Endo[int](func(x int) int { return x + 1 }), fp.Endo[int](func(x int) int { return x * 2 }), fp.Endo[int](func(x int) int { return 0 }), fp.Endo[int](func(x int) int { return 3 - x })}
}

// "Endo composes": the property does not fix the order, so either f after g or g after f is accepted
func endoNode(pkg string) *node {
	n := newNode(pkg, "Endo[int]", endoDom, endoEq, endoShow)
	n.meaningWhat = "function composition"
	n.meaningEmpty = fp.Endo[int](func(x int) int { return x })
	n.meaning = func(a, b any) (any, any, bool) {
		f, g := a.(fp.Endo[int]), b.(fp.Endo[int])
		return fp.Endo[int](func(x int) int { return f(g(x)) }), fp.Endo[int](func(x int) int { return g(f(x)) }), true
	}
	return n
}

// ---------- combinators ----------

func optGet[T any](v any) (any, bool) {
	o := v.(fp.Option[T])
	if o.IsDefined() {
		return o.Get(), true
	}
	return nil, false
}

func optMut(k *node, get func(any) (any, bool)) func(v any, pick int) bool {
	return func(v any, pick int) bool {
		e, ok := get(v)
		return ok && k.doMut(e, pick)
	}
}

func optEq(k *node, get func(any) (any, bool)) func(a, b any) bool {
	return func(a, b any) bool {
		av, aok := get(a)
		bv, bok := get(b)
		if aok != bok {
			return false
		}
		return !aok || k.eqv(av, bv)
	}
}

func optShow(k *node, get func(any) (any, bool), none, pre, post string) func(any) string {
	return func(v any) string {
		e, ok := get(v)
		if !ok {
			return none
		}
		return pre + k.show(e) + post
	}
}

func optionDom[T any](k *node) func() []any {
	return func() []any {
		dom := []any{fp.None[T]()}
		for _, v := range k.mk() {
			dom = append(dom, fp.Some(v.(T)))
		}
		return dom
	}
}

func optionOf[T any](k *inst[T]) *inst[fp.Option[T]] {
	n := newNode("monoid", "Option", optionDom[T](k.n), optEq(k.n, optGet[T]), optShow(k.n, optGet[T], "None", "Some(", ")"), k.n)
	n.mut = optMut(k.n, optGet[T])
	return finishM(n, func() fp.Monoid[fp.Option[T]] { return monoid.Option(k.mkM()) })
}

func sgOptionOf[T any](k *inst[T]) *inst[fp.Option[T]] {
	n := newNode("semigroup", "Option", optionDom[T](k.n), optEq(k.n, optGet[T]), optShow(k.n, optGet[T], "None", "Some(", ")"), k.n)
	n.mut = optMut(k.n, optGet[T])
	return finishS(n, func() fp.Semigroup[fp.Option[T]] { return semigroup.Option(k.mkSg()) })
}

var errA, errB = errors.New("errA"), errors.New("errB")

func tryOf[T any](k *inst[T]) *inst[fp.Try[T]] {
	mk := func() []any {
		dom := []any{fp.Failure[T](errA), fp.Failure[T](errB)}
		for _, v := range k.n.mk() {
			dom = append(dom, fp.Success(v.(T)))
		}
		dom[0], dom[2] = dom[2], dom[0] // a success first
		return dom
	}
	eqv := func(a, b any) bool {
		x, y := a.(fp.Try[T]), b.(fp.Try[T])
		if x.IsSuccess() != y.IsSuccess() {
			return false
		}
		if x.IsSuccess() {
			return k.n.eqv(x.Get(), y.Get())
		}
		return x.Failed().Get() == y.Failed().Get()
	}
	show := func(v any) string {
		x := v.(fp.Try[T])
		if x.IsSuccess() {
			return "Success(" + k.n.show(x.Get()) + ")"
		}
		return "Failure(" + x.Failed().Get().Error() + ")"
	}
	n := newNode("monoid", "Try", mk, eqv, show, k.n)
	n.mut = func(v any, pick int) bool {
		x := v.(fp.Try[T])
		return x.IsSuccess() && k.n.doMut(x.Get(), pick)
	}
	return finishM(n, func() fp.Monoid[fp.Try[T]] { return monoid.Try(k.mkM()) })
}

func dualNode[T any](pkg string, k *node) *node {
	mk := func() []any {
		var dom []any
		for _, v := range k.mk() {
			dom = append(dom, fp.Dual[T]{GetDual: v.(T)})
		}
		return dom
	}
	n := newNode(pkg, "Dual", mk, func(a, b any) bool { return k.eqv(a.(fp.Dual[T]).GetDual, b.(fp.Dual[T]).GetDual) },
		func(v any) string { return "Dual{" + k.show(v.(fp.Dual[T]).GetDual) + "}" }, k)
	n.meaningWhat = "the component's Combine with the operands flipped"
	n.meaning = func(a, b any) (any, any, bool) {
		return fp.Dual[T]{GetDual: k.combine(b.(fp.Dual[T]).GetDual, a.(fp.Dual[T]).GetDual).(T)}, nil, false
	}
	n.mut = func(v any, pick int) bool { return k.doMut(v.(fp.Dual[T]).GetDual, pick) }
	return n
}

func dualOf[T any](k *inst[T]) *inst[fp.Dual[T]] {
	return finishM(dualNode[T]("monoid", k.n), func() fp.Monoid[fp.Dual[T]] { return monoid.Dual(k.mkM()) })
}

func sgDualOf[T any](k *inst[T]) *inst[fp.Dual[T]] {
	return finishS(dualNode[T]("semigroup", k.n), func() fp.Semigroup[fp.Dual[T]] { return semigroup.Dual(k.mkSg()) })
}

func evalNode[T any](pkg string, k *node) *node {
	mk := func() []any {
		var dom []any
		for j, v := range k.mk() {
			t := v.(T)
			if j%2 == 0 {
				dom = append(dom, lazy.Done(t))
			} else {
				dom = append(dom, lazy.Call(func() T { return t }))
			}
		}
		return dom
	}
	return newNode(pkg, "Eval", mk, func(a, b any) bool { return k.eqv(a.(lazy.Eval[T]).Get(), b.(lazy.Eval[T]).Get()) },
		func(v any) string { return "Eval(" + k.show(v.(lazy.Eval[T]).Get()) + ")" }, k)
}

func evalOf[T any](k *inst[T]) *inst[lazy.Eval[T]] {
	return finishM(evalNode[T]("monoid", k.n), func() fp.Monoid[lazy.Eval[T]] { return monoid.Eval(k.mkM()) })
}

func sgEvalOf[T any](k *inst[T]) *inst[lazy.Eval[T]] {
	return finishS(evalNode[T]("semigroup", k.n), func() fp.Semigroup[lazy.Eval[T]] { return semigroup.Eval(k.mkSg()) })
}

func ptrNode[T any](pkg string, k *node) *node {
	mk := func() []any {
		dom := []any{(*T)(nil)}
		for _, v := range k.mk() {
			t := v.(T)
			dom = append(dom, &t)
		}
		return dom
	}
	get := func(v any) (any, bool) {
		p := v.(*T)
		if p == nil {
			return nil, false
		}
		return *p, true
	}
	n := newNode(pkg, "Ptr", mk, optEq(k, get), optShow(k, get, "nil", "&", ""), k)
	n.mut = func(v any, pick int) bool { // *p = another value of the pointee type (same address)
		p := v.(*T)
		if p == nil {
			return false
		}
		d := k.mk()
		*p = d[(1+pick)%len(d)].(T)
		return true
	}
	return n
}

func ptrOf[T any](k *inst[T]) *inst[*T] {
	return finishM(ptrNode[T]("monoid", k.n), func() fp.Monoid[*T] { return monoid.Ptr(lazy.Call(k.mkM)) })
}

func sgPtrOf[T any](k *inst[T]) *inst[*T] {
	return finishS(ptrNode[T]("semigroup", k.n), func() fp.Semigroup[*T] { return semigroup.Ptr(lazy.Call(k.mkSg)) })
}

// box is the target type of IMap
type box[T any] struct{ v T }

func boxIt[T any](v T) box[T]   { return box[T]{v} }
func unboxIt[T any](b box[T]) T { return b.v }

func boxNode[T any](pkg string, k *node) *node {
	mk := func() []any {
		var dom []any
		for _, v := range k.mk() {
			dom = append(dom, box[T]{v.(T)})
		}
		return dom
	}
	n := newNode(pkg, "IMap", mk, func(a, b any) bool { return k.eqv(a.(box[T]).v, b.(box[T]).v) }, func(v any) string { return "box{" + k.show(v.(box[T]).v) + "}" }, k)
	n.mut = func(v any, pick int) bool { return k.doMut(v.(box[T]).v, pick) }
	return n
}

func imapOf[T any](k *inst[T]) *inst[box[T]] {
	return finishM(boxNode[T]("monoid", k.n), func() fp.Monoid[box[T]] { return monoid.IMap(k.mkM(), boxIt[T], unboxIt[T]) })
}

func sgImapOf[T any](k *inst[T]) *inst[box[T]] {
	return finishS(boxNode[T]("semigroup", k.n), func() fp.Semigroup[box[T]] { return semigroup.IMap(k.mkSg(), boxIt[T], unboxIt[T]) })
}

// prodMut passes a write to the first component that has a mutable referent.
func prodMut(kids []*node, split func(any) []any) func(v any, pick int) bool {
	return func(v any, pick int) bool {
		for j, c := range split(v) {
			if j < len(kids) && kids[j].doMut(c, pick) {
				return true
			}
		}
		return false
	}
}

func prodEq(kids []*node, split func(any) []any) func(a, b any) bool {
	return func(a, b any) bool {
		as, bs := split(a), split(b)
		for j, k := range kids {
			if !k.eqv(as[j], bs[j]) {
				return false
			}
		}
		return true
	}
}

func prodShow(kids []*node, split func(any) []any, open, sep, close string) func(any) string {
	return func(v any) string {
		es := split(v)
		s := make([]string, len(kids))
		for j, k := range kids {
			s[j] = k.show(es[j])
		}
		return open + strings.Join(s, sep) + close
	}
}

func tuple2Of[T any](k *inst[T]) *inst[fp.Tuple2[T, T]] {
	mk := func() []any {
		var dom []any
		d, d2 := k.n.mk(), k.n.mk()
		for j := range d {
			dom = append(dom, as.Tuple2(d[j].(T), d2[(j+1)%len(d)].(T)))
		}
		return dom
	}
	split := func(v any) []any { t := v.(fp.Tuple2[T, T]); return []any{t.I1, t.I2} }
	kids := []*node{k.n, k.n}
	n := newNode("monoid", "Tuple2", mk, prodEq(kids, split), prodShow(kids, split, "(", ",", ")"), kids...)
	n.mut = prodMut(kids, split)
	return finishM(n, func() fp.Monoid[fp.Tuple2[T, T]] { return monoid.Tuple2(k.mkM(), k.mkM()) })
}

func hconsOf[T any](k *inst[T], nilI *inst[hlist.Nil]) *inst[hlist.Cons[T, hlist.Nil]] {
	mk := func() []any {
		var dom []any
		for _, v := range k.n.mk() {
			dom = append(dom, hlist.Concat(v.(T), hlist.Empty()))
		}
		return dom
	}
	split := func(v any) []any { c := v.(hlist.Cons[T, hlist.Nil]); return []any{c.Head(), hlist.Tail(c)} }
	kids := []*node{k.n, nilI.n}
	n := newNode("monoid", "HCons", mk, prodEq(kids, split), prodShow(kids, split, "", "::", ""), kids...)
	n.mut = prodMut(kids, split)
	return finishM(n, func() fp.Monoid[hlist.Cons[T, hlist.Nil]] { return monoid.HCons(k.mkM(), nilI.mkM()) })
}

// ---------- closure of the grammar to a depth bound ----------

type catalogue struct {
	nodes []*node
	hnil  *inst[hlist.Nil]
}

func (c *catalogue) add(n *node) { c.nodes = append(c.nodes, n) }

func expand0[T any](c *catalogue, k *inst[T]) { c.add(k.n) }

func expand1[T any](c *catalogue, k *inst[T]) {
	c.add(k.n)
	expand0(c, optionOf(k))
	expand0(c, tryOf(k))
	expand0(c, dualOf(k))
	expand0(c, evalOf(k))
	expand0(c, ptrOf(k))
	expand0(c, imapOf(k))
	expand0(c, tuple2Of(k))
	expand0(c, hconsOf(k, c.hnil))
}

func expand2[T any](c *catalogue, k *inst[T]) {
	c.add(k.n)
	expand1(c, optionOf(k))
	expand1(c, tryOf(k))
	expand1(c, dualOf(k))
	expand1(c, evalOf(k))
	expand1(c, ptrOf(k))
	expand1(c, imapOf(k))
	expand1(c, tuple2Of(k))
	expand1(c, hconsOf(k, c.hnil))
}

// the semigroup package's combinators
func sgExpand0[T any](c *catalogue, k *inst[T]) { c.add(k.n) }

func sgExpand1[T any](c *catalogue, k *inst[T]) {
	c.add(k.n)
	sgExpand0(c, sgOptionOf(k))
	sgExpand0(c, sgDualOf(k))
	sgExpand0(c, sgEvalOf(k))
	sgExpand0(c, sgPtrOf(k))
	sgExpand0(c, sgImapOf(k))
}

func sgExpand2[T any](c *catalogue, k *inst[T]) {
	c.add(k.n)
	sgExpand1(c, sgOptionOf(k))
	sgExpand1(c, sgDualOf(k))
	sgExpand1(c, sgEvalOf(k))
	sgExpand1(c, sgPtrOf(k))
	sgExpand1(c, sgImapOf(k))
}
