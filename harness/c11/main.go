// C11 — Monoid/Semigroup instances are lawful; Reduce/FoldMap equal the plain fold.
//
// Part 1 (scenarios "grammar", "arity"): every instance expression of the monoid and semigroup
// packages (and fp.Sum / fp.Product) over a small type grammar (depth 2, every tuple arity 2..21
// and HCons chain length 1..21) on ALL triples of a value domain: associativity, two-sided
// identity, and — for the instances the property names — the meaning of the name, against a
// reference written with native operators and plain loops.
// Part 2 (scenario "fold"): Reduce and FoldMap of seq, iterator and list on ALL sequences up to a
// length bound, against the left-to-right loop acc = Combine(acc, x) from Empty.
package main

import (
	"fmt"
	"strings"

	"github.com/csgura/fp"
	"github.com/csgura/fp/hlist"
	"github.com/csgura/fp/iterator"
	"github.com/csgura/fp/lazy"
	"github.com/csgura/fp/list"
	"github.com/csgura/fp/monoid"
	"github.com/csgura/fp/semigroup"
	"github.com/csgura/fp/seq"
	"verif/mc"
)

// arities holds the component instances used by the generated tuple / HCons blocks.
type arities struct {
	kSum  *inst[int]
	kStr  *inst[string]
	kAny  *inst[bool]
	kPro  *inst[int]
	kSeq  *inst[fp.Seq[int]]
	kOpt  *inst[fp.Option[string]]
	kEnd  *inst[fp.Endo[int]]
	hnil  *inst[hlist.Nil]
	tuple [22]*node
	hcons [22]*node
}

// arityInst builds the instance of one tuple arity / HCons chain length: six values in which
// every component runs through its own domain (shifted by the position, so neighbouring
// components never move in step).
func arityInst[T any](head string, n int, m func() fp.Monoid[T], mk func(c []any) T, split func(any) []any, open, sep, close string, kids ...*node) *inst[T] {
	mkDom := func() []any {
		var dom []any
		doms := make([][]any, n)
		for k := range doms {
			doms[k] = kids[k].mk() // fresh storage for every component
		}
		for j := 0; j < domCap; j++ {
			c := make([]any, n)
			for k := range c {
				d := doms[k]
				c[k] = d[(j+k)%len(d)]
			}
			dom = append(dom, mk(c))
		}
		return dom
	}
	nd := &node{name: "monoid." + head, pkg: "monoid", head: "monoid." + head, depth: 2, kids: kids, dom: mkDom(), mk: mkDom, eqv: prodEq(kids, split), show: prodShow(kids, split, open, sep, close)}
	nd.mut = prodMut(kids, split)
	return finishM(nd, m)
}

func buildCatalogue() (grammar *catalogue, extra *catalogue, ar *arities) {
	unitEq := func(a, b any) bool { return true }
	hn := finishM(newNode("monoid", "HNil", fixed([]hlist.Nil{{}}), unitEq, func(any) string { return "HNil" }), mval(monoid.HNil))
	grammar = &catalogue{hnil: hn}
	extra = &catalogue{hnil: hn}

	mString := finishM(newNode("monoid", "String", fixed(strDom), eqComparable[string], showV), mval(monoid.String))
	mSumInt := finishM(sumNode("monoid", "int", intDom), monoid.Sum[int])
	mSumStr := finishM(sumNode("monoid", "string", strDom), monoid.Sum[string])
	mProdInt := finishM(productNode("monoid", "int", intDom), monoid.Product[int])
	or := func(a, b bool) bool { return a || b }
	and := func(a, b bool) bool { return a && b }
	mAny := finishM(boolNode("monoid", "Any", "disjunction", false, or), mval(monoid.Any))
	mAll := finishM(boolNode("monoid", "All", "conjunction", true, and), mval(monoid.All))
	mEndo := finishM(endoNode("monoid"), monoid.Endo[int])
	mSeq := mergeSeqI()

	// depth 2 — every combinator applied to every combinator — over the non-commutative String
	// monoid; depth 1 over the other base instances (compile time: see harness/c09/inst.go)
	expand2(grammar, mString)
	expand1(grammar, mSumInt)
	expand1(grammar, mProdInt)
	expand1(grammar, mAny)
	expand1(grammar, mAll)
	expand1(grammar, mEndo)
	expand1(grammar, mSeq)
	// the slice-like carriers (domains with spare-capacity sub-slices of a live array, see
	// freshIntSeqs) under every combinator
	mSlice := mergeSliceI()
	expand1(grammar, mSlice)
	// MergeGoMap: the one instance whose Empty is a fresh MUTABLE value per call, under every
	// combinator (an enclosing instance that memoises its Empty hands the same map out again)
	mGoMapI := mergeGoMapI()
	expand1(grammar, mGoMapI)

	add := func(n *node) { extra.add(n) }
	add(hn.n)
	add(mSumStr.n)
	add(finishM(newNode("monoid", "Unit", fixed([]fp.Unit{{}}), unitEq, func(any) string { return "Unit" }), mval(monoid.Unit)).n)
	add(mergeMapI().n)
	add(mergeSetI().n)
	add(finishM(sumNode("monoid", "float64", fltDom), monoid.Sum[float64]).n)
	add(finishM(productNode("monoid", "float64", fltDom), monoid.Product[float64]).n)
	add(finishM(sumNode("monoid", "uint8", []uint8{0, 1, 2, 128, 255}), monoid.Sum[uint8]).n)
	add(finishM(productNode("monoid", "uint8", []uint8{0, 1, 2, 16, 128, 255}), monoid.Product[uint8]).n)
	add(finishM(sumNode("monoid", "int8", []int8{0, 1, -1, 127, -128}), monoid.Sum[int8]).n)
	add(finishM(productNode("monoid", "int8", []int8{0, 1, -1, 127, -128, 16}), monoid.Product[int8]).n)
	add(finishM(sumNode("fp", "int", intDom), fp.Sum[int]).n)
	add(finishM(sumNode("fp", "string", strDom), fp.Sum[string]).n)
	add(finishM(productNode("fp", "int", intDom), fp.Product[int]).n)
	add(finishM(productNode("fp", "float64", fltDom), fp.Product[float64]).n)
	// user-supplied functions through monoid.New
	add(finishM(newNode("monoid", "New[max]", fixed([]int{0, 1, 2, 5}), eqComparable[int], showV), func() fp.Monoid[int] {
		return monoid.New(func() int { return 0 }, func(a, b int) int { return max(a, b) })
	}).n)

	// the semigroup package
	sSumInt := finishS(sumNode("semigroup", "int", intDom), semigroup.Sum[int])
	sSumStr := finishS(sumNode("semigroup", "string", strDom), semigroup.Sum[string])
	sProdInt := finishS(productNode("semigroup", "int", intDom), func() fp.Semigroup[int] { return semigroup.Product[int](0, 0) })
	sAny := finishS(boolNode("semigroup", "Any", "disjunction", false, or), sval(semigroup.Any))
	sAll := finishS(boolNode("semigroup", "All", "conjunction", true, and), sval(semigroup.All))
	sEndo := finishS(endoNode("semigroup"), semigroup.Endo[int])
	for _, n := range []*node{sSumInt.n, sSumStr.n, sProdInt.n, sAny.n, sAll.n, sEndo.n} {
		n.meaningEmpty = nil // a semigroup has no Empty
	}
	sgExpand2(extra, sSumStr)
	sgExpand1(extra, sSumInt)
	sgExpand1(extra, sProdInt)
	sgExpand1(extra, sAny)
	sgExpand1(extra, sAll)
	sgExpand1(extra, sEndo)
	add(finishS(productNode("semigroup", "float64", fltDom), func() fp.Semigroup[float64] { return semigroup.Product[float64](0, 0) }).n)
	add(finishS(newNode("semigroup", "New[min]", fixed([]int{0, 1, 2, 5}), eqComparable[int], showV), func() fp.Semigroup[int] { return semigroup.New(func(a, b int) int { return min(a, b) }) }).n)
	// the semigroup combinators accept monoids as well
	add(sgDualOf(mString).n)
	add(sgOptionOf(mString).n)

	ar = &arities{kSum: mSumInt, kStr: mString, kAny: mAny, kPro: mProdInt, kSeq: mSeq, kOpt: optionOf(mString), kEnd: mEndo, hnil: hn}
	registerArities(extra, ar)
	return
}

func lawScenario(r *mc.Registry, name string, nodes []*node) {
	sc := r.Seq(name, func(x *mc.X) {
		n := nodes[x.Choose(len(nodes), "instance")]
		a := x.Choose(len(n.dom), "a")
		b := x.Choose(len(n.dom), "b")
		c := x.Choose(len(n.dom), "c")
		x.Tag(n.name)
		law, msg, outcome := n.law(a, b, c) // builds its operands fresh; n.dom is only printed
		x.Logf("%s on a=%s b=%s c=%s: %s", n.name, n.show(n.dom[a]), n.show(n.dom[b]), n.show(n.dom[c]), orOK(law))
		if law != "" {
			cu := n.culprit()
			via := ""
			if cu != n {
				via = fmt.Sprintf(" (attributed to the component instance %s, which violates %q on its own domain)", cu.name, cu.selfcheck())
			}
			x.Fail(cu.head+"/"+law, "%s%s", msg, via)
		}
		x.Observe(n.name, outcome)
		if a != b && b != c && a != c {
			x.NonTrivial()
		}
		if n.meaning != nil {
			x.Tag("meaning of the name checked")
		}
		if n.noAssoc {
			x.Tag("float instance: associativity excluded")
		}
	})
	sc.SplitDepth = 2
}

// historyScenario: every call/write sequence of depth histDepth on one long-lived instance.
func historyScenario(r *mc.Registry, nodes []*node) (mutableNodes int) {
	for _, n := range nodes {
		n.histAlphabet()
		if n.mutable {
			mutableNodes++
		}
	}
	sc := r.Seq("history", func(x *mc.X) {
		n := nodes[x.Choose(len(nodes), "instance")]
		alphabet := n.histAlphabet()
		seq := make([]int, histDepth)
		writes, calls := 0, 0
		for d := range seq {
			seq[d] = x.Choose(len(alphabet), "step")
			if k := alphabet[seq[d]].kind; k == "mut" || k == "mutr" {
				writes++
			} else {
				calls++
			}
		}
		x.Tag("history: " + n.name)
		law, msg, trace := n.history(seq)
		for _, t := range trace {
			x.Logf("%s", t)
		}
		if law != "" {
			cu := n.histCulprit()
			via := ""
			if cu != n {
				via = fmt.Sprintf(" (attributed to the component instance %s, which violates %q in the history family on its own)", cu.name, cu.histcheck())
			}
			x.Fail(cu.head+"/"+law, "%s%s", msg, via)
		}
		x.Observe(n.name, strings.Join(trace, ";"))
		if writes > 0 && calls > 0 {
			x.NonTrivial()
			x.Tag("history: sequences with a write into a referent between calls")
		}
	})
	sc.SplitDepth = 2
	return
}

func orOK(s string) string {
	if s == "" {
		return "ok"
	}
	return "VIOLATES " + s
}

// ---------- Reduce / FoldMap ----------

type foldCase struct {
	name string
	run  func(x *mc.X, maxLen int)
}

// foldMonoid is a monoid of the fold scenario with its operand alphabet.
type foldMonoid[T any] struct {
	name string
	mk   func() fp.Monoid[T] // the instance is constructed inside every execution
	// alphabet builds the operands FRESH for every execution; for the slice-like carriers they
	// are sub-slices with spare capacity of larger live arrays (two of them of one array)
	alphabet func() []T
	// tight returns an independent copy without spare capacity: the reference fold runs on these
	tight func(T) T
	eqv   func(a, b T) bool
	show  func(T) string // prints the backing array beyond the length too (snapshot)
	// node is the catalogue entry of the same instance expression: when a fold goes wrong and the
	// monoid itself breaks a law on its own domain, the failure is attributed to the monoid
	node *node
}

// failFold reports a fold failure, attributed to the monoid when the monoid itself is at fault.
func failFold(x *mc.X, n *node, key, format string, args ...any) {
	if n != nil {
		if cu := n.histCulprit(); cu.histcheck() != "" {
			x.Fail(cu.head+"/"+cu.histcheck(), "%s (attributed to the instance %s, which violates %q in the history family on its own)", fmt.Sprintf(format, args...), cu.name, cu.histcheck())
		}
		if cu := n.culprit(); cu.selfcheck() != "" {
			x.Fail(cu.head+"/"+cu.selfcheck(), "%s (attributed to the instance %s, which violates %q on its own domain)", fmt.Sprintf(format, args...), cu.name, cu.selfcheck())
		}
	}
	x.Fail(key, format, args...)
}

func pickIndices(x *mc.X, maxLen, n int) []int {
	l := x.Choose(maxLen+1, "length")
	idx := make([]int, l)
	for i := range idx {
		idx[i] = x.Choose(n, "element")
	}
	return idx
}

type foldImpl[T any] struct {
	name, note string
	// f folds the elements elems[idx[0]], elems[idx[1]], ... (Reduce: the sequence of those
	// values; FoldMap: the sequence idx mapped by i -> elems[i])
	f func(m fp.Monoid[T], idx []int, elems []T) T
}

func foldCases[T any](kind string, fm foldMonoid[T], impls []foldImpl[T]) []foldCase {
	var out []foldCase
	for _, im := range impls {
		im := im
		out = append(out, foldCase{im.name + im.note + " with " + fm.name, func(x *mc.X, maxLen int) {
			elems := fm.alphabet()
			idx := pickIndices(x, maxLen, len(elems))
			m := fm.mk()
			before := make([]string, len(elems))
			for i, e := range elems {
				before[i] = fm.show(e)
			}
			var shown []string
			for _, i := range idx {
				shown = append(shown, before[i])
			}
			in := "[" + strings.Join(shown, " ") + "]"
			// reference: the plain loop, on independent operands without spare capacity
			ref := fm.alphabet()
			refM := fm.mk() // the reference fold uses an instance of its own
			want := refM.Empty()
			for _, i := range idx {
				want = refM.Combine(want, fm.tight(ref[i]))
			}
			wantS := fm.show(fm.tight(want))
			var got, got2 T
			if p := mc.Catch(func() { got = im.f(m, idx, elems) }); p != nil {
				failFold(x, fm.node, im.name+"/panic", "%s(%s, %s)%s panicked: %v", im.name, in, fm.name, im.note, p)
			}
			gotS, gotOK := fm.show(got), fm.eqv(got, want)
			// the caller owns the result: for results with a mutable referent that is not shared
			// with an operand (maps built by MergeGoMap) it writes into it before folding again
			wrote := false
			if w := foldWrite[fm.name]; w != nil && w(got) {
				wrote = true
				x.Logf("the caller writes into the result: %s becomes %s", gotS, fm.show(got))
				gotS = fm.show(got)
				x.Tag("fold: the caller wrote into the returned value before the second fold")
			}
			// the same fold once more on the same operands; then everything is looked at again
			if p := mc.Catch(func() { got2 = im.f(m, idx, elems) }); p != nil {
				failFold(x, fm.node, im.name+"/panic", "%s(%s, %s)%s panicked when called again: %v", im.name, in, fm.name, im.note, p)
			}
			x.Logf("%s(%s, %s)%s = %s, left fold = %s", im.name, in, fm.name, im.note, gotS, wantS)
			if !gotOK {
				failFold(x, fm.node, im.name+"/not-the-left-fold", "%s(%s, %s)%s = %s, the left-to-right fold of Combine from Empty is %s", im.name, in, fm.name, im.note, gotS, wantS)
			}
			if now := fm.show(got); now != gotS {
				failFold(x, fm.node, im.name+"/result-changed-later", "%s(%s, %s)%s returned %s, but after the same fold ran again the returned value reads %s", im.name, in, fm.name, im.note, gotS, now)
			}
			for i, e := range elems {
				if now := fm.show(e); now != before[i] {
					failFold(x, fm.node, im.name+"/operand-modified", "%s(%s, %s)%s: the operand %s reads %s afterwards (the fold wrote into an element of its input or into storage it shares)", im.name, in, fm.name, im.note, before[i], now)
				}
			}
			if !fm.eqv(got2, want) {
				after := ""
				if wrote {
					after = " (after the caller wrote into the first result)"
				}
				failFold(x, fm.node, im.name+"/not-the-left-fold", "%s(%s, %s)%s = %s when called a second time on the same operands%s, the left-to-right fold of Combine from Empty is %s", im.name, in, fm.name, im.note, fm.show(got2), after, wantS)
			}
			x.Observe(fm.name, wantS)
			if len(idx) >= 2 {
				x.NonTrivial()
			}
			if kind == "Reduce" && len(idx) >= 2 && idx[0] == idx[1] {
				x.Tag("fold: the same operand (same storage) occurs twice")
			}
		}})
	}
	return out
}

func reduceCases[T any](fm foldMonoid[T]) []foldCase {
	build := func(idx []int, elems []T) fp.Seq[T] {
		in := make(fp.Seq[T], len(idx))
		for k, i := range idx {
			in[k] = elems[i]
		}
		return in
	}
	return foldCases("Reduce", fm, []foldImpl[T]{
		{"seq.Reduce", "", func(m fp.Monoid[T], idx []int, e []T) T { return seq.Reduce(build(idx, e), m) }},
		{"iterator.Reduce", "", func(m fp.Monoid[T], idx []int, e []T) T { return iterator.Reduce(iterator.FromSeq(build(idx, e)), m) }},
		{"list.Reduce", "", func(m fp.Monoid[T], idx []int, e []T) T { return list.Reduce(list.FromSeq(build(idx, e)), m) }},
		{"list.Reduce", " (lazily produced list)", func(m fp.Monoid[T], idx []int, e []T) T {
			return list.Reduce(list.Collect(iterator.FromSeq(build(idx, e))), m)
		}},
	})
}

// FoldMap: the elements are ints, mapped into the monoid by the table elems (so the same operand,
// with the same storage, is returned for equal elements).
func foldMapCases[T any](fm foldMonoid[T]) []foldCase {
	ints := func(idx []int) fp.Seq[int] { return append(fp.Seq[int]{}, idx...) }
	return foldCases("FoldMap", fm, []foldImpl[T]{
		{"seq.FoldMap", "", func(m fp.Monoid[T], idx []int, e []T) T {
			return seq.FoldMap(ints(idx), m, func(i int) T { return e[i] })
		}},
		{"list.FoldMap", "", func(m fp.Monoid[T], idx []int, e []T) T {
			return list.FoldMap(list.FromSeq(ints(idx)), m, func(i int) T { return e[i] })
		}},
		{"list.FoldMap", " (lazily produced list)", func(m fp.Monoid[T], idx []int, e []T) T {
			return list.FoldMap(list.Collect(iterator.FromSeq(ints(idx))), m, func(i int) T { return e[i] })
		}},
	})
}

// foldWrite: how the caller writes into a fold result (by monoid name); only for results whose
// mutable referent is never shared with an operand
var foldWrite = map[string]func(any) bool{}

func constant[T any](vs ...T) func() []T { return func() []T { return vs } }

func ident[T any](v T) T { return v }

// spareInts: operands with spare capacity, sub-slices of live arrays, fresh on every call
func spareInts() [][]int {
	base := []int{1, 2, 3, 4}
	other := []int{2, 9, 8}
	return [][]int{base[:1], base[:2], other[:1], nil}
}

func cloneInts(s []int) []int {
	if s == nil {
		return nil
	}
	return append(make([]int, 0, len(s)), s...)
}

func foldScenario(r *mc.Registry, maxLen int, byName map[string]*node) int {
	eqS := func(a, b string) bool { return a == b }
	eqI := func(a, b int) bool { return a == b }
	shS := func(s string) string { return fmt.Sprintf("%q", s) }
	shI := func(i int) string { return fmt.Sprint(i) }
	eqO := func(a, b fp.Option[string]) bool {
		return a.IsDefined() == b.IsDefined() && (!a.IsDefined() || a.Get() == b.Get())
	}
	shO := func(o fp.Option[string]) string { return o.String() }

	mString := foldMonoid[string]{"monoid.String", mval(monoid.String), constant(strDom...), ident[string], eqS, shS, byName["monoid.String"]}
	mSum := foldMonoid[int]{"monoid.Sum[int]", monoid.Sum[int], constant(0, 1, 2, -1), ident[int], eqI, shI, byName["monoid.Sum[int]"]}
	mProd := foldMonoid[int]{"monoid.Product[int]", monoid.Product[int], constant(0, 1, 2, -1), ident[int], eqI, shI, byName["monoid.Product[int]"]}
	mOpt := foldMonoid[fp.Option[string]]{"monoid.Option(monoid.String)", func() fp.Monoid[fp.Option[string]] { return monoid.Option(monoid.String) },
		constant(fp.None[string](), fp.Some(""), fp.Some("a"), fp.Some("b")), ident[fp.Option[string]], eqO, shO, byName["monoid.Option(monoid.String)"]}
	mSeq := foldMonoid[fp.Seq[int]]{"monoid.MergeSeq[int]", monoid.MergeSeq[int],
		func() []fp.Seq[int] {
			var out []fp.Seq[int]
			for _, s := range spareInts() {
				out = append(out, s)
			}
			return out
		},
		func(s fp.Seq[int]) fp.Seq[int] { return cloneInts(s) },
		func(a, b fp.Seq[int]) bool { return seqEq(a, b) },
		func(s fp.Seq[int]) string { return showSlice(s) }, byName["monoid.MergeSeq[int]"]}
	mSlice := foldMonoid[[]int]{"monoid.MergeSlice[int]", monoid.MergeSlice[int], spareInts, cloneInts,
		func(a, b []int) bool { return seqEq(a, b) }, func(s []int) string { return showSlice(s) }, byName["monoid.MergeSlice[int]"]}
	// Dual puts the ELEMENT on the left of the underlying Combine, so an implementation that
	// appends in place writes into the elements of the input
	mDualSlice := foldMonoid[fp.Dual[[]int]]{"monoid.Dual(monoid.MergeSlice[int])", func() fp.Monoid[fp.Dual[[]int]] { return monoid.Dual(monoid.MergeSlice[int]()) },
		func() []fp.Dual[[]int] {
			var out []fp.Dual[[]int]
			for _, s := range spareInts() {
				out = append(out, fp.Dual[[]int]{GetDual: s})
			}
			return out
		},
		func(d fp.Dual[[]int]) fp.Dual[[]int] { return fp.Dual[[]int]{GetDual: cloneInts(d.GetDual)} },
		func(a, b fp.Dual[[]int]) bool { return seqEq(a.GetDual, b.GetDual) },
		func(d fp.Dual[[]int]) string { return "Dual{" + showSlice(d.GetDual) + "}" }, byName["monoid.Dual(monoid.MergeSlice[int])"]}
	mDualSeq := foldMonoid[fp.Dual[fp.Seq[int]]]{"monoid.Dual(monoid.MergeSeq[int])", func() fp.Monoid[fp.Dual[fp.Seq[int]]] { return monoid.Dual(monoid.MergeSeq[int]()) },
		func() []fp.Dual[fp.Seq[int]] {
			var out []fp.Dual[fp.Seq[int]]
			for _, s := range spareInts() {
				out = append(out, fp.Dual[fp.Seq[int]]{GetDual: s})
			}
			return out
		},
		func(d fp.Dual[fp.Seq[int]]) fp.Dual[fp.Seq[int]] {
			return fp.Dual[fp.Seq[int]]{GetDual: cloneInts(d.GetDual)}
		},
		func(a, b fp.Dual[fp.Seq[int]]) bool { return seqEq(a.GetDual, b.GetDual) },
		func(d fp.Dual[fp.Seq[int]]) string { return "Dual{" + showSlice(d.GetDual) + "}" }, byName["monoid.Dual(monoid.MergeSeq[int])"]}

	// nilable monoid values: nil pointers (monoid.Ptr treats nil as neutral) and nil maps among the
	// elements, in every position
	strPtr := func(v string) *string { return &v }
	mPtr := foldMonoid[*string]{"monoid.Ptr(monoid.String)", func() fp.Monoid[*string] {
		return monoid.Ptr(lazy.Call(func() fp.Monoid[string] { return monoid.String }))
	},
		func() []*string { return []*string{nil, strPtr(""), strPtr("a"), strPtr("b")} },
		func(p *string) *string {
			if p == nil {
				return nil
			}
			return strPtr(*p)
		},
		func(a, b *string) bool { return (a == nil) == (b == nil) && (a == nil || *a == *b) },
		func(p *string) string {
			if p == nil {
				return "nil"
			}
			return fmt.Sprintf("&%q", *p)
		}, byName["monoid.Ptr(monoid.String)"]}
	mGoMap := foldMonoid[kv]{"monoid.MergeGoMap[string,int]", monoid.MergeGoMap[string, int],
		func() []kv { return []kv{nil, {"a": 1}, {"a": 2}, {"b": 1}} },
		func(m kv) kv {
			if m == nil {
				return nil
			}
			return unionRight(m, nil)
		},
		kvEq,
		func(m kv) string {
			if m == nil {
				return "nilmap"
			}
			return showKV(m)
		}, byName["monoid.MergeGoMap[string,int]"]}

	foldWrite[mGoMap.name] = func(v any) bool { v.(kv)["written"] = 9; return true }
	// an enclosing instance over MergeGoMap: its Empty (= the fold of the empty input) must be a
	// fresh value every time
	type hkv = hlist.Cons[kv, hlist.Nil]
	hk := func(m kv) hkv { return hlist.Concat(m, hlist.Empty()) }
	mHGoMap := foldMonoid[hkv]{"monoid.HCons(monoid.MergeGoMap[string,int],monoid.HNil)",
		func() fp.Monoid[hkv] { return monoid.HCons(monoid.MergeGoMap[string, int](), monoid.HNil) },
		func() []hkv { return []hkv{hk(nil), hk(kv{"a": 1}), hk(kv{"a": 2}), hk(kv{"b": 1})} },
		func(h hkv) hkv { return hk(mGoMap.tight(h.Head())) },
		func(a, b hkv) bool { return kvEq(a.Head(), b.Head()) },
		func(h hkv) string { return mGoMap.show(h.Head()) + "::HNil" }, byName["monoid.HCons(monoid.MergeGoMap[string,int],monoid.HNil)"]}
	foldWrite[mHGoMap.name] = func(v any) bool { v.(hkv).Head()["written"] = 9; return true }

	var cases []foldCase
	for _, cs := range [][]foldCase{
		reduceCases(mHGoMap), foldMapCases(mHGoMap),
		reduceCases(mPtr), foldMapCases(mPtr), reduceCases(mGoMap), foldMapCases(mGoMap),
		reduceCases(mString), reduceCases(mSum), reduceCases(mProd), reduceCases(mOpt),
		reduceCases(mSeq), reduceCases(mSlice), reduceCases(mDualSlice), reduceCases(mDualSeq),
		foldMapCases(mString), foldMapCases(mSum), foldMapCases(mOpt),
		foldMapCases(mSeq), foldMapCases(mSlice), foldMapCases(mDualSlice), foldMapCases(mDualSeq),
	} {
		cases = append(cases, cs...)
	}
	sc := r.Seq("fold", func(x *mc.X) {
		c := cases[x.Choose(len(cases), "case")]
		x.Tag(c.name)
		c.run(x, maxLen)
	})
	sc.SplitDepth = 4
	return len(cases)
}

func main() {
	mc.Main("C11", func(r *mc.Registry) {
		r.Rule = "fold-long: execution = (implementation of Reduce|FoldMap|Fold, monoid String|MergeSeq|Sum, length n) with ONE position-tagged input per length 0..70 (thorough 300), compared with the plain left fold; history: execution = (Monoid/Semigroup instance expression, sequence of histDepth steps) for EVERY sequence over the alphabet {Combine of each ordered pair of three operands, Empty, and for operands with a mutable referent a write of new contents in place} on ONE long-lived constructed instance; each result must equal (extensionally) what a freshly constructed instance returns for the current values; all library instances are constructed anew inside every execution. grammar/arity: execution = (Monoid/Semigroup instance expression, a, b, c) over the whole value domain of the instance's type (all triples); each execution evaluates Combine(Combine(a,b),c), Combine(a,Combine(b,c)), Combine(Empty,a), Combine(a,Empty) on the library's instance and compares with extensional equality (and, for the named instances, with the native operation); non-trivial = three different domain elements; distinct outcome = (instance, value of (a.b).c). fold: execution = (implementation of Reduce|FoldMap, monoid, input sequence) for ALL sequences up to the length bound over 4 values; every implementation (seq, iterator, list from a Seq, lazily produced list) must return the left-to-right loop acc = Combine(acc, x) from Empty (computed on independent operands without spare capacity), run twice on the same operands; non-trivial = at least two elements. In both parts the operands are built fresh inside every execution; the slice-like carriers (MergeSeq, MergeSlice and everything nested over them, Dual of them in the fold) get operands with spare capacity that are sub-slices of larger live arrays; all results are computed first and compared afterwards, every returned value is read again after the later Combine/fold calls (result-changed-later) and every operand including the backing array beyond its length is compared with its snapshot (operand-modified)"
		r.Assumptions = []string{
			"float instances: associativity is excluded (property); identity and the meaning of the name are compared with ==, NaN-producing operands are not in the domain",
			"integer arithmetic is modulo overflow (Go semantics) in the reference as well",
			"values are compared extensionally: functions on the test points {0,1,2}, maps and sets by content, nil == empty sequence, lazy values by their result, pointers by their target, Try failures by the identity of the error",
			"Endo: the property says 'composes' without fixing the order; f-after-g and g-after-f are both accepted",
			"the meaning of the name is demanded only for the instances the property names (Sum, Product, Any, All, Endo, Dual, Merge*); the others (String, Option, Try, Eval, Ptr, Unit, HCons, TupleN, IMap, New) must satisfy the laws",
			"the component instance handed to a combinator is the library's own instance (verified as a separate catalogue entry); the Reduce/FoldMap reference folds with the library's Combine of a monoid verified lawful in part 1",
		}
		grammar, extra, ar := buildCatalogue()
		var tup, hc []*node
		quickAr := map[int]bool{1: true, 2: true, 3: true, 21: true}
		for k := 1; k <= 21; k++ {
			if r.Thorough() || quickAr[k] {
				if k >= 2 {
					tup = append(tup, ar.tuple[k])
				}
				hc = append(hc, ar.hcons[k])
			}
		}
		grammarNodes := append(append([]*node{}, grammar.nodes...), extra.nodes...)
		arityNodes := append(append([]*node{}, tup...), hc...)
		lawScenario(r, "grammar", grammarNodes)
		lawScenario(r, "arity", arityNodes)
		maxLen := 5
		if r.Thorough() {
			maxLen = 7
		}
		byName := map[string]*node{}
		for _, n := range grammarNodes {
			byName[n.name] = n
		}
		for _, want := range []string{"monoid.String", "monoid.Sum[int]", "monoid.Product[int]", "monoid.Option(monoid.String)", "monoid.MergeSeq[int]", "monoid.MergeSlice[int]", "monoid.Dual(monoid.MergeSlice[int])", "monoid.Dual(monoid.MergeSeq[int])", "monoid.Ptr(monoid.String)", "monoid.MergeGoMap[string,int]", "monoid.HCons(monoid.MergeGoMap[string,int],monoid.HNil)"} {
			if byName[want] == nil {
				panic("fold scenario: no catalogue entry named " + want)
			}
		}
		ncases := foldScenario(r, maxLen, byName)
		if r.Thorough() {
			histDepth = 4
		}
		longLen := 70
		if r.Thorough() {
			longLen = 300
		}
		longN := longScenario(r, longLen)
		histNodes := append(append([]*node{}, grammarNodes...), arityNodes...)
		mutableNodes := historyScenario(r, histNodes)

		heads := map[string]int{}
		for _, n := range append(append([]*node{}, grammarNodes...), arityNodes...) {
			h := n.head
			if strings.HasPrefix(h, "monoid.HCons^") {
				h = "monoid.HCons^n (chain blocks)"
			} else if strings.HasPrefix(h, "monoid.Tuple") && h != "monoid.Tuple2" {
				h = "monoid.TupleN (arity blocks)"
			}
			heads[h]++
		}
		r.Extra["bounds"] = map[string]any{
			"instance_expressions":                     len(grammarNodes) + len(arityNodes),
			"nesting_depth":                            2,
			"fold_long_cases":                          longN,
			"fold_long_max_length":                     longLen,
			"history_depth":                            histDepth,
			"history_instances":                        len(histNodes),
			"history_instances_with_mutable_referents": mutableNodes,
			"domain_cap_per_type":                      domCap,
			"tuple_arities":                            len(tup),
			"hcons_chain_lengths":                      len(hc),
			"instances_per_head_constructor":           heads,
			"fold_max_length":                          maxLen,
			"fold_cases":                               ncases,
			"fold_alphabet_size":                       4,
			"slice_operands":                           "nil, base[:1] and base[:2] of one cap-4 array, other[:1] of a cap-3 array, an append-grown [2 1] of cap 4, empty",
		}
		r.Extra["uncovered"] = []string{
			"monoid.Future (not named by the property; needs an executor and is covered by the Future properties)",
			"iterator.FoldMap: the library has no such function (seq.FoldMap, list.FoldMap and the three Reduce exist and are covered)",
			"float associativity (excluded by the property); NaN/Inf-producing float operands",
			"nesting depth 2 over base instances other than monoid.String / semigroup.Sum[string]; nesting depth 3 and beyond",
			"Reduce/FoldMap with an unlawful monoid (nothing is promised; list.Reduce folds from the right, which equals the left fold exactly when the monoid is lawful)",
			"MergeMap/MergeSet over key types other than string/int (hashing is property C03/C09)",
			"sequences longer than the length bound",
		}
	})
}
