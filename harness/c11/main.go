// C11 — Monoid/Semigroup instances are lawful; Reduce/FoldMap equal the plain fold.
//
// Part 1 (scenarios "grammar", "arity"): every instance expression of the monoid and semigroup
// packages (and fp.Sum / fp.Product) over a small type grammar (depth 2, every tuple arity 2..21
// and HCons chain length 1..21) on ALL triples of a value domain: associativity, two-sided
// identity, and — for the instances the property names — the meaning of the name, against a
// reference written with native operators and plain loops.
// Part 2 (scenario "fold"): Reduce and FoldMap of seq, iterator and list on ALL sequences up to a
// length bound, against the left-to-right loop acc = Combine(acc, x) from Empty.
package main

import (
	"fmt"
	"strings"

	"github.com/csgura/fp"
	"github.com/csgura/fp/hlist"
	"github.com/csgura/fp/iterator"
	"github.com/csgura/fp/list"
	"github.com/csgura/fp/monoid"
	"github.com/csgura/fp/semigroup"
	"github.com/csgura/fp/seq"
	"verif/mc"
)

// arities holds the component instances used by the generated tuple / HCons blocks.
type arities struct {
	kSum  *inst[int]
	kStr  *inst[string]
	kAny  *inst[bool]
	kPro  *inst[int]
	kSeq  *inst[fp.Seq[int]]
	kOpt  *inst[fp.Option[string]]
	kEnd  *inst[fp.Endo[int]]
	hnil  *inst[hlist.Nil]
	tuple [22]*node
	hcons [22]*node
}

// arityInst builds the instance of one tuple arity / HCons chain length: six values in which
// every component runs through its own domain (shifted by the position, so neighbouring
// components never move in step).
func arityInst[T any](head string, n int, m fp.Monoid[T], mk func(c []any) T, split func(any) []any, open, sep, close string, kids ...*node) *inst[T] {
	var dom []any
	for j := 0; j < domCap; j++ {
		c := make([]any, n)
		for k := range c {
			d := kids[k].dom
			c[k] = d[(j+k)%len(d)]
		}
		dom = append(dom, mk(c))
	}
	nd := &node{name: "monoid." + head, pkg: "monoid", head: "monoid." + head, depth: 2, kids: kids, dom: dom, eqv: prodEq(kids, split), show: prodShow(kids, split, open, sep, close)}
	return finishM(nd, m)
}

func buildCatalogue() (grammar *catalogue, extra *catalogue, ar *arities) {
	unitEq := func(a, b any) bool { return true }
	hn := finishM(newNode("monoid", "HNil", anys([]hlist.Nil{{}}), unitEq, func(any) string { return "HNil" }), monoid.HNil)
	grammar = &catalogue{hnil: hn}
	extra = &catalogue{hnil: hn}

	mString := finishM(newNode("monoid", "String", anys(strDom), eqComparable[string], showV), monoid.String)
	mSumInt := finishM(sumNode("monoid", "int", intDom), monoid.Sum[int]())
	mSumStr := finishM(sumNode("monoid", "string", strDom), monoid.Sum[string]())
	mProdInt := finishM(productNode("monoid", "int", intDom), monoid.Product[int]())
	or := func(a, b bool) bool { return a || b }
	and := func(a, b bool) bool { return a && b }
	mAny := finishM(boolNode("monoid", "Any", "disjunction", false, or), monoid.Any)
	mAll := finishM(boolNode("monoid", "All", "conjunction", true, and), monoid.All)
	mEndo := finishM(endoNode("monoid"), monoid.Endo[int]())
	mSeq := mergeSeqI()

	// depth 2 — every combinator applied to every combinator — over the non-commutative String
	// monoid; depth 1 over the other base instances (compile time: see harness/c09/inst.go)
	expand2(grammar, mString)
	expand1(grammar, mSumInt)
	expand1(grammar, mProdInt)
	expand1(grammar, mAny)
	expand1(grammar, mAll)
	expand1(grammar, mEndo)
	expand1(grammar, mSeq)

	add := func(n *node) { extra.add(n) }
	add(hn.n)
	add(mSumStr.n)
	add(finishM(newNode("monoid", "Unit", anys([]fp.Unit{{}}), unitEq, func(any) string { return "Unit" }), monoid.Unit).n)
	add(mergeSliceI().n)
	add(mergeGoMapI().n)
	add(mergeMapI().n)
	add(mergeSetI().n)
	add(finishM(sumNode("monoid", "float64", fltDom), monoid.Sum[float64]()).n)
	add(finishM(productNode("monoid", "float64", fltDom), monoid.Product[float64]()).n)
	add(finishM(sumNode("monoid", "uint8", []uint8{0, 1, 2, 128, 255}), monoid.Sum[uint8]()).n)
	add(finishM(productNode("monoid", "uint8", []uint8{0, 1, 2, 16, 128, 255}), monoid.Product[uint8]()).n)
	add(finishM(sumNode("monoid", "int8", []int8{0, 1, -1, 127, -128}), monoid.Sum[int8]()).n)
	add(finishM(productNode("monoid", "int8", []int8{0, 1, -1, 127, -128, 16}), monoid.Product[int8]()).n)
	add(finishM(sumNode("fp", "int", intDom), fp.Sum[int]()).n)
	add(finishM(sumNode("fp", "string", strDom), fp.Sum[string]()).n)
	add(finishM(productNode("fp", "int", intDom), fp.Product[int]()).n)
	add(finishM(productNode("fp", "float64", fltDom), fp.Product[float64]()).n)
	// user-supplied functions through monoid.New
	add(finishM(newNode("monoid", "New[max]", anys([]int{0, 1, 2, 5}), eqComparable[int], showV), monoid.New(func() int { return 0 }, func(a, b int) int { return max(a, b) })).n)

	// the semigroup package
	sSumInt := finishS(sumNode("semigroup", "int", intDom), semigroup.Sum[int]())
	sSumStr := finishS(sumNode("semigroup", "string", strDom), semigroup.Sum[string]())
	sProdInt := finishS(productNode("semigroup", "int", intDom), semigroup.Product[int](0, 0))
	sAny := finishS(boolNode("semigroup", "Any", "disjunction", false, or), semigroup.Any)
	sAll := finishS(boolNode("semigroup", "All", "conjunction", true, and), semigroup.All)
	sEndo := finishS(endoNode("semigroup"), semigroup.Endo[int]())
	for _, n := range []*node{sSumInt.n, sSumStr.n, sProdInt.n, sAny.n, sAll.n, sEndo.n} {
		n.meaningEmpty = nil // a semigroup has no Empty
	}
	sgExpand2(extra, sSumStr)
	sgExpand1(extra, sSumInt)
	sgExpand1(extra, sProdInt)
	sgExpand1(extra, sAny)
	sgExpand1(extra, sAll)
	sgExpand1(extra, sEndo)
	add(finishS(productNode("semigroup", "float64", fltDom), semigroup.Product[float64](0, 0)).n)
	add(finishS(newNode("semigroup", "New[min]", anys([]int{0, 1, 2, 5}), eqComparable[int], showV), semigroup.New(func(a, b int) int { return min(a, b) })).n)
	// the semigroup combinators accept monoids as well
	add(sgDualOf(mString).n)
	add(sgOptionOf(mString).n)

	ar = &arities{kSum: mSumInt, kStr: mString, kAny: mAny, kPro: mProdInt, kSeq: mSeq, kOpt: optionOf(mString), kEnd: mEndo, hnil: hn}
	registerArities(extra, ar)
	return
}

func lawScenario(r *mc.Registry, name string, nodes []*node) {
	sc := r.Seq(name, func(x *mc.X) {
		n := nodes[x.Choose(len(nodes), "instance")]
		a := x.Choose(len(n.dom), "a")
		b := x.Choose(len(n.dom), "b")
		c := x.Choose(len(n.dom), "c")
		x.Tag(n.name)
		law, msg := n.law(a, b, c)
		x.Logf("%s on a=%s b=%s c=%s: %s", n.name, n.show(n.dom[a]), n.show(n.dom[b]), n.show(n.dom[c]), orOK(law))
		if law != "" {
			cu := n.culprit()
			via := ""
			if cu != n {
				via = fmt.Sprintf(" (attributed to the component instance %s, which violates %q on its own domain)", cu.name, cu.selfcheck())
			}
			x.Fail(cu.head+"/"+law, "%s%s", msg, via)
		}
		res := n.show(n.combine(n.combine(n.dom[a], n.dom[b]), n.dom[c]))
		x.Observe(n.name, res)
		if a != b && b != c && a != c {
			x.NonTrivial()
		}
		if n.meaning != nil {
			x.Tag("meaning of the name checked")
		}
		if n.noAssoc {
			x.Tag("float instance: associativity excluded")
		}
	})
	sc.SplitDepth = 2
}

func orOK(s string) string {
	if s == "" {
		return "ok"
	}
	return "VIOLATES " + s
}

// ---------- Reduce / FoldMap ----------

type foldCase struct {
	name string
	run  func(x *mc.X, maxLen int)
}

func pickSeq[T any](x *mc.X, maxLen int, alphabet []T) fp.Seq[T] {
	n := x.Choose(maxLen+1, "length")
	in := make(fp.Seq[T], n)
	for i := range in {
		in[i] = mc.Pick(x, "element", alphabet)
	}
	return in
}

func cp[T any](s fp.Seq[T]) fp.Seq[T] { return append(fp.Seq[T]{}, s...) }

// reduceCases: for one monoid, one case per implementation of Reduce (one implementation per
// execution, so a defect in one of them cannot hide the others).
func reduceCases[T any](name string, m fp.Monoid[T], alphabet []T, eqv func(a, b T) bool, show func(T) string) []foldCase {
	type impl struct {
		name, note string
		f          func(s fp.Seq[T]) T
	}
	impls := []impl{
		{"seq.Reduce", "", func(s fp.Seq[T]) T { return seq.Reduce(cp(s), m) }},
		{"iterator.Reduce", "", func(s fp.Seq[T]) T { return iterator.Reduce(iterator.FromSeq(cp(s)), m) }},
		{"list.Reduce", "", func(s fp.Seq[T]) T { return list.Reduce(list.FromSeq(cp(s)), m) }},
		{"list.Reduce", " (lazily produced list)", func(s fp.Seq[T]) T { return list.Reduce(list.Collect(iterator.FromSeq(cp(s))), m) }},
	}
	var out []foldCase
	for _, im := range impls {
		im := im
		out = append(out, foldCase{im.name + im.note + " with " + name, func(x *mc.X, maxLen int) {
			in := pickSeq(x, maxLen, alphabet)
			want := m.Empty()
			for _, v := range in {
				want = m.Combine(want, v)
			}
			var shown []string
			for _, v := range in {
				shown = append(shown, show(v))
			}
			var got T
			if p := mc.Catch(func() { got = im.f(in) }); p != nil {
				x.Fail(im.name+"/panic", "%s([%s], %s)%s panicked: %v", im.name, strings.Join(shown, " "), name, im.note, p)
			}
			x.Logf("%s([%s], %s)%s = %s, left fold = %s", im.name, strings.Join(shown, " "), name, im.note, show(got), show(want))
			if !eqv(got, want) {
				x.Fail(im.name+"/not-the-left-fold", "%s([%s], %s)%s = %s, the left-to-right fold of Combine from Empty is %s", im.name, strings.Join(shown, " "), name, im.note, show(got), show(want))
			}
			x.Observe(name, show(want))
			if len(in) >= 2 {
				x.NonTrivial()
			}
		}})
	}
	return out
}

// foldMapCases: elements are ints mapped into the monoid by a table.
func foldMapCases[T any](name string, m fp.Monoid[T], table []T, eqv func(a, b T) bool, show func(T) string) []foldCase {
	f := func(i int) T { return table[i] }
	alphabet := make([]int, len(table))
	for i := range alphabet {
		alphabet[i] = i
	}
	type impl struct {
		name, note string
		f          func(s fp.Seq[int]) T
	}
	impls := []impl{
		{"seq.FoldMap", "", func(s fp.Seq[int]) T { return seq.FoldMap(cp(s), m, f) }},
		{"list.FoldMap", "", func(s fp.Seq[int]) T { return list.FoldMap(list.FromSeq(cp(s)), m, f) }},
		{"list.FoldMap", " (lazily produced list)", func(s fp.Seq[int]) T { return list.FoldMap(list.Collect(iterator.FromSeq(cp(s))), m, f) }},
	}
	var out []foldCase
	for _, im := range impls {
		im := im
		out = append(out, foldCase{im.name + im.note + " with " + name, func(x *mc.X, maxLen int) {
			in := pickSeq(x, maxLen, alphabet)
			want := m.Empty()
			for _, v := range in {
				want = m.Combine(want, f(v))
			}
			var shown []string
			for _, v := range in {
				shown = append(shown, show(f(v)))
			}
			var got T
			if p := mc.Catch(func() { got = im.f(in) }); p != nil {
				x.Fail(im.name+"/panic", "%s over f(x)=[%s] with %s%s panicked: %v", im.name, strings.Join(shown, " "), name, im.note, p)
			}
			x.Logf("%s over f(x)=[%s] with %s%s = %s, left fold = %s", im.name, strings.Join(shown, " "), name, im.note, show(got), show(want))
			if !eqv(got, want) {
				x.Fail(im.name+"/not-the-left-fold", "%s over f(x)=[%s] with %s%s = %s, the left-to-right fold of Combine from Empty is %s", im.name, strings.Join(shown, " "), name, im.note, show(got), show(want))
			}
			x.Observe(name, show(want))
			if len(in) >= 2 {
				x.NonTrivial()
			}
		}})
	}
	return out
}

func foldScenario(r *mc.Registry, maxLen int) int {
	eqS := func(a, b string) bool { return a == b }
	eqI := func(a, b int) bool { return a == b }
	shS := func(s string) string { return fmt.Sprintf("%q", s) }
	shI := func(i int) string { return fmt.Sprint(i) }
	eqSeq := func(a, b fp.Seq[int]) bool { return seqEq(a, b) }
	shSeq := func(s fp.Seq[int]) string { return fmt.Sprint([]int(s)) }
	eqO := func(a, b fp.Option[string]) bool {
		return a.IsDefined() == b.IsDefined() && (!a.IsDefined() || a.Get() == b.Get())
	}
	shO := func(o fp.Option[string]) string { return o.String() }
	optS := monoid.Option(monoid.String)
	optDom := []fp.Option[string]{fp.None[string](), fp.Some(""), fp.Some("a"), fp.Some("b")}
	seqDom := []fp.Seq[int]{nil, {1}, {2}, {1, 2}}
	var cases []foldCase
	for _, cs := range [][]foldCase{
		reduceCases("monoid.String", monoid.String, strDom, eqS, shS),
		reduceCases("monoid.Sum[int]", monoid.Sum[int](), []int{0, 1, 2, -1}, eqI, shI),
		reduceCases("monoid.Product[int]", monoid.Product[int](), []int{0, 1, 2, -1}, eqI, shI),
		reduceCases("monoid.MergeSeq[int]", monoid.MergeSeq[int](), seqDom, eqSeq, shSeq),
		reduceCases("monoid.Option(monoid.String)", optS, optDom, eqO, shO),
		foldMapCases("monoid.String", monoid.String, strDom, eqS, shS),
		foldMapCases("monoid.Sum[int]", monoid.Sum[int](), []int{0, 1, 2, -1}, eqI, shI),
		foldMapCases("monoid.MergeSeq[int]", monoid.MergeSeq[int](), seqDom, eqSeq, shSeq),
		foldMapCases("monoid.Option(monoid.String)", optS, optDom, eqO, shO),
	} {
		cases = append(cases, cs...)
	}
	sc := r.Seq("fold", func(x *mc.X) {
		c := cases[x.Choose(len(cases), "case")]
		x.Tag(c.name)
		c.run(x, maxLen)
	})
	sc.SplitDepth = 4
	return len(cases)
}

func main() {
	mc.Main("C11", func(r *mc.Registry) {
		r.Rule = "grammar/arity: execution = (Monoid/Semigroup instance expression, a, b, c) over the whole value domain of the instance's type (all triples); each execution evaluates Combine(Combine(a,b),c), Combine(a,Combine(b,c)), Combine(Empty,a), Combine(a,Empty) on the library's instance and compares with extensional equality (and, for the named instances, with the native operation); non-trivial = three different domain elements; distinct outcome = (instance, value of (a.b).c). fold: execution = (implementation of Reduce|FoldMap, monoid, input sequence) for ALL sequences up to the length bound over 4 values; every implementation (seq, iterator, list from a Seq, lazily produced list) must return the left-to-right loop acc = Combine(acc, x) from Empty; non-trivial = at least two elements"
		r.Assumptions = []string{
			"float instances: associativity is excluded (property); identity and the meaning of the name are compared with ==, NaN-producing operands are not in the domain",
			"integer arithmetic is modulo overflow (Go semantics) in the reference as well",
			"values are compared extensionally: functions on the test points {0,1,2}, maps and sets by content, nil == empty sequence, lazy values by their result, pointers by their target, Try failures by the identity of the error",
			"Endo: the property says 'composes' without fixing the order; f-after-g and g-after-f are both accepted",
			"the meaning of the name is demanded only for the instances the property names (Sum, Product, Any, All, Endo, Dual, Merge*); the others (String, Option, Try, Eval, Ptr, Unit, HCons, TupleN, IMap, New) must satisfy the laws",
			"the component instance handed to a combinator is the library's own instance (verified as a separate catalogue entry); the Reduce/FoldMap reference folds with the library's Combine of a monoid verified lawful in part 1",
		}
		grammar, extra, ar := buildCatalogue()
		var tup, hc []*node
		quickAr := map[int]bool{1: true, 2: true, 3: true, 21: true}
		for k := 1; k <= 21; k++ {
			if r.Thorough() || quickAr[k] {
				if k >= 2 {
					tup = append(tup, ar.tuple[k])
				}
				hc = append(hc, ar.hcons[k])
			}
		}
		grammarNodes := append(append([]*node{}, grammar.nodes...), extra.nodes...)
		arityNodes := append(append([]*node{}, tup...), hc...)
		lawScenario(r, "grammar", grammarNodes)
		lawScenario(r, "arity", arityNodes)
		maxLen := 5
		if r.Thorough() {
			maxLen = 7
		}
		ncases := foldScenario(r, maxLen)

		heads := map[string]int{}
		for _, n := range append(append([]*node{}, grammarNodes...), arityNodes...) {
			h := n.head
			if strings.HasPrefix(h, "monoid.HCons^") {
				h = "monoid.HCons^n (chain blocks)"
			} else if strings.HasPrefix(h, "monoid.Tuple") && h != "monoid.Tuple2" {
				h = "monoid.TupleN (arity blocks)"
			}
			heads[h]++
		}
		r.Extra["bounds"] = map[string]any{
			"instance_expressions":           len(grammarNodes) + len(arityNodes),
			"nesting_depth":                  2,
			"domain_cap_per_type":            domCap,
			"tuple_arities":                  len(tup),
			"hcons_chain_lengths":            len(hc),
			"instances_per_head_constructor": heads,
			"fold_max_length":                maxLen,
			"fold_cases":                     ncases,
			"fold_alphabet_size":             4,
		}
		r.Extra["uncovered"] = []string{
			"monoid.Future (not named by the property; needs an executor and is covered by the Future properties)",
			"iterator.FoldMap: the library has no such function (seq.FoldMap, list.FoldMap and the three Reduce exist and are covered)",
			"float associativity (excluded by the property); NaN/Inf-producing float operands",
			"nesting depth 2 over base instances other than monoid.String / semigroup.Sum[string]; nesting depth 3 and beyond",
			"Reduce/FoldMap with an unlawful monoid (nothing is promised; list.Reduce folds from the right, which equals the left fold exactly when the monoid is lawful)",
			"MergeMap/MergeSet over key types other than string/int (hashing is property C03/C09)",
			"sequences longer than the length bound",
		}
	})
}
