package gombokrun

import (
	"bytes"
	"context"
	"encoding/json"
	"fmt"
	"go/ast"
	"go/parser"
	"go/token"
	"os"
	"os/exec"
	"path/filepath"
	"regexp"
	"sort"
	"strconv"
	"strings"
	"time"

	"verif/mc"
)

// Mode selects the law tests generated next to the structs.
type Mode string

const (
	ModeLaws Mode = "laws" // C07: accessor / round-trip laws
	ModeJSON Mode = "json" // C15: JSON laws of @fp.Json structs
)

// Package is one scratch package: a batch of shapes run through gombok together.
type Package struct {
	Name   string
	Mode   Mode
	Shapes []*Shape
}

// StructResult is the verdict for one shape.
type StructResult struct {
	ID      string            `json:"id"`
	Status  string            `json:"status"` // ok | compile | rejected | crash
	Detail  string            `json:"detail,omitempty"`
	Decl    string            `json:"decl"`
	Laws    map[string]string `json:"laws,omitempty"`   // law -> failure message ("" = held)
	Counts  map[string]int    `json:"counts,omitempty"` // law -> evaluations
	Evals   int               `json:"evals"`
	Singled bool              `json:"singled,omitempty"`  // verdict obtained in a package of its own
	LawOnly bool              `json:"law_only,omitempty"` // compile failure located in the law test only (the generated file itself compiles)
}

// PkgResult is what one scenario execution reports.
type PkgResult struct {
	Name       string         `json:"name"`
	Structs    []StructResult `json:"structs"`
	GombokRuns int            `json:"gombok_runs"`
	Builds     int            `json:"builds"`
	Vet        []string       `json:"vet,omitempty"`
	WallS      float64        `json:"wall_s"`
}

func internalf(format string, args ...any) {
	panic(mc.InternalError{Msg: fmt.Sprintf(format, args...)})
}

func baseDir() string { return filepath.Join(mc.ScratchDir(), "gbr") }

func cmdEnv() []string {
	gotmp := filepath.Join(baseDir(), "gotmp")
	os.MkdirAll(gotmp, 0o755)
	env := []string{}
	for _, kv := range os.Environ() {
		k := strings.SplitN(kv, "=", 2)[0]
		switch k {
		case "GOFLAGS", "GOPROXY", "GOSUMDB", "GOTOOLCHAIN", "GOTMPDIR", "GOPACKAGE", "GOFILE", "GOLINE", "GOMAXPROCS", "GOWORK":
			continue
		}
		env = append(env, kv)
	}
	return append(env, "GOFLAGS=-mod=mod", "GOPROXY=off", "GOSUMDB=off", "GOTOOLCHAIN=local", "GOTMPDIR="+gotmp, "GOWORK=off")
}

// run executes a command with a timeout; out is stdout+stderr.
func run(dir string, extraEnv []string, timeout time.Duration, name string, args ...string) (out string, exit int, timedOut bool) {
	ctx, cancel := context.WithTimeout(context.Background(), timeout)
	defer cancel()
	cmd := exec.CommandContext(ctx, name, args...)
	cmd.Dir = dir
	cmd.Env = append(cmdEnv(), extraEnv...)
	var buf bytes.Buffer
	cmd.Stdout = &buf
	cmd.Stderr = &buf
	err := cmd.Run()
	if ctx.Err() != nil {
		return buf.String(), -1, true
	}
	if err != nil {
		if ee, ok := err.(*exec.ExitError); ok {
			return buf.String(), ee.ExitCode(), false
		}
		return buf.String() + "\n" + err.Error(), -2, false
	}
	return buf.String(), 0, false
}

// ensureGombok builds gombok once per vcheck run from the tree under test; concurrent workers
// wait for the one that took the lock.
func ensureGombok() string {
	base := baseDir()
	os.MkdirAll(base, 0o755)
	bin := filepath.Join(base, "gombok")
	okFile := filepath.Join(base, "gombok.ok")
	errFile := filepath.Join(base, "gombok.err")
	lock := filepath.Join(base, "gombok.lock")
	check := func() (done bool) {
		if _, err := os.Stat(okFile); err == nil {
			return true
		}
		if b, err := os.ReadFile(errFile); err == nil {
			internalf("gombok does not build from the tree under test (%s):\n%s", mc.RepoDir(), b)
		}
		return false
	}
	if check() {
		return bin
	}
	if err := os.Mkdir(lock, 0o755); err == nil {
		out, rc, _ := run(mc.RepoDir(), nil, 15*time.Minute, "go", "build", "-o", bin+".tmp", "./cmd/gombok")
		if rc != 0 {
			os.WriteFile(errFile, []byte(out), 0o644)
		} else {
			os.Rename(bin+".tmp", bin)
			os.WriteFile(okFile, nil, 0o644)
		}
		check()
		return bin
	}
	for i := 0; i < 9000; i++ {
		if check() {
			return bin
		}
		time.Sleep(100 * time.Millisecond)
	}
	internalf("timed out waiting for the gombok build")
	return ""
}

const genFile = "main_value_generated.go"

func structName(i int) string { return fmt.Sprintf("T%03dZ", i) }

var structRe = regexp.MustCompile(`T(\d{3})Z`)

type runner struct {
	p      *Package
	root   string
	gombok string
	res    *PkgResult
	subN   int
}

func (r *runner) lawFile(i int) string {
	s := r.p.Shapes[i]
	if r.p.Mode == ModeJSON {
		return s.JSONLawFile("main", structName(i))
	}
	return s.LawFile("main", structName(i))
}

func (r *runner) runtimeFile() string {
	if r.p.Mode == ModeJSON {
		return JSONRuntimeFile
	}
	return RuntimeFile
}

func (r *runner) setupModule() {
	os.RemoveAll(r.root)
	if err := os.MkdirAll(r.root, 0o755); err != nil {
		internalf("cannot create %s: %v", r.root, err)
	}
	gomod := fmt.Sprintf("module scratchmod\n\ngo 1.23\n\nrequire github.com/csgura/fp v0.0.0\n\nreplace github.com/csgura/fp => %s\n", mc.RepoDir())
	os.WriteFile(filepath.Join(r.root, "go.mod"), []byte(gomod), 0o644)
	if b, err := os.ReadFile(filepath.Join(mc.RepoDir(), "go.sum")); err == nil {
		os.WriteFile(filepath.Join(r.root, "go.sum"), b, 0o644)
	}
	// user packages whose names collide with packages the generated code imports
	for _, pkg := range CollidePkgs {
		d := filepath.Join(r.root, "x", pkg)
		os.MkdirAll(d, 0o755)
		write(filepath.Join(d, pkg+".go"), "// Package "+pkg+" is an application package that happens to be called like a helper package of gombok.\npackage "+pkg+"\n\ntype Level int\n")
	}
}

func write(path, content string) {
	if err := os.WriteFile(path, []byte(content), 0o644); err != nil {
		internalf("cannot write %s: %v", path, err)
	}
}

// prepare writes the declarations of the given shapes into a fresh sub-package directory.
func (r *runner) prepare(sub string, idx []int) string {
	dir := filepath.Join(r.root, sub)
	os.RemoveAll(dir)
	os.MkdirAll(dir, 0o755)
	write(filepath.Join(dir, "zz_common.go"), CommonFile("main")+"\n//go:generate gombok\n")
	for _, i := range idx {
		write(filepath.Join(dir, fmt.Sprintf("s_%03d.go", i)), r.p.Shapes[i].DeclFile("main", structName(i)))
		if extra := r.p.Shapes[i].ExtraDeclFile("main", structName(i)); extra != "" {
			write(filepath.Join(dir, fmt.Sprintf("s_%03d_b.go", i)), extra)
		}
	}
	return dir
}

// runGombok runs gombok the way go generate does: cwd = package directory, GOPACKAGE/GOFILE/GOLINE set.
func (r *runner) runGombok(dir string) (out string, rc int, timedOut bool) {
	// go/packages reports "internal error: package X without types was imported from Y" when the
	// build cache is disturbed under it (seen while another process cleaned the cache): that is the
	// environment, not gombok refusing the declaration - retry, then give up as an internal error
	for attempt := 0; ; attempt++ {
		out, rc, timedOut = r.runGombokOnce(dir)
		if rc == 0 || timedOut || !strings.Contains(out, "without types was imported from") {
			return
		}
		if attempt == 3 {
			internalf("gombok could not load the scratch package (go/packages, disturbed build cache?):\n%s", trunc(out, 2000))
		}
		time.Sleep(2 * time.Second)
	}
}

func (r *runner) runGombokOnce(dir string) (out string, rc int, timedOut bool) {
	r.res.GombokRuns++
	return run(dir, []string{"GOPACKAGE=main", "GOFILE=zz_common.go", "GOLINE=25"}, 5*time.Minute, r.gombok)
}

func (r *runner) writeLaws(dir string, idx []int) {
	for _, i := range idx {
		write(filepath.Join(dir, fmt.Sprintf("l_%03d.go", i)), r.lawFile(i))
	}
	write(filepath.Join(dir, "zz_runtime.go"), r.runtimeFile())
}

func (r *runner) build(dir string) (out string, ok bool) {
	r.res.Builds++
	out, rc, to := run(dir, nil, 10*time.Minute, "go", "build", "-trimpath", "-gcflags=-e", "-o", "lawbin", ".")
	if to {
		internalf("go build timed out in %s", dir)
	}
	return out, rc == 0
}

type attempt struct {
	stage string // ok | gombok | compile
	out   string
	dir   string
}

// try runs declarations -> gombok -> law files -> go build for a subset in a fresh directory.
func (r *runner) try(sub string, idx []int) attempt { return r.tryUpTo(sub, idx, "compile") }

// tryUpTo stops after the named stage ("gombok" = do not compile).
func (r *runner) tryUpTo(sub string, idx []int, upto string) attempt {
	dir := r.prepare(sub, idx)
	out, rc, to := r.runGombok(dir)
	if to {
		return attempt{"gombok", "gombok did not finish within 5 minutes\n" + out, dir}
	}
	if rc != 0 {
		return attempt{"gombok", fmt.Sprintf("gombok exit status %d\n%s", rc, out), dir}
	}
	if upto == "gombok" {
		return attempt{"ok", out, dir}
	}
	r.writeLaws(dir, idx)
	bout, ok := r.build(dir)
	if !ok {
		return attempt{"compile", bout, dir}
	}
	return attempt{"ok", out, dir}
}

var errLineRe = regexp.MustCompile(`(?m)^(?:\./)?([A-Za-z0-9_]+\.go):(\d+):(?:\d+:)? (.*)$`)

// attribute maps compiler error positions to struct indices: errors in a struct's own files by
// file name, errors in the generated file by the declaration enclosing the line.
func attribute(dir, out string) (idx []int, unattributed int) {
	set := map[int]bool{}
	var declNames map[int]string // line -> name of enclosing declaration
	loadGen := func() {
		if declNames != nil {
			return
		}
		declNames = map[int]string{}
		fset := token.NewFileSet()
		f, err := parser.ParseFile(fset, filepath.Join(dir, genFile), nil, parser.SkipObjectResolution)
		if err != nil || f == nil {
			return
		}
		for _, d := range f.Decls {
			name := ""
			switch dd := d.(type) {
			case *ast.FuncDecl:
				name = dd.Name.Name
				if dd.Recv != nil && len(dd.Recv.List) > 0 {
					name = exprName(dd.Recv.List[0].Type)
				}
			case *ast.GenDecl:
				for _, sp := range dd.Specs {
					if ts, ok := sp.(*ast.TypeSpec); ok {
						name = ts.Name.Name
					}
				}
			}
			for l := fset.Position(d.Pos()).Line; l <= fset.Position(d.End()).Line; l++ {
				declNames[l] = name
			}
		}
	}
	for _, m := range errLineRe.FindAllStringSubmatch(out, -1) {
		file, line := m[1], m[2]
		if strings.HasPrefix(file, "s_") || strings.HasPrefix(file, "l_") {
			if n, err := strconv.Atoi(file[2:5]); err == nil {
				set[n] = true
				continue
			}
		}
		if file == genFile {
			loadGen()
			ln, _ := strconv.Atoi(line)
			if sm := structRe.FindStringSubmatch(declNames[ln]); sm != nil {
				n, _ := strconv.Atoi(sm[1])
				set[n] = true
				continue
			}
		}
		unattributed++
	}
	for n := range set {
		idx = append(idx, n)
	}
	sort.Ints(idx)
	return idx, unattributed
}

func exprName(e ast.Expr) string {
	switch t := e.(type) {
	case *ast.Ident:
		return t.Name
	case *ast.StarExpr:
		return exprName(t.X)
	case *ast.IndexExpr:
		return exprName(t.X)
	case *ast.IndexListExpr:
		return exprName(t.X)
	case *ast.ParenExpr:
		return exprName(t.X)
	}
	return ""
}

// bisect finds a minimal set of culprits for a failing stage by halving.
func (r *runner) bisect(idx []int, stage string) []int {
	if len(idx) == 1 {
		return idx
	}
	var bad []int
	half := len(idx) / 2
	for _, part := range [][]int{idx[:half], idx[half:]} {
		r.subN++
		a := r.tryUpTo(fmt.Sprintf("b%d", r.subN), part, stage)
		os.RemoveAll(a.dir)
		if a.stage == stage {
			bad = append(bad, r.bisect(part, stage)...)
		}
		// a different stage failing in this half is handled when the main loop comes round again
	}
	return bad
}

func without(idx []int, drop []int) []int {
	d := map[int]bool{}
	for _, i := range drop {
		d[i] = true
	}
	var out []int
	for _, i := range idx {
		if !d[i] {
			out = append(out, i)
		}
	}
	return out
}

var stampRe = regexp.MustCompile(`(?m)^\d{4}/\d\d/\d\d \d\d:\d\d:\d\d `)

// trunc also drops the log time stamps of gombok's diagnostics (evidence must not depend on the clock).
var crashRe = regexp.MustCompile(`(?m)^panic: |^goroutine \d+ \[running\]|runtime error: |^fatal error: `)

// gombokFailure classifies a non-zero exit of gombok on one declaration: a Go panic / fatal error
// (stack trace) is a crash of the generator, anything else a diagnostic with which it refuses the
// declaration.
func gombokFailure(out string) string {
	if crashRe.MatchString(out) {
		return "generator-crash"
	}
	return "rejected"
}

func trunc(s string, n int) string {
	s = stampRe.ReplaceAllString(s, "")
	if len(s) > n {
		return s[:n] + "\n... (truncated)"
	}
	return s
}

// parseLawOutput reads the runtime's report; returns the id that was running when the binary died.
func parseLawOutput(out string, byID map[string]*StructResult) (open string) {
	for _, l := range strings.Split(out, "\n") {
		switch {
		case strings.HasPrefix(l, "BEGIN "):
			open = l[6:]
		case strings.HasPrefix(l, "END "):
			open = ""
		case strings.HasPrefix(l, "R "):
			f := strings.SplitN(l[2:], "\t", 4)
			if len(f) < 4 {
				continue
			}
			sr := byID[f[0]]
			if sr == nil {
				continue
			}
			if sr.Laws == nil {
				sr.Laws = map[string]string{}
				sr.Counts = map[string]int{}
			}
			if f[2] == "ok" {
				sr.Laws[f[1]] = ""
				n, _ := strconv.Atoi(f[3])
				sr.Counts[f[1]] = n
			} else {
				sr.Laws[f[1]] = f[3]
				sr.Counts[f[1]] = 1
			}
		case strings.HasPrefix(l, "N "):
			f := strings.Fields(l[2:])
			if len(f) == 2 {
				if sr := byID[f[0]]; sr != nil {
					sr.Evals, _ = strconv.Atoi(f[1])
				}
			}
		}
	}
	return open
}

// RunPackage does generate -> gombok -> build -> run for one package and classifies every shape.
func RunPackage(p *Package) *PkgResult {
	start := time.Now()
	r := &runner{p: p, root: filepath.Join(baseDir(), string(p.Mode)+"-"+p.Name), res: &PkgResult{Name: p.Name}}
	r.gombok = ensureGombok()
	r.setupModule()
	results := make([]StructResult, len(p.Shapes))
	byID := map[string]*StructResult{}
	var live []int
	for i, s := range p.Shapes {
		decl := s.StructDecl("S")
		if s.ExtraFile != "" {
			decl += "\n// second file of the same package:\n" + strings.ReplaceAll(s.ExtraFile, "%N", "S")
		}
		results[i] = StructResult{ID: s.ID, Status: "ok", Decl: decl}
		byID[s.ID] = &results[i]
		live = append(live, i)
	}
	var suspects []int // compile suspects, confirmed one by one below
	var lawOut string
	for round := 0; ; round++ {
		if round > len(p.Shapes)+5 {
			internalf("package %s: no progress after %d rounds", p.Name, round)
		}
		if len(live) == 0 {
			break
		}
		a := r.try("p", live)
		if a.stage == "gombok" {
			// gombok handles the package in one go, so one refused declaration stops everything:
			// find the refused ones by running gombok on every declaration alone
			var bad []int
			for _, i := range live {
				r.subN++
				one := r.tryUpTo(fmt.Sprintf("r%d", r.subN), []int{i}, "gombok")
				if one.stage == "gombok" {
					bad = append(bad, i)
					results[i].Status = gombokFailure(one.out)
					results[i].Detail = trunc(one.out, 2000)
					results[i].Singled = true
				}
				os.RemoveAll(one.dir)
			}
			if len(bad) == 0 {
				internalf("package %s: gombok fails on the package but on no declaration alone:\n%s", p.Name, trunc(a.out, 3000))
			}
			live = without(live, bad)
			continue
		}
		if a.stage == "compile" {
			bad, _ := attribute(a.dir, a.out)
			bad = intersect(bad, live)
			if len(bad) == 0 {
				bad = r.bisect(live, "compile")
			}
			if len(bad) == 0 {
				internalf("package %s does not compile, but no struct could be blamed:\n%s", p.Name, trunc(a.out, 4000))
			}
			suspects = append(suspects, bad...)
			live = without(live, bad)
			continue
		}
		out, rc, to := run(a.dir, nil, 10*time.Minute, filepath.Join(a.dir, "lawbin"))
		if to {
			internalf("law binary of package %s timed out", p.Name)
		}
		open := parseLawOutput(out, byID)
		if rc != 0 {
			sr := byID[open]
			if sr == nil {
				internalf("law binary of package %s failed (exit %d) outside any struct:\n%s", p.Name, rc, trunc(out, 3000))
			}
			sr.Status = "crash"
			sr.Detail = trunc(tail(out, 40), 3000)
			for i, s := range p.Shapes {
				if s.ID == open {
					live = without(live, []int{i})
				}
			}
			continue
		}
		lawOut = out
		if len(suspects) == 0 && len(p.Shapes) > 1 {
			// go vet is informational only: a vet complaint is not a compile failure
			vout, vrc, _ := run(a.dir, nil, 10*time.Minute, "go", "vet", ".")
			if vrc != 0 {
				for _, l := range strings.Split(vout, "\n") {
					if strings.Contains(l, genFile) && len(r.res.Vet) < 20 {
						r.res.Vet = append(r.res.Vet, structRe.ReplaceAllString(l, "S"))
					}
				}
			}
		}
		break
	}
	_ = lawOut
	// every compile suspect is confirmed in a package of its own: one declaration, one verdict
	for _, i := range suspects {
		r.subN++
		a := r.try(fmt.Sprintf("s%d", r.subN), []int{i})
		results[i].Singled = true
		switch a.stage {
		case "compile":
			results[i].Status = "compile"
			results[i].LawOnly = !strings.Contains(a.out, genFile+":")
			results[i].Detail = trunc(structRe.ReplaceAllString(generatedFirst(a.out), "S"), 3000)
		case "gombok":
			results[i].Status = gombokFailure(a.out)
			results[i].Detail = trunc(a.out, 2000)
		case "ok":
			internalf("package %s: %s was blamed for a compile failure of the batch but compiles alone", p.Name, p.Shapes[i].ID)
		}
		if os.Getenv("GBR_KEEP") == "" {
			os.RemoveAll(a.dir)
		}
	}
	for i := range results {
		if results[i].Status == "ok" && results[i].Laws == nil && expectsLaws(p, i) {
			internalf("package %s: no law verdicts for %s", p.Name, results[i].ID)
		}
		if results[i].Detail != "" {
			results[i].Detail = structRe.ReplaceAllString(results[i].Detail, "S")
		}
		for k, v := range results[i].Laws {
			results[i].Laws[k] = structRe.ReplaceAllString(v, "S")
		}
	}
	r.res.Structs = results
	r.res.WallS = time.Since(start).Seconds()
	return r.res
}

func expectsLaws(p *Package, i int) bool {
	if p.Mode == ModeJSON {
		return p.Shapes[i].Members().Json
	}
	return true
}

func intersect(a, b []int) []int {
	in := map[int]bool{}
	for _, i := range b {
		in[i] = true
	}
	var out []int
	for _, i := range a {
		if in[i] {
			out = append(out, i)
		}
	}
	return out
}

func tail(s string, n int) string {
	ls := strings.Split(s, "\n")
	if len(ls) > n {
		ls = ls[len(ls)-n:]
	}
	return strings.Join(ls, "\n")
}

var memo = map[string]*PkgResult{}

// CachedRun runs the package once per vcheck run: the engine executes every scenario several
// times (determinism self-test, sample recording) and gets the recorded result after the first.
// A replay in a fresh vcheck process has a fresh scratch directory and re-executes everything.
func CachedRun(p *Package) *PkgResult {
	key := string(p.Mode) + "-" + p.Name
	if r, ok := memo[key]; ok {
		return r
	}
	os.MkdirAll(baseDir(), 0o755)
	file := filepath.Join(baseDir(), "result-"+key+".json")
	if b, err := os.ReadFile(file); err == nil {
		var r PkgResult
		if json.Unmarshal(b, &r) == nil && len(r.Structs) == len(p.Shapes) {
			memo[key] = &r
			return &r
		}
	}
	// if the engine shards scenarios (fewer than 3 x workers of them) several workers execute the
	// same package: the first takes the lock, the others wait for its recorded result
	lock := filepath.Join(baseDir(), "lock-"+key)
	if err := os.Mkdir(lock, 0o755); err != nil {
		for i := 0; i < 36000; i++ {
			if b, err := os.ReadFile(file); err == nil {
				var r PkgResult
				if json.Unmarshal(b, &r) == nil && len(r.Structs) == len(p.Shapes) {
					memo[key] = &r
					return &r
				}
			}
			if b, err := os.ReadFile(file + ".internal"); err == nil {
				internalf("%s", b)
			}
			time.Sleep(100 * time.Millisecond)
		}
		internalf("timed out waiting for the result of package %s", key)
	}
	defer func() {
		if e := recover(); e != nil {
			if ie, ok := e.(mc.InternalError); ok {
				os.WriteFile(file+".internal", []byte(ie.Msg), 0o644)
			}
			panic(e)
		}
	}()
	r := RunPackage(p)
	b, _ := json.Marshal(r)
	os.WriteFile(file+".tmp", b, 0o644)
	os.Rename(file+".tmp", file)
	if os.Getenv("GBR_KEEP") == "" {
		os.RemoveAll(filepath.Join(baseDir(), key))
	}
	memo[key] = r
	return r
}

// LoadResults reads every recorded package result of this run (used by the parent's Post hook).
func LoadResults(mode Mode) []*PkgResult {
	files, _ := filepath.Glob(filepath.Join(baseDir(), "result-"+string(mode)+"-*.json"))
	sort.Strings(files)
	var out []*PkgResult
	for _, f := range files {
		if b, err := os.ReadFile(f); err == nil {
			var r PkgResult
			if json.Unmarshal(b, &r) == nil {
				out = append(out, &r)
			}
		}
	}
	return out
}

// generatedFirst puts the compiler errors located in gombok's output before those in the law test.
func generatedFirst(out string) string {
	var gen, rest []string
	for _, l := range strings.Split(out, "\n") {
		if strings.Contains(l, genFile) && errLineRe.MatchString(l) {
			gen = append(gen, l)
		} else {
			rest = append(rest, l)
		}
	}
	return strings.Join(append(gen, rest...), "\n")
}
