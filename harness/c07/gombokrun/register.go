package gombokrun

import (
	"fmt"
	"os"
	"sort"
	"strings"

	"verif/mc"
)

// PackSize is the number of structs per scratch package. The engine keeps at most 40 distinct
// violation keys per scenario, so a package never holds more shapes than that; the quick tier uses
// smaller packages so that there are at least 3 x 16 scenarios and each goes to one worker.
func PackSize(thorough bool) int {
	if thorough {
		return 40
	}
	return 20
}

// LawShapes enumerates the C07 grammar for a tier.
func LawShapes(thorough bool) []*Shape {
	var out []*Shape
	// every one-field struct over the valid (kind, visibility) pairs, under every annotation set
	for _, a := range AllAnnots {
		out = append(out, OneField(a, true)...)
	}
	// tags
	out = append(out, OneFieldTags(AnnVJL, []tagVariant{tagJSON, tagFP})...)
	// nil versus empty-but-non-nil slices / maps / []byte
	for _, a := range AllAnnots {
		out = append(out, NilVsEmpty(a, []tagVariant{tagNone})...)
	}
	out = append(out, NilVsEmpty(AnnVJL, []tagVariant{tagJSON, tagJSONOE})...)
	out = append(out, JSONClosed(AnnVJL, []tagVariant{tagNone})...)
	// field counts
	counts := []int{1, 2, 9, 21, 22}
	if thorough {
		counts = nil
		for n := 1; n <= 22; n++ {
			counts = append(counts, n)
		}
		counts = append(counts, 30)
	}
	for _, a := range AllAnnots {
		for _, n := range counts {
			out = append(out, FieldCount(a, n))
		}
	}
	for _, n := range counts {
		out = append(out, FieldCountSame(AnnVJL, n))
	}
	// generics, and three-field structs mixing private/public/_/blank/embedded fields
	for _, a := range AllAnnots {
		out = append(out, Generics(a)...)
		out = append(out, Mixed(a)...)
	}
	out = append(out, UserDefined(AnnVJL)...)
	out = append(out, Collide(thorough)...)
	out = append(out, Combos()...)
	out = append(out, Names(AnnVJL)...)
	out = append(out, Grouped(AnnVJL)...)
	if thorough {
		out = append(out, TwoField(AnnVJL)...)
		out = append(out, Names(AnnB)...)
		out = append(out, Names(AnnGW)...)
		out = append(out, Grouped(AnnGW)...)
		out = append(out, Grouped(AnnB)...)
		out = append(out, OneFieldTags(AnnV, []tagVariant{tagJSON, tagFP, tagTwo})...)
	}
	return dedup(out)
}

// JSONShapes enumerates the @fp.Json shapes for C15.
func JSONShapes(thorough bool) []*Shape {
	var out []*Shape
	for _, a := range []Annot{AnnVJ, AnnVJL} {
		if a.ID == "vjl" && !thorough {
			continue
		}
		out = append(out, OneField(a, false)...)
		for _, n := range []int{1, 2, 9, 21, 22, 30} {
			out = append(out, FieldCount(a, n))
		}
		out = append(out, Generics(a)...)
		out = append(out, Mixed(a)...)
		out = append(out, EmbeddedPairs(a)...)
	}
	out = append(out, OneFieldTags(AnnVJ, []tagVariant{tagJSON, tagJSONOE, tagJSONNoN, tagJSONDsh, tagFP, tagOther, tagTwo})...)
	out = append(out, NilVsEmpty(AnnVJ, []tagVariant{tagNone, tagJSON, tagJSONOE, tagJSONNoN})...)
	out = append(out, JSONClosed(AnnVJ, []tagVariant{tagNone, tagJSON, tagJSONOE})...)
	out = append(out, Grouped(AnnVJ)...)
	out = append(out, UserDefined(AnnVJ)...)
	if thorough {
		out = append(out, UserDefined(AnnVJL)...)
		for n := 3; n <= 20; n++ {
			out = append(out, FieldCount(AnnVJ, n))
		}
		// two-field structs over the JSON-relevant forms
		var fs []Form
		for _, f := range Forms(false) {
			if f.Vis == "priv" || f.Vis == "pub" || (f.Vis == "und" && f.Kind.ID == "int") || (f.Vis == "emb" && (f.Kind.ID == "Pub" || f.Kind.ID == "ptr-Pub" || f.Kind.ID == "time.Duration" || f.Kind.ID == "Empty")) {
				fs = append(fs, f)
			}
		}
		for _, x := range fs {
			for _, y := range fs {
				s := mkShape("two-field", AnnVJ, []Form{x, y}, nil)
				if validPair(s.Fields[0], s.Fields[1]) {
					out = append(out, s)
				}
			}
		}
	}
	var keep []*Shape
	for _, s := range dedup(out) {
		if s.Members().Json {
			keep = append(keep, s)
		}
	}
	return keep
}

func dedup(in []*Shape) []*Shape {
	seen := map[string]bool{}
	var out []*Shape
	for _, s := range in {
		if !seen[s.ID] {
			seen[s.ID] = true
			out = append(out, s)
		}
	}
	SortShapes(out)
	return out
}

// Pack splits shapes (sorted by id) into packages, family by family.
func Pack(mode Mode, shapes []*Shape, size int) []*Package {
	byFam := map[string][]*Shape{}
	var fams []string
	for _, s := range shapes {
		if _, ok := byFam[s.Family]; !ok {
			fams = append(fams, s.Family)
		}
		byFam[s.Family] = append(byFam[s.Family], s)
	}
	sort.Strings(fams)
	var out []*Package
	for _, fam := range fams {
		ss := byFam[fam]
		size := size
		if strings.HasPrefix(fam, "collide") {
			size = 1 // the verdict of these shapes depends on what else is in the package
		}
		for i, k := 0, 0; i < len(ss); i, k = i+size, k+1 {
			j := i + size
			if j > len(ss) {
				j = len(ss)
			}
			out = append(out, &Package{Name: fmt.Sprintf("%s-%03d", fam, k), Mode: mode, Shapes: ss[i:j]})
		}
	}
	return out
}

// Register adds one scenario per package.
func Register(r *mc.Registry, mode Mode, pkgs []*Package) {
	only := os.Getenv("GBR_ONLY") // development aid: run only the packages whose name contains this
	for _, p := range pkgs {
		p := p
		if only != "" && !strings.Contains(p.Name, only) {
			continue
		}
		r.Seq("pkg/"+string(mode)+"/"+p.Name, func(x *mc.X) { scenario(x, p) })
	}
}

// RunScenario is the body of one package scenario (exported for harnesses that choose the
// package themselves).
func RunScenario(x *mc.X, p *Package) { scenario(x, p) }

func scenario(x *mc.X, p *Package) {
	res := CachedRun(p)
	x.Logf("package %s: %d structs, %d gombok runs, %d builds, %.1fs", p.Name, len(res.Structs), res.GombokRuns, res.Builds, res.WallS)
	var summary []string
	for i, sr := range res.Structs {
		s := p.Shapes[i]
		x.AddStates(1)
		x.AddTransitions(int64(sr.Evals))
		x.Count("structs", 1)
		x.Count("annot:"+s.Annot.ID, 1)
		x.Count("family:"+s.Family, 1)
		x.Count("status:"+sr.Status, 1)
		for _, f := range s.Fields {
			x.Count("field:"+f.Vis+"."+f.Kind.ID, 1)
		}
		if len(s.TParams) > 0 {
			x.Count("generic-structs", 1)
		}
		x.Logf("%s: %s (%d law evaluations)", sr.ID, sr.Status, sr.Evals)
		summary = append(summary, sr.ID+"="+sr.Status)
		switch sr.Status {
		case "generator-crash":
			if p.Mode == ModeLaws {
				x.Report("generator-crash/"+sr.ID, "gombok crashes (Go panic) on this declaration:\n%s\n%s", sr.Decl, crashHead(sr.Detail))
			} else {
				x.Count("skipped-generator-crash(C07)", 1)
			}
		case "rejected":
			// gombok refused the declaration with a diagnostic: not "accepted", so not a violation
			x.Count("rejected/"+sr.ID, 1)
		case "compile":
			if p.Mode == ModeLaws {
				x.Report("compile/"+sr.ID, "gombok accepts this declaration (exit status 0) but its output does not compile:\n%s\n%s", sr.Decl, sr.Detail)
			} else if sr.LawOnly {
				// gombok's output compiles, but the law test, which only calls what README documents for
				// @fp.Value + @fp.Json (AsMutable, the Mutable type, UnmarshalJSON), does not: a member is missing
				x.Report("law/Json-members/"+sr.ID, "the generated code compiles but lacks members the @fp.Json laws call (Mutable type / AsMutable / UnmarshalJSON):\n%s\n%s", sr.Decl, sr.Detail)
			} else {
				x.Count("skipped-does-not-compile(C07)", 1)
			}
		case "crash":
			x.Report("law/crash/"+sr.ID, "the law test binary died while testing this struct:\n%s\n%s", sr.Decl, sr.Detail)
		}
		var laws []string
		for l := range sr.Laws {
			laws = append(laws, l)
		}
		sort.Strings(laws)
		for _, l := range laws {
			x.Count("law:"+l, int64(sr.Counts[l]))
			if msg := sr.Laws[l]; msg != "" {
				if l == "harness-self-check" {
					panic(mc.InternalError{Msg: fmt.Sprintf("%s: %s", sr.ID, msg)})
				}
				x.Report("law/"+l+"/"+sr.ID, "%s\n%s", msg, sr.Decl)
				summary = append(summary, sr.ID+"!"+l)
			}
		}
	}
	if len(res.Vet) > 0 {
		x.Count("go-vet-complaints-about-generated-code(informational)", int64(len(res.Vet)))
	}
	x.Observe(strings.Join(summary, ";"))
	x.NonTrivial()
}

// Post adds run-level facts gathered from the recorded package results to the evidence.
func Post(mode Mode) func(pc *mc.PostCtx) {
	return func(pc *mc.PostCtx) {
		var rejected, vet []string
		gombokRuns, builds := 0, 0
		for _, r := range LoadResults(mode) {
			gombokRuns += r.GombokRuns
			builds += r.Builds
			for _, s := range r.Structs {
				if s.Status == "rejected" {
					rejected = append(rejected, s.ID+": "+diagnostic(s.Detail))
				}
			}
			for _, v := range r.Vet {
				if len(vet) < 10 {
					vet = append(vet, v)
				}
			}
		}
		sort.Strings(rejected)
		pc.Extra["rejected_by_gombok"] = rejected
		pc.Extra["gombok_runs"] = gombokRuns
		pc.Extra["go_builds"] = builds
		if len(vet) > 0 {
			pc.Extra["go_vet_samples(informational)"] = vet
		}
	}
}

// diagnostic picks the line of gombok's output that says why it gave up.
func diagnostic(out string) string {
	ls := strings.Split(strings.TrimSpace(out), "\n")
	for _, l := range ls {
		if strings.Contains(l, "format error") || strings.HasPrefix(l, "panic:") {
			return ls[0] + ": " + strings.TrimSpace(l)
		}
	}
	return ls[0] + ": " + strings.TrimSpace(ls[len(ls)-1])
}

// crashHead keeps the panic message and the first frames of gombok's stack trace.
func crashHead(out string) string {
	ls := strings.Split(out, "\n")
	start := 0
	for i, l := range ls {
		if strings.HasPrefix(l, "panic:") || strings.HasPrefix(l, "fatal error:") {
			start = i
			break
		}
	}
	ls = ls[start:]
	if len(ls) > 14 {
		ls = ls[:14]
	}
	return strings.Join(ls, "\n")
}
