package gombokrun

// RuntimeFile is the law-test runtime written into every scratch package next to the generated
// specs (package main of the scratch module). It prints one line per (struct, law) verdict:
//
//	BEGIN <id>
//	R <id>\t<law>\tok|FAIL\t<message>
//	N <id> <evaluations>
//	END <id>
const RuntimeFile = `package main

import (
	"bufio"
	"errors"
	"fmt"
	"os"
	"reflect"
	"sort"
	"strings"
)

func pk[T any](b uint64, i int, v0, v1 T) T {
	if b>>uint(i)&1 == 0 {
		return v0
	}
	return v1
}

func ptr(n int) *int { return &n }

func pmyint(n int) *myint { v := myint(n); return &v }

func fnA(x int) int { return x + 1 }
func fnB(x int) int { return x + 2 }
func vfnA(xs ...int) {}
func vfnB(xs ...int) { _ = xs }

var chA = make(chan int, 1)
var chB = make(chan int, 2)

var errA = errors.New("error A")
var errB = errors.New("error B")

type fieldSpec struct {
	name     string
	tag      string
	apply    bool
	mapOK    bool
	isOpt    bool
	vals     [2]any
	get      func(x any) any
	with     func(x any, b int) any
	bset     func(x any, b int) any
	someVals [2]any
	noneVal  any
	withSome func(x any, b int) any
	withNone func(x any) any
	bsome    func(x any, b int) any
	bnone    func(x any) any
}

type spec struct {
	id            string
	name          string
	fields        []fieldSpec
	applyIdx      []int
	mk            func(b uint64) any
	read          func(x any) []any
	zero          func() any
	builderID     func(x any) any
	asTuple       func(x any) any
	fromTuple     func(base, x any) any
	fromTupleV    func(base any, b uint64) any
	unapply       func(x any) []any
	apply         func(base, x any) any
	applyV        func(base any, b uint64) any
	asMutable     func(x any) any
	readMutable   func(m any) []any
	asImmutable   func(m any) any
	mkMutable     func(b uint64) any
	asLabelled    func(x any) any
	fromLabelled  func(base, x any) any
	fromLabelledV func(base any, b uint64) any
	asMap         func(x any) map[string]any
	fromMap       func(base any, m map[string]any) any
	newAll        func(b uint64) any
}

var specs []*spec

func register(s *spec) { specs = append(specs, s) }

type lawCtx struct {
	id    string
	evals int
	fails map[string]string
	seen  map[string]int
}

func (c *lawCtx) check(law string, ok bool, format string, args ...any) {
	c.evals++
	c.seen[law]++
	if !ok {
		if _, dup := c.fails[law]; !dup {
			c.fails[law] = fmt.Sprintf(format, args...)
		}
	}
}

// eqv: reflect.DeepEqual, except that two func values are equal when they are the same function.
func eqv(a, b any) bool {
	va, vb := reflect.ValueOf(a), reflect.ValueOf(b)
	if va.IsValid() && vb.IsValid() && va.Kind() == reflect.Func && vb.Kind() == reflect.Func {
		return va.Type() == vb.Type() && va.Pointer() == vb.Pointer()
	}
	return reflect.DeepEqual(a, b)
}

func eqAll(a, b []any) bool {
	if len(a) != len(b) {
		return false
	}
	for i := range a {
		if !eqv(a[i], b[i]) {
			return false
		}
	}
	return true
}

func show(v any) string {
	s := fmt.Sprintf("%#v", v)
	if len(s) > 300 {
		s = s[:300] + "..."
	}
	return strings.ReplaceAll(strings.ReplaceAll(s, "\n", " "), "\t", " ")
}

func showAll(vs []any) string {
	var p []string
	for _, v := range vs {
		p = append(p, show(v))
	}
	return "[" + strings.Join(p, " | ") + "]"
}

// structFields reads the exported fields I1..In of a tuple / labelled value.
func structFields(t any) []reflect.Value {
	v := reflect.ValueOf(t)
	var out []reflect.Value
	for i := 0; i < v.NumField(); i++ {
		out = append(out, v.Field(i))
	}
	return out
}

func combos(n int) []uint64 {
	if n <= 6 {
		var out []uint64
		for b := uint64(0); b < 1<<uint(n); b++ {
			out = append(out, b)
		}
		return out
	}
	all := uint64(1)<<uint(n) - 1
	out := []uint64{0, all}
	for i := 0; i < n; i++ {
		out = append(out, uint64(1)<<uint(i), all^(uint64(1)<<uint(i)))
	}
	return out
}

func (sp *spec) expected(b uint64) []any {
	out := make([]any, len(sp.fields))
	for i, f := range sp.fields {
		out[i] = f.vals[b>>uint(i)&1]
	}
	return out
}

func cp(a []any) []any { return append([]any(nil), a...) }

func runSpec(c *lawCtx, sp *spec) {
	c.check("compiles", true, "")
	n := len(sp.fields)
	all := uint64(1)<<uint(n) - 1
	for _, bits := range combos(n) {
		x := sp.mk(bits)
		exp := sp.expected(bits)
		desc := fmt.Sprintf("x=%s", show(x))
		if got := sp.read(x); !eqAll(got, exp) {
			c.check("harness-self-check", false, "the composite literal does not hold the intended values: %s want %s", showAll(got), showAll(exp))
			return
		}
		other := all &^ bits
		y := sp.mk(other)
		expY := sp.expected(other)
		zero := sp.zero()
		expZero := sp.read(zero)
		// expected field vector after replacing the apply fields of base by those of x
		onto := func(base []any) []any {
			w := cp(base)
			for _, i := range sp.applyIdx {
				w[i] = exp[i]
			}
			return w
		}
		sel := func(v []any) []any {
			var w []any
			for _, i := range sp.applyIdx {
				w = append(w, v[i])
			}
			return w
		}
		expApply := sel(exp)
		for i, f := range sp.fields {
			if f.get != nil {
				got := f.get(x)
				c.check("Getter", eqv(got, exp[i]), "%s: getter of field %s returns %s, the field holds %s", desc, f.name, show(got), show(exp[i]))
			}
			for b := 0; b < 2; b++ {
				if f.with != nil {
					got := sp.read(f.with(x, b))
					want := cp(exp)
					want[i] = f.vals[b]
					c.check("With", eqAll(got, want), "%s: With for field %s (value %s) yields fields %s, want %s", desc, f.name, show(f.vals[b]), showAll(got), showAll(want))
					c.check("With/receiver-unchanged", eqAll(sp.read(x), exp), "%s: With for field %s changed its receiver", desc, f.name)
				}
				if f.bset != nil {
					got := sp.read(f.bset(x, b))
					want := cp(exp)
					want[i] = f.vals[b]
					c.check("BuilderSet", eqAll(got, want), "%s: Builder().<setter of %s>(%s).Build() yields fields %s, want %s", desc, f.name, show(f.vals[b]), showAll(got), showAll(want))
				}
				if f.withSome != nil {
					got := sp.read(f.withSome(x, b))
					want := cp(exp)
					want[i] = f.someVals[b]
					c.check("WithSome", eqAll(got, want), "%s: WithSome for field %s yields fields %s, want %s", desc, f.name, showAll(got), showAll(want))
				}
				if f.bsome != nil {
					got := sp.read(f.bsome(x, b))
					want := cp(exp)
					want[i] = f.someVals[b]
					c.check("BuilderSome", eqAll(got, want), "%s: Builder().Some<%s>.Build() yields fields %s, want %s", desc, f.name, showAll(got), showAll(want))
				}
			}
			if f.withNone != nil {
				got := sp.read(f.withNone(x))
				want := cp(exp)
				want[i] = f.noneVal
				c.check("WithNone", eqAll(got, want), "%s: WithNone for field %s yields fields %s, want %s", desc, f.name, showAll(got), showAll(want))
			}
			if f.bnone != nil {
				got := sp.read(f.bnone(x))
				want := cp(exp)
				want[i] = f.noneVal
				c.check("BuilderNone", eqAll(got, want), "%s: Builder().None<%s>.Build() yields fields %s, want %s", desc, f.name, showAll(got), showAll(want))
			}
		}
		if sp.builderID != nil {
			got := sp.read(sp.builderID(x))
			c.check("Builder/identity", eqAll(got, exp), "%s: Builder().Build() yields fields %s", desc, showAll(got))
		}
		if sp.asTuple != nil {
			var got []any
			for _, v := range structFields(sp.asTuple(x)) {
				got = append(got, v.Interface())
			}
			c.check("AsTuple", eqAll(got, expApply), "%s: AsTuple() holds %s, want the fields in declaration order %s", desc, showAll(got), showAll(expApply))
		}
		if sp.fromTuple != nil {
			got := sp.read(sp.fromTuple(zero, x))
			c.check("FromTuple", eqAll(sel(got), expApply), "%s: zero.Builder().FromTuple(x.AsTuple()).Build() yields fields %s, want %s", desc, showAll(got), showAll(onto(expZero)))
			got = sp.read(sp.fromTuple(y, x))
			c.check("FromTuple", eqAll(sel(got), expApply), "%s: y.Builder().FromTuple(x.AsTuple()).Build() with y=%s yields fields %s, want %s", desc, show(y), showAll(got), showAll(onto(expY)))
			got = sp.read(sp.fromTuple(x, x))
			c.check("FromTuple", eqAll(got, exp), "%s: x.Builder().FromTuple(x.AsTuple()).Build() yields fields %s", desc, showAll(got))
		}
		if sp.fromTupleV != nil {
			got := sp.read(sp.fromTupleV(y, bits))
			c.check("FromTuple", eqAll(sel(got), expApply), "%s: y.Builder().FromTuple(tuple of x's fields).Build() with y=%s yields fields %s, want %s", desc, show(y), showAll(got), showAll(onto(expY)))
			got = sp.read(sp.fromTupleV(x, bits))
			c.check("FromTuple", eqAll(got, exp), "%s: x.Builder().FromTuple(tuple of x's fields).Build() yields fields %s", desc, showAll(got))
		}
		if sp.unapply != nil {
			got := sp.unapply(x)
			c.check("Unapply", eqAll(got, expApply), "%s: Unapply() returns %s, want the fields in declaration order %s", desc, showAll(got), showAll(expApply))
		}
		if sp.apply != nil {
			got := sp.read(sp.apply(y, x))
			c.check("Apply", eqAll(sel(got), expApply), "%s: y.Builder().Apply(x.Unapply()).Build() with y=%s yields fields %s, want %s", desc, show(y), showAll(got), showAll(onto(expY)))
			got = sp.read(sp.apply(x, x))
			c.check("Apply", eqAll(got, exp), "%s: x.Builder().Apply(x.Unapply()).Build() yields fields %s", desc, showAll(got))
		}
		if sp.applyV != nil {
			got := sp.read(sp.applyV(y, bits))
			c.check("Apply", eqAll(sel(got), expApply), "%s: y.Builder().Apply(x's fields...).Build() with y=%s yields fields %s, want %s", desc, show(y), showAll(got), showAll(onto(expY)))
			got = sp.read(sp.applyV(zero, bits))
			c.check("Apply", eqAll(sel(got), expApply), "%s: zero.Builder().Apply(x's fields...).Build() yields fields %s, want %s", desc, showAll(got), showAll(onto(expZero)))
		}
		if sp.asMutable != nil {
			m := sp.asMutable(x)
			got := sp.readMutable(m)
			c.check("AsMutable", eqAll(got, expApply), "%s: AsMutable() holds %s, want %s", desc, showAll(got), showAll(expApply))
			back := sp.read(sp.asImmutable(m))
			c.check("AsImmutable", eqAll(sel(back), expApply), "%s: AsMutable().AsImmutable() yields fields %s, want %s", desc, showAll(back), showAll(onto(expZero)))
			back = sp.read(sp.asImmutable(sp.mkMutable(bits)))
			c.check("AsImmutable", eqAll(sel(back), expApply), "%s: Mutable{x's fields}.AsImmutable() yields fields %s, want %s", desc, showAll(back), showAll(onto(expZero)))
			m2 := sp.readMutable(sp.asMutable(sp.asImmutable(sp.mkMutable(bits))))
			c.check("AsMutable", eqAll(m2, expApply), "%s: Mutable{x's fields}.AsImmutable().AsMutable() holds %s, want %s", desc, showAll(m2), showAll(expApply))
		}
		if sp.asLabelled != nil {
			var got []any
			var names []string
			for _, v := range structFields(sp.asLabelled(x)) {
				got = append(got, v.MethodByName("Value").Call(nil)[0].Interface())
				names = append(names, v.MethodByName("Name").Call(nil)[0].String())
			}
			var wantNames []string
			for _, i := range sp.applyIdx {
				wantNames = append(wantNames, sp.fields[i].name)
			}
			c.check("AsLabelled", eqAll(got, expApply), "%s: AsLabelled() values %s, want the fields in declaration order %s", desc, showAll(got), showAll(expApply))
			c.check("AsLabelled/names", fmt.Sprint(names) == fmt.Sprint(wantNames), "%s: AsLabelled() names %v, want %v", desc, names, wantNames)
		}
		if sp.fromLabelled != nil {
			got := sp.read(sp.fromLabelled(y, x))
			c.check("FromLabelled", eqAll(sel(got), expApply), "%s: y.Builder().FromLabelled(x.AsLabelled()).Build() with y=%s yields fields %s, want %s", desc, show(y), showAll(got), showAll(onto(expY)))
			got = sp.read(sp.fromLabelled(zero, x))
			c.check("FromLabelled", eqAll(sel(got), expApply), "%s: zero.Builder().FromLabelled(x.AsLabelled()).Build() yields fields %s, want %s", desc, showAll(got), showAll(onto(expZero)))
			got = sp.read(sp.fromLabelled(x, x))
			c.check("FromLabelled", eqAll(got, exp), "%s: x.Builder().FromLabelled(x.AsLabelled()).Build() yields fields %s", desc, showAll(got))
			got = sp.read(sp.fromLabelledV(y, bits))
			c.check("FromLabelled", eqAll(sel(got), expApply), "%s: y.Builder().FromLabelled(labelled of x's fields).Build() with y=%s yields fields %s, want %s", desc, show(y), showAll(got), showAll(onto(expY)))
		}
		// AsMap / FromMap: demanded for fields recoverable by type assertion (func and chan fields
		// are left out of the demand); the zero value is the base, so a nil interface and a None,
		// which the map cannot carry, compare equal to what FromMap leaves untouched.
		mapWant := func(base []any) []any {
			w := cp(base)
			for _, i := range sp.applyIdx {
				if sp.fields[i].mapOK {
					w[i] = exp[i]
				}
			}
			return w
		}
		mask := func(v []any) []any {
			w := cp(v)
			for i, f := range sp.fields {
				if f.apply && !f.mapOK {
					w[i] = nil
				}
			}
			return w
		}
		if sp.asMap != nil && sp.fromMap != nil {
			got := sp.read(sp.fromMap(zero, sp.asMap(x)))
			c.check("FromMap", eqAll(mask(got), mask(mapWant(expZero))), "%s: zero.Builder().FromMap(x.AsMap()).Build() yields fields %s, want %s", desc, showAll(got), showAll(mapWant(expZero)))
		}
		if sp.fromMap != nil {
			// the map README documents: field name -> value, an Option field as its content or absent
			m := map[string]any{}
			for _, i := range sp.applyIdx {
				f := sp.fields[i]
				v := exp[i]
				if f.isOpt {
					ov := reflect.ValueOf(v)
					if !ov.MethodByName("IsDefined").Call(nil)[0].Bool() {
						continue
					}
					v = ov.MethodByName("Get").Call(nil)[0].Interface()
				}
				m[f.name] = v
			}
			got := sp.read(sp.fromMap(zero, m))
			c.check("FromMap", eqAll(mask(got), mask(mapWant(expZero))), "%s: zero.Builder().FromMap(%v).Build() yields fields %s, want %s", desc, m, showAll(got), showAll(mapWant(expZero)))
		}
		if sp.asMap != nil {
			m := sp.asMap(x)
			var keys []string
			for k := range m {
				keys = append(keys, k)
			}
			sort.Strings(keys)
			ok := true
			for _, k := range keys {
				found := false
				for _, i := range sp.applyIdx {
					if sp.fields[i].name == k {
						found = true
					}
				}
				ok = ok && found
			}
			c.check("AsMap/keys", ok, "%s: AsMap() has keys %v that are not field names", desc, keys)
		}
		if sp.newAll != nil {
			got := sp.read(sp.newAll(bits))
			c.check("New", eqAll(sel(got), expApply), "%s: New(x's fields...) yields fields %s, want %s", desc, showAll(got), showAll(onto(expZero)))
		}
	}
}

func main() {
	w := bufio.NewWriter(os.Stdout)
	defer w.Flush()
	sort.Slice(specs, func(i, j int) bool { return specs[i].id < specs[j].id })
	for _, sp := range specs {
		fmt.Fprintf(w, "BEGIN %s\n", sp.id)
		w.Flush()
		c := &lawCtx{id: sp.id, fails: map[string]string{}, seen: map[string]int{}}
		func() {
			defer func() {
				if r := recover(); r != nil {
					c.check("panic", false, "the law test panicked: %v", r)
				}
			}()
			runSpec(c, sp)
		}()
		var laws []string
		for l := range c.seen {
			laws = append(laws, l)
		}
		sort.Strings(laws)
		for _, l := range laws {
			if msg, bad := c.fails[l]; bad {
				fmt.Fprintf(w, "R %s\t%s\tFAIL\t%s\n", sp.id, l, strings.ReplaceAll(msg, "\n", " "))
			} else {
				fmt.Fprintf(w, "R %s\t%s\tok\t%d\n", sp.id, l, c.seen[l])
			}
		}
		fmt.Fprintf(w, "N %s %d\n", sp.id, c.evals)
		fmt.Fprintf(w, "END %s\n", sp.id)
		w.Flush()
	}
}
`
