// Package gombokrun is the shared machinery of the C07 check (gombok @fp.Value output compiles
// and satisfies the accessor / round-trip laws) and of the @fp.Json struct part of C15: a grammar
// of struct declarations, generators for the declaration source and for the law tests, and a
// runner that builds gombok from the tree under test, runs it on scratch packages the way
// `go generate` does, compiles the result and executes the law tests.
package gombokrun

import (
	"fmt"
	"sort"
	"strings"
	"unicode"
)

// TInst is the instantiation chosen for one type parameter in the law tests.
type TInst struct {
	Type string             // Go type, e.g. "int"
	Val  func(n int) string // typed value expression tagged with n
	JVal func(n int) string // JSON-faithful typed value expression
	Omit string             // "yes" / "no" / "ambig": omitempty expectation of a field of this type
}

var (
	instInt  = TInst{"int", func(n int) string { return fmt.Sprintf("int(%d)", n) }, func(n int) string { return fmt.Sprintf("int(%d)", n) }, "no"}
	instStr  = TInst{"string", func(n int) string { return fmt.Sprintf("string(\"s%d\")", n) }, func(n int) string { return fmt.Sprintf("string(\"s%d\")", n) }, "ambig"}
	instImpl = TInst{"implM", func(n int) string { return fmt.Sprintf("implM(%d)", n) }, func(n int) string { return fmt.Sprintf("implM(%d)", n) }, "no"}
	instStrT = TInst{"strT", func(n int) string { return fmt.Sprintf("strT(\"s%d\")", n) }, func(n int) string { return fmt.Sprintf("strT(\"s%d\")", n) }, "no"}
	instPInt = TInst{"*int", func(n int) string { return fmt.Sprintf("ptr(%d)", n) }, func(n int) string { return fmt.Sprintf("ptr(%d)", n) }, "no"}
)

// Env maps type parameter names to their instantiation.
type Env map[string]TInst

func (e Env) t(name string) TInst {
	if v, ok := e[name]; ok {
		return v
	}
	return instInt
}

// Kind is one field type of the grammar.
type Kind struct {
	ID      string
	Type    string   // type expression as declared (may mention T, U)
	TP      []string // type parameters the expression mentions
	Imports []string // imports the declaration needs
	// Vals returns two typed value expressions for a field at position i (after instantiation).
	Vals func(i int, e Env) [2]string
	// Option fields: element type after instantiation and two inner value expressions.
	Opt     bool
	OptElem func(e Env) string
	OptVals func(i int, e Env) [2]string
	NoMap   bool // func / chan: outside the AsMap/FromMap demand
	// embedded forms
	Emb     bool
	EmbName string
	NoApply bool // embedded struct without fields: gombok leaves it out of tuples/Apply/Mutable conversion
	// Collide names the helper package of the generated code whose NAME this kind's package shares
	// (the type is Level from the scratch sub-package scratchmod/x/<Collide>).
	Collide string
	// JSON part (C15)
	JVals        func(i int, e Env) [2]string // faithful values; nil = same as Vals
	JFail        bool                         // json.Marshal fails on this type (func, chan)
	Omit         string                       // "yes" (unnamed nilable / Option), "no", "ambig", "T" (type parameter: take the instantiation's)
	JEmpty       [2]bool                      // which of the two JSON values is "empty" in the omitempty sense
	JEmptyNonNil [2]bool                      // which of the two values is an EMPTY but NON-NIL slice / map: it is dropped by omitempty, so it round-trips only under a tag without omitempty
	JLossy       [2]bool                      // which of the two values does not survive its own JSON encoding (unexported content, a non-nil value of a non-empty interface type): no round trip is demanded of a struct value that holds it
	JWrong       string                       // a JSON value of the wrong type for this field
}

func n1(i int) int { return 10*i + 1 }
func n2(i int) int { return 10*i + 2 }

func simple(f0, f1 string) func(i int, e Env) [2]string {
	// %[1]d = first tag, %[2]d = second tag
	sub := func(f string, i int) string {
		f = strings.ReplaceAll(f, "%[1]d", fmt.Sprint(n1(i)))
		return strings.ReplaceAll(f, "%[2]d", fmt.Sprint(n2(i)))
	}
	return func(i int, e Env) [2]string {
		return [2]string{sub(f0, i), sub(f1, i)}
	}
}

const fpImp = "github.com/csgura/fp"

// Kinds is the field-type alphabet (DESIGN C07 plus a few named/generic container types).
var Kinds = []*Kind{
	{ID: "int", Type: "int", Vals: simple("int(%[1]d)", "int(%[2]d)"), Omit: "no", JWrong: `"zz"`},
	{ID: "string", Type: "string", Vals: simple(`string("s%[1]d")`, `string("")`), Omit: "ambig", JEmpty: [2]bool{false, true}, JWrong: `5`},
	{ID: "bool", Type: "bool", Vals: simple("true", "false"), Omit: "no", JWrong: `"zz"`},
	{ID: "float64", Type: "float64", Vals: simple("float64(%[1]d.5)", "float64(0)"), Omit: "no", JWrong: `"zz"`},
	{ID: "named", Type: "myint", Vals: simple("myint(%[1]d)", "myint(%[2]d)"), Omit: "no", JWrong: `"zz"`},
	{ID: "ptr-int", Type: "*int", Vals: simple("ptr(%[1]d)", "(*int)(nil)"), Omit: "yes", JEmpty: [2]bool{false, true}, JWrong: `"zz"`},
	{ID: "slice-string", Type: "[]string", Vals: simple(`[]string{"s%[1]d"}`, "[]string(nil)"), Omit: "yes", JEmpty: [2]bool{false, true}, JWrong: `5`},
	{ID: "array", Type: "[2]int", Vals: simple("[2]int{%[1]d, %[2]d}", "[2]int{}"), Omit: "no", JWrong: `"zz"`},
	{ID: "map", Type: "map[string]int", Vals: simple(`map[string]int{"k": %[1]d}`, "map[string]int(nil)"), Omit: "yes", JEmpty: [2]bool{false, true}, JWrong: `5`},
	{ID: "func", Type: "func(int) int", Vals: func(i int, e Env) [2]string {
		return [2]string{fmt.Sprintf("(func(int) int)(fn%c)", 'A'+i%2), "(func(int) int)(nil)"}
	}, NoMap: true, JFail: true, Omit: "yes", JEmpty: [2]bool{false, true}, JWrong: `5`},
	{ID: "chan", Type: "chan int", Vals: func(i int, e Env) [2]string {
		return [2]string{fmt.Sprintf("ch%c", 'A'+i%2), "(chan int)(nil)"}
	}, NoMap: true, JFail: true, Omit: "yes", JEmpty: [2]bool{false, true}, JWrong: `5`},
	{ID: "rchan", Type: "<-chan int", Vals: func(i int, e Env) [2]string {
		return [2]string{fmt.Sprintf("(<-chan int)(ch%c)", 'A'+i%2), "(<-chan int)(nil)"}
	}, NoMap: true, JFail: true, Omit: "yes", JEmpty: [2]bool{false, true}, JWrong: `5`},
	{ID: "vfunc", Type: "func(xs ...int)", Vals: func(i int, e Env) [2]string {
		return [2]string{fmt.Sprintf("(func(...int))(vfn%c)", 'A'+i%2), "(func(...int))(nil)"}
	}, NoMap: true, JFail: true, Omit: "yes", JEmpty: [2]bool{false, true}, JWrong: `5`},
	{ID: "any", Type: "any", Vals: simple("any(%[1]d)", "any(nil)"),
		JVals: simple(`any("s%[1]d")`, "any(nil)"), Omit: "yes", JEmpty: [2]bool{false, true}},
	{ID: "iface", Type: "interface{ M() }", Vals: simple("(interface{ M() })(implM(%[1]d))", "(interface{ M() })(nil)"),
		JLossy: [2]bool{true, false}, Omit: "yes", JEmpty: [2]bool{false, true}, JWrong: `5`},
	{ID: "anon-struct", Type: "struct{ Q int }", Vals: simple("struct{ Q int }{Q: %[1]d}", "struct{ Q int }{}"), Omit: "no", JWrong: `5`},
	{ID: "opt-int", Type: "fp.Option[int]", Imports: []string{fpImp}, Vals: simple("option.Some(int(%[1]d))", "option.None[int]()"),
		Opt: true, OptElem: func(Env) string { return "int" }, OptVals: simple("int(%[1]d)", "int(%[2]d)"), Omit: "yes", JWrong: `"zz"`},
	{ID: "opt-slice", Type: "fp.Option[[]int]", Imports: []string{fpImp}, Vals: simple("option.Some([]int{%[1]d})", "option.None[[]int]()"),
		Opt: true, OptElem: func(Env) string { return "[]int" }, OptVals: simple("[]int{%[1]d}", "[]int(nil)"), Omit: "yes", JWrong: `"zz"`},
	{ID: "opt-opt", Type: "fp.Option[fp.Option[int]]", Imports: []string{fpImp}, Vals: simple("option.Some(option.Some(int(%[1]d)))", "option.None[fp.Option[int]]()"),
		Opt: true, OptElem: func(Env) string { return "fp.Option[int]" }, OptVals: simple("option.Some(int(%[1]d))", "option.None[int]()"), Omit: "yes", JWrong: `"zz"`},
	{ID: "T", Type: "T", TP: []string{"T"}, Vals: func(i int, e Env) [2]string {
		return [2]string{e.t("T").Val(n1(i)), e.t("T").Val(n2(i))}
	}, JVals: func(i int, e Env) [2]string {
		return [2]string{e.t("T").JVal(n1(i)), e.t("T").JVal(n2(i))}
	}, Omit: "T", JWrong: `"zz"`},
	{ID: "slice-T", Type: "[]T", TP: []string{"T"}, Vals: func(i int, e Env) [2]string {
		return [2]string{fmt.Sprintf("[]%s{%s}", e.t("T").Type, e.t("T").Val(n1(i))), fmt.Sprintf("[]%s(nil)", e.t("T").Type)}
	}, Omit: "yes", JEmpty: [2]bool{false, true}, JWrong: `5`},
	{ID: "map-TU", Type: "map[T]U", TP: []string{"T", "U"}, Vals: func(i int, e Env) [2]string {
		return [2]string{fmt.Sprintf("map[%s]%s{%s: %s}", e.t("T").Type, e.t("U").Type, e.t("T").Val(n1(i)), e.t("U").Val(n1(i))),
			fmt.Sprintf("map[%s]%s(nil)", e.t("T").Type, e.t("U").Type)}
	}, Omit: "yes", JEmpty: [2]bool{false, true}, JWrong: `5`},
	{ID: "opt-T", Type: "fp.Option[T]", TP: []string{"T"}, Imports: []string{fpImp}, Vals: func(i int, e Env) [2]string {
		return [2]string{fmt.Sprintf("option.Some(%s)", e.t("T").Val(n1(i))), fmt.Sprintf("option.None[%s]()", e.t("T").Type)}
	}, Opt: true, OptElem: func(e Env) string { return e.t("T").Type }, OptVals: func(i int, e Env) [2]string {
		return [2]string{e.t("T").Val(n1(i)), e.t("T").Val(n2(i))}
	}, Omit: "yes", JWrong: `"zz"`},
	{ID: "duration", Type: "time.Duration", Imports: []string{"time"}, Vals: simple("time.Duration(%[1]d)", "time.Duration(0)"), Omit: "no", JWrong: `"zz"`},
	{ID: "seq-int", Type: "fp.Seq[int]", Imports: []string{fpImp}, Vals: simple("fp.Seq[int]{%[1]d}", "fp.Seq[int](nil)"), Omit: "ambig", JEmpty: [2]bool{false, true}, JWrong: `5`},
	{ID: "named-slice", Type: "mylist", Vals: simple("mylist{%[1]d}", "mylist(nil)"), Omit: "ambig", JEmpty: [2]bool{false, true}, JWrong: `5`},
	{ID: "ptr-struct", Type: "*Pub", Vals: simple("&Pub{X: %[1]d}", "(*Pub)(nil)"), Omit: "yes", JEmpty: [2]bool{false, true}, JWrong: `5`},
	// the predeclared interface type error (a *types.Named without a package)
	{ID: "error", Type: "error", Vals: func(i int, e Env) [2]string {
		return [2]string{fmt.Sprintf("error(err%c)", 'A'+i%2), "error(nil)"}
	}, Omit: "ambig", JEmpty: [2]bool{false, true}, JLossy: [2]bool{true, false}, JWrong: `5`},
	{ID: "opt-error", Type: "fp.Option[error]", Imports: []string{fpImp}, Vals: func(i int, e Env) [2]string {
		return [2]string{fmt.Sprintf("option.Some[error](err%c)", 'A'+i%2), "option.None[error]()"}
	}, Opt: true, OptElem: func(Env) string { return "error" }, OptVals: func(i int, e Env) [2]string {
		return [2]string{fmt.Sprintf("error(err%c)", 'A'+i%2), fmt.Sprintf("error(err%c)", 'B'-i%2)}
	}, Omit: "yes", JLossy: [2]bool{true, false}, JWrong: `5`},
	{ID: "slice-error", Type: "[]error", Vals: func(i int, e Env) [2]string {
		return [2]string{fmt.Sprintf("[]error{err%c}", 'A'+i%2), "[]error(nil)"}
	}, Omit: "yes", JEmpty: [2]bool{false, true}, JLossy: [2]bool{true, false}, JWrong: `5`},
}

// NilVsEmptyKinds: slice / map / []byte fields whose two values tell nil from empty-but-non-nil
// (reflect.DeepEqual does). They are not crossed with everything (see NilVsEmpty).
var NilVsEmptyKinds = []*Kind{
	{ID: "slice-empty", Type: "[]int", Vals: simple("[]int{}", "[]int(nil)"), Omit: "yes", JEmpty: [2]bool{true, true}, JEmptyNonNil: [2]bool{true, false}, JWrong: `5`},
	{ID: "map-empty", Type: "map[string]int", Vals: simple("map[string]int{}", "map[string]int(nil)"), Omit: "yes", JEmpty: [2]bool{true, true}, JEmptyNonNil: [2]bool{true, false}, JWrong: `5`},
	{ID: "bytes", Type: "[]byte", Vals: simple(`[]byte("b%[1]d")`, "[]byte{}"), Omit: "yes", JEmpty: [2]bool{false, true}, JEmptyNonNil: [2]bool{false, true}, JWrong: `5`},
	{ID: "bytes-empty", Type: "[]byte", Vals: simple("[]byte{}", "[]byte(nil)"), Omit: "yes", JEmpty: [2]bool{true, true}, JEmptyNonNil: [2]bool{true, false}, JWrong: `5`},
	{ID: "slice-T-empty", Type: "[]T", TP: []string{"T"}, Vals: func(i int, e Env) [2]string {
		return [2]string{fmt.Sprintf("[]%s{}", e.t("T").Type), fmt.Sprintf("[]%s(nil)", e.t("T").Type)}
	}, Omit: "yes", JEmpty: [2]bool{true, true}, JEmptyNonNil: [2]bool{true, false}, JWrong: `5`},
}

// NilVsEmpty: the kinds above as private and public one-field structs with each tag variant, and a
// three-field struct holding a slice, a map and a []byte.
func NilVsEmpty(a Annot, tags []tagVariant) []*Shape {
	var out []*Shape
	for _, tg := range tags {
		for _, v := range []string{"priv", "pub"} {
			for _, k := range NilVsEmptyKinds {
				s := mkShape("nil-vs-empty", a, []Form{{v, k}}, []tagVariant{tg})
				out = append(out, s)
			}
		}
		k := kindByID
		out = append(out, mkShape("nil-vs-empty", a, []Form{{"priv", k("slice-empty")}, {"pub", k("map-empty")}, {"priv", k("bytes")}}, []tagVariant{tg, tg, tg}))
	}
	return out
}

// JSONClosedKinds: interface-typed locations (any, map[string]any, []any, a struct holding an any)
// whose values are drawn from the closed set that encoding/json itself produces for an interface
// location - float64, string, bool, nil, map[string]any and []any of those. Such values survive
// their own encoding with their dynamic types, so the full round trip (reflect.DeepEqual) is
// demanded of them; the weaker treatment stays for values outside the set (int, named types,
// errors, Stringers).
var JSONClosedKinds = []*Kind{
	{ID: "any-float", Type: "any", Vals: simple("any(float64(%[1]d.5))", "any(float64(3))"), Omit: "yes", JWrong: ""},
	{ID: "any-bool-string", Type: "any", Vals: simple("any(true)", `any("s%[1]d")`), Omit: "yes"},
	{ID: "any-map-slice", Type: "any", Vals: simple(`any(map[string]any{"k": float64(%[1]d), "s": "x"})`, `any([]any{float64(%[1]d), "x", true, nil})`), Omit: "yes"},
	{ID: "map-string-any", Type: "map[string]any", Vals: simple(`map[string]any{"k": float64(%[1]d), "s": "x", "b": false, "n": nil, "m": map[string]any{"i": float64(2)}}`, "map[string]any(nil)"),
		Omit: "yes", JEmpty: [2]bool{false, true}, JWrong: `5`},
	{ID: "slice-any", Type: "[]any", Vals: simple(`[]any{float64(%[1]d), "x", nil, []any{float64(1)}, map[string]any{"k": float64(1.25)}}`, "[]any(nil)"),
		Omit: "yes", JEmpty: [2]bool{false, true}, JWrong: `5`},
	{ID: "struct-any", Type: "struct{ V any }", Vals: simple("struct{ V any }{V: float64(%[1]d)}", "struct{ V any }{}"), Omit: "no", JWrong: `5`},
	{ID: "opt-any", Type: "fp.Option[any]", Imports: []string{fpImp}, Vals: simple("option.Some[any](float64(%[1]d))", "option.None[any]()"),
		Opt: true, OptElem: func(Env) string { return "any" }, OptVals: simple("any(float64(%[1]d))", `any("s%[2]d")`), Omit: "yes"},
}

// JSONClosed: the kinds above as private and public one-field structs with each tag variant, and a
// three-field struct holding an any, a map[string]any and a []any.
func JSONClosed(a Annot, tags []tagVariant) []*Shape {
	var out []*Shape
	for _, tg := range tags {
		for _, v := range []string{"priv", "pub"} {
			for _, k := range JSONClosedKinds {
				out = append(out, mkShape("json-closed-values", a, []Form{{v, k}}, []tagVariant{tg}))
			}
		}
		k := kindByID
		out = append(out, mkShape("json-closed-values", a, []Form{{"priv", k("any-float")}, {"pub", k("map-string-any")}, {"priv", k("slice-any")}}, []tagVariant{tg, tg, tg}))
	}
	return out
}

// EmbKinds are the embedded-field forms.
var EmbKinds = []*Kind{
	{ID: "Pub", Type: "Pub", Emb: true, EmbName: "Pub", Vals: simple("Pub{X: %[1]d}", "Pub{}"), JWrong: `5`},
	{ID: "inner", Type: "inner", Emb: true, EmbName: "inner", Vals: simple("inner{y: %[1]d}", "inner{}"), JLossy: [2]bool{true, false}, JWrong: `5`},
	{ID: "ptr-Pub", Type: "*Pub", Emb: true, EmbName: "Pub", Vals: simple("&Pub{X: %[1]d}", "(*Pub)(nil)"), JWrong: `5`},
	{ID: "ptr-inner", Type: "*inner", Emb: true, EmbName: "inner", Vals: simple("&inner{y: %[1]d}", "(*inner)(nil)"), JLossy: [2]bool{true, false}, JWrong: `5`},
	{ID: "time.Duration", Type: "time.Duration", Imports: []string{"time"}, Emb: true, EmbName: "Duration", Vals: simple("time.Duration(%[1]d)", "time.Duration(0)"), JWrong: `"zz"`},
	{ID: "image.Point", Type: "image.Point", Imports: []string{"image"}, Emb: true, EmbName: "Point", Vals: simple("image.Point{X: %[1]d, Y: %[2]d}", "image.Point{}"), JWrong: `5`},
	{ID: "fmt.Stringer", Type: "fmt.Stringer", Imports: []string{"fmt"}, Emb: true, EmbName: "Stringer", Vals: simple(`fmt.Stringer(strT("s%[1]d"))`, "fmt.Stringer(nil)"), JLossy: [2]bool{true, false}, JWrong: `5`},
	{ID: "Iface", Type: "Iface", Emb: true, EmbName: "Iface", Vals: simple("Iface(implM(%[1]d))", "Iface(nil)"), JLossy: [2]bool{true, false}, JWrong: `5`},
	{ID: "iface", Type: "iface", Emb: true, EmbName: "iface", Vals: simple("iface(implM(%[1]d))", "iface(nil)"), JLossy: [2]bool{true, false}, JWrong: `5`},
	{ID: "Empty", Type: "Empty", Emb: true, EmbName: "Empty", NoApply: true, Vals: simple("Empty{}", "Empty{}"), JWrong: `5`},
	{ID: "myint", Type: "myint", Emb: true, EmbName: "myint", Vals: simple("myint(%[1]d)", "myint(0)"), JLossy: [2]bool{true, false}, JWrong: `"zz"`},
	{ID: "ptr-myint", Type: "*myint", Emb: true, EmbName: "myint", Vals: simple("pmyint(%[1]d)", "(*myint)(nil)"), JLossy: [2]bool{true, false}, JWrong: `"zz"`},
	{ID: "error", Type: "error", Emb: true, EmbName: "error", Vals: simple("error(errA)", "error(nil)"), JLossy: [2]bool{true, false}, JWrong: `5`},
	{ID: "Box-int", Type: "Box[int]", Emb: true, EmbName: "Box", Vals: simple("Box[int]{V: %[1]d}", "Box[int]{}"), JWrong: `5`},
	{ID: "Box-T", Type: "Box[T]", TP: []string{"T"}, Emb: true, EmbName: "Box", Vals: func(i int, e Env) [2]string {
		return [2]string{fmt.Sprintf("Box[%s]{V: %s}", e.t("T").Type, e.t("T").Val(n1(i))), fmt.Sprintf("Box[%s]{}", e.t("T").Type)}
	}, JWrong: `5`},
}

func kindByID(id string) *Kind {
	for _, k := range Kinds {
		if k.ID == id {
			return k
		}
	}
	for _, k := range NilVsEmptyKinds {
		if k.ID == id {
			return k
		}
	}
	for _, k := range JSONClosedKinds {
		if k.ID == id {
			return k
		}
	}
	for _, k := range EmbKinds {
		if k.Emb && "emb."+k.ID == id {
			return k
		}
	}
	panic("no kind " + id)
}

// Field is one field of a struct shape.
type Field struct {
	Vis   string // "priv", "pub", "und" (name starts with _), "blank" (_), "emb"
	Kind  *Kind
	Name  string // declared name; for embedded fields the implied name
	Tag   string // struct tag content, "" for none
	TagID string // short id of the tag variant for the shape id
	Group bool   // declared in one ast.Field together with the next field (`a, b T`)
}

// Private reports whether gombok treats the field as private (getter/With/builder setter).
func (f Field) Private() bool { return unicode.IsLower([]rune(f.Name)[0]) }

// Apply reports whether the field takes part in AsTuple/Apply/AsMap/Mutable conversion.
func (f Field) Apply() bool {
	return !strings.HasPrefix(f.Name, "_") && !(f.Kind.Emb && f.Kind.NoApply)
}

func (f Field) Blank() bool { return f.Name == "_" }

func (f Field) desc() string {
	d := f.Vis + "." + f.Kind.ID
	if f.TagID != "" {
		d += ".tag-" + f.TagID
	}
	return d
}

// TParam is a declared type parameter with the instantiation used by the tests.
type TParam struct {
	Name       string
	Constraint string
	Inst       TInst
}

// Annotation sets.
type Annot struct {
	ID    string
	Lines []string
}

var (
	AnnV   = Annot{"v", []string{"@fp.Value"}}
	AnnVJ  = Annot{"vj", []string{"@fp.Value", "@fp.Json"}}
	AnnVL  = Annot{"vl", []string{"@fp.Value", "@fp.GenLabelled"}}
	AnnVJL = Annot{"vjl", []string{"@fp.Value", "@fp.Json", "@fp.GenLabelled"}}
	AnnGW  = Annot{"gw", []string{"@fp.Getter", "@fp.With"}}
	AnnB   = Annot{"b", []string{"@fp.Builder"}}
	AnnAAC = Annot{"aac", []string{"@fp.AllArgsConstructor"}}
)

var AllAnnots = []Annot{AnnV, AnnVJ, AnnVL, AnnVJL, AnnGW, AnnB, AnnAAC}

// ComboAnnots are combinations of annotations on one struct: several of them make gombok run the
// same generator function twice for the struct (processValue and processWith both call
// genPrivateWiths, ...), which must not emit a member twice.
var ComboAnnots = []Annot{
	{"v+w", []string{"@fp.Value", "@fp.With"}},
	{"v+g", []string{"@fp.Value", "@fp.Getter"}},
	{"v+b", []string{"@fp.Value", "@fp.Builder"}},
	{"v+g+w", []string{"@fp.Value", "@fp.Getter", "@fp.With"}},
	{"v+w+j", []string{"@fp.Value", "@fp.With", "@fp.Json"}},
	{"v+aac", []string{"@fp.Value", "@fp.AllArgsConstructor"}},
	{"g+w+b", []string{"@fp.Getter", "@fp.With", "@fp.Builder"}},
	{"v+s", []string{"@fp.Value", "@fp.String"}},
	{"v+w+l", []string{"@fp.Value", "@fp.With", "@fp.GenLabelled"}},
	{"v+g+w+j+l", []string{"@fp.Value", "@fp.Getter", "@fp.With", "@fp.Json", "@fp.GenLabelled"}},
	{"w+v", []string{"@fp.With", "@fp.Value"}},
}

// ComboForms are the one-field forms crossed with the annotation combinations.
func ComboForms() []Form {
	k := kindByID
	return []Form{
		{"priv", k("int")}, {"pub", k("int")}, {"priv", k("opt-int")}, {"pub", k("opt-int")}, {"priv", k("opt-slice")},
		{"priv", k("ptr-int")}, {"priv", k("slice-string")}, {"priv", k("T")}, {"priv", k("opt-T")}, {"emb", k("emb.Pub")}, {"priv", k("error")},
	}
}

// Combos: the one-field forms above and the three-field mixed family under every combination.
func Combos() []*Shape {
	var out []*Shape
	for _, a := range ComboAnnots {
		for _, fm := range ComboForms() {
			out = append(out, mkShape("combo", a, []Form{fm}, nil))
		}
		for _, s := range Mixed(a) {
			s.Family = "combo"
			out = append(out, s)
		}
	}
	return out
}

func (a Annot) has(s string) bool {
	for _, l := range a.Lines {
		if l == s {
			return true
		}
	}
	return false
}
func (a Annot) Value() bool    { return a.has("@fp.Value") }
func (a Annot) Json() bool     { return a.has("@fp.Json") }
func (a Annot) Labelled() bool { return a.has("@fp.GenLabelled") }

// Shape is one struct declaration of the grammar.
type Shape struct {
	ID      string
	Family  string
	Annot   Annot
	Fields  []Field
	TParams []TParam
	// User, if set, returns user-written declarations (methods, types) that gombok must respect;
	// %N is replaced by the struct name.
	User   string
	UserID string
	// ExtraFile, if set, is a second source file of the package (it may import the same package
	// names with a different meaning); %N is replaced by the struct name.
	ExtraFile string
	// Has lists, for the user-defined family, nothing special: the user-written members are
	// semantically what gombok would have generated, so the same laws apply.
}

func (s *Shape) Env() Env {
	e := Env{}
	for _, p := range s.TParams {
		e[p.Name] = p.Inst
	}
	return e
}

func (s *Shape) NApply() int {
	n := 0
	for _, f := range s.Fields {
		if f.Apply() {
			n++
		}
	}
	return n
}

func (s *Shape) HasEmbedded() bool {
	for _, f := range s.Fields {
		if f.Kind.Emb {
			return true
		}
	}
	return false
}

// fieldName gives the declared name of the field at position i.
func fieldName(vis string, i int, k *Kind) string {
	switch vis {
	case "priv":
		return fmt.Sprintf("f%c", 'a'+i)
	case "pub":
		return fmt.Sprintf("F%c", 'a'+i)
	case "und":
		return fmt.Sprintf("_f%c", 'a'+i)
	case "blank":
		return "_"
	case "emb":
		return k.EmbName
	}
	panic("vis " + vis)
}

func longName(vis string, i int) string {
	switch vis {
	case "priv":
		return fmt.Sprintf("f%02d", i)
	case "pub":
		return fmt.Sprintf("F%02d", i)
	}
	return fmt.Sprintf("_f%02d", i)
}

// tparamsFor derives the type parameter list a set of fields needs.
func tparamsFor(fs []Field) []TParam {
	need := map[string]bool{}
	for _, f := range fs {
		for _, p := range f.Kind.TP {
			need[p] = true
		}
	}
	var out []TParam
	if need["T"] {
		c := "any"
		if need["U"] {
			c = "comparable"
		}
		out = append(out, TParam{"T", c, instInt})
	}
	if need["U"] {
		out = append(out, TParam{"U", "any", instStr})
	}
	return out
}

// Form is a (visibility, kind) pair.
type Form struct {
	Vis  string
	Kind *Kind
}

func (f Form) ID() string { return f.Vis + "." + f.Kind.ID }

// Forms enumerates the valid (kind, visibility) pairs. full: every kind under the blank
// visibility too; otherwise blank is combined with three representative kinds only.
func Forms(full bool) []Form {
	var out []Form
	for _, v := range []string{"priv", "pub", "und"} {
		for _, k := range Kinds {
			out = append(out, Form{v, k})
		}
	}
	for _, k := range Kinds {
		if full || k.ID == "int" || k.ID == "duration" || k.ID == "T" {
			out = append(out, Form{"blank", k})
		}
	}
	for _, k := range EmbKinds {
		out = append(out, Form{"emb", k})
	}
	return out
}

func mkShape(family string, a Annot, forms []Form, tags []tagVariant) *Shape {
	s := &Shape{Family: family, Annot: a}
	var descs []string
	for i, fm := range forms {
		f := Field{Vis: fm.Vis, Kind: fm.Kind, Name: fieldName(fm.Vis, i, fm.Kind)}
		if tags != nil && tags[i].ID != "" {
			f.Tag = strings.ReplaceAll(tags[i].Tag, "%i", fmt.Sprint(i))
			f.TagID = tags[i].ID
		}
		s.Fields = append(s.Fields, f)
		descs = append(descs, f.desc())
	}
	s.TParams = tparamsFor(s.Fields)
	s.ID = fmt.Sprintf("%s/%df/%s", a.ID, len(forms), strings.Join(descs, "+"))
	return s
}

type tagVariant struct {
	ID  string
	Tag string
}

var (
	tagNone    = tagVariant{"", ""}
	tagJSON    = tagVariant{"json", `json:"x%i"`}
	tagFP      = tagVariant{"fp", `fp:"String.Exclude"`}
	tagJSONOE  = tagVariant{"json-omitempty", `json:"x%i,omitempty"`}
	tagJSONNoN = tagVariant{"json-noname", `json:",omitempty"`}
	tagJSONDsh = tagVariant{"json-dash", `json:"-"`}
	tagOther   = tagVariant{"other-with-json-substring", `db:"json_col%i"`}
	tagTwo     = tagVariant{"fp+json", `fp:"String.Exclude" json:"x%i"`}
)

// validPair: two-field structs must be legal Go and keep names distinct modulo first-letter case.
func validPair(a, b Field) bool {
	if a.Blank() || b.Blank() {
		return true
	}
	return !strings.EqualFold(a.Name, b.Name)
}

// ---------------------------------------------------------------- families

// OneField: every form as a one-field struct under annotation set a.
func OneField(a Annot, full bool) []*Shape {
	var out []*Shape
	for _, fm := range Forms(full) {
		out = append(out, mkShape("one-field", a, []Form{fm}, nil))
	}
	return out
}

// OneFieldTags: private and public fields of every kind with each tag variant.
func OneFieldTags(a Annot, tags []tagVariant) []*Shape {
	var out []*Shape
	for _, tg := range tags {
		for _, v := range []string{"priv", "pub"} {
			for _, k := range Kinds {
				out = append(out, mkShape("one-field-tag", a, []Form{{v, k}}, []tagVariant{tg}))
			}
		}
	}
	return out
}

// TwoField: all ordered pairs of forms.
func TwoField(a Annot) []*Shape {
	var out []*Shape
	fs := Forms(false)
	for _, x := range fs {
		for _, y := range fs {
			s := mkShape("two-field", a, []Form{x, y}, nil)
			if !validPair(s.Fields[0], s.Fields[1]) {
				continue
			}
			out = append(out, s)
		}
	}
	return out
}

// Mixed: three-field structs with a _-prefixed, blank or embedded field in each position (the
// quick tier's stand-in for the two-field family of the thorough tier).
func Mixed(a Annot) []*Shape {
	k := kindByID
	rows := [][]Form{
		{{"priv", k("int")}, {"und", k("string")}, {"pub", k("float64")}},
		{{"und", k("int")}, {"priv", k("string")}, {"blank", k("int")}},
		{{"priv", k("int")}, {"blank", k("duration")}, {"priv", k("opt-int")}},
		{{"emb", k("emb.Pub")}, {"und", k("int")}, {"priv", k("int")}},
		{{"priv", k("T")}, {"und", k("T")}, {"pub", k("slice-T")}},
		{{"pub", k("int")}, {"priv", k("int")}, {"und", k("opt-int")}},
		{{"priv", k("int")}, {"emb", k("emb.Empty")}, {"priv", k("int")}},
		{{"priv", k("int")}, {"emb", k("emb.time.Duration")}, {"pub", k("string")}},
		{{"emb", k("emb.ptr-Pub")}, {"priv", k("int")}, {"und", k("int")}},
		{{"priv", k("string")}, {"pub", k("int")}, {"emb", k("emb.Iface")}},
	}
	var out []*Shape
	for _, r := range rows {
		s := mkShape("mixed", a, r, nil)
		out = append(out, s)
	}
	return out
}

// EmbeddedPairs: every embedded form next to an ordinary field, in both positions.
func EmbeddedPairs(a Annot) []*Shape {
	var out []*Shape
	for _, k := range EmbKinds {
		s1 := mkShape("embedded-pair", a, []Form{{"priv", kindByID("int")}, {"emb", k}}, nil)
		s2 := mkShape("embedded-pair", a, []Form{{"emb", k}, {"pub", kindByID("string")}}, nil)
		out = append(out, s1, s2)
	}
	return out
}

// Grouped: `fa, fb K` in one field declaration (the second name is printed from go/types, not
// from the syntax), private and public.
func Grouped(a Annot) []*Shape {
	var out []*Shape
	for _, v := range []string{"priv", "pub"} {
		for _, k := range Kinds {
			s := mkShape("grouped", a, []Form{{v, k}, {v, k}}, nil)
			s.Fields[0].Group = true
			s.ID = fmt.Sprintf("%s/grouped/%s.%s", a.ID, v, k.ID)
			out = append(out, s)
		}
	}
	return out
}

// countKinds are the position-distinguishable field types of the field-count family.
var countKinds = []string{"int", "string", "float64", "named", "ptr-int", "slice-string", "opt-int", "duration", "array", "map", "iface"}

// FieldCount: n fields cycling through kinds and private/public visibility.
func FieldCount(a Annot, n int) *Shape {
	s := &Shape{Family: "field-count", Annot: a, ID: fmt.Sprintf("%s/count/%d", a.ID, n)}
	for i := 0; i < n; i++ {
		vis := "priv"
		if i%3 == 1 {
			vis = "pub"
		}
		k := kindByID(countKinds[i%len(countKinds)])
		s.Fields = append(s.Fields, Field{Vis: vis, Kind: k, Name: longName(vis, i)})
	}
	return s
}

// FieldCountSame: n private int fields (only the position-tagged values tell them apart).
func FieldCountSame(a Annot, n int) *Shape {
	s := &Shape{Family: "field-count", Annot: a, ID: fmt.Sprintf("%s/count-int/%d", a.ID, n)}
	for i := 0; i < n; i++ {
		s.Fields = append(s.Fields, Field{Vis: "priv", Kind: kindByID("int"), Name: longName("priv", i)})
	}
	return s
}

type genericForm struct {
	ID      string
	TParams []TParam
	Fields  []Form
}

func genericForms() []genericForm {
	T := kindByID("T")
	sT := kindByID("slice-T")
	oT := kindByID("opt-T")
	mTU := kindByID("map-TU")
	base := []Form{{"priv", T}, {"pub", sT}, {"priv", oT}}
	return []genericForm{
		{"any", []TParam{{"T", "any", instInt}}, base},
		{"comparable", []TParam{{"T", "comparable", instInt}}, base},
		{"named-method-interface", []TParam{{"T", "Iface", instImpl}}, base},
		{"named-union-interface", []TParam{{"T", "Number", instInt}}, base},
		{"imported-interface", []TParam{{"T", "fmt.Stringer", instStrT}}, base},
		{"inline-union", []TParam{{"T", "interface{ ~int | ~string }", instInt}}, base},
		{"inline-tilde", []TParam{{"T", "~int", instInt}}, base},
		{"inline-union-sugar", []TParam{{"T", "int | string", instInt}}, base},
		{"inline-method-interface", []TParam{{"T", "interface{ M() }", instImpl}}, base},
		{"inline-comparable-and-method", []TParam{{"T", "interface{ comparable; M() }", instImpl}}, base},
		{"two-params", []TParam{{"T", "comparable", instInt}, {"U", "any", instStr}}, []Form{{"priv", T}, {"priv", mTU}, {"pub", sT}}},
		{"two-params-grouped", []TParam{{"T", "comparable", instInt}, {"U", "comparable", instStr}}, []Form{{"priv", T}, {"priv", mTU}}},
		{"three-params", []TParam{{"T", "any", instInt}, {"U", "comparable", instStr}, {"V", "fmt.Stringer", instStrT}}, []Form{{"priv", T}, {"pub", sT}, {"priv", oT}}},
		{"pointer-core-type", []TParam{{"T", "any", instInt}, {"P", "interface{ *T }", instPInt}}, base},
		{"unused-param", []TParam{{"T", "any", instInt}, {"U", "any", instStr}}, []Form{{"priv", T}}},
		{"embedded-generic", []TParam{{"T", "any", instInt}}, []Form{{"priv", T}, {"emb", kindByID("emb.Box-T")}}},
	}
}

// Generics: every constraint form under annotation set a.
func Generics(a Annot) []*Shape {
	var out []*Shape
	for _, g := range genericForms() {
		s := mkShape("generic", a, g.Fields, nil)
		s.TParams = g.TParams
		s.ID = fmt.Sprintf("%s/generic/%s", a.ID, g.ID)
		out = append(out, s)
	}
	return out
}

// Names: one private int field whose name collides with an identifier the generated code uses.
// (asTuple / unapply are left out: gombok lets the getter win and emits no AsTuple / Unapply,
// which is consistent with "user-defined members are respected" and leaves no law to test.)
var specialNames = []string{"r", "v", "m", "t", "ok", "b", "err", "fp", "as", "option", "json", "http", "fmt",
	"string", "builder", "build", "asMap", "asMutable", "apply", "fromMap", "fromTuple", "name", "value", "tag", "int", "any", "len"}

func Names(a Annot) []*Shape {
	var out []*Shape
	for _, n := range specialNames {
		vis := "priv"
		if !unicode.IsLower([]rune(n)[0]) {
			vis = "pub"
		}
		s := &Shape{Family: "names", Annot: a, ID: fmt.Sprintf("%s/name/%s", a.ID, n)}
		s.Fields = []Field{{Vis: vis, Kind: kindByID("int"), Name: n}, {Vis: "priv", Kind: kindByID("string"), Name: "zz"}}
		out = append(out, s)
	}
	return out
}

// UserDefined: structs that declare by hand ONE member gombok would otherwise generate (every
// method name cmd/gombok/gombok.go looks up with Info.Method.Get / isMethodDefined / isTypeDefined
// before generating: getters, With/WithSome/WithNone, String, AsTuple, Unapply, AsMap, AsMutable,
// AsLabelled, Builder, MarshalJSON, UnmarshalJSON, the Builder type with Build / a setter /
// FromMap, the Mutable type), the pair MarshalJSON+UnmarshalJSON, and none. The hand-written
// member does what the generated one would do, so all laws stay applicable: the generated file
// must compile with the package (no duplicate), every other member must still be generated and
// the laws hold for the mix. json selects the annotation set (Value+Json for C15, else
// Value+Json+GenLabelled).
func UserDefined(a Annot) []*Shape {
	type ud struct{ id, code string }
	const marshal = "func (r %N) MarshalJSON() ([]byte, error) { return json.Marshal(r.AsMutable()) }"
	const unmarshal = "func (r *%N) UnmarshalJSON(b []byte) error {\n\tif r == nil {\n\t\treturn fmt.Errorf(\"target ptr is nil\")\n\t}\n\tm := r.AsMutable()\n\tif err := json.Unmarshal(b, &m); err != nil {\n\t\treturn err\n\t}\n\t*r = m.AsImmutable()\n\treturn nil\n}"
	uds := []ud{
		{"none", "// no user-written member"},
		{"getter", "func (r %N) Fa() int { return r.fa }"},
		{"getter-option", "func (r %N) Fc() fp.Option[int] { return r.fc }"},
		{"with", "func (r %N) WithFa(v int) %N { r.fa = v; return r }"},
		{"with-option", "func (r %N) WithFc(v fp.Option[int]) %N { r.fc = v; return r }"},
		{"with-some", "func (r %N) WithSomeFc(v int) %N { r.fc = option.Some(v); return r }"},
		{"with-none", "func (r %N) WithNoneFc() %N { r.fc = option.None[int](); return r }"},
		{"string", "func (r %N) String() string { return fmt.Sprintf(\"S(%v,%v,%v)\", r.fa, r.Fb, r.fc) }"},
		{"as-tuple", "func (r %N) AsTuple() fp.Tuple3[int, string, fp.Option[int]] { return as.Tuple3(r.fa, r.Fb, r.fc) }"},
		{"unapply", "func (r %N) Unapply() (int, string, fp.Option[int]) { return r.fa, r.Fb, r.fc }"},
		{"as-map", "func (r %N) AsMap() map[string]any { m := map[string]any{\"fa\": r.fa, \"Fb\": r.Fb}; if r.fc.IsDefined() { m[\"fc\"] = r.fc.Get() }; return m }"},
		{"as-mutable", "func (r %N) AsMutable() %NMutable { return %NMutable{Fa: r.fa, Fb: r.Fb, Fc: r.fc} }"},
		{"builder-method", "func (r %N) Builder() %NBuilder { return %NBuilder(r) }"},
		{"builder-type", "type %NBuilder %N"},
		{"builder-type-and-setter", "type %NBuilder %N\n\nfunc (r %NBuilder) Fa(v int) %NBuilder { r.fa = v; return r }"},
		{"builder-type-and-build", "type %NBuilder %N\n\nfunc (r %NBuilder) Build() %N { return %N(r) }"},
		{"builder-type-and-from-map", "type %NBuilder %N\n\nfunc (r %NBuilder) FromMap(m map[string]any) %NBuilder {\n\tif v, ok := m[\"fa\"].(int); ok { r.fa = v }\n\tif v, ok := m[\"Fb\"].(string); ok { r.Fb = v }\n\tif v, ok := m[\"fc\"].(fp.Option[int]); ok { r.fc = v } else if v, ok := m[\"fc\"].(int); ok { r.fc = option.Some(v) }\n\treturn r\n}"},
		{"mutable-type", "type %NMutable struct {\n\tFa int\n\tFb string\n\tFc fp.Option[int]\n}"},
		{"marshal-json", marshal},
		{"unmarshal-json", unmarshal},
		{"marshal-and-unmarshal-json", marshal + "\n\n" + unmarshal},
		{"pointer-receiver-method", "func (r *%N) Reset() { *r = %N{} }"},
	}
	if a.Labelled() {
		uds = append(uds, ud{"as-labelled", "func (r %N) AsLabelled() fp.Labelled3[NamedFa[int], PubNamedFb[string], NamedFc[fp.Option[int]]] {\n\treturn as.Labelled3(NamedFa[int]{r.fa, \"\"}, PubNamedFb[string]{r.Fb, \"\"}, NamedFc[fp.Option[int]]{r.fc, \"\"})\n}"})
	}
	var out []*Shape
	for _, u := range uds {
		s := mkShape("user-defined", a, []Form{{"priv", kindByID("int")}, {"pub", kindByID("string")}, {"priv", kindByID("opt-int")}}, nil)
		if u.id == "mutable-type" {
			if a.Json() && !a.Labelled() {
				continue // a user-written Mutable type carries no json tags: outside the C15 laws
			}
			s.Annot = AnnVL
		}
		s.User = u.code
		s.UserID = u.id
		s.ID = fmt.Sprintf("%s/user-defined/%s", s.Annot.ID, u.id)
		out = append(out, s)
	}
	return out
}

// CollidePkgs are the names of the scratch sub-packages scratchmod/x/<name>, each declaring
// `type Level int`. option, as, fp, fmt, json and http are the packages gombok's value generator
// imports into the generated file (read off NewImportPackage in cmd/gombok/gombok.go); seq, hlist
// and product are imported by the derive generator only and serve as controls here.
var CollidePkgs = []string{"option", "as", "fp", "fmt", "json", "http", "seq", "hlist", "product", "image"}

func collideKind(pkg string, emb bool) *Kind {
	k := &Kind{ID: "x-" + pkg, Type: pkg + ".Level", Imports: []string{"scratchmod/x/" + pkg}, Collide: pkg,
		Vals: simple("x"+pkg+".Level(%[1]d)", "x"+pkg+".Level(%[2]d)"), Omit: "no", JWrong: `"zz"`}
	if emb {
		k.Emb = true
		k.EmbName = "Level"
	}
	return k
}

// Collide: a field whose named type comes from a user package that is NAMED like a package the
// generated code imports, next to a companion Option field that forces the helper packages in
// (with the Value sets also fmt/as/fp for String/AsTuple, with Json also encoding/json and
// net/http), in both field orders, under every visibility; plus one struct that uses all of the
// colliding packages at once. gombok keeps one import table per generated file, so what a struct
// gets depends on the structs before it: every shape of this family is therefore run in a scratch
// package of its own (Pack gives the collide-* families a package size of 1).
func Collide(thorough bool) []*Shape {
	var out []*Shape
	valueSets := []Annot{AnnVJL} // Value+Json+GenLabelled generates a superset of what Value does
	if thorough {
		valueSets = []Annot{AnnV, AnnVJL}
	}
	opt := kindByID("opt-int")
	add := func(fam string, a Annot, forms ...Form) {
		out = append(out, mkShape(fam, a, forms, nil))
	}
	real := []string{"option", "as", "fp", "fmt", "json", "http"}
	for _, pkg := range real {
		for _, a := range valueSets {
			for _, vis := range []string{"priv", "pub", "und", "emb"} {
				x := Form{vis, collideKind(pkg, vis == "emb")}
				add("collide-"+pkg, a, x, Form{"priv", opt})
				add("collide-"+pkg, a, Form{"priv", opt}, x)
			}
		}
	}
	for _, pkg := range []string{"option", "fp", "as"} {
		for _, vis := range []string{"priv", "pub"} {
			x := Form{vis, collideKind(pkg, false)}
			add("collide-"+pkg, AnnB, x, Form{"priv", opt})
			add("collide-"+pkg, AnnB, Form{"priv", opt}, x)
			if pkg != "as" {
				add("collide-"+pkg, AnnAAC, x, Form{"priv", opt})
			}
			if pkg == "option" {
				add("collide-"+pkg, AnnGW, x, Form{"priv", opt})
				add("collide-"+pkg, AnnGW, Form{"priv", opt}, x)
			}
		}
	}
	// controls: names only the derive generator imports
	for _, pkg := range []string{"seq", "hlist", "product"} {
		for _, vis := range []string{"priv", "pub"} {
			add("collide-"+pkg, AnnVJL, Form{vis, collideKind(pkg, false)}, Form{"priv", opt})
		}
	}
	// two files of one package that use the same package name for different packages
	cross := func(id string, main []Form, extra string) {
		s := mkShape("collide-cross-file", AnnVJL, main, nil)
		s.ID = "vjl/cross-file/" + id
		s.ExtraFile = extra
		out = append(out, s)
	}
	cross("fp-then-user-fp", []Form{{"priv", opt}},
		"import (\n\tcfp \"github.com/csgura/fp\"\n\t\"scratchmod/x/fp\"\n)\n\n// @fp.Value\ntype %NX struct {\n\tfb fp.Level\n\tfc cfp.Option[int]\n}\n")
	cross("user-fp-then-fp", []Form{{"priv", collideKind("fp", false)}, {"priv", opt}},
		"import \"github.com/csgura/fp\"\n\n// @fp.Value\ntype %NX struct {\n\tfc fp.Option[int]\n}\n")
	cross("image-then-user-image", []Form{{"emb", kindByID("emb.image.Point")}, {"priv", opt}},
		"import \"scratchmod/x/image\"\n\n// @fp.Value\ntype %NX struct {\n\tFb image.Level\n}\n")
	cross("user-image-then-image", []Form{{"pub", collideKind("image", false)}, {"priv", opt}},
		"import \"image\"\n\n// @fp.Value\ntype %NX struct {\n\tfb image.Point\n}\n")
	for _, a := range valueSets {
		for _, vis := range []string{"priv", "pub"} {
			var forms []Form
			for _, pkg := range []string{"option", "as", "fmt", "json", "http"} {
				forms = append(forms, Form{vis, collideKind(pkg, false)})
			}
			add("collide-all", a, append([]Form{{"priv", opt}}, forms...)...)
			add("collide-all", a, append(append([]Form{}, forms...), Form{"priv", opt})...)
		}
	}
	return out
}

// SortShapes orders shapes by id (stable, independent of enumeration order).
func SortShapes(s []*Shape) {
	sort.SliceStable(s, func(i, j int) bool { return s[i].ID < s[j].ID })
}

// ---------------------------------------------------------------- declaration source

// TypeParamDecl renders "[T any, U comparable]" or "".
func (s *Shape) TypeParamDecl() string {
	if len(s.TParams) == 0 {
		return ""
	}
	var ps []string
	for _, p := range s.TParams {
		ps = append(ps, p.Name+" "+p.Constraint)
	}
	return "[" + strings.Join(ps, ", ") + "]"
}

// InstArgs renders "[int, string]" or "".
func (s *Shape) InstArgs() string {
	if len(s.TParams) == 0 {
		return ""
	}
	var ps []string
	for _, p := range s.TParams {
		ps = append(ps, p.Inst.Type)
	}
	return "[" + strings.Join(ps, ", ") + "]"
}

// StructDecl renders the annotated struct declaration alone (what FINDINGS quote).
func (s *Shape) StructDecl(name string) string {
	var b strings.Builder
	for _, l := range s.Annot.Lines {
		fmt.Fprintf(&b, "// %s\n", l)
	}
	fmt.Fprintf(&b, "type %s%s struct {\n", name, s.TypeParamDecl())
	for i := 0; i < len(s.Fields); i++ {
		f := s.Fields[i]
		tag := ""
		if f.Tag != "" {
			tag = " `" + f.Tag + "`"
		}
		switch {
		case f.Kind.Emb:
			fmt.Fprintf(&b, "\t%s%s\n", s.declType(f), tag)
		case f.Group && i+1 < len(s.Fields):
			fmt.Fprintf(&b, "\t%s, %s %s%s\n", f.Name, s.Fields[i+1].Name, s.declType(f), tag)
			i++
		default:
			fmt.Fprintf(&b, "\t%s %s%s\n", f.Name, s.declType(f), tag)
		}
	}
	b.WriteString("}\n")
	if s.User != "" {
		b.WriteString("\n" + strings.ReplaceAll(s.User, "%N", name) + "\n")
	}
	return b.String()
}

// collides reports whether a field's type comes from a user package named pkg.
func (s *Shape) collides(pkg string) bool {
	for _, f := range s.Fields {
		if f.Kind.Collide == pkg {
			return true
		}
	}
	return false
}

// declType is the field's type as written in the declaration: when the struct also uses a user
// package called fp, the user has to import github.com/csgura/fp under another name (cfp).
func (s *Shape) declType(f Field) string {
	if f.Kind.Collide == "" && s.collides("fp") {
		return strings.ReplaceAll(f.Kind.Type, "fp.", "cfp.")
	}
	return f.Kind.Type
}

// DeclFile renders the source file holding the declaration.
func (s *Shape) DeclFile(pkg, name string) string {
	imps := map[string]bool{}
	for _, f := range s.Fields {
		for _, im := range f.Kind.Imports {
			imps[im] = true
		}
	}
	for _, p := range s.TParams {
		if strings.Contains(p.Constraint, "fmt.") {
			imps["fmt"] = true
		}
	}
	if s.User != "" {
		if strings.Contains(s.User, "option.") {
			imps["github.com/csgura/fp/option"] = true
		}
		if strings.Contains(s.User, "as.") {
			imps["github.com/csgura/fp/as"] = true
		}
		if strings.Contains(s.User, "fp.") {
			imps[fpImp] = true
		}
		if strings.Contains(s.User, "json.") {
			imps["encoding/json"] = true
		}
		if strings.Contains(s.User, "fmt.") {
			imps["fmt"] = true
		}
	}
	var list []string
	for im := range imps {
		list = append(list, im)
	}
	sort.Strings(list)
	var b strings.Builder
	fmt.Fprintf(&b, "package %s\n\n", pkg)
	if len(list) > 0 {
		b.WriteString("import (\n")
		for _, im := range list {
			if im == fpImp && s.collides("fp") {
				fmt.Fprintf(&b, "\tcfp %q\n", im)
				continue
			}
			fmt.Fprintf(&b, "\t%q\n", im)
		}
		b.WriteString(")\n\n")
	}
	fmt.Fprintf(&b, "// shape %s\n\n", s.ID)
	b.WriteString(s.StructDecl(name))
	return b.String()
}

// ExtraDeclFile renders the second source file of a shape ("" if it has none).
func (s *Shape) ExtraDeclFile(pkg, name string) string {
	if s.ExtraFile == "" {
		return ""
	}
	return "package " + pkg + "\n\n" + strings.ReplaceAll(s.ExtraFile, "%N", name)
}

// CommonFile declares the helper types every scratch package shares (no annotations).
func CommonFile(pkg string) string {
	return "package " + pkg + `

type Pub struct{ X int }
type inner struct{ y int }
type myint int
type mylist []int
type Iface interface{ M() }
type iface interface{ M() }
type Empty struct{}
type Box[T any] struct{ V T }
type Number interface{ ~int | ~float64 }

type implM int

func (implM) M() {}

type strT string

func (s strT) String() string { return string(s) }
`
}
