package gombokrun

import (
	"fmt"
	"strings"
)

// Members says which generated members the law test of a shape calls. It is derived from the
// annotation set the way README / gombok document it:
//
//	@fp.Value (with at least one field that is not _-prefixed): getters + With (+WithSome/WithNone)
//	  for private fields, AsTuple (< 22 fields), Unapply, AsMap, Builder type (Builder(), Build(),
//	  setters for private fields, Some/None setters, FromTuple (< 22), Apply, FromMap), Mutable
//	  type (AsMutable, AsImmutable); with @fp.GenLabelled also AsLabelled / FromLabelled (< 22).
//	@fp.Getter / @fp.With: getters / With methods for private fields.
//	@fp.Builder: the Builder type and its methods. @fp.AllArgsConstructor: New<Name>.
type Members struct {
	Getter, With, Builder, Tuple, FromTuple, Unapply, Apply, AsMap, FromMap, Mutable, AsLabelled, FromLabelled, New, Json bool
}

func (s *Shape) Members() Members {
	n := s.NApply()
	a := s.Annot
	val := a.Value() && n > 0
	m := Members{}
	m.Getter = val || a.has("@fp.Getter")
	m.With = val || a.has("@fp.With")
	m.Builder = val || a.has("@fp.Builder")
	m.Tuple = val && n < 22
	m.FromTuple = m.Builder && n < 22 && n > 0
	m.Unapply = val
	m.Apply = m.Builder && n > 0
	m.AsMap = val
	m.FromMap = m.Builder
	m.Mutable = val
	m.AsLabelled = val && a.Labelled() && n < 22
	m.FromLabelled = m.Builder && a.Labelled() && n < 22 && n > 0
	m.New = a.has("@fp.AllArgsConstructor")
	m.Json = val && a.Json()
	return m
}

func upper(s string) string { return strings.ToUpper(s[:1]) + s[1:] }

// readable fields: everything except the blank field.
func (s *Shape) readable() []int {
	var out []int
	for i, f := range s.Fields {
		if !f.Blank() {
			out = append(out, i)
		}
	}
	return out
}

const lawImports = `import (
	"fmt"
	"image"
	"time"

	"github.com/csgura/fp"
	"github.com/csgura/fp/as"
	"github.com/csgura/fp/option"

	xas "scratchmod/x/as"
	xfmt "scratchmod/x/fmt"
	xfp "scratchmod/x/fp"
	xhlist "scratchmod/x/hlist"
	xhttp "scratchmod/x/http"
	ximage "scratchmod/x/image"
	xjson "scratchmod/x/json"
	xoption "scratchmod/x/option"
	xproduct "scratchmod/x/product"
	xseq "scratchmod/x/seq"
)

var _ = []any{xas.Level(0), xfmt.Level(0), xfp.Level(0), xhlist.Level(0), xhttp.Level(0), ximage.Level(0), xjson.Level(0), xoption.Level(0), xproduct.Level(0), xseq.Level(0)}
var _ fmt.Stringer
var _ image.Point
var _ time.Duration
var _ fp.Unit
var _ = as.Tuple1[int]
var _ = option.None[int]
`

// pkExpr picks the value of field position i selected by bit ri of b.
func pkExpr(ri int, vals [2]string) string {
	return fmt.Sprintf("pk(b, %d, %s, %s)", ri, vals[0], vals[1])
}

// LawFile renders the law test of one shape (C07 laws).
func (s *Shape) LawFile(pkg, name string) string {
	env := s.Env()
	m := s.Members()
	N := name + s.InstArgs()
	NM := name + "Mutable" + s.InstArgs()
	rd := s.readable()
	ridx := map[int]int{} // field index -> readable index
	for ri, i := range rd {
		ridx[i] = ri
	}
	vals := make([][2]string, len(s.Fields))
	for i, f := range s.Fields {
		vals[i] = f.Kind.Vals(i, env)
	}
	var b strings.Builder
	fmt.Fprintf(&b, "package %s\n\n%s\n", pkg, lawImports)
	if m.Json {
		// README 3.2: @fp.Json gives the struct MarshalJSON and UnmarshalJSON (generated or, if the
		// user wrote one, the user's); their behaviour is C15's subject, their presence is checked here
		fmt.Fprintf(&b, "var _ interface{ MarshalJSON() ([]byte, error) } = %s{}\nvar _ interface{ UnmarshalJSON([]byte) error } = (*%s)(nil)\n\n", N, N)
	}
	fmt.Fprintf(&b, "func init() {\n\tregister(&spec{\n\t\tid: %q,\n\t\tname: %q,\n", s.ID, name)
	// fields
	b.WriteString("\t\tfields: []fieldSpec{\n")
	for _, i := range rd {
		f := s.Fields[i]
		ri := ridx[i]
		fmt.Fprintf(&b, "\t\t\t{name: %q, tag: %q, apply: %v, mapOK: %v, isOpt: %v,\n", f.Name, f.Tag, f.Apply(), !f.Kind.NoMap, f.Kind.Opt)
		fmt.Fprintf(&b, "\t\t\t\tvals: [2]any{%s, %s},\n", vals[i][0], vals[i][1])
		un := upper(f.Name)
		priv := f.Private()
		sel := func(ve [2]string) string { return fmt.Sprintf("pk(uint64(b)<<%d, %d, %s, %s)", ri, ri, ve[0], ve[1]) }
		if priv && m.Getter {
			fmt.Fprintf(&b, "\t\t\t\tget: func(x any) any { return x.(%s).%s() },\n", N, un)
		}
		if priv && m.With {
			fmt.Fprintf(&b, "\t\t\t\twith: func(x any, b int) any { return x.(%s).With%s(%s) },\n", N, un, sel(vals[i]))
		}
		if priv && m.Builder {
			fmt.Fprintf(&b, "\t\t\t\tbset: func(x any, b int) any { return x.(%s).Builder().%s(%s).Build() },\n", N, un, sel(vals[i]))
		}
		if f.Kind.Opt {
			ov := f.Kind.OptVals(i, env)
			el := f.Kind.OptElem(env)
			fmt.Fprintf(&b, "\t\t\t\tsomeVals: [2]any{option.Some[%s](%s), option.Some[%s](%s)}, noneVal: option.None[%s](),\n", el, ov[0], el, ov[1], el)
			if priv && m.With {
				fmt.Fprintf(&b, "\t\t\t\twithSome: func(x any, b int) any { return x.(%s).WithSome%s(%s) },\n", N, un, sel(ov))
				fmt.Fprintf(&b, "\t\t\t\twithNone: func(x any) any { return x.(%s).WithNone%s() },\n", N, un)
			}
			if priv && m.Builder {
				fmt.Fprintf(&b, "\t\t\t\tbsome: func(x any, b int) any { return x.(%s).Builder().Some%s(%s).Build() },\n", N, un, sel(ov))
				fmt.Fprintf(&b, "\t\t\t\tbnone: func(x any) any { return x.(%s).Builder().None%s().Build() },\n", N, un)
			}
		}
		b.WriteString("\t\t\t},\n")
	}
	b.WriteString("\t\t},\n")
	// mk
	var lit []string
	for _, i := range rd {
		lit = append(lit, fmt.Sprintf("%s: %s", s.Fields[i].Name, pkExpr(ridx[i], vals[i])))
	}
	fmt.Fprintf(&b, "\t\tmk: func(b uint64) any { return %s{%s} },\n", N, strings.Join(lit, ", "))
	// read
	var sels []string
	for _, i := range rd {
		sels = append(sels, "s."+s.Fields[i].Name)
	}
	fmt.Fprintf(&b, "\t\tread: func(x any) []any { s := x.(%s); _ = s; return []any{%s} },\n", N, strings.Join(sels, ", "))
	// apply-field value list
	var applyArgs, applyIdx []string
	for _, i := range rd {
		if s.Fields[i].Apply() {
			applyArgs = append(applyArgs, pkExpr(ridx[i], vals[i]))
			applyIdx = append(applyIdx, fmt.Sprint(ridx[i]))
		}
	}
	nA := len(applyArgs)
	if m.Builder {
		fmt.Fprintf(&b, "\t\tbuilderID: func(x any) any { return x.(%s).Builder().Build() },\n", N)
	}
	if m.Tuple {
		fmt.Fprintf(&b, "\t\tasTuple: func(x any) any { return x.(%s).AsTuple() },\n", N)
		if m.FromTuple {
			fmt.Fprintf(&b, "\t\tfromTuple: func(base, x any) any { return base.(%s).Builder().FromTuple(x.(%s).AsTuple()).Build() },\n", N, N)
		}
	}
	if m.FromTuple {
		fmt.Fprintf(&b, "\t\tfromTupleV: func(base any, b uint64) any { return base.(%s).Builder().FromTuple(as.Tuple%d(%s)).Build() },\n", N, nA, strings.Join(applyArgs, ", "))
	}
	if m.Unapply {
		var vs []string
		for k := 0; k < nA; k++ {
			vs = append(vs, fmt.Sprintf("a%d", k))
		}
		fmt.Fprintf(&b, "\t\tunapply: func(x any) []any { %s := x.(%s).Unapply(); return []any{%s} },\n", strings.Join(vs, ", "), N, strings.Join(vs, ", "))
		if m.Apply {
			fmt.Fprintf(&b, "\t\tapply: func(base, x any) any { return base.(%s).Builder().Apply(x.(%s).Unapply()).Build() },\n", N, N)
		}
	}
	if m.Apply {
		fmt.Fprintf(&b, "\t\tapplyV: func(base any, b uint64) any { return base.(%s).Builder().Apply(%s).Build() },\n", N, strings.Join(applyArgs, ", "))
	}
	if m.Mutable {
		var ms, ml []string
		for _, i := range rd {
			f := s.Fields[i]
			if !f.Apply() {
				continue
			}
			mn := upper(f.Name)
			if f.Kind.Emb {
				mn = f.Name // the Mutable type embeds the same type
			}
			ms = append(ms, "mm."+mn)
			ml = append(ml, fmt.Sprintf("%s: %s", mn, pkExpr(ridx[i], vals[i])))
		}
		fmt.Fprintf(&b, "\t\tasMutable: func(x any) any { return x.(%s).AsMutable() },\n", N)
		fmt.Fprintf(&b, "\t\treadMutable: func(m any) []any { mm := m.(%s); _ = mm; return []any{%s} },\n", NM, strings.Join(ms, ", "))
		fmt.Fprintf(&b, "\t\tasImmutable: func(m any) any { return m.(%s).AsImmutable() },\n", NM)
		fmt.Fprintf(&b, "\t\tmkMutable: func(b uint64) any { return %s{%s} },\n", NM, strings.Join(ml, ", "))
	}
	if m.AsLabelled {
		fmt.Fprintf(&b, "\t\tasLabelled: func(x any) any { return x.(%s).AsLabelled() },\n", N)
		if m.FromLabelled {
			fmt.Fprintf(&b, "\t\tfromLabelled: func(base, x any) any { return base.(%s).Builder().FromLabelled(x.(%s).AsLabelled()).Build() },\n", N, N)
			var st []string
			for k, a := range applyArgs {
				st = append(st, fmt.Sprintf("l.I%d = l.I%d.WithValue(%s)", k+1, k+1, a))
			}
			fmt.Fprintf(&b, "\t\tfromLabelledV: func(base any, b uint64) any { l := base.(%s).AsLabelled(); %s; return base.(%s).Builder().FromLabelled(l).Build() },\n", N, strings.Join(st, "; "), N)
		}
	}
	if m.AsMap {
		fmt.Fprintf(&b, "\t\tasMap: func(x any) map[string]any { return x.(%s).AsMap() },\n", N)
	}
	if m.FromMap {
		fmt.Fprintf(&b, "\t\tfromMap: func(base any, m map[string]any) any { return base.(%s).Builder().FromMap(m).Build() },\n", N)
	}
	if m.New {
		fmt.Fprintf(&b, "\t\tnewAll: func(b uint64) any { return New%s%s(%s) },\n", name, s.InstArgs(), strings.Join(applyArgs, ", "))
	}
	fmt.Fprintf(&b, "\t\tapplyIdx: []int{%s},\n", strings.Join(applyIdx, ", "))
	fmt.Fprintf(&b, "\t\tzero: func() any { return %s{} },\n", N)
	b.WriteString("\t})\n}\n")
	return b.String()
}
