package gombokrun

import (
	"fmt"
	"reflect"
	"regexp"
	"strings"
)

var tpRe = map[string]*regexp.Regexp{}

// InstType substitutes the instantiation for the type parameters in a declared type expression.
func (s *Shape) InstType(expr string) string {
	for _, p := range s.TParams {
		re := tpRe[p.Name]
		if re == nil {
			re = regexp.MustCompile(`\b` + p.Name + `\b`)
			tpRe[p.Name] = re
		}
		expr = re.ReplaceAllString(expr, p.Inst.Type)
	}
	return expr
}

// jsonExpect describes what the statement of C15 lets one expect of a field of the Mutable twin.
type jsonExpect struct {
	Visible bool   // encoded at all
	Name    string // JSON key
	TwinTag string // tag of the independently declared twin
	Ambig   bool   // omitempty is not pinned down by the statement: compare non-empty values only
}

func (s *Shape) jsonExpect(f Field) jsonExpect {
	if strings.HasPrefix(f.Name, "_") {
		return jsonExpect{}
	}
	omit := f.Kind.Omit
	if omit == "T" {
		omit = s.Env().t("T").Omit
	}
	pub := upper(f.Name)
	if jt, ok := reflect.StructTag(f.Tag).Lookup("json"); ok {
		name := strings.Split(jt, ",")[0]
		if jt == "-" {
			return jsonExpect{Visible: false, TwinTag: f.Tag}
		}
		if name == "" {
			name = pub
		}
		return jsonExpect{Visible: true, Name: name, TwinTag: f.Tag}
	}
	tag := f.Tag
	if tag != "" {
		tag += " "
	}
	if omit == "no" {
		tag += fmt.Sprintf(`json:"%s"`, f.Name)
	} else {
		tag += fmt.Sprintf(`json:"%s,omitempty"`, f.Name)
	}
	return jsonExpect{Visible: true, Name: f.Name, TwinTag: tag, Ambig: omit == "ambig"}
}

func jvals(f Field, i int, e Env) [2]string {
	if f.Kind.JVals != nil {
		return f.Kind.JVals(i, e)
	}
	return f.Kind.Vals(i, e)
}

const jsonLawImports = `import (
	"encoding/json"
	"fmt"
	"image"
	"time"

	"github.com/csgura/fp"
	"github.com/csgura/fp/as"
	"github.com/csgura/fp/option"
)

var _ fmt.Stringer
var _ image.Point
var _ time.Duration
var _ fp.Unit
var _ = as.Tuple1[int]
var _ = option.None[int]
var _ = json.Valid
`

// JSONLawFile renders the C15 law test of one @fp.Json shape.
func (s *Shape) JSONLawFile(pkg, name string) string {
	var b strings.Builder
	fmt.Fprintf(&b, "package %s\n\n%s\n", pkg, jsonLawImports)
	if !s.Members().Json {
		return b.String()
	}
	env := s.Env()
	N := name + s.InstArgs()
	rd := s.readable()
	ridx := map[int]int{}
	for ri, i := range rd {
		ridx[i] = ri
	}
	vals := make([][2]string, len(s.Fields))
	for i, f := range s.Fields {
		vals[i] = jvals(f, i, env)
	}
	twin := !s.HasEmbedded()
	if twin {
		fmt.Fprintf(&b, "type twin%s struct {\n", name)
		for _, i := range rd {
			f := s.Fields[i]
			je := s.jsonExpect(f)
			if strings.HasPrefix(f.Name, "_") {
				continue
			}
			fmt.Fprintf(&b, "\t%s %s `%s`\n", upper(f.Name), s.InstType(f.Kind.Type), je.TwinTag)
		}
		b.WriteString("}\n\n")
	}
	fmt.Fprintf(&b, "func init() {\n\tregisterJ(&jspec{\n\t\tid: %q,\n\t\tname: %q,\n\t\tfields: []jfield{\n", s.ID, name)
	for _, i := range rd {
		f := s.Fields[i]
		je := s.jsonExpect(f)
		wrong := f.Kind.JWrong
		// an empty non-nil slice / map is dropped by omitempty: the round trip is demanded of it only
		// under a tag that does not carry omitempty
		lossy := f.Kind.JLossy
		if je.Visible && strings.Contains(je.TwinTag, ",omitempty") {
			for b := 0; b < 2; b++ {
				lossy[b] = lossy[b] || f.Kind.JEmptyNonNil[b]
			}
		}
		fmt.Fprintf(&b, "\t\t\t{name: %q, jsonName: %q, visible: %v, ambig: %v, fails: %v, empty: [2]bool{%v, %v}, lossy: [2]bool{%v, %v}, wrong: %q,\n\t\t\t\tvals: [2]any{%s, %s}},\n",
			f.Name, je.Name, je.Visible, je.Ambig, f.Kind.JFail, f.Kind.JEmpty[0], f.Kind.JEmpty[1], lossy[0], lossy[1], wrong, vals[i][0], vals[i][1])
	}
	b.WriteString("\t\t},\n")
	var lit, sels, tl []string
	for _, i := range rd {
		f := s.Fields[i]
		lit = append(lit, fmt.Sprintf("%s: %s", f.Name, pkExpr(ridx[i], vals[i])))
		sels = append(sels, "s."+f.Name)
		if !strings.HasPrefix(f.Name, "_") {
			tl = append(tl, fmt.Sprintf("%s: %s", upper(f.Name), pkExpr(ridx[i], vals[i])))
		}
	}
	fmt.Fprintf(&b, "\t\tmk: func(b uint64) any { return %s{%s} },\n", N, strings.Join(lit, ", "))
	fmt.Fprintf(&b, "\t\tread: func(x any) []any { s := x.(%s); _ = s; return []any{%s} },\n", N, strings.Join(sels, ", "))
	fmt.Fprintf(&b, "\t\tzero: func() any { return %s{} },\n", N)
	fmt.Fprintf(&b, "\t\tasMutable: func(x any) any { return x.(%s).AsMutable() },\n", N)
	var ml []string
	for _, i := range rd {
		f := s.Fields[i]
		if !f.Apply() {
			continue
		}
		mn := upper(f.Name)
		if f.Kind.Emb {
			mn = f.Name
		}
		ml = append(ml, fmt.Sprintf("%s: %s", mn, pkExpr(ridx[i], vals[i])))
	}
	fmt.Fprintf(&b, "\t\tmkMutable: func(b uint64) any { return %sMutable%s{%s} },\n", name, s.InstArgs(), strings.Join(ml, ", "))
	if twin {
		fmt.Fprintf(&b, "\t\ttwin: func(b uint64) any { return twin%s{%s} },\n", name, strings.Join(tl, ", "))
	}
	fmt.Fprintf(&b, "\t\tptrOf: func(x any) any { t := x.(%s); return &t },\n", N)
	fmt.Fprintf(&b, "\t\tsliceOf: func(x any) any { return []%s{x.(%s)} },\n", N, N)
	fmt.Fprintf(&b, "\t\tunmarshal: func(doc []byte, base any) (any, error) { t := base.(%s); err := json.Unmarshal(doc, &t); return t, err },\n", N)
	fmt.Fprintf(&b, "\t\tunmarshalDirect: func(doc []byte, base any) (any, error) { t := base.(%s); err := (&t).UnmarshalJSON(doc); return t, err },\n", N)
	fmt.Fprintf(&b, "\t\tnilReceiver: func(doc []byte) error { return (*%s)(nil).UnmarshalJSON(doc) },\n", N)
	b.WriteString("\t})\n}\n")
	return b.String()
}

// JSONRuntimeFile is the runtime of the C15 struct laws (same output protocol as RuntimeFile).
const JSONRuntimeFile = `package main

import (
	"bufio"
	"bytes"
	"encoding/json"
	"errors"
	"fmt"
	"os"
	"reflect"
	"sort"
	"strings"
)

func pk[T any](b uint64, i int, v0, v1 T) T {
	if b>>uint(i)&1 == 0 {
		return v0
	}
	return v1
}

func ptr(n int) *int { return &n }

func pmyint(n int) *myint { v := myint(n); return &v }

func fnA(x int) int { return x + 1 }
func fnB(x int) int { return x + 2 }
func vfnA(xs ...int) {}
func vfnB(xs ...int) { _ = xs }

var chA = make(chan int, 1)
var chB = make(chan int, 2)

var errA = errors.New("error A")
var errB = errors.New("error B")

type jfield struct {
	name     string
	jsonName string
	visible  bool
	ambig    bool
	fails    bool
	empty    [2]bool
	lossy    [2]bool
	wrong    string
	vals     [2]any
}

type jspec struct {
	id              string
	name            string
	fields          []jfield
	mk              func(b uint64) any
	read            func(x any) []any
	zero            func() any
	asMutable       func(x any) any
	mkMutable       func(b uint64) any
	twin            func(b uint64) any
	ptrOf           func(x any) any
	sliceOf         func(x any) any
	unmarshal       func(doc []byte, base any) (any, error)
	unmarshalDirect func(doc []byte, base any) (any, error)
	nilReceiver     func(doc []byte) error
}

var jspecs []*jspec

func registerJ(s *jspec) { jspecs = append(jspecs, s) }

type lawCtx struct {
	evals int
	fails map[string]string
	seen  map[string]int
}

func (c *lawCtx) check(law string, ok bool, format string, args ...any) {
	c.evals++
	c.seen[law]++
	if !ok {
		if _, dup := c.fails[law]; !dup {
			c.fails[law] = fmt.Sprintf(format, args...)
		}
	}
}

func (c *lawCtx) note(law string) { c.seen[law]++ }

func eqv(a, b any) bool {
	va, vb := reflect.ValueOf(a), reflect.ValueOf(b)
	if va.IsValid() && vb.IsValid() && va.Kind() == reflect.Func && vb.Kind() == reflect.Func {
		return va.Type() == vb.Type() && va.Pointer() == vb.Pointer()
	}
	return reflect.DeepEqual(a, b)
}

func eqAll(a, b []any) bool {
	if len(a) != len(b) {
		return false
	}
	for i := range a {
		if !eqv(a[i], b[i]) {
			return false
		}
	}
	return true
}

func show(v any) string {
	s := fmt.Sprintf("%#v", v)
	if len(s) > 300 {
		s = s[:300] + "..."
	}
	return strings.ReplaceAll(strings.ReplaceAll(s, "\n", " "), "\t", " ")
}

func showAll(vs []any) string {
	var p []string
	for _, v := range vs {
		p = append(p, show(v))
	}
	return "[" + strings.Join(p, " | ") + "]"
}

func combos(n int) []uint64 {
	if n <= 6 {
		var out []uint64
		for b := uint64(0); b < 1<<uint(n); b++ {
			out = append(out, b)
		}
		return out
	}
	all := uint64(1)<<uint(n) - 1
	out := []uint64{0, all}
	for i := 0; i < n; i++ {
		out = append(out, uint64(1)<<uint(i), all^(uint64(1)<<uint(i)))
	}
	return out
}

func (sp *jspec) expected(b uint64) []any {
	out := make([]any, len(sp.fields))
	for i, f := range sp.fields {
		out[i] = f.vals[b>>uint(i)&1]
	}
	return out
}

func safeMarshal(v any) (b []byte, err error, pan any) {
	defer func() {
		if r := recover(); r != nil {
			pan = r
		}
	}()
	b, err = json.Marshal(v)
	return
}

func safeDecode(f func(doc []byte, base any) (any, error), doc []byte, base any) (t any, err error, pan any) {
	defer func() {
		if r := recover(); r != nil {
			pan = r
		}
	}()
	t, err = f(doc, base)
	return
}

func sameEnc(a []byte, aerr error, b []byte, berr error) bool {
	if (aerr == nil) != (berr == nil) {
		return false
	}
	return aerr != nil || bytes.Equal(a, b)
}

var genericBad = []string{"", " ", "[]", "[1]", "\"x\"", "5", "true", "{", "}", "{\"a\":", "{\"a\":1,}", "nul", "{} {}", "{\"a\" 1}", "[{}]", "{\"a\":{\"b\":[1,}}", "\x00", "{\"a\":\"\\u12\"}"}

// badDocs: good is the encoding of a value that differs from the decode target in every field
// ("" if it has none); a document that first sets every field and then hits an ill-typed member
// shows whether a failed decode leaks the members decoded before the error.
func (sp *jspec) badDocs(good string) []string {
	docs := append([]string(nil), genericBad...)
	if strings.HasSuffix(good, "}") && len(good) > 2 {
		for _, f := range sp.fields {
			if f.visible && f.jsonName != "" && f.wrong != "" {
				docs = append(docs, good[:len(good)-1]+fmt.Sprintf(",%q:%s}", f.jsonName, f.wrong))
			}
		}
		docs = append(docs, good[:len(good)-1], good+"x", good[:len(good)-1]+",}")
	}
	for _, f := range sp.fields {
		if !f.visible || f.jsonName == "" {
			continue
		}
		for _, w := range []string{f.wrong, "{\"q\":1}", "[true]", "false"} {
			if w == "" {
				continue
			}
			docs = append(docs, fmt.Sprintf("{%q:%s}", f.jsonName, w))
			// a good-looking first member followed by the ill-typed one, and a truncated variant
			docs = append(docs, fmt.Sprintf("{\"zzz\":1,%q:%s}", f.jsonName, w), fmt.Sprintf("{%q:%s", f.jsonName, w))
		}
	}
	return docs
}

func runJSpec(c *lawCtx, sp *jspec) {
	c.check("compiles", true, "")
	n := len(sp.fields)
	all := uint64(1)<<uint(n) - 1
	canFail := false
	for _, f := range sp.fields {
		if f.fails && f.visible {
			canFail = true
		}
	}
	for _, bits := range combos(n) {
		x := sp.mk(bits)
		exp := sp.expected(bits)
		desc := fmt.Sprintf("x=%s", show(x))
		if got := sp.read(x); !eqAll(got, exp) {
			c.check("harness-self-check", false, "the composite literal does not hold the intended values: %s want %s", showAll(got), showAll(exp))
			return
		}
		enc, err, pan := safeMarshal(x)
		c.check("Marshal/no-panic", pan == nil, "%s: json.Marshal panicked: %v", desc, pan)
		if !canFail {
			c.check("Marshal/no-error", err == nil, "%s: json.Marshal failed: %v", desc, err)
		}
		menc, merr, mpan := safeMarshal(sp.asMutable(x))
		c.check("Marshal/AsMutable", mpan == nil && sameEnc(enc, err, menc, merr), "%s: json.Marshal(x) = %s (err %v), json.Marshal(x.AsMutable()) = %s (err %v)", desc, enc, err, menc, merr)
		// the Mutable value written out by hand with the same field values (embedded fields included)
		lenc, lerr, lpan := safeMarshal(sp.mkMutable(bits))
		c.check("Marshal/Mutable-literal", lpan == nil && sameEnc(enc, err, lenc, lerr), "%s: json.Marshal(x) = %s (err %v), json.Marshal(Mutable{the same field values}) = %s (err %v)", desc, enc, err, lenc, lerr)
		penc, perr, ppan := safeMarshal(sp.ptrOf(x))
		c.check("Marshal/pointer", ppan == nil && sameEnc(enc, err, penc, perr), "%s: json.Marshal(x) = %s (err %v), json.Marshal(&x) = %s (err %v)", desc, enc, err, penc, perr)
		if sp.twin != nil {
			skip := false
			for i, f := range sp.fields {
				if f.visible && f.ambig && f.empty[bits>>uint(i)&1] {
					skip = true // the statement does not pin down omitempty for this field type
				}
			}
			if !skip {
				tenc, terr, _ := safeMarshal(sp.twin(bits))
				c.check("Marshal/twin", sameEnc(enc, err, tenc, terr), "%s: json.Marshal(x) = %s (err %v); the public twin with the documented tags encodes as %s (err %v)", desc, enc, err, tenc, terr)
			} else {
				c.note("Marshal/twin-skipped-ambiguous-omitempty")
			}
		}
		lossy := false
		for i, f := range sp.fields {
			if f.visible && f.lossy[bits>>uint(i)&1] {
				lossy = true
			}
		}
		if err == nil && pan == nil && lossy {
			c.note("RoundTrip/skipped-value-not-faithfully-encodable")
		}
		if err == nil && pan == nil && !lossy {
			senc, serr, _ := safeMarshal(sp.sliceOf(x))
			c.check("Marshal/in-slice", serr == nil && string(senc) == "["+string(enc)+"]", "%s: json.Marshal([]S{x}) = %s (err %v), json.Marshal(x) = %s", desc, senc, serr, enc)
			vis := func(v []any) []any {
				var w []any
				for i, f := range sp.fields {
					if f.visible {
						w = append(w, v[i])
					}
				}
				return w
			}
			for _, dec := range []struct {
				name string
				f    func(doc []byte, base any) (any, error)
			}{{"json.Unmarshal", sp.unmarshal}, {"UnmarshalJSON", sp.unmarshalDirect}} {
				t, uerr, upan := safeDecode(dec.f, enc, sp.zero())
				c.check("RoundTrip/no-panic", upan == nil, "%s: %s of %s panicked: %v", desc, dec.name, enc, upan)
				if upan != nil {
					continue
				}
				c.check("RoundTrip", uerr == nil && eqAll(vis(sp.read(t)), vis(exp)), "%s: %s(Marshal(x)) with Marshal(x) = %s gives %s (err %v), want the encoded fields %s", desc, dec.name, enc, showAll(vis(sp.read(t))), uerr, showAll(vis(exp)))
				t, uerr, upan = safeDecode(dec.f, enc, x)
				if upan == nil {
					c.check("RoundTrip/into-equal-target", uerr == nil && eqAll(vis(sp.read(t)), vis(exp)), "%s: %s(Marshal(x)) into a target equal to x gives %s (err %v)", desc, dec.name, showAll(vis(sp.read(t))), uerr)
				}
			}
		} else {
			c.note("Marshal/unsupported-field-type")
		}
		// decoder robustness: the target is preloaded with the complementary value
		other := all &^ bits
		expY := sp.expected(other)
		good := ""
		if err == nil && pan == nil {
			good = string(enc)
		}
		for _, doc := range sp.badDocs(good) {
			for _, dec := range []struct {
				name string
				f    func(doc []byte, base any) (any, error)
			}{{"json.Unmarshal", sp.unmarshal}, {"UnmarshalJSON", sp.unmarshalDirect}} {
				t, derr, dpan := safeDecode(dec.f, []byte(doc), sp.mk(other))
				c.check("Decode/no-panic", dpan == nil, "%s of %q into %s panicked: %v", dec.name, doc, show(sp.mk(other)), dpan)
				if dpan != nil {
					continue
				}
				if derr != nil {
					c.check("Decode/unchanged-on-error", eqAll(sp.read(t), expY), "%s of %q failed (%v) but changed the target from %s to %s", dec.name, doc, derr, showAll(expY), showAll(sp.read(t)))
				} else {
					c.note("Decode/accepted-document")
				}
			}
		}
	}
	func() {
		defer func() {
			if r := recover(); r != nil {
				c.check("Decode/nil-receiver", false, "(*S)(nil).UnmarshalJSON panicked: %v", r)
			}
		}()
		err := sp.nilReceiver([]byte("{}"))
		c.check("Decode/nil-receiver", err != nil, "(*S)(nil).UnmarshalJSON returned no error")
	}()
}

func main() {
	w := bufio.NewWriter(os.Stdout)
	defer w.Flush()
	sort.Slice(jspecs, func(i, j int) bool { return jspecs[i].id < jspecs[j].id })
	for _, sp := range jspecs {
		fmt.Fprintf(w, "BEGIN %s\n", sp.id)
		w.Flush()
		c := &lawCtx{fails: map[string]string{}, seen: map[string]int{}}
		func() {
			defer func() {
				if r := recover(); r != nil {
					c.check("panic", false, "the law test panicked: %v", r)
				}
			}()
			runJSpec(c, sp)
		}()
		var laws []string
		for l := range c.seen {
			laws = append(laws, l)
		}
		sort.Strings(laws)
		for _, l := range laws {
			if msg, bad := c.fails[l]; bad {
				fmt.Fprintf(w, "R %s\t%s\tFAIL\t%s\n", sp.id, l, strings.ReplaceAll(msg, "\n", " "))
			} else {
				fmt.Fprintf(w, "R %s\t%s\tok\t%d\n", sp.id, l, c.seen[l])
			}
		}
		fmt.Fprintf(w, "N %s %d\n", sp.id, c.evals)
		fmt.Fprintf(w, "END %s\n", sp.id)
		w.Flush()
	}
}
`
