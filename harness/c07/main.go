// C07 — gombok @fp.Value output compiles and satisfies the accessor / round-trip laws.
// Programs are enumerated from a grammar of struct declarations (package gombokrun); each
// scenario is one scratch package: declarations -> gombok (built from the tree under test, run
// the way go generate runs it) -> go build with a generated law test -> run.
package main

import (
	"verif/harness/c07/gombokrun"
	"verif/mc"
)

func main() {
	mc.Main("C07", func(r *mc.Registry) {
		shapes := gombokrun.LawShapes(r.Thorough())
		pkgs := gombokrun.Pack(gombokrun.ModeLaws, shapes, gombokrun.PackSize(r.Thorough()))
		gombokrun.Register(r, gombokrun.ModeLaws, pkgs)
		r.Post = gombokrun.Post(gombokrun.ModeLaws)
		r.Rule = "programs: every struct declaration of the grammar (field kind x visibility x tag; one-field, two-field (thorough), field counts, generic constraint forms, grouped fields, special field names, user-written members, field types from user packages named like the packages the generated code imports - option/as/fp/fmt/json/http, one declaration per package -, two files using one package name for two packages) under every annotation set, and a one-field/three-field selection under 11 combinations of annotations (Value+With, Value+Getter, Value+Builder, Value+Getter+With, Value+With+Json, Value+AllArgsConstructor, Getter+With+Builder, Value+String, Value+With+GenLabelled, Value+Getter+With+Json+GenLabelled, With+Value), packed " +
			"20 (quick) / 40 (thorough) per scratch package; one scenario = one package: declarations -> gombok from the tree under test (GOPACKAGE/cwd as go generate sets them) -> go build (-gcflags=-e) together with a generated law test in the same package -> run. " +
			"A struct whose output does not compile is blamed by error position (bisection as fallback), confirmed in a package of its own, reported as compile/<shape>, removed, and the rest is law-checked. " +
			"inputs: for every struct all combinations of two position-tagged values per field (up to 6 fields; beyond that all-first, all-second and every one-hot deviation from both). " +
			"states = structs, transitions = law evaluations; every execution is non-trivial (it ran gombok and the compiler)."
		r.Assumptions = []string{
			"the Go toolchain and reflect.DeepEqual are correct; the law test reads private fields directly (same package) as the oracle",
			"a declaration on which gombok exits non-zero with a diagnostic is not 'accepted' (census rejected/<shape>, evidence key rejected_by_gombok); a declaration on which it exits 0 is; a non-zero exit with a Go panic / fatal error (stack trace) is a crash of the generator and is reported as generator-crash/<shape>",
			"FromTuple/Apply/FromLabelled/AsImmutable onto a foreign base value are only required to set the fields they carry; onto the value itself they must reproduce it exactly",
			"AsMap/FromMap is demanded from the zero value as base and not for func/chan fields; a None and a nil interface, which the map cannot carry, then compare equal to the untouched field",
			"go vet complaints about generated code are counted, not reported: the statement demands that the output compiles",
		}
		var ids []string
		for _, k := range gombokrun.Kinds {
			ids = append(ids, k.ID)
		}
		var emb []string
		for _, k := range gombokrun.EmbKinds {
			emb = append(emb, k.ID)
		}
		r.Extra["bounds"] = map[string]any{
			"field_kinds":             ids,
			"embedded_forms":          emb,
			"visibilities":            []string{"priv", "pub", "und (_name)", "blank (_)", "emb"},
			"annotation_combinations": []string{"v+w", "v+g", "v+b", "v+g+w", "v+w+j", "v+aac", "g+w+b", "v+s", "v+w+l", "v+g+w+j+l", "w+v"},
			"annotation_sets":         []string{"Value", "Value+Json", "Value+GenLabelled", "Value+Json+GenLabelled", "Getter+With", "Builder", "AllArgsConstructor", "Value+Json+GenLabelled with user-written members"},
			"shapes":                  len(shapes),
			"packages":                len(pkgs),
			"values_per_field":        2,
		}
		r.Extra["uncovered"] = []string{
			"private fields named asTuple / unapply / string: gombok lets the getter win and emits no AsTuple / Unapply / String, which leaves no law to test",
			"two-field structs are enumerated under Value+Json+GenLabelled only (the superset of generated members), and only in the thorough tier",
			"@fp.GetterPubField, @fp.WithPubField, @fp.Deref, @fp.String(useShow), @fp.RequiredArgsConstructor: not named by the statement",
			"String(): only compiled, its text is not specified",
			"struct tags containing a back quote cannot be written in Go source; tags are {none, json, fp:String.Exclude, both}",
			"colliding package names are crossed with a companion fp.Option field and the four visibilities only (not with every field kind); collisions with the derive generator's helper packages (seq, hlist, product, ...) belong to C08 and appear here as controls",
		}
	})
}
