// C15 — JSON round trip for fp.Option[T] and fp.Unit, and decoder robustness (bounded
// exhaustive). The @fp.Json generated-struct part of the property is registered from another
// file through extraRegs.
package main

import (
	"bytes"
	"encoding/json"
	"fmt"
	"math"
	"reflect"
	"sort"
	"strings"

	"github.com/csgura/fp"
	"verif/mc"
)

// extraRegs lets other files of this package (the generated @fp.Json struct scenarios)
// register more scenarios: append to it from an init function.
var extraRegs []func(r *mc.Registry)

// ------------------------------------------------------------------ round trip

type pt struct {
	X int    `json:"x"`
	Y string `json:"y"`
}

// some is a value of T together with a second, different value used as the prior content of
// the decode target.
func roundTrip[T any](r *mc.Registry, name string, mkDom func() []T) {
	r.Seq("roundtrip/Option["+name+"]", func(x *mc.X) {
		// the domain is built afresh in every execution: a decoder that wrote through to the
		// storage of a prior value must not leak into later executions
		dom := mkDom()
		i := x.Choose(len(dom)+1, "value") // the last alternative is None
		prior := x.Choose(3, "prior")      // 0: zero Option, 1: Some(dom[0]), 2: Some(dom[len/2]) (a non-empty container)
		path := x.Choose(5, "container")   // 0: value, 1: pointer, 2: slice element, 3: map value, 4: struct field
		var v fp.Option[T]
		if i < len(dom) {
			v = fp.Some(dom[i])
		} else {
			v = fp.None[T]()
		}
		var pv fp.Option[T]
		switch prior {
		case 1:
			pv = fp.Some(dom[0])
		case 2:
			pv = fp.Some(dom[len(dom)/2])
		}
		key := fmt.Sprintf("roundtrip/Option[%s]", name)
		// what encoding/json emits for the payload itself
		var inner []byte
		if v.IsDefined() {
			b, err := json.Marshal(v.Get())
			if err != nil {
				x.Fail("internal", "domain value %v of %s is not encodable: %v", v.Get(), name, err)
			}
			if string(b) == "null" {
				// excluded by the statement: a value whose own encoding is null
				x.Tag("excluded:payload-encodes-as-null")
				return
			}
			inner = b
		} else {
			inner = []byte("null")
		}
		type holder struct {
			F fp.Option[T] `json:"f"`
			G int          `json:"g"`
		}
		var enc []byte
		var err error
		var wantEnc string
		pan := mc.Catch(func() {
			switch path {
			case 0:
				enc, err = json.Marshal(v)
				wantEnc = string(inner)
			case 1:
				enc, err = json.Marshal(&v)
				wantEnc = string(inner)
			case 2:
				enc, err = json.Marshal([]fp.Option[T]{v, pv})
			case 3:
				enc, err = json.Marshal(map[string]fp.Option[T]{"k": v})
				wantEnc = `{"k":` + string(inner) + `}`
			case 4:
				enc, err = json.Marshal(holder{F: v, G: 7})
				wantEnc = `{"f":` + string(inner) + `,"g":7}`
			}
		})
		if pan != nil {
			x.Fail(key+"/marshal-panic", "json.Marshal of %v (container %d) panicked: %v", v, path, pan)
		}
		if err != nil {
			x.Fail(key+"/marshal-error", "json.Marshal of %v (container %d) failed: %v", v, path, err)
		}
		x.Logf("Marshal(%v) [container %d] = %s", v, path, enc)
		if wantEnc != "" && string(enc) != wantEnc {
			x.Fail(key+"/encoding", "json.Marshal of %v (container %d) = %s, want %s (None <-> null, Some(v) <-> the encoding of v)", v, path, enc, wantEnc)
		}
		var got, want any
		pan = mc.Catch(func() {
			switch path {
			case 0, 1:
				t := pv
				err = json.Unmarshal(enc, &t)
				got, want = t, v
			case 2:
				var t []fp.Option[T]
				err = json.Unmarshal(enc, &t)
				got, want = t, []fp.Option[T]{v, pv}
				if pv.IsDefined() {
					if b, _ := json.Marshal(pv.Get()); string(b) == "null" {
						want = got // the second element is an excluded value
					}
				}
			case 3:
				t := map[string]fp.Option[T]{"k": pv}
				err = json.Unmarshal(enc, &t)
				got, want = t, map[string]fp.Option[T]{"k": v}
			case 4:
				t := holder{F: pv, G: 1}
				err = json.Unmarshal(enc, &t)
				got, want = t, holder{F: v, G: 7}
			}
		})
		if pan != nil {
			x.Fail(key+"/unmarshal-panic", "json.Unmarshal of %s (container %d) panicked: %v", enc, path, pan)
		}
		if err != nil {
			x.Fail(key+"/unmarshal-error", "json.Unmarshal of %s, the encoding of %v (container %d), failed: %v", enc, v, path, err)
		}
		if !reflect.DeepEqual(got, want) {
			x.Fail(key+"/value", "Unmarshal(Marshal(x)) = %v, x = %v (encoding %s, container %d, prior content of the target %v)", got, want, enc, path, pv)
		}
		x.Observe(string(enc), path)
		if v.IsDefined() {
			x.Tag("Some")
		} else {
			x.Tag("None")
		}
		if v.IsDefined() != pv.IsDefined() || (v.IsDefined() && !reflect.DeepEqual(v, pv)) {
			x.NonTrivial() // the decode had to change the target
		}
	})
}

// ------------------------------------------------------------------ decoder robustness

const alphabet = "{}[]\":,nultrefas01-.\\ "

// rec is a hand-written struct with Option fields (keys spellable in the alphabet).
type rec struct {
	A fp.Option[int]    `json:"a"`
	S fp.Option[string] `json:"s"`
	L fp.Option[[]int]  `json:"l"`
	N int               `json:"n"`
	U fp.Unit           `json:"u"`
}

type target struct {
	name string
	// run decodes b into a target preloaded with prior content number p and returns a
	// description of a violation, or "".
	run    func(b []byte, p int) (verdict, detail string)
	priors int
}

// decodeInto: mk builds prior content number p afresh (no storage is shared between the
// decode target and the copy it is compared with afterwards).
func decodeInto[T any](mk func(p int) T, direct bool) func(b []byte, p int) (string, string) {
	return func(b []byte, p int) (verdict, detail string) {
		t := mk(p)
		before := mk(p)
		var err error
		pan := mc.Catch(func() {
			if direct {
				err = any(&t).(json.Unmarshaler).UnmarshalJSON(b)
			} else {
				err = json.Unmarshal(b, &t)
			}
		})
		if pan != nil {
			return "panic", fmt.Sprintf("decoding %q panicked: %v", b, pan)
		}
		if err != nil && !reflect.DeepEqual(t, before) {
			return "changed-on-error", fmt.Sprintf("decoding %q failed (%v) but the target changed from %v to %v", b, err, before, t)
		}
		if err != nil {
			return "", "error"
		}
		return "", "ok"
	}
}

// recTarget applies the struct oracle: encoding/json itself decodes a struct field by field
// and keeps the fields decoded before an error, so "unchanged on error" is demanded per
// Option field: after a failed decode an Option field holds its prior content or the result
// of successfully decoding one of the document's values for that key; an input that is not
// valid JSON (rejected before any field is touched) or not an object leaves every field unchanged.
func recTarget(b []byte, p int) (verdict, detail string) {
	mk := func() rec {
		if p == 0 {
			return rec{}
		}
		return rec{A: fp.Some(7), S: fp.Some("p"), L: fp.Some([]int{9}), N: 5}
	}
	t := mk()
	before := mk()
	var err error
	pan := mc.Catch(func() { err = json.Unmarshal(b, &t) })
	if pan != nil {
		return "panic", fmt.Sprintf("decoding %q into the struct panicked: %v", b, pan)
	}
	if err == nil {
		return "", "ok"
	}
	candA := []fp.Option[int]{before.A}
	candS := []fp.Option[string]{before.S}
	candL := []fp.Option[[]int]{before.L}
	if json.Valid(b) {
		for _, kv := range objectMembers(b) {
			switch strings.ToLower(kv.key) {
			case "a":
				var o fp.Option[int]
				if json.Unmarshal(kv.val, &o) == nil {
					candA = append(candA, o)
				}
			case "s":
				var o fp.Option[string]
				if json.Unmarshal(kv.val, &o) == nil {
					candS = append(candS, o)
				}
			case "l":
				var o fp.Option[[]int]
				if json.Unmarshal(kv.val, &o) == nil {
					candL = append(candL, o)
				}
			}
		}
	}
	if !oneOf(t.A, candA) {
		return "changed-on-error", fmt.Sprintf("decoding %q into the struct failed (%v) but field a changed from %v to %v, which no value of the document decodes to", b, err, before.A, t.A)
	}
	if !oneOf(t.S, candS) {
		return "changed-on-error", fmt.Sprintf("decoding %q into the struct failed (%v) but field s changed from %v to %v, which no value of the document decodes to", b, err, before.S, t.S)
	}
	if !oneOf(t.L, candL) {
		return "changed-on-error", fmt.Sprintf("decoding %q into the struct failed (%v) but field l changed from %v to %v, which no value of the document decodes to", b, err, before.L, t.L)
	}
	return "", "error"
}

func oneOf[T any](v T, cands []T) bool {
	for _, c := range cands {
		if reflect.DeepEqual(v, c) {
			return true
		}
	}
	return false
}

type member struct {
	key string
	val []byte
}

// objectMembers lists the members of a top-level JSON object in document order (duplicates
// kept); nil for any other document.
func objectMembers(b []byte) []member {
	dec := json.NewDecoder(bytes.NewReader(b))
	tok, err := dec.Token()
	if err != nil || tok != json.Delim('{') {
		return nil
	}
	var out []member
	for dec.More() {
		kt, err := dec.Token()
		if err != nil {
			return out
		}
		k, ok := kt.(string)
		if !ok {
			return out
		}
		var raw json.RawMessage
		if err := dec.Decode(&raw); err != nil {
			return out
		}
		out = append(out, member{k, raw})
	}
	return out
}

// prior: content 0 is None, content 1 is Some(v()) with v() built afresh on every call.
func prior[T any](v func() T) func(p int) fp.Option[T] {
	return func(p int) fp.Option[T] {
		if p == 0 {
			return fp.None[T]()
		}
		return fp.Some(v())
	}
}

func targets() []target {
	return []target{
		{"Option[int]", decodeInto(prior(func() int { return 7 }), false), 2},
		{"Option[string]", decodeInto(prior(func() string { return "p" }), false), 2},
		{"Option[[]int]", decodeInto(prior(func() []int { return []int{9, 8} }), false), 2},
		{"Option[Option[int]]", decodeInto(prior(func() fp.Option[int] { return fp.Some(7) }), false), 2},
		{"Unit", decodeInto(func(int) fp.Unit { return fp.Unit{} }, false), 1},
		{"struct", recTarget, 2},
		{"Option[int].UnmarshalJSON", decodeInto(prior(func() int { return 7 }), true), 2},
		{"Option[string].UnmarshalJSON", decodeInto(prior(func() string { return "p" }), true), 2},
		{"Option[[]int].UnmarshalJSON", decodeInto(prior(func() []int { return []int{9, 8} }), true), 2},
		{"Unit.UnmarshalJSON", decodeInto(func(int) fp.Unit { return fp.Unit{} }, true), 1},
	}
}

// validDocs are the documents whose single-byte mutations are decoded.
var validDocs = []string{
	`null`, `0`, `-1`, `10`, `1.0`, `1e1`, `"a"`, `"\"s\\"`, `"á"`, `true`, `false`,
	`[]`, `[1,0]`, `[1,[0]]`, `{}`, `{"a":1}`, `{"a":null,"s":"a","l":[1,0]}`,
	`{"s":"\n","a":-10,"u":null,"n":1}`, `{"l":null,"a":1,"a":"s"}`, `{"n":"s","a":1,"l":[1]}`,
	` { "a" : 1 , "s" : "s" } `, `{"A":1,"S":"a"}`,
}

// mutations: every replacement of one byte by an alphabet byte, every deletion of one byte
// and every insertion of one alphabet byte.
func mutations(doc string) []string {
	seen := map[string]bool{doc: true}
	out := []string{doc}
	add := func(s string) {
		if !seen[s] {
			seen[s] = true
			out = append(out, s)
		}
	}
	for i := 0; i <= len(doc); i++ {
		for _, c := range []byte(alphabet) {
			add(doc[:i] + string(c) + doc[i:])
			if i < len(doc) {
				add(doc[:i] + string(c) + doc[i+1:])
			}
		}
		if i < len(doc) {
			add(doc[:i] + doc[i+1:])
		}
	}
	return out
}

func robustness(r *mc.Registry) {
	maxLen := 4
	if r.Thorough() {
		maxLen = 5
	}
	ts := targets()
	// all byte strings up to maxLen over the alphabet: the first two bytes are choices, the
	// remaining suffixes are enumerated inside the execution
	for _, tg := range ts {
		tg := tg
		sc := r.Seq("robust/short/"+tg.name, func(x *mc.X) {
			p := x.Choose(tg.priors, "prior")
			n := x.Choose(maxLen+1, "length")
			var prefix []byte
			for i := 0; i < n && i < 2; i++ {
				prefix = append(prefix, alphabet[x.Choose(len(alphabet), "byte")])
			}
			rest := n - len(prefix)
			total := 1
			for i := 0; i < rest; i++ {
				total *= len(alphabet)
			}
			buf := make([]byte, n)
			copy(buf, prefix)
			okN, errN := 0, 0
			for k := 0; k < total; k++ {
				m := k
				for i := n - 1; i >= len(prefix); i-- {
					buf[i] = alphabet[m%len(alphabet)]
					m /= len(alphabet)
				}
				verdict, detail := tg.run(append([]byte(nil), buf...), p)
				if verdict != "" {
					x.Fail("robust/"+tg.name+"/"+verdict, "%s", detail)
				}
				if detail == "ok" {
					okN++
				} else {
					errN++
				}
			}
			x.Observe(okN, errN)
			x.Count("inputs", int64(total))
			x.Count("inputs:accepted", int64(okN))
			x.Count("inputs:rejected", int64(errN))
			if errN > 0 {
				x.NonTrivial() // at least one decode failed, so "unchanged on error" was exercised
			}
			x.Tag(tg.name)
		})
		sc.SplitDepth = 4
	}
	for _, tg := range ts {
		tg := tg
		sc := r.Seq("robust/mutations/"+tg.name, func(x *mc.X) {
			d := x.Choose(len(validDocs), "document")
			p := x.Choose(tg.priors, "prior")
			ms := mutations(validDocs[d])
			okN, errN := 0, 0
			for _, m := range ms {
				verdict, detail := tg.run([]byte(m), p)
				if verdict != "" {
					x.Fail("robust/"+tg.name+"/"+verdict, "%s (a mutation of %s)", detail, validDocs[d])
				}
				if detail == "ok" {
					okN++
				} else {
					errN++
				}
			}
			x.Observe(okN, errN)
			x.Count("inputs", int64(len(ms)))
			x.Count("inputs:accepted", int64(okN))
			x.Count("inputs:rejected", int64(errN))
			if errN > 0 && okN > 0 {
				x.NonTrivial()
			}
			x.Tag(tg.name)
		})
		sc.SplitDepth = 2
	}
	r.Extra["bounds"] = map[string]any{
		"alphabet":            alphabet,
		"alphabet_size":       len(alphabet),
		"max_length":          maxLen,
		"short_inputs":        countStrings(len(alphabet), maxLen),
		"valid_documents":     validDocs,
		"mutations":           "every one-byte replacement by / insertion of an alphabet byte and every one-byte deletion",
		"decode_targets":      targetNames(ts),
		"prior_target_values": "empty and preloaded (Some(7), Some(\"p\"), Some([9 8]), Some(Some(7)), struct with all Option fields set)",
	}
}

func targetNames(ts []target) []string {
	var s []string
	for _, t := range ts {
		s = append(s, t.name)
	}
	sort.Strings(s)
	return s
}

func countStrings(a, n int) int {
	t, p := 0, 1
	for i := 0; i <= n; i++ {
		t += p
		p *= a
	}
	return t
}

// ------------------------------------------------------------------ fp.Unit

func unitScenario(r *mc.Registry) {
	r.Seq("roundtrip/Unit", func(x *mc.X) {
		path := x.Choose(4, "container")
		type holder struct {
			U fp.Unit `json:"u"`
			G int     `json:"g"`
		}
		var enc []byte
		var err error
		var got, want any
		pan := mc.Catch(func() {
			switch path {
			case 0:
				enc, err = json.Marshal(fp.Unit{})
				if err == nil {
					var u fp.Unit
					err = json.Unmarshal(enc, &u)
					got, want = u, fp.Unit{}
				}
			case 1:
				u := fp.Unit{}
				enc, err = json.Marshal(&u)
				if err == nil {
					err = json.Unmarshal(enc, &u)
					got, want = u, fp.Unit{}
				}
			case 2:
				enc, err = json.Marshal([]fp.Unit{{}, {}})
				if err == nil {
					var u []fp.Unit
					err = json.Unmarshal(enc, &u)
					got, want = u, []fp.Unit{{}, {}}
				}
			case 3:
				enc, err = json.Marshal(holder{G: 3})
				if err == nil {
					var h holder
					err = json.Unmarshal(enc, &h)
					got, want = h, holder{G: 3}
				}
			}
		})
		if pan != nil {
			x.Fail("roundtrip/Unit/panic", "round trip of fp.Unit (container %d) panicked: %v", path, pan)
		}
		if err != nil {
			x.Fail("roundtrip/Unit/error", "round trip of fp.Unit (container %d) failed: %v (encoding %s)", path, err, enc)
		}
		if !reflect.DeepEqual(got, want) {
			x.Fail("roundtrip/Unit/value", "Unmarshal(Marshal(x)) = %v, x = %v (encoding %s)", got, want, enc)
		}
		x.Logf("Marshal = %s", enc)
		x.Observe(string(enc))
		x.Tag("Unit")
		x.NonTrivial()
	})
}

func main() {
	mc.Main("C15", func(r *mc.Registry) {
		r.Rule = "round trip: scenario per payload type T, leaf = (value of Dom(T) or None, prior content of the decode target, container: bare / pointer / slice element / map value / struct field); " +
			"non-trivial = the decode had to change the target. " +
			"robustness: scenario per decode target; leaf = (prior content, length, first two bytes) with all suffixes over the alphabet enumerated inside the leaf, " +
			"and (valid document, prior content) with all single-byte mutations enumerated inside the leaf; every input is decoded by json.Unmarshal (or by calling UnmarshalJSON directly) " +
			"and must not panic and must leave the target unchanged when an error is returned; non-trivial = at least one input of the leaf was rejected. " +
			"codec sequences (codec_seq.go): leaf = (depth 1..3, first operation), all continuations over the operation alphabet enumerated inside the leaf, each sequence run from scratch: encode results must equal the reference encoding whatever was done to earlier outputs, outputs and decoded values must not change later (outputs are fresh, inputs are not retained)"
		r.Assumptions = []string{
			"encoding/json is correct; for the hand-written struct its documented field-by-field decoding is the reference (fields decoded before an error keep their new value)",
			"values whose own JSON encoding is null (nil slice, nil map, None inside Some) are excluded inside Some, as the statement says; NaN/Inf and invalid UTF-8 are excluded as not faithfully encodable",
		}
		roundTrip(r, "int", func() []int { return []int{0, 1, -1, 42, math.MaxInt32, math.MinInt32, math.MaxInt64, math.MinInt64} })
		roundTrip(r, "string", func() []string { return []string{"", "a", "null", "nil", "0", `"`, `\`, "\u0000", "</script>", "<>&", "\n\t\r", "é", "日本", "  ", "\U0001F600", " n", "{\"a\":1}"} })
		roundTrip(r, "bool", func() []bool { return []bool{false, true} })
		roundTrip(r, "float64", func() []float64 { return []float64{0, math.Copysign(0, -1), 1, -1.5, 0.1, 1e21, 1e-7, math.MaxFloat64, math.SmallestNonzeroFloat64, -math.MaxFloat64, float64(math.MaxInt64)} })
		roundTrip(r, "[]int", func() [][]int { return [][]int{{}, {1}, {1, 2, 3}, {math.MinInt64, 0, math.MaxInt64}, nil} })
		roundTrip(r, "map[string]int", func() []map[string]int { return []map[string]int{{}, {"a": 1}, {"": 0, "k\"": 2, "é": -3}, nil} })
		roundTrip(r, "struct", func() []pt { return []pt{{}, {1, "a"}, {-1, "\"\\\u0000<"}, {math.MaxInt64, "null"}} })
		roundTrip(r, "Option[int]", func() []fp.Option[int] { return []fp.Option[int]{fp.Some(0), fp.Some(1), fp.Some(math.MinInt64), fp.None[int]()} })
		unitScenario(r)
		robustness(r)
		r.Extra["uncovered"] = []string{
			"@fp.Json generated structs (byte identity with the Mutable twin, round trip, robustness): registered through extraRegs by the generated-struct stage",
			"fp.Either: it has MarshalJSON only (no UnmarshalJSON) and is not named in the statement",
		}
		for _, f := range extraRegs {
			f(r)
		}
	})
}
