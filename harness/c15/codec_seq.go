// C15 — operation sequences over the JSON codec of the hand-written fp types: the codec is
// started from non-initial states. A MarshalJSON result belongs to the caller (like the result
// of json.Marshal) and the bytes handed to UnmarshalJSON belong to the caller again after the
// call: outputs must be fresh and inputs must not be retained. Every sequence of up to three
// operations of
//
//	direct v.MarshalJSON() | json.Marshal(v) | json.Marshal(struct / slice holding v)
//	overwrite the bytes returned by every earlier encode call (fill with 'X', or reuse the
//	    buffer: append(b[:0], "{}"...))
//	json.Unmarshal(doc, &target) | target.UnmarshalJSON(doc), then overwrite doc
//
// is run; every encode result must equal the reference encoding of the value (what the same
// call returns in a fresh process), every earlier output that the driver did not overwrite
// itself must still hold what it held when it was returned, and every decoded value must still
// equal the encoded value at the end of the sequence.
package main

import (
	"bytes"
	"encoding/json"
	"fmt"
	"reflect"
	"strings"

	"github.com/csgura/fp"
	"verif/mc"
)

// codecVal is one value of a type with a hand-written JSON codec.
type codecVal struct {
	name string
	// ref is the reference encoding, computed with encoding/json on the payload alone.
	ref string
	// direct calls the value's own MarshalJSON; nil if the type has none.
	direct func() ([]byte, error)
	// viaJSON encodes with json.Marshal: bare, as a struct field and as a slice element.
	viaJSON func(container int) ([]byte, error)
	// decode decodes doc into a fresh target (through json.Unmarshal or by calling
	// UnmarshalJSON directly) and returns the target; nil if the type has no decoder.
	decode func(doc []byte, direct bool) (any, error)
	// want is what decode must yield.
	want any
}

func refOf(payload any) string {
	b, err := json.Marshal(payload)
	if err != nil {
		panic(err)
	}
	return string(b)
}

type holder[T any] struct {
	F T   `json:"f"`
	G int `json:"g"`
}

func viaJSON[T any](v func() T) func(int) ([]byte, error) {
	return func(container int) ([]byte, error) {
		switch container {
		case 1:
			return json.Marshal(holder[T]{F: v(), G: 1})
		case 2:
			return json.Marshal([]T{v(), v()})
		}
		return json.Marshal(v())
	}
}

func wrapRef(ref string, container int) string {
	switch container {
	case 1:
		return `{"f":` + ref + `,"g":1}`
	case 2:
		return `[` + ref + `,` + ref + `]`
	}
	return ref
}

func optCodec[T any](name string, mk func() fp.Option[T]) codecVal {
	ref := "null"
	if mk().IsDefined() {
		ref = refOf(mk().Get())
	}
	return codecVal{
		name:    name,
		ref:     ref,
		direct:  func() ([]byte, error) { return mk().MarshalJSON() },
		viaJSON: viaJSON(mk),
		decode: func(doc []byte, direct bool) (any, error) {
			// the target starts out different from the expected value
			var t fp.Option[T]
			if !mk().IsDefined() {
				var z T
				t = fp.Some(z)
			}
			var err error
			if direct {
				err = t.UnmarshalJSON(doc)
			} else {
				err = json.Unmarshal(doc, &t)
			}
			return t, err
		},
		want: mk(),
	}
}

func codecVals() []codecVal {
	unit := codecVal{
		name:    "Unit",
		ref:     "null",
		direct:  func() ([]byte, error) { return fp.Unit{}.MarshalJSON() },
		viaJSON: viaJSON(func() fp.Unit { return fp.Unit{} }),
		decode: func(doc []byte, direct bool) (any, error) {
			var u fp.Unit
			if direct {
				return u, u.UnmarshalJSON(doc)
			}
			return u, json.Unmarshal(doc, &u)
		},
		want: fp.Unit{},
	}
	left := codecVal{
		name:    "Either.Left(7)",
		ref:     "7",
		direct:  func() ([]byte, error) { return fp.Left[int, string](7).(json.Marshaler).MarshalJSON() },
		viaJSON: viaJSON(func() fp.Either[int, string] { return fp.Left[int, string](7) }),
	}
	right := codecVal{
		name:    `Either.Right("r")`,
		ref:     `"r"`,
		direct:  func() ([]byte, error) { return fp.Right[int, string]("r").(json.Marshaler).MarshalJSON() },
		viaJSON: viaJSON(func() fp.Either[int, string] { return fp.Right[int, string]("r") }),
	}
	stringer := codecVal{
		name:    `StringerFunc("s")`,
		ref:     `"s"`,
		direct:  func() ([]byte, error) { return fp.StringerFunc(func() string { return "s" }).MarshalJSON() },
		viaJSON: viaJSON(func() fp.StringerFunc { return fp.StringerFunc(func() string { return "s" }) }),
	}
	return []codecVal{
		unit,
		optCodec("None[int]", func() fp.Option[int] { return fp.None[int]() }),
		optCodec("Some(7)", func() fp.Option[int] { return fp.Some(7) }),
		optCodec("None[string]", func() fp.Option[string] { return fp.None[string]() }),
		optCodec(`Some("s\"")`, func() fp.Option[string] { return fp.Some(`s"`) }),
		optCodec("None[[]int]", func() fp.Option[[]int] { return fp.None[[]int]() }),
		optCodec("Some([1 2])", func() fp.Option[[]int] { return fp.Some([]int{1, 2}) }),
		optCodec("None[Option[int]]", func() fp.Option[fp.Option[int]] { return fp.None[fp.Option[int]]() }),
		optCodec("Some(Some(3))", func() fp.Option[fp.Option[int]] { return fp.Some(fp.Some(3)) }),
		optCodec("Some(pt)", func() fp.Option[pt] { return fp.Some(pt{X: 1, Y: "y"}) }),
		left, right, stringer,
	}
}

type codecOp struct {
	kind string // "direct", "json0", "json1", "json2", "fill", "reuse", "unmarshal", "unmarshal-direct"
	val  int
}

func codecOps(vals []codecVal) []codecOp {
	var ops []codecOp
	for i, v := range vals {
		if v.direct != nil {
			ops = append(ops, codecOp{"direct", i})
		}
		ops = append(ops, codecOp{"json0", i}, codecOp{"json1", i}, codecOp{"json2", i})
		if v.decode != nil {
			ops = append(ops, codecOp{"unmarshal", i}, codecOp{"unmarshal-direct", i})
		}
	}
	ops = append(ops, codecOp{"fill", -1}, codecOp{"reuse", -1})
	return ops
}

type codecOut struct {
	b      []byte // the slice the library returned
	saved  []byte // its content when it was returned
	what   string
	val    string
	dirty  bool // the driver overwrote it
}

type codecDecoded struct {
	got  any
	want any
	what string
	val  string
}

// runCodecSeq runs one operation sequence from scratch and returns the key and message of
// the first violation ("" if none), a decoded trace, and whether an encode call ran after
// earlier outputs had been overwritten.
func runCodecSeq(vals []codecVal, seq []codecOp) (key, msg string, trace []string, encodeAfterOverwrite bool) {
	var outs []*codecOut
	var decs []codecDecoded
	// whatever happens, put back what the driver overwrote: if an output aliases storage of
	// the library, later sequences run in this process must not see it
	defer func() {
		for _, o := range outs {
			if o.dirty {
				copy(o.b[:cap(o.b)][:len(o.saved)], o.saved)
			}
		}
	}()
	fail := func(k, format string, args ...any) bool {
		if key == "" {
			key, msg = k, fmt.Sprintf(format, args...)
		}
		return true
	}
	checkOuts := func(after string) bool {
		for _, o := range outs {
			if !o.dirty && !bytes.Equal(o.b, o.saved) {
				return fail("codec-seq/output-changed-later/"+o.val, "the bytes returned by %s were %q and read %q after %s: the result of an encode call is not a fresh slice", o.what, o.saved, o.b, after)
			}
		}
		for _, d := range decs {
			if !reflect.DeepEqual(d.got, d.want) {
				return fail("codec-seq/decoded-value-changed-later/"+d.val, "the value decoded by %s reads %v after %s, it was %v: the decoder retained its input or shares storage", d.what, d.got, after, d.want)
			}
		}
		return false
	}
	sawOverwrite := false
	for step, op := range seq {
		switch op.kind {
		case "direct", "json0", "json1", "json2":
			v := vals[op.val]
			var b []byte
			var err error
			want := v.ref
			what := v.name + ".MarshalJSON()"
			pan := mc.Catch(func() {
				if op.kind == "direct" {
					b, err = v.direct()
				} else {
					c := int(op.kind[4] - '0')
					b, err = v.viaJSON(c)
					want = wrapRef(v.ref, c)
					what = fmt.Sprintf("json.Marshal(%s, container %d)", v.name, c)
				}
			})
			trace = append(trace, fmt.Sprintf("step %d: %s = %q, %v", step+1, what, b, err))
			k := "codec-seq/encode/" + v.name
			switch {
			case pan != nil:
				fail(k, "step %d: %s panicked: %v", step+1, what, pan)
			case err != nil:
				fail(k, "step %d: %s failed: %v; in a fresh process it returns %s", step+1, what, err, want)
			case string(b) != want:
				fail(k, "step %d: %s = %q; in a fresh process it returns %q", step+1, what, b, want)
			}
			if key != "" {
				return
			}
			outs = append(outs, &codecOut{b: b, saved: append([]byte(nil), b...), what: what, val: v.name})
			if sawOverwrite {
				encodeAfterOverwrite = true
			}
			if checkOuts(what) {
				return
			}
		case "fill", "reuse":
			for _, o := range outs {
				if o.dirty {
					continue
				}
				if op.kind == "fill" {
					for i := range o.b {
						o.b[i] = 'X'
					}
				} else {
					_ = append(o.b[:0], "{}"...)
				}
				o.dirty = true
				sawOverwrite = true
			}
			trace = append(trace, fmt.Sprintf("step %d: overwrite every earlier output (%s)", step+1, op.kind))
			if checkOuts("overwriting the earlier outputs") {
				return
			}
		case "unmarshal", "unmarshal-direct":
			v := vals[op.val]
			doc := []byte(v.ref)
			var got any
			var err error
			direct := op.kind == "unmarshal-direct"
			what := fmt.Sprintf("json.Unmarshal(%s) into %s", v.ref, v.name)
			if direct {
				what = fmt.Sprintf("UnmarshalJSON(%s) on %s", v.ref, v.name)
			}
			pan := mc.Catch(func() { got, err = v.decode(doc, direct) })
			trace = append(trace, fmt.Sprintf("step %d: %s = %v, %v", step+1, what, got, err))
			k := "codec-seq/decode/" + v.name
			switch {
			case pan != nil:
				fail(k, "step %d: %s panicked: %v", step+1, what, pan)
			case err != nil:
				fail(k, "step %d: %s failed: %v", step+1, what, err)
			case !reflect.DeepEqual(got, v.want):
				fail(k, "step %d: %s = %v, want %v", step+1, what, got, v.want)
			}
			if key != "" {
				return
			}
			// the input bytes are the caller's again
			for i := range doc {
				doc[i] = 'X'
			}
			decs = append(decs, codecDecoded{got, v.want, what, v.name})
			if checkOuts(what + " and overwriting its input") {
				return
			}
		}
	}
	return
}

// codecSequences: the first operation of a sequence is a choice (one execution per first
// operation and depth); all continuations are enumerated inside the execution, each run from
// scratch (the engine's per-execution bookkeeping would otherwise dominate 4*10^5 sequences).
func codecSequences(r *mc.Registry) {
	vals := codecVals()
	ops := codecOps(vals)
	maxDepth := 3
	for depth := 1; depth <= maxDepth; depth++ {
		depth := depth
		sc := r.Seq(fmt.Sprintf("codec-seq/depth%d", depth), func(x *mc.X) {
			first := x.Choose(len(ops), "first operation")
			total := 1
			for i := 1; i < depth; i++ {
				total *= len(ops)
			}
			seq := make([]codecOp, depth)
			seq[0] = ops[first]
			nEAO := 0
			seen := map[string]bool{}
			for k := 0; k < total; k++ {
				m := k
				for i := depth - 1; i >= 1; i-- {
					seq[i] = ops[m%len(ops)]
					m /= len(ops)
				}
				key, msg, trace, eao := runCodecSeq(vals, seq)
				if key != "" && !seen[key] {
					// one report per key and leaf (the shortest-first enumeration gives a minimal sequence)
					seen[key] = true
					for _, l := range trace {
						x.Logf("%s", l)
					}
					x.Report(key, "%s\n  operation sequence: %s", msg, strings.Join(trace, "; "))
				}
				if eao {
					nEAO++
				}
			}
			x.Count("codec sequences", int64(total))
			x.Count("codec sequences: encode after overwrite", int64(nEAO))
			x.Observe(first, total, nEAO)
			if nEAO > 0 {
				x.NonTrivial() // an encode call ran after outputs of earlier calls had been overwritten
			}
			x.Tag("codec-seq")
		})
		sc.SplitDepth = 1
	}
	var names []string
	for _, v := range vals {
		names = append(names, v.name)
	}
	r.Extra["codec_sequences"] = map[string]any{
		"values":     names,
		"operations": len(ops),
		"max_depth":  maxDepth,
		"sequences":  len(ops) + len(ops)*len(ops) + len(ops)*len(ops)*len(ops),
		"rule":       "non-trivial = in at least one sequence of the leaf an encode call ran after the outputs of earlier encode calls had been overwritten by the driver",
	}
}

func init() {
	extraRegs = append(extraRegs, codecSequences)
}
