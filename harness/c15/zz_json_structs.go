// C15, @fp.Json struct part: every @fp.Json struct shape of the C07 grammar is run through gombok
// (built from the tree under test) in scratch packages; a generated law test in the same package
// checks byte identity of json.Marshal(x) with json.Marshal(x.AsMutable()) and with an
// independently declared public twin carrying the documented tags, the round trip for faithful
// field values, and that ill-typed / malformed documents never panic and leave the target
// unchanged on error. The machinery is shared with C07 (verif/harness/c07/gombokrun).
package main

import (
	"fmt"

	"verif/harness/c07/gombokrun"
	"verif/mc"
)

func init() {
	extraRegs = append(extraRegs, func(r *mc.Registry) {
		shapes := gombokrun.JSONShapes(r.Thorough())
		size := 20
		if r.Thorough() {
			size = 40
		}
		pkgs := gombokrun.Pack(gombokrun.ModeJSON, shapes, size)
		// One scenario whose first choice is the package: the other C15 scenarios rely on being
		// sharded over the workers, so the packages are dealt out the same way (alternative 0 is
		// an empty execution because every worker runs the first alternative of a sharded scenario).
		sc := r.Seq("json-structs", func(x *mc.X) {
			k := x.Choose(len(pkgs)+1, "package")
			if k == 0 {
				x.Tag("json-structs:dealer")
				return
			}
			gombokrun.RunScenario(x, pkgs[k-1])
		})
		sc.Shard = true
		sc.SplitDepth = 1
		prev := r.Post
		r.Post = func(pc *mc.PostCtx) {
			if prev != nil {
				prev(pc)
			}
			gombokrun.Post(gombokrun.ModeJSON)(pc)
		}
		r.Rule += "; @fp.Json structs: scenario json-structs, leaf = one scratch package of up to " + fmt.Sprint(size) + " struct shapes of the C07 grammar (one-field over kind x visibility, json tag variants, field counts, generic constraint forms, grouped fields, every embedded form next to an ordinary field in both positions, three-field mixed structs, structs that declare one of the generated members by hand (incl. MarshalJSON, UnmarshalJSON, both), slice / map / []byte fields whose values tell nil from empty-but-non-nil under tags with and without omitempty, interface-typed locations (any, map[string]any, []any, struct{V any}, Option[any]) holding values of the closed set encoding/json produces (float64, string, bool, nil, map[string]any, []any) with the full round trip demanded; thorough: two-field structs), " +
			"declarations -> gombok from the tree under test -> go build with a generated law test -> run; for every struct all combinations of two faithful values per field: Marshal(x) = Marshal(x.AsMutable()) = Marshal(public twin with the documented tags) byte for byte, " +
			"Unmarshal(Marshal(x)) = x on the encoded fields (json.Unmarshal and UnmarshalJSON called directly), a fixed list of malformed documents plus ill-typed values for every field never panic and leave a preloaded target unchanged on error; states = structs, transitions = law evaluations"
		r.Assumptions = append(r.Assumptions,
			"@fp.Json structs: omitempty is demanded on unnamed pointer/slice/map/interface/func/chan fields and Option fields, its absence on numeric/bool/array/struct/named non-nilable fields; for string fields (README shows omitempty, the statement says 'nilable') and named slice types the twin is compared on non-empty values only",
			"@fp.Json structs: fields whose name starts with _ are not part of the Mutable type's encoding and are left out of the round trip; embedded fields, about whose tag the statement is silent, are compared through AsMutable() and through a hand-written literal of the generated Mutable type holding the same field values (law Marshal/Mutable-literal), not through the independent twin",
			"@fp.Json structs: an empty but non-nil slice / map is dropped by omitempty, so its round trip (reflect.DeepEqual, which tells nil from empty) is demanded only under a json tag without omitempty; byte identity with AsMutable / the Mutable literal / the twin is demanded for every value",
			"@fp.Json structs: every embedded form carries a non-zero value; the round trip is demanded of a struct value unless it holds a value that does not survive its own encoding (unexported content of an embedded unexported type, a non-nil value of a non-empty interface type) - census RoundTrip/skipped-value-not-faithfully-encodable",
			"@fp.Json structs: a struct shape whose generated code does not compile, or on which gombok crashes, is C07's finding and is skipped here (census skipped-does-not-compile(C07), skipped-generator-crash(C07)); if the generated code compiles but the law test does not, because a member README documents for @fp.Value+@fp.Json is missing, that is reported as law/Json-members/<shape>",
			"@fp.Json structs: for a struct target 'unchanged on error' is checked on the whole struct: the generated UnmarshalJSON decodes into a Mutable copy and assigns only on success",
		)
		r.Extra["json_struct_bounds"] = map[string]any{
			"shapes":       len(shapes),
			"packages":     len(pkgs),
			"tag_variants": []string{"none", `json:"x"`, `json:"x,omitempty"`, `json:",omitempty"`, `json:"-"`, `fp:"String.Exclude"`, `db:"json_col"` + " (contains the substring json)", `fp:"String.Exclude" json:"x"`},
		}
		r.Extra["uncovered"] = []string{
			"fp.Either: it has MarshalJSON only (no UnmarshalJSON) and is not named in the statement",
			"@fp.Json structs: arbitrary byte strings are enumerated exhaustively only for the Option/Unit/hand-written struct targets; generated structs get a fixed list of 18 malformed documents plus 12 ill-typed documents per field",
			"@fp.Json structs with a user-written Mutable type (it carries no json tags), and @fp.JsonTag",
		}
	})
}
