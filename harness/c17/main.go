// C17 — StateT threads state lawfully, also across failure and recovery.
//
// programs: every StateT[int,int] program (AST) up to a node bound over the primitives and
// combinators of package statet and the Recover* methods of fp.StateT, run from every initial
// state in {0,1,2}; failing steps occur at every position because failing leaves are part of
// the alphabet. The library's (result, state) is compared with an independently written
// interpreter that follows the property's wording. laws: the three state-monad laws on all
// states and all 27 functions {0,1,2}->{0,1,2}.
package main

import (
	"errors"
	"fmt"
	"sort"
	"strings"

	"github.com/csgura/fp"
	"github.com/csgura/fp/statet"
	"verif/mc"
)

type ST = fp.StateT[int, int]

var (
	e1 = errors.New("e1")
	e2 = errors.New("e2")
	e3 = errors.New("e3")
	eH = errors.New("eH")
)

func code(err error) int {
	switch err {
	case e1:
		return 1
	case e2:
		return 2
	case e3:
		return 3
	case eH:
		return 9
	}
	return 99
}

// ---------------------------------------------------------------- the alphabet

type opDef struct {
	name     string // the library function, used in violation keys
	kids     int
	bound    []bool // kid i is the body of a function of one int (leaf Arg refers to it)
	variants []string
}

const (
	oPut = iota
	oGet
	oModify
	oModifyS
	oModifyT
	oGetS
	oGetST
	oPure
	oFromTry
	oRun
	oMerge
	oPutWith
	oArg
	oAddArg
	// one sub-program
	oMap
	oMapT
	oMapWithState
	oMapWithStateT
	oPeekState
	oTransform
	oReplace
	oTwice // Map2(p, p, 10a+b): the same sub-program VALUE occurs twice in one program
	oWithState
	oTraverse
	oFoldM
	oRecover
	oRecoverT
	oRecoverWithState
	oRecoverWithStateT
	oRecoverCase
	oRecoverCaseT
	// two sub-programs
	oFlatMap
	oFlatMapConst
	oMap2
	oZip
	oAp
	oConcat2
	oSequence2
	oTransformWith
	oRecoverWith
	oRecoverCaseWith
	// three sub-programs
	oConcat3
	oSequence3
	oFailE2 // FromTry(Failure(e2)); only used by recover-after-state-change
	nOps
)

var ops = [nOps]opDef{
	oPut:               {"statet.Put", 0, nil, []string{"0", "2"}},
	oGet:               {"statet.Get", 0, nil, nil},
	oModify:            {"statet.Modify", 0, nil, nil},
	oModifyS:           {"statet.ModifyS", 0, nil, nil},
	oModifyT:           {"statet.ModifyT", 0, nil, []string{"s=>Success(s+1 mod 3)", "s=>Failure(e1)", "s=>s==1 ? Failure(e2) : Success(s+1 mod 3)"}},
	oGetS:              {"statet.GetS", 0, nil, nil},
	oGetST:             {"statet.GetST", 0, nil, nil},
	oPure:              {"statet.Pure", 0, nil, nil},
	oFromTry:           {"statet.FromTry", 0, nil, []string{"Failure(e1)", "Success(8)"}},
	oRun:               {"statet.Run", 0, nil, nil},
	oMerge:             {"statet.Merge", 0, nil, nil},
	oPutWith:           {"statet.PutWith", 0, nil, nil},
	oArg:               {"statet.Pure", 0, nil, nil},
	oAddArg:            {"statet.Modify", 0, nil, nil},
	oMap:               {"statet.Map", 1, []bool{false}, nil},
	oMapT:              {"statet.MapT", 1, []bool{false}, nil},
	oMapWithState:      {"statet.MapWithState", 1, []bool{false}, nil},
	oMapWithStateT:     {"statet.MapWithStateT", 1, []bool{false}, nil},
	oPeekState:         {"statet.PeekState", 1, []bool{false}, nil},
	oTransform:         {"statet.Transform", 1, []bool{false}, nil},
	oReplace:           {"statet.Replace", 1, []bool{false}, nil},
	oTwice:             {"statet.Map2", 1, []bool{false}, nil},
	oWithState:         {"statet.WithState", 1, []bool{true}, nil},
	oTraverse:          {"statet.Traverse", 1, []bool{true}, []string{"TraverseSeq", "Traverse", "TraverseSlice"}},
	oFoldM:             {"statet.FoldM", 1, []bool{true}, nil},
	oRecover:           {"StateT.Recover", 1, []bool{false}, nil},
	oRecoverT:          {"StateT.RecoverT", 1, []bool{false}, nil},
	oRecoverWithState:  {"StateT.RecoverWithState", 1, []bool{false}, nil},
	oRecoverWithStateT: {"StateT.RecoverWithStateT", 1, []bool{false}, nil},
	oRecoverCase:       {"StateT.RecoverCase", 1, []bool{false}, nil},
	oRecoverCaseT:      {"StateT.RecoverCaseT", 1, []bool{false}, nil},
	oFlatMap:           {"statet.FlatMap", 2, []bool{false, true}, nil},
	oFlatMapConst:      {"statet.FlatMapConst", 2, []bool{false, false}, nil},
	oMap2:              {"statet.Map2", 2, []bool{false, false}, nil},
	oZip:               {"statet.Zip", 2, []bool{false, false}, nil},
	oAp:                {"statet.Ap", 2, []bool{false, false}, nil},
	oConcat2:           {"statet.Concat", 2, []bool{false, false}, nil},
	oSequence2:         {"statet.Sequence", 2, []bool{false, false}, []string{"Sequence", "SequenceIterator"}},
	oTransformWith:     {"statet.TransformWith", 2, []bool{false, true}, nil},
	oRecoverWith:       {"StateT.RecoverWith", 2, []bool{false, true}, nil},
	oRecoverCaseWith:   {"StateT.RecoverCaseWith", 2, []bool{false, true}, nil},
	oConcat3:           {"statet.Concat", 3, []bool{false, false, false}, nil},
	oSequence3:         {"statet.Sequence", 3, []bool{false, false, false}, nil},
	oFailE2:            {"statet.FromTry", 0, nil, nil},
}

func (d opDef) nvar() int {
	if len(d.variants) == 0 {
		return 1
	}
	return len(d.variants)
}

type node struct {
	op   int
	v    int
	kids []*node
}

func inc(s int) int { return (s + 1) % 3 }

func (n *node) String() string {
	k := func(i int) string { return n.kids[i].String() }
	switch n.op {
	case oPut:
		return fmt.Sprintf("Put(%s)", ops[oPut].variants[n.v])
	case oGet:
		return "Get"
	case oModify:
		return "Modify(inc)"
	case oModifyS:
		return "ModifyS(inc, s=>s+5)"
	case oModifyT:
		return fmt.Sprintf("ModifyT(%s)", ops[oModifyT].variants[n.v])
	case oGetS:
		return "GetS(s=>s+5)"
	case oGetST:
		return "GetST(s=>s==1 ? Failure(e2) : Success(s+5))"
	case oPure:
		return "Pure(7)"
	case oFromTry:
		return fmt.Sprintf("FromTry(%s)", ops[oFromTry].variants[n.v])
	case oRun:
		return "Run(s=>(s+5, inc s))"
	case oMerge:
		return "Merge(inc, s=>s+5)"
	case oPutWith:
		return "PutWith((s,v)=>(s+v) mod 3)(2)"
	case oArg:
		return "Pure(arg)"
	case oAddArg:
		return "Modify(s=>(s+arg) mod 3)"
	case oMap:
		return fmt.Sprintf("Map(%s, a=>a+1)", k(0))
	case oMapT:
		return fmt.Sprintf("MapT(%s, a=>a==0 ? Failure(e3) : Success(a+1))", k(0))
	case oMapWithState:
		return fmt.Sprintf("MapWithState(%s, (s,a)=>10s+a)", k(0))
	case oMapWithStateT:
		return fmt.Sprintf("MapWithStateT(%s, (s,a)=>s==1 ? Failure(e3) : Success(10s+a))", k(0))
	case oPeekState:
		return fmt.Sprintf("PeekState(%s, log)", k(0))
	case oTransform:
		return fmt.Sprintf("Transform(%s, (s,t)=>t ok ? (inc s, a+1) : (s, Success(100+10s+code)))", k(0))
	case oReplace:
		return fmt.Sprintf("Replace(%s, 9)", k(0))
	case oTwice:
		return fmt.Sprintf("(p := %s; Map2(p, p, 10a+b))", k(0))
	case oWithState:
		return fmt.Sprintf("WithState(arg=>%s)", k(0))
	case oTraverse:
		return fmt.Sprintf("%s([1 2], arg=>%s)", ops[oTraverse].variants[n.v], k(0))
	case oFoldM:
		return fmt.Sprintf("FoldM([1 2], 0, (b,a)=>arg:=10b+a; %s)", k(0))
	case oRecover:
		return fmt.Sprintf("%s.Recover(err=>100+code)", k(0))
	case oRecoverT:
		return fmt.Sprintf("%s.RecoverT(err=>err==e1 ? Success(101) : Failure(eH))", k(0))
	case oRecoverWithState:
		return fmt.Sprintf("%s.RecoverWithState((s,err)=>100+10s+code)", k(0))
	case oRecoverWithStateT:
		return fmt.Sprintf("%s.RecoverWithStateT((s,err)=>err==e1 ? Success(100+10s+code) : Failure(eH))", k(0))
	case oRecoverCase:
		return fmt.Sprintf("%s.RecoverCase(is e1, err=>100+code)", k(0))
	case oRecoverCaseT:
		return fmt.Sprintf("%s.RecoverCaseT(is e1 or e3, err=>err==e1 ? Success(101) : Failure(eH))", k(0))
	case oFlatMap:
		return fmt.Sprintf("FlatMap(%s, arg=>%s)", k(0), k(1))
	case oFlatMapConst:
		return fmt.Sprintf("FlatMapConst(%s, %s)", k(0), k(1))
	case oMap2:
		return fmt.Sprintf("Map2(%s, %s, 10a+b)", k(0), k(1))
	case oZip:
		return fmt.Sprintf("Zip(%s, %s)", k(0), k(1))
	case oAp:
		return fmt.Sprintf("Ap(%s as a=>b=>10a+b, %s)", k(0), k(1))
	case oConcat2:
		return fmt.Sprintf("Concat(%s, %s)", k(0), k(1))
	case oSequence2:
		return fmt.Sprintf("%s([%s, %s])", ops[oSequence2].variants[n.v], k(0), k(1))
	case oTransformWith:
		return fmt.Sprintf("TransformWith(%s, t=>arg:=(t ok ? a : 100+code); %s)", k(0), k(1))
	case oRecoverWith:
		return fmt.Sprintf("%s.RecoverWith(err=>arg:=code; %s)", k(0), k(1))
	case oRecoverCaseWith:
		return fmt.Sprintf("%s.RecoverCaseWith(is e1, err=>arg:=code; %s)", k(0), k(1))
	case oConcat3:
		return fmt.Sprintf("Concat(%s, %s, %s)", k(0), k(1), k(2))
	case oSequence3:
		return fmt.Sprintf("Sequence([%s, %s, %s])", k(0), k(1), k(2))
	case oFailE2:
		return "FromTry(Failure(e2))"
	}
	return "?"
}

// ---------------------------------------------------------------- enumeration

type alt struct {
	op, v int
	split []int // sizes of the sub-programs
}

var altCache = map[[2]int][]alt{}

func compositions(total, parts int) [][]int {
	if parts == 1 {
		return [][]int{{total}}
	}
	var out [][]int
	for first := 1; first <= total-(parts-1); first++ {
		for _, rest := range compositions(total-first, parts-1) {
			out = append(out, append([]int{first}, rest...))
		}
	}
	return out
}

// alts lists the root alternatives of a program with exactly n nodes.
func alts(n int, bound bool) []alt {
	key := [2]int{n, 0}
	if bound {
		key[1] = 1
	}
	if a, ok := altCache[key]; ok {
		return a
	}
	var out []alt
	for op := 0; op < nOps; op++ {
		d := ops[op]
		if (op == oArg || op == oAddArg) && !bound || op == oFailE2 {
			continue
		}
		if d.kids == 0 && n != 1 || d.kids > 0 && n < 1+d.kids {
			continue
		}
		for v := 0; v < d.nvar(); v++ {
			if d.kids == 0 {
				out = append(out, alt{op, v, nil})
				continue
			}
			for _, sp := range compositions(n-1, d.kids) {
				out = append(out, alt{op, v, sp})
			}
		}
	}
	altCache[key] = out
	return out
}

func genProgram(x *mc.X, n int, bound bool) *node {
	as := alts(n, bound)
	a := as[x.Choose(len(as), "node")]
	nd := &node{op: a.op, v: a.v}
	for i, sz := range a.split {
		nd.kids = append(nd.kids, genProgram(x, sz, bound || ops[a.op].bound[i]))
	}
	return nd
}

// ---------------------------------------------------------------- library side

type logger struct {
	entries []string
	kept    []keptSlice // every slice a Sequence/Traverse step returned, with its contents at that moment
}

// keptSlice: a slice result handed out by a run; a later run (or a later evaluation of the
// same sub-program value inside one run) must not change it.
type keptSlice struct {
	what string
	raw  []int
	at   []int
}

func (l *logger) keep(what string, raw []int) {
	l.kept = append(l.kept, keptSlice{what, raw, append([]int(nil), raw...)})
}

// adaptSlice is adapt for slice results; the slice itself is kept for the final inspection.
func adaptSlice[R any](f funcs, what string, p fp.StateT[int, R], toSlice func(R) []int) ST {
	return func(s int) (fp.Try[int], int) {
		t, ns := p(s)
		if t.IsSuccess() {
			raw := toSlice(t.Get())
			f.l.keep(what, raw)
			return fp.Success(digits(raw)), ns
		}
		return fp.Failure[int](t.Failed().Get()), ns
	}
}

func (l *logger) log(format string, args ...any) {
	l.entries = append(l.entries, fmt.Sprintf(format, args...))
}

func errName(err error) string {
	if err == nil {
		return "<nil>"
	}
	return err.Error()
}

// adapt converts the result type without any library combinator.
func adapt[A any](p fp.StateT[int, A], conv func(A) int) ST {
	return func(s int) (fp.Try[int], int) {
		t, ns := p(s)
		if t.IsSuccess() {
			return fp.Success(conv(t.Get())), ns
		}
		return fp.Failure[int](t.Failed().Get()), ns
	}
}

func unit0(fp.Unit) int { return 0 }

func digits(xs []int) int {
	r := 0
	for _, v := range xs {
		r = r*1000 + v
	}
	return r*10 + len(xs)
}

// the user functions; every one logs its invocation with its arguments
type funcs struct{ l *logger }

func (f funcs) inc(s int) int   { f.l.log("step:inc(s=%d)", s); return inc(s) }
func (f funcs) plus5(s int) int { f.l.log("step:plus5(s=%d)", s); return s + 5 }
func (f funcs) addArg(arg int) func(int) int {
	return func(s int) int { f.l.log("step:addArg%d(s=%d)", arg, s); return ((s+arg)%3 + 3) % 3 }
}
func (f funcs) modT(v int) func(int) fp.Try[int] {
	return func(s int) fp.Try[int] {
		f.l.log("step:modT%d(s=%d)", v, s)
		switch {
		case v == 1:
			return fp.Failure[int](e1)
		case v == 2 && s == 1:
			return fp.Failure[int](e2)
		}
		return fp.Success(inc(s))
	}
}
func (f funcs) getST(s int) fp.Try[int] {
	f.l.log("step:getST(s=%d)", s)
	if s == 1 {
		return fp.Failure[int](e2)
	}
	return fp.Success(s + 5)
}
func (f funcs) run(s int) (int, int) { f.l.log("step:run(s=%d)", s); return s + 5, inc(s) }
func (f funcs) withf(s, v int) int   { f.l.log("step:withf(s=%d,v=%d)", s, v); return (s + v) % 3 }
func (f funcs) plus1(a int) int      { f.l.log("step:plus1(a=%d)", a); return a + 1 }
func (f funcs) mapT(a int) fp.Try[int] {
	f.l.log("step:mapT(a=%d)", a)
	if a == 0 {
		return fp.Failure[int](e3)
	}
	return fp.Success(a + 1)
}
func (f funcs) sa(s, a int) int { f.l.log("step:sa(s=%d,a=%d)", s, a); return 10*s + a }
func (f funcs) saT(s, a int) fp.Try[int] {
	f.l.log("step:saT(s=%d,a=%d)", s, a)
	if s == 1 {
		return fp.Failure[int](e3)
	}
	return fp.Success(10*s + a)
}
func (f funcs) peek(s int) { f.l.log("peek(s=%d)", s) }
func (f funcs) transform(s int, t fp.Try[int]) (int, fp.Try[int]) {
	if t.IsSuccess() {
		f.l.log("step:transform(s=%d,Success(%d))", s, t.Get())
		return inc(s), fp.Success(t.Get() + 1)
	}
	err := t.Failed().Get()
	f.l.log("handler:transform(s=%d,%s)", s, errName(err))
	return s, fp.Success(100 + 10*s + code(err))
}
func (f funcs) ab(a, b int) int { f.l.log("step:ab(a=%d,b=%d)", a, b); return 10*a + b }
func (f funcs) hRecover(err error) int {
	f.l.log("handler:Recover(%s)", errName(err))
	return 100 + code(err)
}
func (f funcs) hRecoverT(err error) fp.Try[int] {
	f.l.log("handler:RecoverT(%s)", errName(err))
	if err == e1 {
		return fp.Success(101)
	}
	return fp.Failure[int](eH)
}
func (f funcs) hRecoverWithState(s int, err error) int {
	f.l.log("handler:RecoverWithState(s=%d,%s)", s, errName(err))
	return 100 + 10*s + code(err)
}
func (f funcs) hRecoverWithStateT(s int, err error) fp.Try[int] {
	f.l.log("handler:RecoverWithStateT(s=%d,%s)", s, errName(err))
	if err == e1 {
		return fp.Success(100 + 10*s + code(err))
	}
	return fp.Failure[int](eH)
}
func (f funcs) isE1(err error) bool    { return err == e1 }
func (f funcs) isE1or3(err error) bool { return err == e1 || err == e3 }
func (f funcs) hCase(err error) int {
	f.l.log("handler:RecoverCase(%s)", errName(err))
	return 100 + code(err)
}
func (f funcs) hCaseT(err error) fp.Try[int] {
	f.l.log("handler:RecoverCaseT(%s)", errName(err))
	if err == e1 {
		return fp.Success(101)
	}
	return fp.Failure[int](eH)
}

func tryArg(t fp.Try[int]) int {
	if t.IsSuccess() {
		return t.Get()
	}
	return 100 + code(t.Failed().Get())
}

// build constructs the library program for n; arg is the value of the innermost binder.
func build(f funcs, n *node, arg int) ST {
	k := func(i int) ST { return build(f, n.kids[i], arg) }
	body := func(i int) func(int) ST {
		return func(a int) ST { return build(f, n.kids[i], a) }
	}
	switch n.op {
	case oPut:
		return adapt(statet.Put([]int{0, 2}[n.v]), unit0)
	case oGet:
		return statet.Get[int]()
	case oModify:
		return adapt(statet.Modify(f.inc), unit0)
	case oModifyS:
		return statet.ModifyS(f.inc, f.plus5)
	case oModifyT:
		return adapt(statet.ModifyT(f.modT(n.v)), unit0)
	case oGetS:
		return statet.GetS(f.plus5)
	case oGetST:
		return statet.GetST(f.getST)
	case oPure:
		return statet.Pure[int](7)
	case oFromTry:
		if n.v == 0 {
			return statet.FromTry[int](fp.Failure[int](e1))
		}
		return statet.FromTry[int](fp.Success(8))
	case oRun:
		return statet.Run(f.run)
	case oMerge:
		return statet.Merge(f.inc, f.plus5)
	case oPutWith:
		return adapt(statet.PutWith(f.withf)(2), unit0)
	case oArg:
		return statet.Pure[int](arg)
	case oAddArg:
		return adapt(statet.Modify(f.addArg(arg)), unit0)
	case oMap:
		return statet.Map(k(0), f.plus1)
	case oMapT:
		return statet.MapT(k(0), f.mapT)
	case oMapWithState:
		return statet.MapWithState(k(0), f.sa)
	case oMapWithStateT:
		return statet.MapWithStateT(k(0), f.saT)
	case oPeekState:
		return statet.PeekState(k(0), f.peek)
	case oTransform:
		return statet.Transform(k(0), f.transform)
	case oReplace:
		return statet.Replace(k(0), 9)
	case oTwice:
		if takesIterator(n.kids[0]) {
			// built from a caller-supplied iterator: single-use, so two separately built values
			return statet.Map2(k(0), k(0), f.ab)
		}
		p := k(0)
		return statet.Map2(p, p, f.ab)
	case oWithState:
		return statet.WithState(body(0))
	case oTraverse:
		switch n.v {
		case 0:
			return adaptSlice(f, "TraverseSeq", statet.TraverseSeq(fp.Seq[int]{1, 2}, body(0)), func(r fp.Seq[int]) []int { return r })
		case 1:
			return adaptSlice(f, "Traverse", statet.Traverse(fp.IteratorOfSeq([]int{1, 2}), body(0)), func(r fp.Iterator[int]) []int { return r.ToSeq() })
		default:
			return adaptSlice(f, "TraverseSlice", statet.TraverseSlice([]int{1, 2}, body(0)), func(r []int) []int { return r })
		}
	case oFoldM:
		return statet.FoldM(fp.IteratorOfSeq([]int{1, 2}), 0, func(b, a int) ST { return build(f, n.kids[0], 10*b+a) })
	case oRecover:
		return k(0).Recover(f.hRecover)
	case oRecoverT:
		return k(0).RecoverT(f.hRecoverT)
	case oRecoverWithState:
		return k(0).RecoverWithState(f.hRecoverWithState)
	case oRecoverWithStateT:
		return k(0).RecoverWithStateT(f.hRecoverWithStateT)
	case oRecoverCase:
		return k(0).RecoverCase(f.isE1, f.hCase)
	case oRecoverCaseT:
		return k(0).RecoverCaseT(f.isE1or3, f.hCaseT)
	case oFlatMap:
		return statet.FlatMap(k(0), body(1))
	case oFlatMapConst:
		return statet.FlatMapConst(k(0), k(1))
	case oMap2:
		return statet.Map2(k(0), k(1), f.ab)
	case oZip:
		return adapt(statet.Zip(k(0), k(1)), func(t fp.Tuple2[int, int]) int { return f.ab(t.I1, t.I2) })
	case oAp:
		k0 := k(0)
		fn := fp.StateT[int, fp.Func1[int, int]](func(s int) (fp.Try[fp.Func1[int, int]], int) {
			t, ns := k0(s)
			if t.IsSuccess() {
				a := t.Get()
				return fp.Success(fp.Func1[int, int](func(b int) int { return f.ab(a, b) })), ns
			}
			return fp.Failure[fp.Func1[int, int]](t.Failed().Get()), ns
		})
		return statet.Ap(fn, k(1))
	case oConcat2:
		return statet.Concat(k(0), k(1))
	case oSequence2:
		if n.v == 0 {
			return adaptSlice(f, "Sequence", statet.Sequence([]ST{k(0), k(1)}), func(r []int) []int { return r })
		}
		return adaptSlice(f, "SequenceIterator", statet.SequenceIterator(fp.IteratorOfSeq([]ST{k(0), k(1)})), func(r fp.Iterator[int]) []int { return r.ToSeq() })
	case oTransformWith:
		return statet.TransformWith(k(0), func(t fp.Try[int]) ST { return build(f, n.kids[1], tryArg(t)) })
	case oRecoverWith:
		return k(0).RecoverWith(func(err error) ST { return build(f, n.kids[1], code(err)) })
	case oRecoverCaseWith:
		return k(0).RecoverCaseWith(f.isE1, func(err error) ST { return build(f, n.kids[1], code(err)) })
	case oConcat3:
		return statet.Concat(k(0), k(1), k(2))
	case oSequence3:
		return adaptSlice(f, "Sequence", statet.Sequence([]ST{k(0), k(1), k(2)}), func(r []int) []int { return r })
	case oFailE2:
		return statet.FromTry[int](fp.Failure[int](e2))
	}
	panic("build: bad op")
}

// ---------------------------------------------------------------- reference interpreter

type res struct {
	ok  bool
	v   int
	err error
}

func (r res) String() string {
	if r.ok {
		return fmt.Sprintf("Success(%d)", r.v)
	}
	return fmt.Sprintf("Failure(%s)", errName(r.err))
}

func okv(v int) res      { return res{ok: true, v: v} }
func fail(err error) res { return res{err: err} }

// refm is the reference machine: plain functions over (value, state); it logs what the
// property allows to run, counts primitive steps and notes where the first failure happened.
type refm struct {
	l         logger
	steps     int
	firstFail int
	recovered bool
	outR      res
	outS      int
}

func (m *refm) step(r res) res {
	if !r.ok && m.firstFail < 0 {
		m.firstFail = m.steps
	}
	m.steps++
	return r
}

// ref(e)(s) -> (Try, state). State flows left to right; when a step fails, later steps do not
// run and the state is the state at the point of failure; a Recover* handler receives the
// error and that state, which is also the state returned.
func (m *refm) ref(n *node, arg int, s int) (res, int) {
	kid := func(i int, s int) (res, int) { return m.ref(n.kids[i], arg, s) }
	// seq runs the sub-programs in order and stops at the first failure
	seq := func(s int, idx ...int) ([]int, res, int) {
		var vals []int
		for _, i := range idx {
			r, ns := kid(i, s)
			s = ns
			if !r.ok {
				return vals, r, s
			}
			vals = append(vals, r.v)
		}
		return vals, okv(0), s
	}
	switch n.op {
	case oPut:
		return m.step(okv(0)), []int{0, 2}[n.v]
	case oGet:
		return m.step(okv(s)), s
	case oModify:
		m.l.log("step:inc(s=%d)", s)
		return m.step(okv(0)), inc(s)
	case oModifyS, oMerge:
		m.l.log("step:inc(s=%d)", s)
		m.l.log("step:plus5(s=%d)", s)
		return m.step(okv(s + 5)), inc(s)
	case oModifyT:
		m.l.log("step:modT%d(s=%d)", n.v, s)
		if n.v == 1 {
			return m.step(fail(e1)), s
		}
		if n.v == 2 && s == 1 {
			return m.step(fail(e2)), s
		}
		return m.step(okv(0)), inc(s)
	case oGetS:
		m.l.log("step:plus5(s=%d)", s)
		return m.step(okv(s + 5)), s
	case oGetST:
		m.l.log("step:getST(s=%d)", s)
		if s == 1 {
			return m.step(fail(e2)), s
		}
		return m.step(okv(s + 5)), s
	case oPure:
		return m.step(okv(7)), s
	case oFromTry:
		if n.v == 0 {
			return m.step(fail(e1)), s
		}
		return m.step(okv(8)), s
	case oFailE2:
		return m.step(fail(e2)), s
	case oRun:
		m.l.log("step:run(s=%d)", s)
		return m.step(okv(s + 5)), inc(s)
	case oPutWith:
		m.l.log("step:withf(s=%d,v=2)", s)
		return m.step(okv(0)), (s + 2) % 3
	case oArg:
		return m.step(okv(arg)), s
	case oAddArg:
		m.l.log("step:addArg%d(s=%d)", arg, s)
		return m.step(okv(0)), ((s+arg)%3 + 3) % 3
	case oMap:
		r, ns := kid(0, s)
		if !r.ok {
			return r, ns
		}
		m.l.log("step:plus1(a=%d)", r.v)
		return okv(r.v + 1), ns
	case oMapT:
		r, ns := kid(0, s)
		if !r.ok {
			return r, ns
		}
		m.l.log("step:mapT(a=%d)", r.v)
		if r.v == 0 {
			return m.step(fail(e3)), ns
		}
		return okv(r.v + 1), ns
	case oMapWithState:
		r, ns := kid(0, s)
		if !r.ok {
			return r, ns
		}
		m.l.log("step:sa(s=%d,a=%d)", ns, r.v)
		return okv(10*ns + r.v), ns
	case oMapWithStateT:
		r, ns := kid(0, s)
		if !r.ok {
			return r, ns
		}
		m.l.log("step:saT(s=%d,a=%d)", ns, r.v)
		if ns == 1 {
			return m.step(fail(e3)), ns
		}
		return okv(10*ns + r.v), ns
	case oPeekState:
		r, ns := kid(0, s)
		// the statement does not say whether the observer runs after a failure: allowed, not required
		m.l.log("peek(s=%d)", ns)
		return r, ns
	case oTransform:
		r, ns := kid(0, s)
		if r.ok {
			m.l.log("step:transform(s=%d,Success(%d))", ns, r.v)
			return okv(r.v + 1), inc(ns)
		}
		m.l.log("handler:transform(s=%d,%s)", ns, errName(r.err))
		m.recovered = true
		return okv(100 + 10*ns + code(r.err)), ns
	case oReplace:
		r, ns := kid(0, s)
		if !r.ok {
			return r, ns
		}
		return okv(9), ns
	case oTwice:
		vals, r, ns := seq(s, 0, 0)
		if !r.ok {
			return r, ns
		}
		m.l.log("step:ab(a=%d,b=%d)", vals[0], vals[1])
		return okv(10*vals[0] + vals[1]), ns
	case oWithState:
		return m.ref(n.kids[0], s, s)
	case oTraverse:
		var vals []int
		for _, a := range []int{1, 2} {
			r, ns := m.ref(n.kids[0], a, s)
			s = ns
			if !r.ok {
				return r, s
			}
			vals = append(vals, r.v)
		}
		return okv(digits(vals)), s
	case oFoldM:
		acc := 0
		for _, a := range []int{1, 2} {
			r, ns := m.ref(n.kids[0], 10*acc+a, s)
			s = ns
			if !r.ok {
				return r, s
			}
			acc = r.v
		}
		return okv(acc), s
	case oRecover:
		r, ns := kid(0, s)
		if r.ok {
			return r, ns
		}
		m.recovered = true
		m.l.log("handler:Recover(%s)", errName(r.err))
		return okv(100 + code(r.err)), ns
	case oRecoverT:
		r, ns := kid(0, s)
		if r.ok {
			return r, ns
		}
		m.recovered = true
		m.l.log("handler:RecoverT(%s)", errName(r.err))
		if r.err == e1 {
			return okv(101), ns
		}
		return fail(eH), ns
	case oRecoverWithState:
		r, ns := kid(0, s)
		if r.ok {
			return r, ns
		}
		m.recovered = true
		m.l.log("handler:RecoverWithState(s=%d,%s)", ns, errName(r.err))
		return okv(100 + 10*ns + code(r.err)), ns
	case oRecoverWithStateT:
		r, ns := kid(0, s)
		if r.ok {
			return r, ns
		}
		m.recovered = true
		m.l.log("handler:RecoverWithStateT(s=%d,%s)", ns, errName(r.err))
		if r.err == e1 {
			return okv(100 + 10*ns + code(r.err)), ns
		}
		return fail(eH), ns
	case oRecoverCase:
		r, ns := kid(0, s)
		if r.ok || r.err != e1 {
			return r, ns
		}
		m.recovered = true
		m.l.log("handler:RecoverCase(%s)", errName(r.err))
		return okv(100 + code(r.err)), ns
	case oRecoverCaseT:
		r, ns := kid(0, s)
		if r.ok || (r.err != e1 && r.err != e3) {
			return r, ns
		}
		m.recovered = true
		m.l.log("handler:RecoverCaseT(%s)", errName(r.err))
		if r.err == e1 {
			return okv(101), ns
		}
		return fail(eH), ns
	case oFlatMap:
		r, ns := kid(0, s)
		if !r.ok {
			return r, ns
		}
		return m.ref(n.kids[1], r.v, ns)
	case oFlatMapConst, oConcat2:
		vals, r, ns := seq(s, 0, 1)
		if !r.ok {
			return r, ns
		}
		return okv(vals[1]), ns
	case oConcat3:
		vals, r, ns := seq(s, 0, 1, 2)
		if !r.ok {
			return r, ns
		}
		return okv(vals[2]), ns
	case oMap2, oZip, oAp:
		vals, r, ns := seq(s, 0, 1)
		if !r.ok {
			return r, ns
		}
		m.l.log("step:ab(a=%d,b=%d)", vals[0], vals[1])
		return okv(10*vals[0] + vals[1]), ns
	case oSequence2:
		vals, r, ns := seq(s, 0, 1)
		if !r.ok {
			return r, ns
		}
		return okv(digits(vals)), ns
	case oSequence3:
		vals, r, ns := seq(s, 0, 1, 2)
		if !r.ok {
			return r, ns
		}
		return okv(digits(vals)), ns
	case oTransformWith:
		r, ns := kid(0, s)
		a := r.v
		if !r.ok {
			a = 100 + code(r.err)
			m.recovered = true
		}
		return m.ref(n.kids[1], a, ns)
	case oRecoverWith:
		r, ns := kid(0, s)
		if r.ok {
			return r, ns
		}
		m.recovered = true
		return m.ref(n.kids[1], code(r.err), ns)
	case oRecoverCaseWith:
		r, ns := kid(0, s)
		if r.ok || r.err != e1 {
			return r, ns
		}
		m.recovered = true
		return m.ref(n.kids[1], code(r.err), ns)
	}
	panic("ref: bad op")
}

// ---------------------------------------------------------------- comparison

type verdict struct {
	kind string // "", "panic", "handler-args", "ran-unexpectedly", "state", "value"
	msg  string
}

func toRes(t fp.Try[int]) res {
	if t.IsSuccess() {
		return okv(t.Get())
	}
	return fail(t.Failed().Get())
}

// takesIterator: the program contains a combinator whose ARGUMENT is an fp.Iterator supplied
// by the caller (FoldM, Traverse, SequenceIterator). An iterator is single-use, so a StateT
// built from one is only demanded to be right the first time it is run.
func takesIterator(n *node) bool {
	if n.op == oFoldM || n.op == oTraverse && n.v == 1 || n.op == oSequence2 && n.v == 1 {
		return true
	}
	for _, k := range n.kids {
		if takesIterator(k) {
			return true
		}
	}
	return false
}

// compare judges one run of the library against the reference run from the same state.
func compare(m *refm, lg *logger, got fp.Try[int], gotS int) verdict {
	wantR, wantS := m.outR, m.outS
	gotR := toRes(got)
	allowed := map[string]bool{}
	for _, e := range m.l.entries {
		allowed[e] = true
	}
	var stray []string
	for _, e := range lg.entries {
		if !allowed[e] {
			stray = append(stray, e)
		}
	}
	detail := fmt.Sprintf("library (%v, state %d), reference (%v, state %d); library callbacks %v, reference callbacks %v", gotR, gotS, wantR, wantS, lg.entries, m.l.entries)
	for _, e := range stray {
		if strings.HasPrefix(e, "handler:") {
			return verdict{"handler-args", "a recovery handler was invoked as " + e + ", which the reference (error and post-failure state) never does; " + detail}
		}
	}
	if len(stray) > 0 {
		return verdict{"ran-unexpectedly", "callback invocation " + stray[0] + " does not occur in the reference run (a step after a failure ran, or a step saw the wrong state/value); " + detail}
	}
	if gotS != wantS {
		return verdict{"state", detail}
	}
	if gotR != wantR {
		return verdict{"value", detail}
	}
	return verdict{}
}

// check builds the library program for n ONCE (with everything it is built from: the
// sequences, slices and iterators handed to Traverse/FoldM/Sequence) and runs that one value
// from state s, again from s, and from one other state; every run is compared with the
// reference run from the same state. A StateT is a function of the initial state, so later
// runs must not differ from the first; their verdicts carry the suffix /second-run. The
// returned reference machine is the one of the first run.
func check(n *node, arg, s int) (verdict, *refm) {
	first := &refm{firstFail: -1}
	first.outR, first.outS = first.ref(n, arg, s)
	lg := &logger{}
	var prog ST
	if p := mc.Catch(func() { prog = build(funcs{lg}, n, arg) }); p != nil {
		return verdict{"panic", fmt.Sprintf("building the program panicked: %v", p)}, first
	}
	type runSpec struct {
		s      int
		suffix string
		what   string
	}
	runs := []runSpec{{s, "", "first run"}}
	if !takesIterator(n) {
		runs = append(runs, runSpec{(s + 1) % 3, "/second-run", "second run of the same StateT value, from another state"},
			runSpec{s, "/second-run", "third run of the same StateT value, from the first state again"})
	}
	for i, r := range runs {
		m := first
		if i > 0 {
			m = &refm{firstFail: -1}
			m.outR, m.outS = m.ref(n, arg, r.s)
		}
		lg.entries = nil
		var got fp.Try[int]
		var gotS int
		if p := mc.Catch(func() { got, gotS = prog.Run(r.s) }); p != nil {
			return verdict{"panic" + r.suffix, fmt.Sprintf("%s (state %d) panicked: %v", r.what, r.s, p)}, first
		}
		if v := compare(m, lg, got, gotS); v.kind != "" {
			if i > 0 {
				v.msg = fmt.Sprintf("%s (state %d) differs although the first run from state %d agreed with the reference: %s", r.what, r.s, s, v.msg)
			}
			return verdict{v.kind + r.suffix, v.msg}, first
		}
	}
	// after the last run: every slice any run handed out must still read as it did then
	for _, k := range lg.kept {
		if fmt.Sprint(k.raw) != fmt.Sprint(k.at) {
			return verdict{"result-overwritten/second-run", fmt.Sprintf("a slice returned by %s read %v when it was returned and reads %v after the later evaluations of the same program value (runs from states %d, %d, %d): running a program must not change what an earlier run returned",
				k.what, k.at, k.raw, s, (s+1)%3, s)}, first
		}
	}
	return verdict{}, first
}

var probeArgs = []int{0, 1, 2, 5, 7, 12, 101}

// minimalFailing finds a smallest sub-program that already disagrees with the reference on
// some state (and some argument, under a binder); used to name the violation.
func minimalFailing(n *node, arg, s int, v verdict) (*node, int, int, verdict) {
	for i, k := range n.kids {
		args := []int{arg}
		if ops[n.op].bound[i] {
			args = probeArgs
		}
		for _, a := range args {
			for st := 0; st < 3; st++ {
				if kv, _ := check(k, a, st); kv.kind != "" {
					return minimalFailing(k, a, st, kv)
				}
			}
		}
	}
	return n, arg, s, v
}

func hasOp(n *node, op int) bool {
	if n.op == op {
		return true
	}
	for _, k := range n.kids {
		if hasOp(k, op) {
			return true
		}
	}
	return false
}

func size(n *node) int {
	c := 1
	for _, k := range n.kids {
		c += size(k)
	}
	return c
}

// judge compares one program from one initial state with the reference (the oracle of every
// scenario) and names a violation after the smallest failing sub-program.
func judge(x *mc.X, p *node, s int, sz int) *refm {
	x.Logf("program: %v", p)
	x.Logf("initial state: %d", s)
	v, m := check(p, 0, s)
	wantR, wantS := m.outR, m.outS
	x.Logf("reference: (%v, state %d), primitive steps run %d, first failure at step %d", wantR, wantS, m.steps, m.firstFail)
	// census first, so that it also counts the executions that end in a violation
	// rule: at least two primitive steps ran (state had to flow), or a failure occurred
	if m.steps >= 2 || m.firstFail >= 0 {
		x.NonTrivial()
	}
	x.Tag("root=" + ops[p.op].name)
	if takesIterator(p) {
		x.Tag("runs-of-the-built-value=1 (caller-supplied iterator argument)")
	} else {
		x.Tag("runs-of-the-built-value=3 (same state twice, one other state)")
	}
	if m.firstFail >= 0 {
		x.Tag(fmt.Sprintf("first-failure@step%d", m.firstFail))
		if m.recovered {
			x.Tag("failure-then-handler-ran")
		}
		if !wantR.ok {
			x.Tag("program-fails")
		}
		if wantS != s {
			x.Tag("failure-after-state-change")
		}
	} else {
		x.Tag("no-failure")
	}
	if v.kind != "" {
		mn, marg, ms, mv := minimalFailing(p, 0, s, v)
		x.Fail(ops[mn.op].name+"/"+mv.kind, "%v from state %d: %s\nsmallest failing sub-program: %v (arg=%d) from state %d: %s", p, s, v.msg, mn, marg, ms, mv.msg)
	}
	if sz <= 3 {
		// Exec and Eval are the other two runners of the same function
		lg := &logger{}
		ex := build(funcs{lg}, p, 0).Exec(s)
		ev := build(funcs{lg}, p, 0).Eval(s)
		wantEx := wantR
		if wantR.ok {
			wantEx = okv(wantS)
		}
		if toRes(ex) != wantEx {
			x.Fail("StateT.Exec/value", "%v .Exec(%d) = %v, want %v", p, s, toRes(ex), wantEx)
		}
		if toRes(ev) != wantR {
			x.Fail("StateT.Eval/value", "%v .Eval(%d) = %v, want %v", p, s, toRes(ev), wantR)
		}
	}
	x.Observe(p.String(), s, wantR.String(), wantS)
	return m
}

func programs(maxNodes int) func(x *mc.X) {
	return func(x *mc.X) {
		sz := 1 + x.Choose(maxNodes, "nodes")
		p := genProgram(x, sz, false)
		s := x.Choose(3, "initial state")
		judge(x, p, s, sz)
	}
}

// ---------------------------------------------------------------- recovery after a state change

func lf(op, v int) *node { return &node{op: op, v: v} }
func nd(op, v int, kids ...*node) *node {
	return &node{op: op, v: v, kids: kids}
}

// failingPrefixes is a family of programs in which a step changes the state (Put, Modify,
// ModifyS, Modify(+arg)) and a step fails with e1 or e2, at every position, composed with
// each of FlatMapConst/FlatMap/Map2/Zip/Concat/Sequence/Traverse*/FoldM/WithState.
func failingPrefixes() []*node {
	changers := func() []*node {
		return []*node{lf(oPut, 0), lf(oPut, 1), lf(oModify, 0), lf(oModifyS, 0)}
	}
	failers := func() []*node {
		return []*node{lf(oFromTry, 0), lf(oFailE2, 0), lf(oModifyT, 1), lf(oModifyT, 2), lf(oGetST, 0)}
	}
	two := []func(a, b *node) *node{
		func(a, b *node) *node { return nd(oFlatMapConst, 0, a, b) },
		func(a, b *node) *node { return nd(oFlatMap, 0, a, b) },
		func(a, b *node) *node { return nd(oMap2, 0, a, b) },
		func(a, b *node) *node { return nd(oZip, 0, a, b) },
		func(a, b *node) *node { return nd(oConcat2, 0, a, b) },
		func(a, b *node) *node { return nd(oSequence2, 0, a, b) },
		func(a, b *node) *node { return nd(oSequence2, 1, a, b) },
	}
	three := []func(a, b, c *node) *node{
		func(a, b, c *node) *node { return nd(oFlatMapConst, 0, a, nd(oFlatMapConst, 0, b, c)) },
		func(a, b, c *node) *node { return nd(oFlatMapConst, 0, nd(oFlatMapConst, 0, a, b), c) },
		func(a, b, c *node) *node { return nd(oFlatMap, 0, a, nd(oFlatMap, 0, b, c)) },
		func(a, b, c *node) *node { return nd(oMap2, 0, a, nd(oMap2, 0, b, c)) },
		func(a, b, c *node) *node { return nd(oConcat3, 0, a, b, c) },
		func(a, b, c *node) *node { return nd(oSequence3, 0, a, b, c) },
	}
	var out []*node
	seen := map[string]bool{}
	add := func(n *node) {
		if k := n.String(); !seen[k] {
			seen[k] = true
			out = append(out, n)
		}
	}
	for ci := range changers() {
		for fi := range failers() {
			c := func() *node { return changers()[ci] }
			f := func() *node { return failers()[fi] }
			for _, sh := range two {
				add(sh(c(), f())) // change, then fail
				add(sh(f(), c())) // fail first: the change must not happen
			}
			for _, sh := range three {
				add(sh(c(), f(), lf(oModify, 0))) // a later step must not run
				add(sh(c(), lf(oModify, 0), f())) // two changes, then the failure
				add(sh(lf(oGet, 0), c(), f()))
			}
			// per-element bodies: the first element already changes the state and fails
			body := func() *node { return nd(oFlatMapConst, 0, c(), f()) }
			for v := 0; v < 3; v++ {
				add(nd(oTraverse, v, body()))
			}
			add(nd(oFoldM, 0, body()))
			add(nd(oWithState, 0, body()))
		}
	}
	for fi := range failers() {
		// the element argument changes the state, then the step fails
		for v := 0; v < 3; v++ {
			add(nd(oTraverse, v, nd(oFlatMapConst, 0, lf(oAddArg, 0), failers()[fi])))
		}
		add(nd(oFoldM, 0, nd(oFlatMapConst, 0, lf(oAddArg, 0), failers()[fi])))
	}
	for v := 0; v < 3; v++ {
		// ModifyT(inc unless s==1): later elements fail after earlier ones changed the state
		add(nd(oTraverse, v, lf(oModifyT, 2)))
	}
	add(nd(oFoldM, 0, lf(oModifyT, 2)))
	return out
}

type recoverer struct {
	name string
	wrap func(p *node) *node
}

// recoverers: the eight Recover* methods (and Transform/TransformWith); the handler programs
// of RecoverWith/RecoverCaseWith/TransformWith read, keep, overwrite or modify the state,
// or fail themselves.
func recoverers() []recoverer {
	var out []recoverer
	for _, op := range []int{oRecover, oRecoverT, oRecoverWithState, oRecoverWithStateT, oRecoverCase, oRecoverCaseT, oTransform} {
		op := op
		out = append(out, recoverer{ops[op].name, func(p *node) *node { return nd(op, 0, p) }})
	}
	handlers := []func() *node{
		func() *node { return lf(oGet, 0) },
		func() *node { return lf(oPure, 0) },
		func() *node { return lf(oArg, 0) },
		func() *node { return lf(oPut, 0) },
		func() *node { return lf(oPut, 1) },
		func() *node { return lf(oModify, 0) },
		func() *node { return lf(oAddArg, 0) },
		func() *node { return lf(oGetS, 0) },
		func() *node { return lf(oModifyT, 2) },
		func() *node { return lf(oFromTry, 0) },
	}
	for _, op := range []int{oRecoverWith, oRecoverCaseWith, oTransformWith} {
		for _, h := range handlers {
			op, h := op, h
			out = append(out, recoverer{ops[op].name + " with handler " + h().String(), func(p *node) *node { return nd(op, 0, p, h()) }})
		}
	}
	return out
}

func recoverAfterStateChange() func(x *mc.X) {
	prefixes := failingPrefixes()
	recs := recoverers()
	return func(x *mc.X) {
		c := x.Choose(len(prefixes)*len(recs), "failing program x recovery")
		pre := prefixes[c/len(recs)]
		rc := recs[c%len(recs)]
		thenGet := x.Bool("followed by Get")
		s := x.Choose(3, "initial state")
		p := rc.wrap(pre)
		if thenGet {
			p = nd(oMap2, 0, p, lf(oGet, 0))
		}
		// what the recovered program does on its own (reference): census only
		pr, ps := (&refm{firstFail: -1}).ref(pre, 0, s)
		x.Tag("recovery=" + ops[rc.wrap(pre).op].name)
		switch {
		case pr.ok:
			x.Tag("recovered-program/succeeds")
		case ps != s:
			x.Tag("recovered-program/fails-after-state-change/" + errName(pr.err))
		default:
			x.Tag("recovered-program/fails-in-initial-state/" + errName(pr.err))
		}
		judge(x, p, s, size(p))
	}
}

// ---------------------------------------------------------------- the explicit laws

func tryUnit(t fp.Try[fp.Unit]) string {
	if t.IsSuccess() {
		return "Success(unit)"
	}
	return "Failure(" + errName(t.Failed().Get()) + ")"
}

func tryInt(t fp.Try[int]) string { return toRes(t).String() }

func laws(x *mc.X) {
	law := x.Choose(5, "law")
	s0 := x.Choose(3, "initial state")
	x.NonTrivial()
	switch law {
	case 0, 1, 2: // Put(c) then Get yields c and leaves state c
		c := x.Choose(3, "c")
		x.Tag("law=put-get")
		var p ST
		var form string
		switch law {
		case 0:
			form = "FlatMapConst(Put(c), Get)"
			p = statet.FlatMapConst(statet.Put(c), statet.Get[int]())
		case 1:
			form = "FlatMap(Put(c), _ => Get)"
			p = statet.FlatMap(statet.Put(c), func(fp.Unit) ST { return statet.Get[int]() })
		case 2:
			form = "Map2(Put(c), Get, (_, s) => s)"
			p = statet.Map2(statet.Put(c), statet.Get[int](), func(_ fp.Unit, s int) int { return s })
		}
		t, ns := p.Run(s0)
		x.Logf("%s with c=%d from state %d = (%s, state %d)", form, c, s0, tryInt(t), ns)
		if toRes(t) != okv(c) || ns != c {
			x.Fail("statet.Put/put-get", "%s with c=%d from state %d = (%s, state %d), want (Success(%d), state %d)", form, c, s0, tryInt(t), ns, c, c)
		}
		// Put alone
		tu, ns := statet.Put(c).Run(s0)
		if !tu.IsSuccess() || ns != c {
			x.Fail("statet.Put/state", "Put(%d) from state %d = (%s, state %d), want (Success(unit), state %d)", c, s0, tryUnit(tu), ns, c)
		}
		x.Observe("put-get", law, c, s0, ns)
	case 3: // Get then Put is a no-op
		x.Tag("law=get-put")
		p := statet.FlatMap(statet.Get[int](), statet.Put[int])
		t, ns := p.Run(s0)
		x.Logf("FlatMap(Get, Put) from state %d = (%s, state %d)", s0, tryUnit(t), ns)
		if !t.IsSuccess() || ns != s0 {
			x.Fail("statet.Put/get-put", "FlatMap(Get, Put) from state %d = (%s, state %d), want (Success(unit), state %d)", s0, tryUnit(t), ns, s0)
		}
		x.Observe("get-put", s0, ns)
	case 4: // Modify(f) = Get followed by Put of f's result
		fi := x.Choose(27, "f")
		tab := [3]int{fi % 3, fi / 3 % 3, fi / 9}
		f := func(s int) int { return tab[s] }
		x.Tag("law=modify")
		if tab[s0] != s0 {
			x.Tag("law=modify/f-changes-the-state")
		}
		lt, ls := statet.Modify(f).Run(s0)
		rt, rs := statet.FlatMap(statet.Get[int](), func(s int) fp.StateT[int, fp.Unit] { return statet.Put(f(s)) }).Run(s0)
		x.Logf("f=%v from state %d: Modify(f) = (%s, state %d); FlatMap(Get, s => Put(f s)) = (%s, state %d)", tab, s0, tryUnit(lt), ls, tryUnit(rt), rs)
		if !lt.IsSuccess() || ls != tab[s0] {
			x.Fail("statet.Modify/modify-law-lhs", "Modify(f) with f=%v from state %d = (%s, state %d), want (Success(unit), state %d)", tab, s0, tryUnit(lt), ls, tab[s0])
		}
		if !rt.IsSuccess() || rs != tab[s0] {
			x.Fail("statet.Put/modify-law-rhs", "FlatMap(Get, s => Put(f s)) with f=%v from state %d = (%s, state %d), but Modify(f) = (%s, state %d) and f(%d) = %d", tab, s0, tryUnit(rt), rs, tryUnit(lt), ls, s0, tab[s0])
		}
		x.Observe("modify", fi, s0, ls, rs)
	}
}

func main() {
	mc.Main("C17", func(r *mc.Registry) {
		r.Rule = "every execution runs one built StateT value up to three times (see assumptions). programs: every AST with at most N nodes over the alphabet in bounds (leaf Pure(arg)/Modify(+arg) only under a binder) x every initial state in {0,1,2}; failing leaves (FromTry(Failure), ModifyT, GetST, MapT, MapWithStateT) are ordinary alphabet members, so a failure is injected at every position; non-trivial = the reference ran at least two primitive steps or a failure occurred; distinct = (program, initial state, result, final state). laws: law x initial state x Put argument x all 27 functions on {0,1,2}. recover-after-state-change: (program of a fixed family that changes the state through Put/Modify/ModifyS/Modify(+arg) and fails with e1 or e2, at every position of FlatMapConst/FlatMap/Map2/Zip/Concat/Sequence/Traverse*/FoldM/WithState compositions of 2-3 steps) x (each of the eight Recover* methods, Transform, TransformWith; RecoverWith/RecoverCaseWith/TransformWith with each of ten handler programs that read, keep, overwrite or modify the state or fail) x (alone | followed by Get) x initial state, same reference and key naming"
		r.Assumptions = []string{
			"the reference interpreter ref(e)(s) in the driver encodes the statement: state flows left to right; after a failing step nothing later runs and the state is the state at the failure; a Recover* handler gets the error and that state, which is the state returned (RecoverWith/RecoverCaseWith: the handler's program starts from it)",
			"each execution builds the library program once (including the Seq/slice/iterator inputs of Traverse/FoldM/Sequence) and runs that one value from the chosen state, from the next state (mod 3) and from the chosen state again; every run is compared with the reference run from its state, callback logs per run; keys of the later runs end in /second-run",
			"every slice a Sequence/Traverse* step hands out is kept; after the last run each must still read as it did when it was returned (key kind result-overwritten/second-run): a program value is reusable, running has no memory. The alphabet has (p := e; Map2(p, p, f)), the same sub-program value twice inside one program",
			"a program that contains a combinator taking a caller-supplied fp.Iterator (FoldM, Traverse, SequenceIterator) is only run once: an iterator is single-use, so only the first run of such a StateT is demanded; TraverseSeq, TraverseSlice and Sequence (slice arguments) are run three times",
			"callback logs are compared by containment: every user-function invocation made by the library (with its arguments) must also occur in the reference run; missing or repeated invocations are not demanded",
			"functions that only construct a sub-program (FlatMap continuation, Traverse/FoldM body, RecoverWith handler) are not logged: constructing a later step without running it is not what the statement forbids",
			"PeekState's observer may or may not run after a failure (not stated)",
		}
		maxNodes := 4
		if r.Thorough() {
			maxNodes = 5
		}
		sc := r.Seq("programs", programs(maxNodes))
		sc.SplitDepth = 3
		sc.Shard = true
		r.Seq("laws", laws)
		// the quick node bound (4) is too small for "change the state, fail, recover with a
		// state-dependent handler" (5 nodes for RecoverCaseWith); this family has it at both tiers
		sc = r.Seq("recover-after-state-change", recoverAfterStateChange())
		sc.SplitDepth = 1
		sc.Shard = true
		var names []string
		seen := map[string]bool{}
		for op := 0; op < nOps; op++ {
			nm := ops[op].name
			if len(ops[op].variants) > 0 && (op == oTraverse || op == oSequence2) {
				for _, v := range ops[op].variants {
					if !seen["statet."+v] {
						seen["statet."+v] = true
						names = append(names, "statet."+v)
					}
				}
				continue
			}
			if !seen[nm] {
				seen[nm] = true
				names = append(names, nm)
			}
		}
		sort.Strings(names)
		leaves, unary, binary, ternary := 0, 0, 0, 0
		for op := 0; op < nOps; op++ {
			switch ops[op].kids {
			case 0:
				leaves += ops[op].nvar()
			case 1:
				unary += ops[op].nvar()
			case 2:
				binary += ops[op].nvar()
			case 3:
				ternary += ops[op].nvar()
			}
		}
		r.Extra["bounds"] = map[string]any{
			"max_nodes":                  maxNodes,
			"states":                     []int{0, 1, 2},
			"library_functions":          names,
			"alphabet_sizes":             map[string]int{"leaves(incl. 2 binder leaves)": leaves, "one sub-program": unary, "two sub-programs": binary, "three sub-programs": ternary},
			"errors":                     []string{"e1", "e2", "e3 (MapT/MapWithStateT)", "eH (handler)"},
			"law_functions":              27,
			"recover_after_state_change": map[string]int{"failing_programs": len(failingPrefixes()), "recoveries": len(recoverers())},
		}
		r.Extra["uncovered"] = []string{
			"the remaining generated applicative/monad helpers of statet/state_monad.go (Lift*, LiftA3..9, LiftM*, FlatMap2..9, Map3..9, Flap*, Method*, Compose*, With, UnZip, Zip3, ApFunc, Flatten, MapSeqLift/MapSliceLift) and ApTry/ApOption: all defined by FlatMap/Map/Map2/Ap, which are covered; the property names FlatMap/Map2/Sequence/Traverse/FoldM/Concat and the Recover* variants",
			"TraverseFunc/TraverseSeqFunc/TraverseSliceFunc/FlatMapTraverseSeq/FlatMapTraverseSlice (one-line wrappers of the covered Traverse functions)",
			"state and value types other than int; sequences longer than 2 (Traverse/FoldM) or 3 (Sequence/Concat)",
			"programs with more nodes than the bound",
		}
	})
}
