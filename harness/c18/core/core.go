// Package core is the reflective oracle of the C18 check (see ../main.go).
package core

import (
	"fmt"
	"reflect"
	"sort"
	"strings"
	"unsafe"

	"github.com/csgura/fp"
	"github.com/csgura/fp/clone"
	"github.com/csgura/fp/hlist"
	"github.com/csgura/fp/lazy"
	"verif/mc"
)

// ---------------------------------------------------------------- types of the grammar

// rec is the struct behind the Generic constructor of the grammar.
type Rec[T any] struct {
	A T
	B T
}

func RecGeneric[T any]() fp.Generic[Rec[T], hlist.Cons[T, hlist.Cons[T, hlist.Nil]]] {
	return fp.Generic[Rec[T], hlist.Cons[T, hlist.Cons[T, hlist.Nil]]]{
		Type: "core.Rec",
		Kind: fp.GenericKindStruct,
		To: func(r Rec[T]) hlist.Cons[T, hlist.Cons[T, hlist.Nil]] {
			return hlist.Concat(r.A, hlist.Concat(r.B, hlist.Empty()))
		},
		From: func(h hlist.Cons[T, hlist.Cons[T, hlist.Nil]]) Rec[T] {
			return Rec[T]{A: hlist.Head(h), B: hlist.Head(hlist.Tail(h))}
		},
	}
}

type Mixed struct {
	N int
	P *int
	S []string
	M map[string]*int
}

type MixedRepr = hlist.Cons[int, hlist.Cons[*int, hlist.Cons[[]string, hlist.Cons[map[string]*int, hlist.Nil]]]]

func MixedGeneric() fp.Generic[Mixed, MixedRepr] {
	return fp.Generic[Mixed, MixedRepr]{
		Type: "core.Mixed",
		Kind: fp.GenericKindStruct,
		To: func(m Mixed) MixedRepr {
			return hlist.Concat(m.N, hlist.Concat(m.P, hlist.Concat(m.S, hlist.Concat(m.M, hlist.Empty()))))
		},
		From: func(h MixedRepr) Mixed {
			t1 := hlist.Tail(h)
			t2 := hlist.Tail(t1)
			t3 := hlist.Tail(t2)
			return Mixed{N: hlist.Head(h), P: hlist.Head(t1), S: hlist.Head(t2), M: hlist.Head(t3)}
		},
	}
}

func MixedReprClone() fp.Clone[MixedRepr] {
	return clone.HCons(clone.Given[int](),
		clone.HCons(clone.Ptr(lazy.Done(clone.Given[int]())),
			clone.HCons(clone.Slice(clone.Given[string]()),
				clone.HCons(clone.GoMap(clone.Given[string](), clone.Ptr(lazy.Done(clone.Given[int]()))), clone.HNil))))
}

// ---- clone.Generic for every fp.GenericKind value
//
// Defined types over a slice, a map, a pointer and a struct (what gombok derives for
// `type MySeq []string` is a Generic of kind NewType whose To/From are conversions), each
// usable with any Kind label, and Struct-/Tuple-kind Generics that have them as components.

type Names []string
type Index map[string]*int
type Cell *int
type Inner struct {
	P *int
	S []int
}
type Wrapped Inner
type Holder struct {
	N Names
	I Index
	C Cell
	W Wrapped
}

var genericNamed = map[string]bool{"Names": true, "Index": true, "Cell": true, "Inner": true, "Wrapped": true, "Holder": true, "Mixed": true}

// GenericKinds: the three constants of package fp and the zero value.
var GenericKinds = []string{fp.GenericKindStruct, fp.GenericKindTuple, fp.GenericKindNewType, ""}

func ptrInt() fp.Clone[*int] { return clone.Ptr(lazy.Done(clone.Given[int]())) }

func CloneNames(kind string) fp.Clone[Names] {
	return clone.Generic(fp.Generic[Names, []string]{Type: "core.Names", Kind: kind,
		To: func(v Names) []string { return []string(v) }, From: func(v []string) Names { return Names(v) }},
		clone.Slice(clone.Given[string]()))
}

func CloneIndex(kind string) fp.Clone[Index] {
	return clone.Generic(fp.Generic[Index, map[string]*int]{Type: "core.Index", Kind: kind,
		To: func(v Index) map[string]*int { return map[string]*int(v) }, From: func(v map[string]*int) Index { return Index(v) }},
		clone.GoMap(clone.Given[string](), ptrInt()))
}

func CloneCell(kind string) fp.Clone[Cell] {
	return clone.Generic(fp.Generic[Cell, *int]{Type: "core.Cell", Kind: kind,
		To: func(v Cell) *int { return (*int)(v) }, From: func(v *int) Cell { return Cell(v) }},
		ptrInt())
}

type innerRepr = hlist.Cons[*int, hlist.Cons[[]int, hlist.Nil]]

func CloneInner() fp.Clone[Inner] {
	return clone.Generic(fp.Generic[Inner, innerRepr]{Type: "core.Inner", Kind: fp.GenericKindStruct,
		To:   func(v Inner) innerRepr { return hlist.Concat(v.P, hlist.Concat(v.S, hlist.Empty())) },
		From: func(h innerRepr) Inner { return Inner{P: hlist.Head(h), S: hlist.Head(hlist.Tail(h))} }},
		clone.HCons(ptrInt(), clone.HCons(clone.Slice(clone.Given[int]()), clone.HNil)))
}

func CloneWrapped(kind string) fp.Clone[Wrapped] {
	return clone.Generic(fp.Generic[Wrapped, Inner]{Type: "core.Wrapped", Kind: kind,
		To: func(v Wrapped) Inner { return Inner(v) }, From: func(v Inner) Wrapped { return Wrapped(v) }},
		CloneInner())
}

type holderRepr = hlist.Cons[Names, hlist.Cons[Index, hlist.Cons[Cell, hlist.Cons[Wrapped, hlist.Nil]]]]

func holderReprClone(kind string) fp.Clone[holderRepr] {
	return clone.HCons(CloneNames(kind), clone.HCons(CloneIndex(kind), clone.HCons(CloneCell(kind), clone.HCons(CloneWrapped(kind), clone.HNil))))
}

// CloneHolder: a Struct-kind Generic (hlist representation) whose fields use Generics of the given kind.
func CloneHolder(kind string) fp.Clone[Holder] {
	return clone.Generic(fp.Generic[Holder, holderRepr]{Type: "core.Holder", Kind: fp.GenericKindStruct,
		To: func(v Holder) holderRepr {
			return hlist.Concat(v.N, hlist.Concat(v.I, hlist.Concat(v.C, hlist.Concat(v.W, hlist.Empty()))))
		},
		From: func(h holderRepr) Holder {
			t1 := hlist.Tail(h)
			t2 := hlist.Tail(t1)
			t3 := hlist.Tail(t2)
			return Holder{N: hlist.Head(h), I: hlist.Head(t1), C: hlist.Head(t2), W: hlist.Head(t3)}
		}},
		holderReprClone(kind))
}

type HolderTuple = fp.Tuple4[Names, Index, Cell, Wrapped]

// CloneHolderTupleRepr: a Struct-kind Generic with a tuple representation (what gombok emits
// for structs with AsTuple/FromTuple).
func CloneHolderTupleRepr(kind string) fp.Clone[Holder] {
	return clone.Generic(fp.Generic[Holder, HolderTuple]{Type: "core.Holder", Kind: fp.GenericKindStruct,
		To:   func(v Holder) HolderTuple { return HolderTuple{I1: v.N, I2: v.I, I3: v.C, I4: v.W} },
		From: func(t HolderTuple) Holder { return Holder{N: t.I1, I: t.I2, C: t.I3, W: t.I4} }},
		clone.Tuple4(CloneNames(kind), CloneIndex(kind), CloneCell(kind), CloneWrapped(kind)))
}

// CloneTupleKind: a Tuple-kind Generic (a tuple type with an hlist representation).
func CloneTupleKind(kind string) fp.Clone[HolderTuple] {
	return clone.Generic(fp.Generic[HolderTuple, holderRepr]{Type: "fp.Tuple4", Kind: fp.GenericKindTuple,
		To: func(t HolderTuple) holderRepr {
			return hlist.Concat(t.I1, hlist.Concat(t.I2, hlist.Concat(t.I3, hlist.Concat(t.I4, hlist.Empty()))))
		},
		From: func(h holderRepr) HolderTuple {
			t1 := hlist.Tail(h)
			t2 := hlist.Tail(t1)
			t3 := hlist.Tail(t2)
			return HolderTuple{I1: hlist.Head(h), I2: hlist.Head(t1), I3: hlist.Head(t2), I4: hlist.Head(t3)}
		}},
		holderReprClone(kind))
}

// typed constructors for the library types with unexported fields
type optionOps struct {
	elem reflect.Type
	some func(v reflect.Value) reflect.Value
	none func() reflect.Value
}

var optionReg = map[reflect.Type]optionOps{}
var consReg = map[reflect.Type]func(h, t reflect.Value) reflect.Value{}

func typeOf[T any]() reflect.Type { return reflect.TypeOf((*T)(nil)).Elem() }

func RegOption[U any]() {
	optionReg[typeOf[fp.Option[U]]()] = optionOps{
		elem: typeOf[U](),
		some: func(v reflect.Value) reflect.Value { return reflect.ValueOf(fp.Some(v.Interface().(U))) },
		none: func() reflect.Value { return reflect.ValueOf(fp.None[U]()) },
	}
}

func RegCons[H any, T hlist.HList]() {
	consReg[typeOf[hlist.Cons[H, T]]()] = func(h, t reflect.Value) reflect.Value {
		return reflect.ValueOf(hlist.Concat(h.Interface().(H), t.Interface().(T)))
	}
}

func RegCons2[U any]() {
	RegCons[U, hlist.Nil]()
	RegCons[U, hlist.Cons[U, hlist.Nil]]()
}

// combinator names the clone combinator responsible for values of type t.
func combinator(t reflect.Type) string {
	if genericNamed[t.Name()] && strings.HasSuffix(t.PkgPath(), "c18/core") {
		return "Generic"
	}
	switch t.Kind() {
	case reflect.Ptr:
		return "Ptr"
	case reflect.Slice:
		if strings.HasPrefix(t.Name(), "Seq[") {
			return "Seq"
		}
		return "Slice"
	case reflect.Map:
		return "GoMap"
	case reflect.Struct:
		n := t.Name()
		switch {
		case strings.HasPrefix(n, "Option["):
			return "Option"
		case strings.HasPrefix(n, "Tuple"):
			return n[:strings.Index(n, "[")]
		case strings.HasPrefix(n, "Cons["):
			return "HCons"
		case n == "Nil":
			return "HNil"
		case strings.HasPrefix(n, "Rec[") || n == "Mixed":
			return "Generic"
		}
	}
	return "Given"
}

// ---------------------------------------------------------------- domains

type poolKey struct {
	t   reflect.Type
	idx int
}

// pool makes a build "internally aliased": two reference-like sub-values of the same type
// and the same domain index become one object.
type pool struct {
	m    map[poolKey]reflect.Value
	hits int
	// scheme != 0: every slice of one type that is built becomes a window of ONE backing
	// array of that type (the n-th slice gets the n-th window of the scheme)
	scheme int
	bufs   map[reflect.Type]reflect.Value
	wcount map[reflect.Type]int
}

var windowSchemes = []struct {
	name string
	win  [][2]int
}{
	{},
	{"same start, different lengths", [][2]int{{0, 2}, {0, 5}, {0, 3}, {0, 4}}},
	{"different starts, overlapping", [][2]int{{0, 3}, {1, 4}, {2, 6}, {3, 5}}},
	{"nested windows", [][2]int{{0, 6}, {1, 5}, {2, 4}, {2, 3}}},
	{"a slice with spare capacity and its own sub-slices", [][2]int{{0, 3}, {1, 2}, {0, 1}, {2, 3}}},
}

const windowArrayLen = 6

func newWindowPool(scheme int) *pool {
	return &pool{m: map[poolKey]reflect.Value{}, scheme: scheme, bufs: map[reflect.Type]reflect.Value{}, wcount: map[reflect.Type]int{}}
}

// window returns the next window of the scheme over the pool's backing array for slice type t.
func (p *pool) window(t reflect.Type) reflect.Value {
	buf, ok := p.bufs[t]
	if !ok {
		ed := domainOf(t.Elem())
		buf = reflect.MakeSlice(t, windowArrayLen, windowArrayLen)
		p.bufs[t] = buf // before filling: elements of the same type cannot occur (no recursive types)
		for j := 0; j < windowArrayLen; j++ {
			buf.Index(j).Set(ed.elems[(j+1)%len(ed.elems)].build(p))
		}
	}
	w := windowSchemes[p.scheme].win
	n := p.wcount[t]
	p.wcount[t] = n + 1
	return buf.Slice(w[n%len(w)][0], w[n%len(w)][1])
}

func (p *pool) maxWindows() int {
	m := 0
	for _, c := range p.wcount {
		if c > m {
			m = c
		}
	}
	return m
}

type elem struct {
	desc  string
	build func(p *pool) reflect.Value
}

type domain struct {
	elems   []elem
	refLike bool // values can contain pointers, slices or maps
}

var domCache = map[reflect.Type]*domain{}
var DomRich bool

func pooled(t reflect.Type, idx int, mk func(p *pool) reflect.Value) func(p *pool) reflect.Value {
	return func(p *pool) reflect.Value {
		if p == nil {
			return mk(nil)
		}
		if p.scheme != 0 && t.Kind() == reflect.Slice {
			return p.window(t)
		}
		k := poolKey{t, idx}
		if v, ok := p.m[k]; ok {
			p.hits++
			return v
		}
		v := mk(p)
		p.m[k] = v
		return v
	}
}

func domainOf(t reflect.Type) *domain {
	if d, ok := domCache[t]; ok {
		return d
	}
	d := &domain{}
	add := func(desc string, mk func(p *pool) reflect.Value) {
		idx := len(d.elems)
		switch t.Kind() {
		case reflect.Ptr, reflect.Slice, reflect.Map:
			mk = pooled(t, idx, mk)
		}
		d.elems = append(d.elems, elem{desc, mk})
	}
	konst := func(v any) func(*pool) reflect.Value {
		return func(*pool) reflect.Value { return reflect.ValueOf(v).Convert(t) }
	}
	switch t.Kind() {
	case reflect.Int:
		add("0", konst(0))
		add("5", konst(5))
	case reflect.String:
		add(`""`, konst(""))
		add(`"ab"`, konst("ab"))
	case reflect.Ptr:
		d.refLike = true
		ed := domainOf(t.Elem())
		add("nil", func(*pool) reflect.Value { return reflect.Zero(t) })
		for _, e := range ed.elems {
			e := e
			add("&"+e.desc, func(p *pool) reflect.Value {
				v := reflect.New(t.Elem())
				v.Elem().Set(e.build(p))
				return v.Convert(t)
			})
		}
	case reflect.Slice:
		d.refLike = true
		ed := domainOf(t.Elem())
		n := len(ed.elems)
		mkSlice := func(length, capacity int, idx ...int) func(p *pool) reflect.Value {
			return func(p *pool) reflect.Value {
				s := reflect.MakeSlice(t, len(idx), capacity)
				for i, j := range idx {
					s.Index(i).Set(ed.elems[j].build(p))
				}
				return s.Slice(0, length)
			}
		}
		add("nil", func(*pool) reflect.Value { return reflect.Zero(t) })
		add("[] (non-nil, cap 0)", mkSlice(0, 0))
		for i, e := range ed.elems {
			add("["+e.desc+"]", mkSlice(1, 1, i))
		}
		add(fmt.Sprintf("[%s %s | spare capacity holding %s %s]", ed.elems[0].desc, ed.elems[n-1].desc, ed.elems[n-1].desc, ed.elems[0].desc), mkSlice(2, 4, 0, n-1, n-1, 0))
		add(fmt.Sprintf("[ | len 0, spare capacity holding %s]", ed.elems[n-1].desc), mkSlice(0, 1, n-1))
		if ed.refLike {
			add(fmt.Sprintf("[%s %s]", ed.elems[n-1].desc, ed.elems[n-1].desc), mkSlice(2, 2, n-1, n-1))
		}
		if DomRich {
			for i := 0; i < n && n <= 16; i++ {
				for j := 0; j < n; j++ {
					add(fmt.Sprintf("[%s %s]", ed.elems[i].desc, ed.elems[j].desc), mkSlice(2, 2, i, j))
				}
			}
		}
	case reflect.Map:
		d.refLike = true
		ed := domainOf(t.Elem())
		n := len(ed.elems)
		mkMap := func(keys []string, idx ...int) func(p *pool) reflect.Value {
			return func(p *pool) reflect.Value {
				m := reflect.MakeMap(t)
				for i, k := range keys {
					m.SetMapIndex(reflect.ValueOf(k), ed.elems[idx[i]].build(p))
				}
				return m
			}
		}
		add("nil", func(*pool) reflect.Value { return reflect.Zero(t) })
		add("{}", mkMap(nil))
		if t.Key().Kind() != reflect.String {
			// keys that carry pointers: 0, 1 and 2 entries; two distinct keys with equal
			// targets, two keys with distinct targets, the nil key; a key built through the
			// pool can be the same pointer as a value or a component elsewhere in the input
			kd := domainOf(t.Key())
			m := len(kd.elems)
			type pair struct {
				k     int
				fresh bool // never taken from the pool: a second, distinct key with an equal target
				v     int
			}
			mk := func(ps ...pair) (string, func(p *pool) reflect.Value) {
				var ds []string
				for _, q := range ps {
					d := kd.elems[q.k].desc
					if q.fresh {
						d += "'"
					}
					ds = append(ds, d+":"+ed.elems[q.v].desc)
				}
				return "{" + strings.Join(ds, " ") + "}", func(p *pool) reflect.Value {
					mp := reflect.MakeMap(t)
					for _, q := range ps {
						kp := p
						if q.fresh {
							kp = nil
						}
						mp.SetMapIndex(kd.elems[q.k].build(kp), ed.elems[q.v].build(p))
					}
					return mp
				}
			}
			for i := range ed.elems {
				add(mk(pair{m - 1, false, i}))
			}
			for j := 0; j < m-1; j++ {
				add(mk(pair{j, false, n - 1}))
			}
			add(mk(pair{m - 1, false, 0}, pair{m - 1, true, n - 1})) // equal targets, two entries
			add(mk(pair{m - 2, false, 0}, pair{m - 1, false, n - 1}))
			add(mk(pair{0, false, n - 1}, pair{m - 1, false, n - 1}))
			if ed.refLike {
				add(mk(pair{m - 2, false, n - 1}, pair{m - 1, false, n - 1}))
			}
			break
		}
		for i, e := range ed.elems {
			add("{k:"+e.desc+"}", mkMap([]string{"k"}, i))
		}
		add(fmt.Sprintf("{a:%s b:%s}", ed.elems[0].desc, ed.elems[n-1].desc), mkMap([]string{"a", "b"}, 0, n-1))
		if ed.refLike {
			add(fmt.Sprintf("{a:%s b:%s}", ed.elems[n-1].desc, ed.elems[n-1].desc), mkMap([]string{"a", "b"}, n-1, n-1))
		}
		if DomRich {
			for i := 0; i < n && n <= 16; i++ {
				for j := 0; j < n; j++ {
					add(fmt.Sprintf("{a:%s b:%s}", ed.elems[i].desc, ed.elems[j].desc), mkMap([]string{"a", "b"}, i, j))
				}
			}
		}
	case reflect.Struct:
		if oo, ok := optionReg[t]; ok {
			ed := domainOf(oo.elem)
			d.refLike = ed.refLike
			add("None", func(*pool) reflect.Value { return oo.none() })
			for _, e := range ed.elems {
				e := e
				add("Some("+e.desc+")", func(p *pool) reflect.Value { return oo.some(e.build(p)) })
			}
			break
		}
		// products: Tuple*, rec, Mixed (exported fields) and hlist.Cons (typed constructor)
		var comps []*domain
		var ctypes []reflect.Type
		for i := 0; i < t.NumField(); i++ {
			ctypes = append(ctypes, t.Field(i).Type)
			cd := domainOf(t.Field(i).Type)
			comps = append(comps, cd)
			d.refLike = d.refLike || cd.refLike
		}
		if len(comps) == 0 { // hlist.Nil
			add("Nil", func(*pool) reflect.Value { return reflect.Zero(t) })
			break
		}
		mkCons, isCons := consReg[t]
		if strings.HasPrefix(t.Name(), "Cons[") && !isCons {
			panic("no typed constructor registered for " + t.String())
		}
		assemble := func(vals []reflect.Value) reflect.Value {
			if isCons {
				return mkCons(vals[0], vals[1])
			}
			v := reflect.New(t).Elem()
			for i, c := range vals {
				v.Field(i).Set(c)
			}
			return v
		}
		product := func(idx []int) (string, func(p *pool) reflect.Value) {
			var ds []string
			for i, j := range idx {
				ds = append(ds, comps[i].elems[j].desc)
			}
			idx = append([]int(nil), idx...)
			return "(" + strings.Join(ds, ", ") + ")", func(p *pool) reflect.Value {
				vals := make([]reflect.Value, len(idx))
				for i, j := range idx {
					vals[i] = comps[i].elems[j].build(p)
				}
				return assemble(vals)
			}
		}
		maxLen := 0
		for _, c := range comps {
			if len(c.elems) > maxLen {
				maxLen = len(c.elems)
			}
		}
		idx := make([]int, len(comps))
		seen := map[string]bool{}
		addProduct := func() {
			desc, mk := product(idx)
			if !seen[desc] {
				seen[desc] = true
				add(desc, mk)
			}
		}
		for j := 0; j < maxLen; j++ { // shifted: neighbouring components differ
			for i := range comps {
				idx[i] = (j + i) % len(comps[i].elems)
			}
			addProduct()
		}
		for j := 0; j < maxLen; j++ { // same index everywhere: equal-typed components coincide
			for i := range comps {
				idx[i] = j % len(comps[i].elems)
			}
			addProduct()
		}
		if DomRich && len(comps) == 2 && len(comps[0].elems)*len(comps[1].elems) <= 400 {
			for a := range comps[0].elems {
				for b := range comps[1].elems {
					idx[0], idx[1] = a, b
					addProduct()
				}
			}
		}
		// a slice and its sub-slice / two adjacent windows of one array
		if len(comps) == 2 && ctypes[0] == ctypes[1] && ctypes[0].Kind() == reflect.Slice {
			st := ctypes[0]
			ed := domainOf(st.Elem())
			n := len(ed.elems)
			three := func(p *pool) reflect.Value {
				s := reflect.MakeSlice(st, 3, 3)
				for i := 0; i < 3; i++ {
					s.Index(i).Set(ed.elems[(i+n-1)%n].build(p))
				}
				return s
			}
			add("(s, s[1:]) with len(s)=3", func(p *pool) reflect.Value {
				s := three(p)
				return assemble([]reflect.Value{s, s.Slice(1, 3)})
			})
			add("(s[:1], s[1:]) with len(s)=3", func(p *pool) reflect.Value {
				s := three(p)
				return assemble([]reflect.Value{s.Slice(0, 1), s.Slice(1, 3)})
			})
		}
	default:
		panic("domainOf: unsupported type " + t.String())
	}
	// internally aliased builds of the same elements, where that makes a difference
	if d.refLike && t.Kind() == reflect.Struct || t.Kind() == reflect.Slice || t.Kind() == reflect.Map {
		base := append([]elem(nil), d.elems...)
		for _, e := range base {
			e := e
			p := &pool{m: map[poolKey]reflect.Value{}}
			e.build(p)
			if p.hits == 0 {
				continue
			}
			d.elems = append(d.elems, elem{e.desc + " with equal parts aliased", func(outer *pool) reflect.Value {
				if outer != nil {
					return e.build(outer)
				}
				return e.build(&pool{m: map[poolKey]reflect.Value{}})
			}})
		}
	}
	// slices of one type as windows of one backing array (same start and different lengths,
	// different starts, nested, sub-slices of a slice with spare capacity), wherever a value
	// holds at least two slices of the same type
	if d.refLike && t.Kind() == reflect.Struct || t.Kind() == reflect.Slice || t.Kind() == reflect.Map {
		base := append([]elem(nil), d.elems...)
		domCache[t] = d // window() looks element domains up; t itself may be asked for through a parent only
		type cand struct {
			e elem
			n int
		}
		var cands []cand
		for _, e := range base {
			if strings.Contains(e.desc, "windows of one array") {
				continue
			}
			p := newWindowPool(1)
			e.build(p)
			if n := p.maxWindows(); n >= 2 {
				cands = append(cands, cand{e, n})
			}
		}
		sort.SliceStable(cands, func(i, j int) bool { return cands[i].n > cands[j].n })
		if len(cands) > 2 {
			cands = cands[:2]
		}
		for _, c := range cands {
			for sc := 1; sc < len(windowSchemes); sc++ {
				e, sc := c.e, sc
				d.elems = append(d.elems, elem{fmt.Sprintf("slices of one type as windows of one array (%s), in the shape of %s", windowSchemes[sc].name, e.desc),
					func(*pool) reflect.Value { return e.build(newWindowPool(sc)) }})
			}
		}
	}
	domCache[t] = d
	return d
}

// ---------------------------------------------------------------- reflection oracle

// open makes a field of an addressable struct usable irrespective of export status.
func open(v reflect.Value) reflect.Value {
	if v.CanAddr() {
		return reflect.NewAt(v.Type(), unsafe.Pointer(v.UnsafeAddr())).Elem()
	}
	return v
}

// entry is one key/value pair of a map together with the structural values of both.
type entry struct {
	k, v         reflect.Value
	kdump, vdump string
}

// entries lists a map's pairs ordered by the structural value of key, then value. Keys are
// compared by what they point to, never by identity: two distinct pointer keys with equal
// targets are two entries with the same kdump.
func entries(m reflect.Value) []entry {
	var es []entry
	for _, k := range m.MapKeys() {
		v := m.MapIndex(k)
		es = append(es, entry{k, v, dumpOf(k), dumpOf(v)})
	}
	sort.SliceStable(es, func(i, j int) bool {
		if es[i].kdump != es[j].kdump {
			return es[i].kdump < es[j].kdump
		}
		return es[i].vdump < es[j].vdump
	})
	return es
}

func keyLabel(e entry) string {
	if e.k.Kind() == reflect.String {
		return fmt.Sprintf("[%q]", e.k.String())
	}
	return "[key " + e.kdump + "]"
}

// dump is the structural value: nil and empty containers are the same, only len elements of
// a slice count, pointers are followed.
func dump(v reflect.Value, sb *strings.Builder) {
	switch v.Kind() {
	case reflect.Int:
		fmt.Fprintf(sb, "%d", v.Int())
	case reflect.String:
		fmt.Fprintf(sb, "%q", v.String())
	case reflect.Bool:
		fmt.Fprintf(sb, "%v", v.Bool())
	case reflect.Ptr:
		if v.IsNil() {
			sb.WriteString("nil")
			return
		}
		sb.WriteString("&")
		dump(v.Elem(), sb)
	case reflect.Slice:
		sb.WriteString("[")
		for i := 0; i < v.Len(); i++ {
			if i > 0 {
				sb.WriteString(" ")
			}
			dump(v.Index(i), sb)
		}
		sb.WriteString("]")
	case reflect.Map:
		sb.WriteString("{")
		for i, e := range entries(v) {
			if i > 0 {
				sb.WriteString(" ")
			}
			if e.k.Kind() == reflect.String {
				sb.WriteString(e.k.String())
			} else {
				sb.WriteString(e.kdump)
			}
			sb.WriteString(":" + e.vdump)
		}
		sb.WriteString("}")
	case reflect.Struct:
		sb.WriteString(combinator(v.Type()) + "(")
		for i := 0; i < v.NumField(); i++ {
			if i > 0 {
				sb.WriteString(", ")
			}
			dump(v.Field(i), sb)
		}
		sb.WriteString(")")
	default:
		panic("dump: unsupported kind " + v.Kind().String())
	}
}

func dumpOf(v reflect.Value) string {
	var sb strings.Builder
	dump(v, &sb)
	return sb.String()
}

// firstDiff locates the first structural difference and names the combinator in whose value
// it appears.
func firstDiff(o, c reflect.Value, path string) (string, string, bool) {
	if dumpOf(o) == dumpOf(c) {
		return "", "", false
	}
	here := combinator(o.Type())
	switch o.Kind() {
	case reflect.Ptr:
		if !o.IsNil() && !c.IsNil() {
			if w, p, ok := firstDiff(o.Elem(), c.Elem(), path+".*"); ok && w != "Given" {
				return w, p, true
			}
		}
	case reflect.Slice:
		if o.Len() == c.Len() {
			for i := 0; i < o.Len(); i++ {
				if w, p, ok := firstDiff(o.Index(i), c.Index(i), fmt.Sprintf("%s[%d]", path, i)); ok {
					if w == "Given" {
						break
					}
					return w, p, true
				}
			}
		}
	case reflect.Map:
		if o.Len() == c.Len() {
			oe, ce := entries(o), entries(c)
			for i := range oe {
				if oe[i].kdump != ce[i].kdump {
					break // the key sets differ: a difference of the map itself
				}
				if w, p, ok := firstDiff(oe[i].v, ce[i].v, path+keyLabel(oe[i])); ok {
					if w == "Given" {
						break
					}
					return w, p, true
				}
			}
		}
	case reflect.Struct:
		for i := 0; i < o.NumField(); i++ {
			if w, p, ok := firstDiff(o.Field(i), c.Field(i), path+"."+o.Type().Field(i).Name); ok {
				if w == "Given" {
					break
				}
				return w, p, true
			}
		}
	}
	return here, path, true
}

type region struct {
	kind  string // ptr-target, slice-array, map
	start uintptr
	size  uintptr
	path  string
	comb  string // combinator of the value that owns this storage
	owner string // combinator of the nearest enclosing Ptr/Slice/Seq/GoMap value ("" at top level)
	inKey bool   // the nearest enclosing such value is a map and this storage hangs off one of its keys
}

func (r region) String() string {
	p := r.path
	if p == "" {
		p = "<root>"
	}
	return fmt.Sprintf("%s of %s at path %s", r.kind, r.comb, p)
}

// regions collects every piece of mutable storage reachable from the addressable value v.
func regions(v reflect.Value, path, owner string, inKey bool, out *[]region, seen map[[2]uintptr]bool) {
	switch v.Kind() {
	case reflect.Ptr:
		if v.IsNil() {
			return
		}
		sz := v.Type().Elem().Size()
		key := [2]uintptr{v.Pointer(), sz}
		if sz > 0 { // zero-size targets hold nothing that could be mutated
			*out = append(*out, region{"ptr-target", v.Pointer(), sz, path, combinator(v.Type()), owner, inKey})
		}
		if seen[key] {
			return
		}
		seen[key] = true
		regions(v.Elem(), path+".*", "Ptr", false, out, seen)
	case reflect.Slice:
		if v.Cap() == 0 {
			return
		}
		sz := uintptr(v.Cap()) * v.Type().Elem().Size()
		comb := combinator(v.Type())
		if sz > 0 {
			*out = append(*out, region{"slice-array", v.Pointer(), sz, path, comb, owner, inKey})
		}
		full := v.Slice(0, v.Cap())
		for i := 0; i < full.Len(); i++ {
			regions(full.Index(i), fmt.Sprintf("%s[%d]", path, i), comb, false, out, seen)
		}
	case reflect.Map:
		if v.IsNil() {
			return
		}
		*out = append(*out, region{"map", v.Pointer(), 1, path, combinator(v.Type()), owner, inKey})
		for _, e := range entries(v) {
			// storage reachable through a key counts like storage reachable through a value
			tk := reflect.New(v.Type().Key()).Elem()
			tk.Set(e.k)
			regions(tk, path+"<key "+e.kdump+">", "GoMap", true, out, seen)
			tmp := reflect.New(v.Type().Elem()).Elem()
			tmp.Set(e.v)
			regions(tmp, path+keyLabel(e), "GoMap", false, out, seen)
		}
	case reflect.Struct:
		for i := 0; i < v.NumField(); i++ {
			regions(open(v.Field(i)), path+"."+v.Type().Field(i).Name, owner, inKey, out, seen)
		}
	}
}

func regionsOf(v reflect.Value) []region {
	var out []region
	regions(v, "", "", false, &out, map[[2]uintptr]bool{})
	return out
}

func overlap(a, b region) bool {
	if (a.kind == "map") != (b.kind == "map") {
		return false
	}
	if a.kind == "map" {
		return a.start == b.start
	}
	return a.start < b.start+b.size && b.start < a.start+a.size
}

// scramble overwrites every mutable location reachable from the addressable value v
// (children first, then the location itself).
func scramble(v reflect.Value) {
	switch v.Kind() {
	case reflect.Int:
		v.SetInt(v.Int() + 1000)
	case reflect.String:
		v.SetString(v.String() + "~")
	case reflect.Bool:
		v.SetBool(!v.Bool())
	case reflect.Ptr:
		if v.IsNil() {
			v.Set(reflect.New(v.Type().Elem()).Convert(v.Type()))
			return
		}
		scramble(v.Elem())
		v.Set(reflect.Zero(v.Type()))
	case reflect.Slice:
		n := v.Len()
		if v.Cap() > 0 {
			full := v.Slice(0, v.Cap())
			for i := 0; i < full.Len(); i++ {
				scramble(full.Index(i))
			}
		}
		v.Set(reflect.MakeSlice(v.Type(), n+1, n+1))
	case reflect.Map:
		newKey := func() reflect.Value {
			kt := v.Type().Key()
			switch kt.Kind() {
			case reflect.String:
				return reflect.ValueOf("~new").Convert(kt)
			case reflect.Ptr:
				return reflect.New(kt.Elem())
			}
			return reflect.Zero(kt)
		}
		if v.IsNil() {
			m := reflect.MakeMap(v.Type())
			m.SetMapIndex(newKey(), reflect.Zero(v.Type().Elem()))
			v.Set(m)
			return
		}
		for _, e := range entries(v) {
			// a key cannot be changed in place, but what it points to can
			tk := reflect.New(v.Type().Key()).Elem()
			tk.Set(e.k)
			scramble(tk)
			tmp := reflect.New(v.Type().Elem()).Elem()
			tmp.Set(e.v)
			scramble(tmp)
			v.SetMapIndex(e.k, tmp)
		}
		v.SetMapIndex(newKey(), reflect.Zero(v.Type().Elem()))
		v.Set(reflect.Zero(v.Type()))
	case reflect.Struct:
		for i := 0; i < v.NumField(); i++ {
			scramble(open(v.Field(i)))
		}
	}
}

// ---------------------------------------------------------------- the check

// Run is handed to a generated case. With Probe set the case is not an execution of the
// explorer: it examines its whole domain and records the first failure (used to find the
// smallest failing sub-instance, which names the violation).
type Run struct {
	X     *mc.X
	Name  string
	Probe *Finding
}

type TypeCase struct {
	Name  string
	Depth int
	Fn    func(h *Run)
}

// Registry lets the check look up the case of a sub-expression by name (set by main).
var Registry = map[string]TypeCase{}

// Finding is one oracle failure.
type Finding struct {
	Key, Msg string
	// Below: the difference / shared storage sits inside a component, not in the value the
	// outermost combinator itself produced; only then a sub-instance can be the cause.
	Below bool
	path  string // where (in the clone)
	kind  string // kind of shared storage, "" for other failures
	loose bool   // shared storage with no enclosing Ptr/Slice/Seq/GoMap value (directly in a product)
}

// RunCase is the only generic part of the check (one small instantiation per instance
// expression); everything else works on reflect values.
func RunCase[T any](h *Run, inst fp.Clone[T]) {
	check(h, typeOf[T](), func(orig reflect.Value) reflect.Value {
		cl := new(T)
		*cl = inst.Clone(*(orig.Addr().Interface().(*T)))
		return reflect.ValueOf(cl).Elem()
	})
}

type examined struct {
	pre, got string
	ro, rc   []region
}

// examine applies the three oracles to one value; cloneOf takes the addressable original and
// returns the addressable clone.
func examine(name string, t reflect.Type, e elem, cloneOf func(orig reflect.Value) reflect.Value) (ex examined, f *Finding) {
	root := combinator(t)
	fresh := func() (ov, cv reflect.Value, pre string) {
		ov = reflect.New(t).Elem()
		ov.Set(e.build(nil))
		pre = dumpOf(ov)
		if p := mc.Catch(func() { cv = cloneOf(ov) }); p != nil {
			f = &Finding{"clone." + root + "/panic", fmt.Sprintf("%s: Clone(%s) panicked: %v", name, e.desc, p), true, "", "", false}
		}
		return
	}
	// (1) equal, (2) nothing reachable from both
	ov, cv, pre := fresh()
	if f != nil {
		return
	}
	ex.pre, ex.got = pre, dumpOf(cv)
	ex.ro, ex.rc = regionsOf(ov), regionsOf(cv)
	if ex.got != pre {
		who, path, _ := firstDiff(ov, cv, "")
		return ex, &Finding{"clone." + who + "/not-equal", fmt.Sprintf("%s: clone of %s differs at path %q: original %s, clone %s", name, e.desc, path, pre, ex.got), path != "", path, "", false}
	}
	for _, b := range ex.rc {
		for _, a := range ex.ro {
			if overlap(a, b) {
				// named after the place in the clone at which storage of the original shows up
				key := "clone." + b.comb + "/shares-own-" + b.kind
				if b.owner != "" {
					key = "clone." + b.owner + "/shares-component-" + b.kind
				}
				if b.inKey {
					key = "clone.GoMap/shares-key-" + b.kind
				}
				return ex, &Finding{key, fmt.Sprintf("%s: value %s: the clone's %v is storage of the original (%v); original %s", name, e.desc, b, a, pre), b.path != "", b.path, b.kind, b.owner == ""}
			}
		}
	}
	// (3a) overwrite everything reachable from the clone: the original must not notice
	scramble(cv)
	if now := dumpOf(ov); now != pre {
		return ex, &Finding{"clone." + root + "/mutating-clone-changes-original", fmt.Sprintf("%s: value %s: after overwriting every location reachable from the clone the original reads %s, before %s", name, e.desc, now, pre), false, "", "", false}
	}
	// (3b) and the other way round, on a fresh pair
	ov, cv, _ = fresh()
	if f != nil {
		return
	}
	before := dumpOf(cv)
	scramble(ov)
	if now := dumpOf(cv); now != before {
		return ex, &Finding{"clone." + root + "/mutating-original-changes-clone", fmt.Sprintf("%s: value %s: after overwriting every location reachable from the original the clone reads %s, before %s", name, e.desc, now, before), false, "", "", false}
	}
	return ex, nil
}

// subName names the sub-instance responsible for the component at path:
// "Ptr[Slice[int]]" -> "Slice[int]"; "Tuple3/flat[a,b,c]" with path ".I2..." -> "b".
func subName(name, path string) string {
	i := strings.Index(name, "[")
	if i < 0 || !strings.HasSuffix(name, "]") {
		return ""
	}
	inner := name[i+1 : len(name)-1]
	if !strings.HasPrefix(name, "Tuple") || !strings.Contains(name[:i], "/") {
		return inner
	}
	var comps []string
	depth, start := 0, 0
	for j, c := range inner {
		switch c {
		case '[':
			depth++
		case ']':
			depth--
		case ',':
			if depth == 0 {
				comps = append(comps, inner[start:j])
				start = j + 1
			}
		}
	}
	comps = append(comps, inner[start:])
	var k int
	if _, err := fmt.Sscanf(path, ".I%d", &k); err != nil || k < 1 || k > len(comps) {
		return ""
	}
	return comps[k-1]
}

// attribute names the violation: if the failure sits in a component and the component's
// instance already fails on its own domain, the sub-instance is named (recursively);
// otherwise a product that holds shared storage directly did not clone that component.
func attribute(name string, t reflect.Type, f *Finding) (key, note string) {
	key = f.Key
	if !f.Below {
		return
	}
	if c, ok := Registry[subName(name, f.path)]; ok {
		var sub Finding
		c.Fn(&Run{Name: c.Name, Probe: &sub})
		if sub.Key != "" {
			return sub.Key, "\nsmallest failing sub-instance: " + sub.Msg
		}
		if f.kind == "" && strings.HasSuffix(f.Key, "/not-equal") {
			// the component's instance is right on its own whole domain: the enclosing combinator put the wrong value there
			return "clone." + combinator(t) + "/not-equal", "\n(the component instance " + c.Name + " alone clones every value of its domain correctly)"
		}
	}
	if f.kind != "" && f.loose {
		key = "clone." + combinator(t) + "/shares-component-" + f.kind
	}
	return
}

func check(h *Run, t reflect.Type, cloneOf func(orig reflect.Value) reflect.Value) {
	d := domainOf(t)
	if h.Probe != nil {
		for _, e := range d.elems {
			if _, f := examine(h.Name, t, e, cloneOf); f != nil {
				*h.Probe = *f
				h.Probe.Key, _ = attribute(h.Name, t, f)
				return
			}
		}
		return
	}
	x := h.X
	e := d.elems[x.Choose(len(d.elems), "value")]
	x.Logf("instance %s for %v", h.Name, t)
	x.Logf("value: %s", e.desc)
	ex, f := examine(h.Name, t, e, cloneOf)
	x.Logf("original %s", ex.pre)
	x.Logf("clone    %s", ex.got)
	// census (also for the executions that end in a violation)
	x.Tag("outermost=" + combinator(t))
	x.Tag(fmt.Sprintf("storage-regions=%d", min(len(ex.ro), 8)))
	if strings.Contains(e.desc, "windows of one array") {
		x.Tag("slices-as-windows-of-one-array")
	}
	if strings.Contains(e.desc, "aliased") || strings.Contains(e.desc, "s[1:]") || strings.Contains(e.desc, "windows of one array") {
		x.Tag("internally-aliased-input")
	}
	if strings.Contains(e.desc, "spare capacity") {
		x.Tag("slice-with-spare-capacity")
	}
	if strings.Contains(ex.pre, "nil") || strings.Contains(ex.pre, "[]") || strings.Contains(ex.pre, "{}") {
		x.Tag("contains-nil-or-empty")
	}
	if len(ex.ro) > 0 { // rule: there is mutable storage to share
		x.NonTrivial()
	}
	if f != nil {
		key, note := attribute(h.Name, t, f)
		x.Fail(key, "%s%s", f.Msg, note)
	}
	x.Observe(h.Name, e.desc, ex.pre, len(ex.ro), len(ex.rc))
}
