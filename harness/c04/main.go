// C04 — values are persistent: no operation alters an existing value or its inputs.
//  (a) maps/sets: the explicit-state search of verif/hamt with the persistence oracle: the full
//      structural dump (with node identities) of every reached version is compared after each
//      operation applied to it and once more at the end of the search; builder rule.
//  (b) Seq / List / Go maps / Option / Try: stateless DFS over branching histories; after every
//      step every live value (inputs, intermediate versions, full-capacity aliases, Go maps) is
//      compared with the deep snapshot taken when it was created.
package main

import (
	"encoding/json"
	"fmt"
	"sort"
	"strings"

	"github.com/csgura/fp"
	"github.com/csgura/fp/immutable"
	"github.com/csgura/fp/iterator"
	"github.com/csgura/fp/list"
	"github.com/csgura/fp/monoid"
	"github.com/csgura/fp/option"
	"github.com/csgura/fp/ord"
	"github.com/csgura/fp/seq"
	"github.com/csgura/fp/try"
	"verif/hamt"
	"verif/mc"
)

var active = []int{0, 1, 2, 3, 32}

// ---------- (b) live-value pool ----------

type live struct {
	name string
	s    []int // the slice header as handed out
	snap []int // copy of s[:cap(s)] at creation
}

type pool struct {
	x     *mc.X
	vals  []*live
	gomap map[int]int
	gosnp string
	lst   fp.List[int]
	lsnap string
	hist  []string
}

func (p *pool) add(name string, s []int) {
	full := s[:cap(s)]
	p.vals = append(p.vals, &live{name: name, s: s, snap: append([]int(nil), full...)})
}

func goMapDump(m map[int]int) string {
	var ks []int
	for k := range m {
		ks = append(ks, k)
	}
	sort.Ints(ks)
	var sb strings.Builder
	for _, k := range ks {
		fmt.Fprintf(&sb, "%d:%d,", k, m[k])
	}
	return sb.String()
}

func listDump(l fp.List[int]) string {
	var out []int
	for i := 0; !l.IsEmpty() && i < 50; i++ {
		out = append(out, l.Head())
		l = l.Tail()
	}
	return fmt.Sprint(out)
}

// verify compares every live value with its snapshot; site names the operation just applied.
func (p *pool) verify(site string) {
	for _, v := range p.vals {
		full := v.s[:cap(v.s)]
		for i := range full {
			if full[i] != v.snap[i] {
				where := "within its length"
				if i >= len(v.s) {
					where = "in its spare capacity (memory shared with a full-capacity alias)"
				}
				p.x.Fail("seq/"+site, "%s wrote to memory of live value %q at index %d %s: backing array was %v, is %v\n  history: %s",
					site, v.name, i, where, v.snap, full, strings.Join(p.hist, " ; "))
			}
		}
	}
	if d := goMapDump(p.gomap); d != p.gosnp {
		p.x.Fail("gomap/"+site, "%s modified the Go map passed in: was {%s}, is {%s}\n  history: %s", site, p.gosnp, d, strings.Join(p.hist, " ; "))
	}
	if d := listDump(p.lst); d != p.lsnap {
		p.x.Fail("list/"+site, "%s changed the contents of a live List: was %s, is %s\n  history: %s", site, p.lsnap, d, strings.Join(p.hist, " ; "))
	}
}

type seqOp struct {
	name string
	// run applies the operation to s (and t) and returns the Seq results to be kept alive
	run func(p *pool, s, t fp.Seq[int]) [][]int
	two bool
}

func odd(v int) bool { return v%2 == 1 }

var asc = ord.Given[int]()
var desc = ord.FromCompare(func(a, b int) int { return b - a })
var intHash = hamt.Hasher{Name: "identity", F: func(k int) uint32 { return uint32(k) }}

func seqOps() []seqOp {
	one := func(r fp.Seq[int]) [][]int { return [][]int{r} }
	none := func() [][]int { return nil }
	return []seqOp{
		{"Seq.Append(8,9)", func(p *pool, s, t fp.Seq[int]) [][]int { return one(s.Append(8, 9)) }, false},
		{"Seq.Add(9)", func(p *pool, s, t fp.Seq[int]) [][]int { return one(s.Add(9)) }, false},
		{"Seq.Append()", func(p *pool, s, t fp.Seq[int]) [][]int { return one(s.Append()) }, false},
		{"Seq.Concat(t)", func(p *pool, s, t fp.Seq[int]) [][]int { return one(s.Concat(t)) }, true},
		{"Seq.Take(2)", func(p *pool, s, t fp.Seq[int]) [][]int { return one(s.Take(2)) }, false},
		{"Seq.Drop(1)", func(p *pool, s, t fp.Seq[int]) [][]int { return one(s.Drop(1)) }, false},
		{"Seq.Tail", func(p *pool, s, t fp.Seq[int]) [][]int { return one(s.Tail()) }, false},
		{"Seq.Init", func(p *pool, s, t fp.Seq[int]) [][]int { return one(s.Init()) }, false},
		{"Seq.UnSeq", func(p *pool, s, t fp.Seq[int]) [][]int { _, r := s.UnSeq(); return one(r) }, false},
		{"Seq.Filter(odd)", func(p *pool, s, t fp.Seq[int]) [][]int { return one(s.Filter(odd)) }, false},
		{"Seq.FilterNot(odd)", func(p *pool, s, t fp.Seq[int]) [][]int { return one(s.FilterNot(odd)) }, false},
		{"Seq.Map(+1)", func(p *pool, s, t fp.Seq[int]) [][]int { return one(s.Map(func(v int) int { return v + 1 })) }, false},
		{"Seq.FlatMap(dup)", func(p *pool, s, t fp.Seq[int]) [][]int {
			return one(s.FlatMap(func(v int) fp.Seq[int] { return fp.Seq[int]{v, v} }))
		}, false},
		{"Seq.Reverse", func(p *pool, s, t fp.Seq[int]) [][]int { return one(s.Reverse()) }, false},
		{"seq.Sort(asc)", func(p *pool, s, t fp.Seq[int]) [][]int { return one(seq.Sort(s, asc)) }, false},
		{"seq.Sort(desc)", func(p *pool, s, t fp.Seq[int]) [][]int { return one(seq.Sort(s, desc)) }, false},
		{"seq.Distinct", func(p *pool, s, t fp.Seq[int]) [][]int { return one(seq.Distinct(s)) }, false},
		{"seq.Scan(+)", func(p *pool, s, t fp.Seq[int]) [][]int {
			return one(seq.Scan(s, 0, func(a, b int) int { return a + b }))
		}, false},
		{"seq.Span(odd)", func(p *pool, s, t fp.Seq[int]) [][]int { a, b := seq.Span(s, odd); return [][]int{a, b} }, false},
		{"seq.Partition(odd)", func(p *pool, s, t fp.Seq[int]) [][]int { a, b := seq.Partition(s, odd); return [][]int{a, b} }, false},
		{"seq.Init", func(p *pool, s, t fp.Seq[int]) [][]int { return one(seq.Init([]int(s))) }, false},
		{"seq.Tail", func(p *pool, s, t fp.Seq[int]) [][]int { return one(seq.Tail([]int(s))) }, false},
		{"seq.Concat(7,s)", func(p *pool, s, t fp.Seq[int]) [][]int { return one(seq.Concat(7, s)) }, false},
		{"seq.Map", func(p *pool, s, t fp.Seq[int]) [][]int { return one(seq.Map(s, func(v int) int { return v * 2 })) }, false},
		{"seq.FlatMap", func(p *pool, s, t fp.Seq[int]) [][]int {
			return one(seq.FlatMap(s, func(v int) fp.Seq[int] { return fp.Seq[int]{v} }))
		}, false},
		{"seq.Flatten", func(p *pool, s, t fp.Seq[int]) [][]int { return one(seq.Flatten(fp.Seq[fp.Seq[int]]{s, t})) }, true},
		{"seq.Collect(seq.Iterator)", func(p *pool, s, t fp.Seq[int]) [][]int { return one(seq.Collect(seq.Iterator(s))) }, false},
		{"iterator.Sort", func(p *pool, s, t fp.Seq[int]) [][]int { return one(iterator.Sort(iterator.FromSeq(s), asc)) }, false},
		{"iterator.ReverseSeq.ToSeq", func(p *pool, s, t fp.Seq[int]) [][]int { return one(iterator.ReverseSeq([]int(s)).ToSeq()) }, false},
		{"iterator.FromSeq.Filter.ToSeq", func(p *pool, s, t fp.Seq[int]) [][]int { return one(iterator.FromSeq(s).Filter(odd).ToSeq()) }, false},
		{"iterator.FromSeq.Concat.ToSeq", func(p *pool, s, t fp.Seq[int]) [][]int {
			return one(iterator.FromSeq(s).Concat(iterator.FromSeq(t)).ToSeq())
		}, true},
		{"iterator.FromSeq.Take(2).ToSeq", func(p *pool, s, t fp.Seq[int]) [][]int { return one(iterator.FromSeq(s).Take(2).ToSeq()) }, false},
		{"list.Sort(FromSeq)", func(p *pool, s, t fp.Seq[int]) [][]int { return one(list.Sort(list.FromSeq(s), asc)) }, false},
		{"list.ReverseSeq", func(p *pool, s, t fp.Seq[int]) [][]int { return one(iterator.FromList(list.ReverseSeq(s)).ToSeq()) }, false},
		{"list.FromSeq.ToSeq", func(p *pool, s, t fp.Seq[int]) [][]int { return one(iterator.FromList(list.FromSeq(s)).ToSeq()) }, false},
		{"monoid.MergeSeq.Combine(s,t)", func(p *pool, s, t fp.Seq[int]) [][]int {
			return one(monoid.MergeSeq[int]().Combine(s, t))
		}, true},
		{"monoid.MergeSlice.Combine(s,t)", func(p *pool, s, t fp.Seq[int]) [][]int {
			return one(monoid.MergeSlice[int]().Combine([]int(s), []int(t)))
		}, true},
		{"monoid.Dual(MergeSeq).Combine + seq.Reduce(MergeSeq)", func(p *pool, s, t fp.Seq[int]) [][]int {
			a := monoid.Dual(monoid.MergeSeq[int]()).Combine(fp.Dual[fp.Seq[int]]{GetDual: s}, fp.Dual[fp.Seq[int]]{GetDual: t})
			b := seq.Reduce(fp.Seq[fp.Seq[int]]{s, t, s}, monoid.MergeSeq[int]())
			return [][]int{a.GetDual, b}
		}, true},
		// consumers: results are not Seq[int]; they only must leave their inputs alone
		{"seq.Fold/Reduce/FoldMap/FoldRight", func(p *pool, s, t fp.Seq[int]) [][]int {
			seq.Fold(s, 0, func(a, b int) int { return a + b })
			seq.Reduce(s, monoid.Sum[int]())
			seq.FoldMap(s, monoid.Sum[int](), func(v int) int { return v })
			iterator.Reduce(iterator.FromSeq(s), monoid.Sum[int]())
			return none()
		}, false},
		{"seq.GroupBy/ToMap/ToGoMap/ToSet/ToGoSet", func(p *pool, s, t fp.Seq[int]) [][]int {
			g := seq.GroupBy(s, func(v int) int { return v % 2 })
			var out [][]int
			var ks []int
			for k := range g {
				ks = append(ks, k)
			}
			sort.Ints(ks)
			for _, k := range ks {
				out = append(out, g[k])
			}
			z := seq.ZipWithIndex(s)
			seq.ToMap(z, intHash)
			seq.ToGoMap(z)
			seq.ToSet(s, intHash)
			seq.ToGoSet(s)
			return out
		}, false},
		{"seq.Min/Max/Zip/Find/Exists/MakeString", func(p *pool, s, t fp.Seq[int]) [][]int {
			seq.Min(s, asc)
			seq.Max(s, asc)
			seq.Zip(s, t)
			s.Find(odd)
			s.Exists(odd)
			s.ForAll(odd)
			s.Head()
			s.Last()
			s.Get(1)
			_ = s.MakeString(",")
			s.Foreach(func(int) {})
			return none()
		}, true},
		{"seq/iterator/list.FromMap(gomap)", func(p *pool, s, t fp.Seq[int]) [][]int {
			seq.FromMap(p.gomap)
			seq.FromMapKeys(p.gomap)
			seq.FromMapValues(p.gomap)
			iterator.FromMap(p.gomap).ToSeq()
			iterator.FromMapKey(p.gomap).ToSeq()
			iterator.FromMapValue(p.gomap).ToSeq()
			listDump(list.FromMapKey(p.gomap))
			m := monoid.MergeGoMap[int, int]()
			m.Combine(p.gomap, map[int]int{1: 5, 7: 7})
			m.Combine(map[int]int{1: 5, 7: 7}, p.gomap)
			return none()
		}, false},
		{"list ops on the live list", func(p *pool, s, t fp.Seq[int]) [][]int {
			l := p.lst
			a := list.Sort(l, asc)
			listDump(list.Map(l, func(v int) int { return v + 1 }))
			listDump(list.Combine(l, list.FromSeq(s)))
			listDump(list.Concat(4, l))
			list.Zip(l, l).Tail().Tail().IsEmpty()
			listDump(list.Scan(l, 0, func(a, b int) int { return a + b }))
			list.Fold(l, 0, func(a, b int) int { return a + b })
			list.Reduce(l, monoid.Sum[int]())
			list.GroupBy(l, func(v int) int { return v % 2 })
			list.Min(l, asc)
			return one(a)
		}, false},
		{"Option[Seq].UnmarshalJSON over a defined Option", func(p *pool, s, t fp.Seq[int]) [][]int {
			// decoding into a variable that already holds Some(s) replaces the Option; the slice the
			// older copies (and the caller) still hold is not the decoder's to reuse
			o := fp.Some(s)
			older := o
			json.Unmarshal([]byte("[9,8]"), &o)
			first := o.OrElse(nil)
			json.Unmarshal([]byte("[7]"), &o)
			json.Unmarshal([]byte("null"), &o)
			o2 := fp.Some(t)
			json.Unmarshal([]byte("[6,6,6,6,6,6,6,6,6]"), &o2)
			json.Unmarshal([]byte("{"), &o2)
			_ = older
			return [][]int{first, o2.OrElse(nil)}
		}, true},
		{"Option/Try holding the Seq", func(p *pool, s, t fp.Seq[int]) [][]int {
			o := fp.Some(s)
			o.Filter(func(fp.Seq[int]) bool { return true })
			o.OrElse(t)
			option.Map(o, func(v fp.Seq[int]) int { return len(v) })
			r := option.Map(o, func(v fp.Seq[int]) fp.Seq[int] { return v.Reverse() })
			tr := fp.Success(s)
			try.Map(tr, func(v fp.Seq[int]) fp.Seq[int] { return seq.Sort(v, asc) })
			tr.Recover(func(error) fp.Seq[int] { return t })
			tu := fp.Tuple2[fp.Seq[int], fp.Seq[int]]{I1: s, I2: t}
			_ = tu.String()
			return one(r.OrElse(nil))
		}, true},
	}
}

func seqScenario(depth int) func(x *mc.X) {
	ops := seqOps()
	return func(x *mc.X) {
		p := &pool{x: x}
		p.gomap = map[int]int{1: 10, 2: 20, 3: 30}
		p.gosnp = goMapDump(p.gomap)
		p.lst = list.Of(3, 1, 2)
		p.lsnap = listDump(p.lst)
		switch x.Choose(5, "initial") {
		case 0:
			p.add("Seq{3,1,2}", fp.Seq[int]{3, 1, 2})
			p.hist = append(p.hist, "s0 = Seq{3,1,2}")
		case 1:
			s := make([]int, 3, 8)
			copy(s, []int{3, 1, 2})
			for i := 3; i < 8; i++ {
				s[:8][i] = 100 + i
			}
			p.add("make([]int,3,8)={3,1,2} (spare capacity)", s)
			p.add("full-capacity alias of s0", s[:8])
			p.hist = append(p.hist, "s0 = slice len 3 cap 8 {3,1,2}; s1 = s0[:8]")
		case 2:
			base := []int{5, 3, 1, 2, 4}
			p.add("base[1:4] of {5,3,1,2,4}", base[1:4])
			p.add("base {5,3,1,2,4}", base)
			p.hist = append(p.hist, "base = {5,3,1,2,4}; s0 = base[1:4]; s1 = base")
		case 3:
			p.add("nil Seq", nil)
			p.add("Seq{2,1}", fp.Seq[int]{2, 1})
			p.hist = append(p.hist, "s0 = nil; s1 = Seq{2,1}")
		case 4:
			p.add("empty Seq with capacity", make([]int, 0, 4))
			p.add("Seq{1,1,2}", fp.Seq[int]{1, 1, 2})
			p.hist = append(p.hist, "s0 = make([]int,0,4); s1 = Seq{1,1,2}")
		}
		n := x.Choose(depth, "steps") + 1
		for step := 0; step < n; step++ {
			op := ops[x.Choose(len(ops), "op")]
			si := x.Choose(len(p.vals), "input")
			ti := 0
			if op.two {
				ti = x.Choose(len(p.vals), "second input")
			}
			desc := fmt.Sprintf("%s on s%d", op.name, si)
			if op.two {
				desc += fmt.Sprintf(", s%d", ti)
			}
			p.hist = append(p.hist, desc)
			x.Logf("%s", desc)
			var res [][]int
			if pv := mc.Catch(func() { res = op.run(p, p.vals[si].s, p.vals[ti].s) }); pv != nil {
				// a panic is not a persistence question; other properties own it
				x.Logf("  (panicked: %v)", pv)
			}
			p.verify(op.name)
			for _, r := range res {
				if len(p.vals) < 6 {
					p.add(fmt.Sprintf("result of %s", desc), r)
				}
			}
			x.Tag(op.name)
		}
		x.Observe(len(p.vals), p.hist)
		if n >= 2 {
			x.NonTrivial()
		}
	}
}

// builder rule: a collection handed out by a builder is not changed by later use of it.
func builderScenario(h hamt.Hasher, ballast int) func(x *mc.X) {
	return func(x *mc.X) {
		isSet := x.Bool("set")
		keys := []int{0, 1, 2, 32}
		mb := immutable.MapBuilder[int, int](h)
		sb := immutable.SetBuilder[int](h)
		k := 4
		for i := 0; i < ballast; i++ {
			for k == 32 {
				k++
			}
			mb.Add(k, 9)
			sb.Add(k)
			k++
		}
		n := x.Choose(3, "adds before Build")
		hist := fmt.Sprintf("Builder(%s)+%d ballast", h.Name, ballast)
		for i := 0; i < n; i++ {
			kk := mc.Pick(x, "key", keys)
			mb.Add(kk, 1)
			sb.Add(kk)
			hist += fmt.Sprintf(".Add(%d)", kk)
		}
		var built any
		if isSet {
			built = sb.Build()
		} else {
			built = mb.Build()
		}
		hist += ".Build()"
		before, _, ok := hamt.Dump(built, true, nil)
		var content string
		observe := func() string {
			if isSet {
				e := built.(fp.Set[int]).Iterator().ToSeq()
				sort.Ints(e)
				return fmt.Sprint(e)
			}
			var e []string
			for _, t := range built.(fp.Map[int, int]).Iterator().ToSeq() {
				e = append(e, fmt.Sprintf("%d:%d", t.I1, t.I2))
			}
			sort.Strings(e)
			return fmt.Sprint(e)
		}
		content = observe()
		m := x.Choose(2, "adds after Build") + 1
		for i := 0; i < m; i++ {
			kk := mc.Pick(x, "key after", keys)
			hist += fmt.Sprintf(" ; builder.Add(%d,2)", kk)
			// an invalidated builder may refuse (panic); it must not change what it handed out
			mc.Catch(func() {
				if isSet {
					sb.Add(kk)
				} else {
					mb.Add(kk, 2)
				}
			})
			site := "MapBuilder"
			if isSet {
				site = "SetBuilder"
			}
			if now := observe(); now != content {
				x.Fail("builder/"+site+"/contents", "%s: the built collection changed from %s to %s", hist, content, now)
			}
			if now, _, ok2 := hamt.Dump(built, true, nil); ok && ok2 && now != before {
				x.Fail("builder/"+site+"/structure", "%s: memory reachable from the built collection was written", hist)
			}
		}
		x.Observe(isSet, n, m, content)
		x.NonTrivial()
	}
}

func main() {
	mc.Main("C04", func(r *mc.Registry) {
		r.Rule = "(a) explicit-state search to closure per configuration as in C03, oracle: the structural dump with node identities of the value an operation is applied to is identical before and after, and every reached version is identical to its creation dump at the end of the search; builder rule enumerated statelessly. (b) stateless DFS over branching histories of Seq/iterator/list/Go-map operations from initial values incl. spare capacity, sub-slices with a live full-capacity alias, nil and empty; after every step the full backing array (up to capacity) of every live slice, the Go map and the live List are compared with their snapshots. Non-trivial = history of >= 2 steps / configuration with more than one state."
		r.Assumptions = []string{
			"values are compared between whole operations only: a node modified and restored inside one call is not observable and not claimed",
			"memory reachable from a map/set value = what the reflection walk over its unexported fields reaches (pointers, slices up to len, interfaces)",
		}
		hashers := []string{"identity", "pairs-collide", "high-bits", "pairs-shared-path", "constant", "beside-collision"}
		ballast := []int{0, 4, 14, 27}
		depth := 2
		if r.Thorough() {
			hashers = nil
			for _, h := range hamt.Hashers {
				hashers = append(hashers, h.Name)
			}
			ballast = []int{0, 3, 4, 7, 8, 13, 14, 15, 16, 27, 28}
			depth = 3
		}
		for _, kind := range []string{"map", "set"} {
			for _, hn := range hashers {
				for _, b := range ballast {
					cfg := hamt.Config{Kind: kind, Hasher: hamt.HasherByName(hn), Ballast: b, Active: active, Values: []int{1, 2}, Start: "builder", Persist: true}
					r.Seq("persist/"+cfg.Name(), func(x *mc.X) { hamt.Search(x, cfg) }).NoShard = true
				}
			}
			for _, hn := range []string{"identity", "high-bits"} {
				cfg := hamt.Config{Kind: kind, Hasher: hamt.HasherByName(hn), Ballast: 0, Active: []int{0, 1, 2, 3, 4, 5, 6, 32, 64, 33}, Values: []int{1}, Start: "updated", ShrinkOnly: true, Persist: true}
				r.Seq("persist/"+cfg.Name(), func(x *mc.X) { hamt.Search(x, cfg) }).NoShard = true
			}
			cfg := hamt.Config{Kind: kind, Hasher: hamt.HasherByName("identity"), Ballast: 2, Active: active, Values: []int{1, 2}, Start: "zero", Persist: true}
			r.Seq("persist/"+cfg.Name(), func(x *mc.X) { hamt.Search(x, cfg) }).NoShard = true
		}
		for _, hn := range hashers {
			for _, b := range []int{0, 6, 14} {
				r.Seq(fmt.Sprintf("builder/%s/ballast=%d", hn, b), builderScenario(hamt.HasherByName(hn), b)).SplitDepth = 3
			}
		}
		r.Seq("values/seq-list-gomap", seqScenario(depth)).SplitDepth = 4
		r.Extra["bounds"] = map[string]any{"hashers": hashers, "ballast_sizes": ballast, "history_depth": depth, "seq_ops": len(seqOps())}
	})
}
