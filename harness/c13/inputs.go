package main

// Scratch generator inputs for the order exploration (the repository's own gombok inputs do
// not exercise every resolution path: e.g. none of them derives a Monoid over a bool field, for
// which the monoid package offers two static instances, All and Any). They are injected into
// the scratch copy of the tree under test/internal/, so they are part of the module.
var scratchInputs = map[string]string{
	"test/internal/zzverif1/types.go": `package zzverif1

import (
	"github.com/csgura/fp"
	"github.com/csgura/fp/clone"
	"github.com/csgura/fp/eq"
	"github.com/csgura/fp/hash"
	"github.com/csgura/fp/monoid"
	"github.com/csgura/fp/ord"
	"github.com/csgura/fp/show"
)

//go:generate go run github.com/csgura/fp/cmd/gombok

// @fp.Value
// @fp.Json
// @fp.GenLabelled
type Flags struct {
	name    string
	enabled bool
	tags    fp.Seq[string]
	opt     fp.Option[int]
	attrs   map[string]int
	pair    fp.Tuple2[string, int]
}

// @fp.Value
// @fp.GenLabelled
type Acc struct {
	name    string
	enabled bool
	tags    fp.Seq[string]
	attrs   map[string]int
}

// @fp.Value
type Key struct {
	name string
	n    int
	tags fp.Seq[string]
	opt  fp.Option[string]
}

// @fp.Value
type Wrapper[T any] struct {
	value T
	label string
}

// @fp.Derive
var _ eq.Derives[fp.Eq[Flags]]

// @fp.Derive
var _ hash.Derives[fp.Hashable[Key]]

// @fp.Derive
var _ ord.Derives[fp.Ord[Key]]

// @fp.Derive
var _ monoid.Derives[fp.Monoid[Acc]]

// @fp.Derive
var _ clone.Derives[fp.Clone[Flags]]

// @fp.Derive
var _ show.Derives[fp.Show[Flags]]

// @fp.Derive
var _ eq.Derives[fp.Eq[Wrapper[any]]]

// @fp.Derive
var _ show.Derives[fp.Show[Wrapper[any]]]
`,
	// Two imported packages that share the package name "codec": the generated file needs a
	// numbered import alias (codec / codec1), whose numbering must not depend on the order in
	// which a map of methods / fields happens to be visited.
	"test/internal/zzverif2/a/codec/codec.go": "package codec\n\ntype Reader struct{ N int }\n",
	"test/internal/zzverif2/b/codec/codec.go": "package codec\n\ntype Writer struct{ N int }\n",
	"test/internal/zzverif2/model/model.go": `package model

import (
	acodec "github.com/csgura/fp/test/internal/zzverif2/a/codec"
	bcodec "github.com/csgura/fp/test/internal/zzverif2/b/codec"
)

type Pipe struct{ n int }

func (r Pipe) Op1(src acodec.Reader) int { return r.n + src.N }
func (r Pipe) Op2(dst bcodec.Writer) int { return r.n - dst.N }
func (r Pipe) Op3(src acodec.Reader) int { return r.n + src.N }
func (r Pipe) Op4(dst bcodec.Writer) int { return r.n - dst.N }
func (r Pipe) Op5(src acodec.Reader) bcodec.Writer { return bcodec.Writer{N: src.N} }
func (r Pipe) Op6(dst bcodec.Writer) acodec.Reader { return acodec.Reader{N: dst.N} }
`,
	"test/internal/zzverif2/app/app.go": `package app

import (
	"github.com/csgura/fp"
	acodec "github.com/csgura/fp/test/internal/zzverif2/a/codec"
	bcodec "github.com/csgura/fp/test/internal/zzverif2/b/codec"
	"github.com/csgura/fp/test/internal/zzverif2/model"
)

//go:generate go run github.com/csgura/fp/cmd/gombok

// @fp.Deref
type Conn model.Pipe

// @fp.Value
// @fp.GenLabelled
type Link struct {
	src  acodec.Reader
	dst  bcodec.Writer
	opt  fp.Option[bcodec.Writer]
	many fp.Seq[acodec.Reader]
}
`,
	// @fp.Generate (a template writing EqVec2..EqVec4) combined with @fp.Derive over a struct whose
	// fields use those instances: the derive phase must see the same package whether gombok runs in a
	// clean directory or on top of its own previous output.
	"test/internal/zzverif3/geom.go": "package zzverif3\n\nimport (\n\t\"github.com/csgura/fp\"\n\t\"github.com/csgura/fp/eq\"\n\t\"github.com/csgura/fp/genfp\"\n)\n\n//go:generate go run github.com/csgura/fp/cmd/gombok\n\ntype Vec2 [2]float64\ntype Vec3 [3]float64\ntype Vec4 [4]float64\n\n// @fp.Generate\nvar _ = genfp.GenerateFromUntil{\n\tFile: \"vec_eq_gen.go\",\n\tImports: []genfp.ImportPackage{\n\t\t{Package: \"github.com/csgura/fp\", Name: \"fp\"},\n\t\t{Package: \"github.com/csgura/fp/eq\", Name: \"eq\"},\n\t},\n\tFrom:  2,\n\tUntil: 5,\n\tTemplate: `\n// EqVec{{.N}} compares two Vec{{.N}} component-wise with a tolerance of 1e-9.\nfunc EqVec{{.N}}() fp.Eq[Vec{{.N}}] {\n\treturn eq.New(func(a, b Vec{{.N}}) bool {\n\t\tfor i := range a {\n\t\t\tif d := a[i] - b[i]; d > 1e-9 || d < -1e-9 {\n\t\t\t\treturn false\n\t\t\t}\n\t\t}\n\t\treturn true\n\t})\n}\n`,\n}\n\n// @fp.Value\ntype Body struct {\n\tpos  Vec3\n\tvel  Vec3\n\tmass float64\n}\n\n// @fp.Derive\nvar _ eq.Derives[fp.Eq[Body]]\n",
}
