package main

// Scratch generator inputs for the order exploration (the repository's own gombok inputs do
// not exercise every resolution path: e.g. none of them derives a Monoid over a bool field, for
// which the monoid package offers two static instances, All and Any). They are injected into
// the scratch copy of the tree under test/internal/, so they are part of the module.
var scratchInputs = map[string]string{
	"test/internal/zzverif1/types.go": `package zzverif1

import (
	"github.com/csgura/fp"
	"github.com/csgura/fp/clone"
	"github.com/csgura/fp/eq"
	"github.com/csgura/fp/hash"
	"github.com/csgura/fp/monoid"
	"github.com/csgura/fp/ord"
	"github.com/csgura/fp/show"
)

//go:generate go run github.com/csgura/fp/cmd/gombok

// @fp.Value
// @fp.Json
// @fp.GenLabelled
type Flags struct {
	name    string
	enabled bool
	tags    fp.Seq[string]
	opt     fp.Option[int]
	attrs   map[string]int
	pair    fp.Tuple2[string, int]
}

// @fp.Value
// @fp.GenLabelled
type Acc struct {
	name    string
	enabled bool
	tags    fp.Seq[string]
	attrs   map[string]int
}

// @fp.Value
type Key struct {
	name string
	n    int
	tags fp.Seq[string]
	opt  fp.Option[string]
}

// @fp.Value
type Wrapper[T any] struct {
	value T
	label string
}

// @fp.Derive
var _ eq.Derives[fp.Eq[Flags]]

// @fp.Derive
var _ hash.Derives[fp.Hashable[Key]]

// @fp.Derive
var _ ord.Derives[fp.Ord[Key]]

// @fp.Derive
var _ monoid.Derives[fp.Monoid[Acc]]

// @fp.Derive
var _ clone.Derives[fp.Clone[Flags]]

// @fp.Derive
var _ show.Derives[fp.Show[Flags]]

// @fp.Derive
var _ eq.Derives[fp.Eq[Wrapper[any]]]

// @fp.Derive
var _ show.Derives[fp.Show[Wrapper[any]]]
`,
	// Two imported packages that share the package name "codec": the generated file needs a
	// numbered import alias (codec / codec1), whose numbering must not depend on the order in
	// which a map of methods / fields happens to be visited.
	"test/internal/zzverif2/a/codec/codec.go": "package codec\n\ntype Reader struct{ N int }\n",
	"test/internal/zzverif2/b/codec/codec.go": "package codec\n\ntype Writer struct{ N int }\n",
	"test/internal/zzverif2/model/model.go": `package model

import (
	acodec "github.com/csgura/fp/test/internal/zzverif2/a/codec"
	bcodec "github.com/csgura/fp/test/internal/zzverif2/b/codec"
)

type Pipe struct{ n int }

func (r Pipe) Op1(src acodec.Reader) int { return r.n + src.N }
func (r Pipe) Op2(dst bcodec.Writer) int { return r.n - dst.N }
func (r Pipe) Op3(src acodec.Reader) int { return r.n + src.N }
func (r Pipe) Op4(dst bcodec.Writer) int { return r.n - dst.N }
func (r Pipe) Op5(src acodec.Reader) bcodec.Writer { return bcodec.Writer{N: src.N} }
func (r Pipe) Op6(dst bcodec.Writer) acodec.Reader { return acodec.Reader{N: dst.N} }
`,
	"test/internal/zzverif2/app/app.go": `package app

import (
	"github.com/csgura/fp"
	acodec "github.com/csgura/fp/test/internal/zzverif2/a/codec"
	bcodec "github.com/csgura/fp/test/internal/zzverif2/b/codec"
	"github.com/csgura/fp/test/internal/zzverif2/model"
)

//go:generate go run github.com/csgura/fp/cmd/gombok

// @fp.Deref
type Conn model.Pipe

// @fp.Value
// @fp.GenLabelled
type Link struct {
	src  acodec.Reader
	dst  bcodec.Writer
	opt  fp.Option[bcodec.Writer]
	many fp.Seq[acodec.Reader]
}
`,
	// @fp.Generate (a template writing EqVec2..EqVec4) combined with @fp.Derive over a struct whose
	// fields use those instances: the derive phase must see the same package whether gombok runs in a
	// clean directory or on top of its own previous output.
	"test/internal/zzverif3/geom.go": "package zzverif3\n\nimport (\n\t\"github.com/csgura/fp\"\n\t\"github.com/csgura/fp/eq\"\n\t\"github.com/csgura/fp/genfp\"\n)\n\n//go:generate go run github.com/csgura/fp/cmd/gombok\n\ntype Vec2 [2]float64\ntype Vec3 [3]float64\ntype Vec4 [4]float64\n\n// @fp.Generate\nvar _ = genfp.GenerateFromUntil{\n\tFile: \"vec_eq_gen.go\",\n\tImports: []genfp.ImportPackage{\n\t\t{Package: \"github.com/csgura/fp\", Name: \"fp\"},\n\t\t{Package: \"github.com/csgura/fp/eq\", Name: \"eq\"},\n\t},\n\tFrom:  2,\n\tUntil: 5,\n\tTemplate: `\n// EqVec{{.N}} compares two Vec{{.N}} component-wise with a tolerance of 1e-9.\nfunc EqVec{{.N}}() fp.Eq[Vec{{.N}}] {\n\treturn eq.New(func(a, b Vec{{.N}}) bool {\n\t\tfor i := range a {\n\t\t\tif d := a[i] - b[i]; d > 1e-9 || d < -1e-9 {\n\t\t\t\treturn false\n\t\t\t}\n\t\t}\n\t\treturn true\n\t})\n}\n`,\n}\n\n// @fp.Value\ntype Body struct {\n\tpos  Vec3\n\tvel  Vec3\n\tmass float64\n}\n\n// @fp.Derive\nvar _ eq.Derives[fp.Eq[Body]]\n",
	// two @fp.ImportGiven packages that both offer a Show instance for time.Duration: the one
	// imported first must win, however long each package takes to scan
	"test/internal/zzverif4/giva/giva.go":     "package giva\n\nimport (\n\t\"time\"\n\n\t\"github.com/csgura/fp/show\"\n)\n\ntype Derives[T any] interface{}\n\nvar Duration = show.New(func(d time.Duration) string {\n\treturn d.String()\n})\n",
	"test/internal/zzverif4/givb/givb.go":     "package givb\n\nimport (\n\t\"fmt\"\n\t\"time\"\n\n\t\"github.com/csgura/fp/show\"\n)\n\ntype Derives[T any] interface{}\n\nvar Duration = show.New(func(d time.Duration) string {\n\treturn fmt.Sprintf(\"%dns\", int64(d))\n})\n\ntype Pad0 struct{ V int }\n\nvar ShowPad0 = show.New(func(p Pad0) string { return fmt.Sprint(p.V) })\n\ntype Pad1 struct{ V int }\n\nvar ShowPad1 = show.New(func(p Pad1) string { return fmt.Sprint(p.V) })\n\ntype Pad2 struct{ V int }\n\nvar ShowPad2 = show.New(func(p Pad2) string { return fmt.Sprint(p.V) })\n\ntype Pad3 struct{ V int }\n\nvar ShowPad3 = show.New(func(p Pad3) string { return fmt.Sprint(p.V) })\n\ntype Pad4 struct{ V int }\n\nvar ShowPad4 = show.New(func(p Pad4) string { return fmt.Sprint(p.V) })\n\ntype Pad5 struct{ V int }\n\nvar ShowPad5 = show.New(func(p Pad5) string { return fmt.Sprint(p.V) })\n\ntype Pad6 struct{ V int }\n\nvar ShowPad6 = show.New(func(p Pad6) string { return fmt.Sprint(p.V) })\n\ntype Pad7 struct{ V int }\n\nvar ShowPad7 = show.New(func(p Pad7) string { return fmt.Sprint(p.V) })\n\ntype Pad8 struct{ V int }\n\nvar ShowPad8 = show.New(func(p Pad8) string { return fmt.Sprint(p.V) })\n\ntype Pad9 struct{ V int }\n\nvar ShowPad9 = show.New(func(p Pad9) string { return fmt.Sprint(p.V) })\n\ntype Pad10 struct{ V int }\n\nvar ShowPad10 = show.New(func(p Pad10) string { return fmt.Sprint(p.V) })\n\ntype Pad11 struct{ V int }\n\nvar ShowPad11 = show.New(func(p Pad11) string { return fmt.Sprint(p.V) })\n\ntype Pad12 struct{ V int }\n\nvar ShowPad12 = show.New(func(p Pad12) string { return fmt.Sprint(p.V) })\n\ntype Pad13 struct{ V int }\n\nvar ShowPad13 = show.New(func(p Pad13) string { return fmt.Sprint(p.V) })\n\ntype Pad14 struct{ V int }\n\nvar ShowPad14 = show.New(func(p Pad14) string { return fmt.Sprint(p.V) })\n\ntype Pad15 struct{ V int }\n\nvar ShowPad15 = show.New(func(p Pad15) string { return fmt.Sprint(p.V) })\n\ntype Pad16 struct{ V int }\n\nvar ShowPad16 = show.New(func(p Pad16) string { return fmt.Sprint(p.V) })\n\ntype Pad17 struct{ V int }\n\nvar ShowPad17 = show.New(func(p Pad17) string { return fmt.Sprint(p.V) })\n\ntype Pad18 struct{ V int }\n\nvar ShowPad18 = show.New(func(p Pad18) string { return fmt.Sprint(p.V) })\n\ntype Pad19 struct{ V int }\n\nvar ShowPad19 = show.New(func(p Pad19) string { return fmt.Sprint(p.V) })\n\ntype Pad20 struct{ V int }\n\nvar ShowPad20 = show.New(func(p Pad20) string { return fmt.Sprint(p.V) })\n\ntype Pad21 struct{ V int }\n\nvar ShowPad21 = show.New(func(p Pad21) string { return fmt.Sprint(p.V) })\n\ntype Pad22 struct{ V int }\n\nvar ShowPad22 = show.New(func(p Pad22) string { return fmt.Sprint(p.V) })\n\ntype Pad23 struct{ V int }\n\nvar ShowPad23 = show.New(func(p Pad23) string { return fmt.Sprint(p.V) })\n\ntype Pad24 struct{ V int }\n\nvar ShowPad24 = show.New(func(p Pad24) string { return fmt.Sprint(p.V) })\n\ntype Pad25 struct{ V int }\n\nvar ShowPad25 = show.New(func(p Pad25) string { return fmt.Sprint(p.V) })\n\ntype Pad26 struct{ V int }\n\nvar ShowPad26 = show.New(func(p Pad26) string { return fmt.Sprint(p.V) })\n\ntype Pad27 struct{ V int }\n\nvar ShowPad27 = show.New(func(p Pad27) string { return fmt.Sprint(p.V) })\n\ntype Pad28 struct{ V int }\n\nvar ShowPad28 = show.New(func(p Pad28) string { return fmt.Sprint(p.V) })\n\ntype Pad29 struct{ V int }\n\nvar ShowPad29 = show.New(func(p Pad29) string { return fmt.Sprint(p.V) })\n\ntype Pad30 struct{ V int }\n\nvar ShowPad30 = show.New(func(p Pad30) string { return fmt.Sprint(p.V) })\n\ntype Pad31 struct{ V int }\n\nvar ShowPad31 = show.New(func(p Pad31) string { return fmt.Sprint(p.V) })\n\ntype Pad32 struct{ V int }\n\nvar ShowPad32 = show.New(func(p Pad32) string { return fmt.Sprint(p.V) })\n\ntype Pad33 struct{ V int }\n\nvar ShowPad33 = show.New(func(p Pad33) string { return fmt.Sprint(p.V) })\n\ntype Pad34 struct{ V int }\n\nvar ShowPad34 = show.New(func(p Pad34) string { return fmt.Sprint(p.V) })\n\ntype Pad35 struct{ V int }\n\nvar ShowPad35 = show.New(func(p Pad35) string { return fmt.Sprint(p.V) })\n\ntype Pad36 struct{ V int }\n\nvar ShowPad36 = show.New(func(p Pad36) string { return fmt.Sprint(p.V) })\n\ntype Pad37 struct{ V int }\n\nvar ShowPad37 = show.New(func(p Pad37) string { return fmt.Sprint(p.V) })\n\ntype Pad38 struct{ V int }\n\nvar ShowPad38 = show.New(func(p Pad38) string { return fmt.Sprint(p.V) })\n\ntype Pad39 struct{ V int }\n\nvar ShowPad39 = show.New(func(p Pad39) string { return fmt.Sprint(p.V) })\n",
	"test/internal/zzverif4/target/target.go": "package target\n\nimport (\n\t\"time\"\n\n\t\"github.com/csgura/fp\"\n\t\"github.com/csgura/fp/show\"\n\t\"github.com/csgura/fp/test/internal/zzverif4/giva\"\n\t\"github.com/csgura/fp/test/internal/zzverif4/givb\"\n)\n\n//go:generate go run github.com/csgura/fp/cmd/gombok\n\n// @fp.ImportGiven\nvar _ giva.Derives[fp.Show[any]]\n\n// @fp.ImportGiven\nvar _ givb.Derives[fp.Show[any]]\n\ntype Job struct {\n\tName    string\n\tTimeout time.Duration\n}\n\n// @fp.Derive\nvar _ show.Derives[fp.Show[Job]]\n",
	// template_gen directives for ONE output file spread over several source files: the order of
	// the generated groups must not depend on how the files are scanned
	"test/internal/zzverif5/b_ops.go": "package zzverif5\n\nimport \"github.com/csgura/fp/genfp\"\n\n//go:generate go run github.com/csgura/fp/internal/generator/template_gen\n\n// @internal.Generate\nvar _ = genfp.GenerateFromUntil{\n\tFile:  \"a_gen.go\",\n\tFrom:  1,\n\tUntil: 3,\n\tTemplate: `\nfunc Bops{{.N}}() string { return \"Bops{{.N}}\" }\n`,\n}\n",
	"test/internal/zzverif5/c_ops.go": "package zzverif5\n\nimport \"github.com/csgura/fp/genfp\"\n\n// @internal.Generate\nvar _ = genfp.GenerateFromUntil{\n\tFile:  \"a_gen.go\",\n\tFrom:  1,\n\tUntil: 3,\n\tTemplate: `\nfunc Cops{{.N}}() string { return \"Cops{{.N}}\" }\n`,\n}\n",
	"test/internal/zzverif5/d_ops.go": "package zzverif5\n\nimport \"github.com/csgura/fp/genfp\"\n\n// @internal.Generate\nvar _ = genfp.GenerateFromUntil{\n\tFile:  \"a_gen.go\",\n\tFrom:  1,\n\tUntil: 3,\n\tTemplate: `\nfunc Dops{{.N}}() string { return \"Dops{{.N}}\" }\n`,\n}\n",
	"test/internal/zzverif5/e_ops.go": "package zzverif5\n\nimport \"github.com/csgura/fp/genfp\"\n\n// @internal.Generate\nvar _ = genfp.GenerateFromUntil{\n\tFile:  \"z_gen.go\",\n\tFrom:  1,\n\tUntil: 3,\n\tTemplate: `\nfunc Eops{{.N}}() string { return \"Eops{{.N}}\" }\n`,\n}\n",
	// one field type expression that uses two imports, one of which (x) means another package in the
	// other source file while the other (y) is a non-default alias: which imports get registered, and
	// under which names, must not depend on the order in which the uses of the expression are visited
	"test/internal/zzverif6/a.go": "package zzverif6\n\nimport (\n\tx \"time\"\n)\n\n//go:generate go run github.com/csgura/fp/cmd/gombok\n\n// @fp.Value\ntype Alpha struct {\n\ttimeout x.Duration\n}\n",
	"test/internal/zzverif6/b.go": "package zzverif6\n\nimport (\n\ty \"net/netip\"\n\tx \"net/url\"\n)\n\n// @fp.Value\ntype Beta struct {\n\troutes map[y.Addr]x.URL\n\tpairs  map[x.Userinfo]y.Prefix\n}\n\n// @fp.Value\ntype Gamma struct {\n\tboth func(y.AddrPort, x.Values) (x.URL, y.Addr)\n}\n",
}
