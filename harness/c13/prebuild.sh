#!/bin/bash
# C13 prebuild: builds the three generators from the tree under test, plain and with the
# map-iteration-order instrumentation, into $1/gen and $1/gen-mo.
set -u
SCRATCH="$1"
HERE="$(cd "$(dirname "$0")" && pwd)"; VERIF="$(cd "$HERE/../.." && pwd)"
REPO="${VERIF_REPO:-/repo}"
export GOFLAGS=-mod=mod GOPROXY=off GOSUMDB=off GOTOOLCHAIN=local
mkdir -p "$SCRATCH/gen" "$SCRATCH/gen-mo"
if [ ! -x "$VERIF/bin/vinstr" ]; then (cd "$VERIF" && go build -o bin/vinstr ./instr) || exit 1; fi
cd "$REPO" || exit 1
for g in cmd/gombok internal/generator/template_gen internal/generator/monad_gen; do
  go build -o "$SCRATCH/gen/$(basename $g)" "./$g" || { echo "c13 prebuild: $g does not build" >&2; exit 1; }
done
"$VERIF/bin/vinstr" -repo "$REPO" -rt "$VERIF/rt" -out "$SCRATCH/mo" -maporder ./cmd/gombok,./internal/generator/template_gen,./internal/generator/monad_gen || exit 1
for g in cmd/gombok internal/generator/template_gen internal/generator/monad_gen; do
  go build -overlay "$SCRATCH/mo/overlay.json" -o "$SCRATCH/gen-mo/$(basename $g)" "./$g" || { echo "c13 prebuild: instrumented $g does not build" >&2; exit 1; }
done
exit 0
