// C20 — the iterator protocol (HasNext idempotent, Next after a true HasNext returns the next
// element, Next on an exhausted iterator panics and the iterator stays exhausted, the zero
// value is empty) for every iterator-returning function, under every call pattern; and
// Duplicate/Span/Partition under every interleaving of the two sides (sequentially and with
// two threads).
package main

import (
	"fmt"

	"github.com/csgura/fp"
	"verif/mc"
)

type env struct {
	x      *mc.X
	ticks  int
	budget int
	trip   bool
}

type tripped struct{}

func newEnv(x *mc.X) *env { return &env{x: x, budget: 5000} }

func (e *env) tick() {
	e.x.Tick()
	e.ticks++
	if e.ticks > e.budget {
		e.trip = true
		panic(tripped{})
	}
}

// src is the instrumented finite source: counts pulls, panics on Next when exhausted.
type src struct {
	e      *env
	data   []int
	pos    int
	pulls  int
	probes int
	point  func(string) // scheduling point placed inside HasNext/Next (concurrent scenarios)
}

func newSrc(e *env, data []int) *src { return &src{e: e, data: data} }

func (s *src) iter() fp.Iterator[int] {
	return fp.MakeIterator(func() bool {
		s.e.tick()
		s.probes++
		if s.point != nil {
			s.point("source.HasNext")
		}
		return s.pos < len(s.data)
	}, func() int {
		s.e.tick()
		if s.point != nil {
			s.point("source.Next")
		}
		if s.pos >= len(s.data) {
			panic("next on empty iterator (harness source)")
		}
		v := s.data[s.pos]
		s.pos++
		s.pulls++
		return v
	})
}

func allInputs(maxLen int) [][]int {
	out := [][]int{{}}
	prev := [][]int{{}}
	for l := 1; l <= maxLen; l++ {
		var cur [][]int
		for _, p := range prev {
			for v := 0; v < 3; v++ {
				cur = append(cur, append(append([]int(nil), p...), v))
			}
		}
		out = append(out, cur...)
		prev = cur
	}
	return out
}

func cp(a []int) []int { return append([]int(nil), a...) }

type pred struct {
	name string
	f    func(int) bool
}

var preds = []pred{
	{"<2", func(v int) bool { return v < 2 }},
	{"even", func(v int) bool { return v%2 == 0 }},
	{"true", func(v int) bool { return true }},
	{"false", func(v int) bool { return false }},
}

func (p pred) inst(e *env) func(int) bool { return func(v int) bool { e.tick(); return p.f(v) } }

func filter(in []int, p func(int) bool, keep bool) []int {
	out := []int{}
	for _, v := range in {
		if p(v) == keep {
			out = append(out, v)
		}
	}
	return out
}

func takeWhile(in []int, p func(int) bool) []int {
	out := []int{}
	for _, v := range in {
		if !p(v) {
			break
		}
		out = append(out, v)
	}
	return out
}

func dropWhile(in []int, p func(int) bool) []int {
	i := 0
	for i < len(in) && p(in[i]) {
		i++
	}
	return cp(in[i:])
}

func take(in []int, n int) []int {
	if n > len(in) {
		n = len(in)
	}
	return cp(in[:n])
}

func drop(in []int, n int) []int {
	if n > len(in) {
		n = len(in)
	}
	return cp(in[n:])
}

func mapInts(in []int, f func(int) int) []int {
	out := []int{}
	for _, v := range in {
		out = append(out, f(v))
	}
	return out
}

func reversed(a []int) []int {
	out := make([]int, len(a))
	for i, v := range a {
		out[len(a)-1-i] = v
	}
	return out
}

// catchBool / catchVal run one protocol call and return the recovered panic (nil if none).
func catchBool(f func() bool) (b bool, pv any) {
	pv = mc.Catch(func() { b = f() })
	return
}

func catchVal[T any](f func() T) (v T, pv any) {
	pv = mc.Catch(func() { v = f() })
	return
}

func sprint(v any) string { return fmt.Sprint(v) }
