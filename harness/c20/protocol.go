package main

import (
	"fmt"

	"github.com/csgura/fp"
	"verif/mc"
)

// spec describes one iterator instance whose protocol is exercised.
type spec[T comparable] struct {
	name  string                      // catalogue name (key prefix)
	label string                      // with parameters/input
	build func(e *env) fp.Iterator[T] // a fresh, deterministic instance
	want  []T                         // reference sequence (a multiset when unordered)
	// self: the reference sequence is what a canonical drain (for HasNext { Next }) of a second
	// fresh instance yields; used where the value semantics are not this property's subject
	// (the applicative plumbing), so that only call-pattern independence is demanded.
	self      bool
	unordered bool // source is a Go map / hash set: any order, each element once
	infinite  bool // never exhausted (Generate): want holds the first elements
	// bounded: instead of every H/N string, use the family "h1 HasNext calls before odd
	// elements, h2 before even ones (0..3 each; 0 = Next without HasNext), then HasNext HasNext
	// Next(blind) HasNext Next(blind)"
	// (large maps, where 2^(2n+4) strings are out of reach)
	bounded bool
}

type outcome struct {
	redundantH int
	blindN     int
	nexts      int
	unguarded  int // Next calls while elements remain that were not preceded by a HasNext
}

// maxUnguarded bounds the Next calls without a preceding HasNext per call string (set by the tier).
var maxUnguarded = 2

// fail helpers keep the keys short: <producer>/<kind>
func (s *spec[T]) fail(x *mc.X, kind, format string, args ...any) {
	x.Fail(s.name+"/"+kind, "%s: %s", s.label, fmt.Sprintf(format, args...))
}

// drive runs one call pattern (chosen step by step) against a fresh instance.
func drive[T comparable](x *mc.X, s spec[T]) {
	x.Tag(s.name)
	e := newEnv(x)
	want := s.want
	if s.self {
		// canonical drain of a first instance
		e0 := newEnv(x)
		var got []T
		pv := mc.Catch(func() {
			it := s.build(e0)
			for it.HasNext() {
				got = append(got, it.Next())
				if s.infinite && len(got) >= 4 {
					break
				}
			}
		})
		if pv != nil {
			kind := "canonical-drain-panic"
			if e0.trip {
				kind = "nonterm"
			}
			s.fail(x, kind, "for HasNext { Next } did not complete: %v", pv)
		}
		want = got
	}
	var it fp.Iterator[T]
	if pv := mc.Catch(func() { it = s.build(e) }); pv != nil {
		kind := "construct-panic"
		if e.trip {
			kind = "nonterm"
		}
		s.fail(x, kind, "construction panicked: %v", pv)
	}
	remaining := map[T]int{}
	if s.unordered {
		for _, v := range want {
			remaining[v]++
		}
	}
	pos := 0
	pending := false // a HasNext returned true since the last Next
	var oc outcome
	refHas := func() bool { return s.infinite || pos < len(want) }
	doH := func() {
		h, pv := catchBool(it.HasNext)
		x.Logf("HasNext -> %v (reference %v)", h, refHas())
		if pv != nil {
			if e.trip {
				s.fail(x, "nonterm", "HasNext after %d elements does not return", pos)
			}
			s.fail(x, "hasnext-panic", "HasNext after %d elements panicked: %v", pos, pv)
		}
		if h != refHas() {
			kind := "hasnext"
			if pending || (pos == len(want) && oc.blindN > 0) {
				kind = "hasnext-not-idempotent"
			}
			s.fail(x, kind, "HasNext after %d of %d elements = %v, reference %v (reference sequence %v)", pos, len(want), h, refHas(), want)
		}
		if pending || !h {
			oc.redundantH++
		}
		pending = h
	}
	doN := func() {
		if refHas() {
			sfx, how := "", "after a true HasNext"
			if !pending {
				oc.unguarded++
				sfx, how = "-unguarded", "without a preceding HasNext (elements remain)"
			}
			v, pv := catchVal(it.Next)
			x.Logf("Next -> %v", v)
			if pv != nil {
				if e.trip {
					s.fail(x, "nonterm", "Next #%d does not return", pos)
				}
				s.fail(x, "next-panic"+sfx, "Next #%d %s panicked: %v (reference sequence %v)", pos, how, pv, want)
			}
			if s.unordered {
				if remaining[v] == 0 {
					s.fail(x, "next-value"+sfx, "Next #%d returned %v which is not among the remaining elements (reference multiset %v)", pos, v, want)
				}
				remaining[v]--
			} else if !s.infinite || pos < len(want) {
				if v != want[pos] {
					s.fail(x, "next-value"+sfx, "Next #%d %s returned %v, reference %v (reference sequence %v)", pos, how, v, want[pos], want)
				}
			}
			pos++
			oc.nexts++
			pending = false
			return
		}
		// blind Next on an exhausted iterator: must panic (any value), must stay exhausted
		v, pv := catchVal(it.Next)
		x.Logf("Next on exhausted -> value %v panic %v", v, pv)
		if e.trip {
			s.fail(x, "nonterm", "Next on the exhausted iterator does not return")
		}
		if pv == nil {
			s.fail(x, "exhausted-next-returns", "Next on the exhausted iterator returned %v instead of panicking (reference sequence %v)", v, want)
		}
		oc.blindN++
	}
	if s.bounded {
		h1, h2 := x.Choose(4, "HasNext calls before odd elements (0..3)"), x.Choose(4, "HasNext calls before even elements (0..3)")
		for i := 0; i < len(want); i++ {
			n := h1
			if i%2 == 1 {
				n = h2
			}
			for j := 0; j < n; j++ {
				doH()
			}
			doN()
		}
		doH()
		doH()
		doN()
		doH()
		doN()
	} else if x.Choose(2, "family(0=every H/N string,1=each Next with or without HasNext)") == 1 {
		// every subset of the elements is taken with a Next that no HasNext precedes (Next;Next,
		// HasNext;Next;Next, ...), then the exhausted tail
		n := len(want)
		if s.infinite {
			n = 4
		}
		for i := 0; i < n; i++ {
			if x.Choose(2, "HasNext before this Next") == 1 {
				doH()
			}
			doN()
		}
		if !s.infinite {
			doH()
			doN()
			doH()
		}
	} else {
		steps := 2*len(want) + 4
		if s.infinite {
			steps = 7
		}
		for i := 0; i < steps; i++ {
			// Next is offered after a true HasNext, on the exhausted iterator (must panic), and - up to
			// maxUnguarded times per string - without a preceding HasNext while elements remain
			// (every iterator of the library guards its own next, so this is a legal use: Next;Next)
			op := 0
			if pending || !refHas() || oc.unguarded < maxUnguarded {
				op = x.Choose(2, "op(0=HasNext,1=Next)")
			}
			if op == 0 {
				doH()
			} else {
				doN()
			}
		}
	}
	x.ObserveInt(pos)
	x.ObserveInt(oc.blindN)
	x.ObserveInt(oc.redundantH)
	if !s.unordered {
		x.Observe(want)
	} else {
		x.ObserveInt(len(want))
	}
	// non-trivial: the pattern repeated a HasNext and consumed something, or hit the exhausted iterator
	x.ObserveInt(oc.unguarded)
	if (oc.redundantH > 0 && oc.nexts > 0) || oc.blindN > 0 || oc.unguarded > 0 {
		x.NonTrivial()
	}
	if oc.blindN > 0 {
		x.Tag("pattern:blind-Next-on-exhausted")
	}
	if oc.redundantH > 0 {
		x.Tag("pattern:repeated-HasNext")
	}
	if oc.unguarded > 0 {
		x.Tag("pattern:Next-without-HasNext")
	}
}
