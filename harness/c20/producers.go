package main

import (
	"errors"
	"fmt"
	"slices"

	"github.com/csgura/fp"
	"github.com/csgura/fp/as"
	"github.com/csgura/fp/hash"
	"github.com/csgura/fp/immutable"
	"github.com/csgura/fp/iterator"
	"github.com/csgura/fp/list"
	"github.com/csgura/fp/mutable"
	"github.com/csgura/fp/option"
	"github.com/csgura/fp/seq"
	"github.com/csgura/fp/try"
	"verif/mc"
)

type producer struct {
	name string
	run  func(x *mc.X, inputs [][]int)
}

var counts = []int{0, 1, 2, 5}

type T2 = fp.Tuple2[int, int]

func pickInput(x *mc.X, inputs [][]int) []int { return mc.Pick(x, "input", inputs) }
func pickPred(x *mc.X) pred                   { return preds[x.Choose(len(preds), "pred")] }
func pickN(x *mc.X) int                       { return counts[x.Choose(len(counts), "n")] }

// over: a producer that is a combinator over the instrumented source.
func over(name string, params func(x *mc.X) (label string, build func(e *env, in fp.Iterator[int]) fp.Iterator[int], ref func([]int) []int)) producer {
	return producer{name, func(x *mc.X, inputs [][]int) {
		label, build, ref := params(x)
		data := pickInput(x, inputs)
		drive(x, spec[int]{name: name, label: fmt.Sprintf("%s over %v", label, data), want: ref(data),
			build: func(e *env) fp.Iterator[int] { return build(e, newSrc(e, data).iter()) }})
	}}
}

// from: a producer built from a slice.
func from[T comparable](name string, build func(data []int) fp.Iterator[T], ref func(data []int) []T, unordered bool) producer {
	return producer{name, func(x *mc.X, inputs [][]int) {
		data := pickInput(x, inputs)
		drive(x, spec[T]{name: name, label: fmt.Sprintf("%s of %v", name, data), want: ref(data), unordered: unordered,
			build: func(e *env) fp.Iterator[T] { return build(cp(data)) }})
	}}
}

func ident(a []int) []int { return cp(a) }

func distinct(a []int) []int {
	seen := map[int]bool{}
	out := []int{}
	for _, v := range a {
		if !seen[v] {
			seen[v] = true
			out = append(out, v)
		}
	}
	return out
}

// the Go map index -> value of a slice
func goMap(a []int) map[int]int {
	m := map[int]int{}
	for i, v := range a {
		m[i] = v
	}
	return m
}

func goMapPairs(a []int) []T2 {
	out := []T2{}
	for i, v := range a {
		out = append(out, T2{I1: i, I2: v})
	}
	return out
}

func indices(a []int) []int {
	out := []int{}
	for i := range a {
		out = append(out, i)
	}
	return out
}

func goSet(a []int) map[int]bool {
	m := map[int]bool{}
	for _, v := range a {
		m[v] = true
	}
	return m
}

func fpMapOf(a []int) fp.Map[int, int] { // zero Map + Updated: UnsafeGoMap base
	var m fp.Map[int, int]
	for i, v := range a {
		m = m.Updated(i, v)
	}
	return m
}

func fpSetOf(a []int) fp.Set[int] { // zero Set + Incl: UnsafeGoSet base
	var s fp.Set[int]
	for _, v := range a {
		s = s.Incl(v)
	}
	return s
}

func lazyList(e *env, data []int) fp.List[int] {
	return list.Generate(func(i int) fp.Option[int] {
		e.tick()
		if i < len(data) {
			return fp.Some(data[i])
		}
		return fp.None[int]()
	})
}

var errBoom = errors.New("boom")

func splits(x *mc.X, data []int, parts int) [][]int {
	out := make([][]int, parts)
	start := 0
	for i := 0; i < parts-1; i++ {
		cut := start + x.Choose(len(data)-start+1, fmt.Sprintf("cut%d", i))
		out[i] = cp(data[start:cut])
		start = cut
	}
	out[parts-1] = cp(data[start:])
	return out
}

func curried2(f func(int, int) int) fp.Func1[int, fp.Func1[int, int]] {
	return func(a int) fp.Func1[int, int] { return func(b int) int { return f(a, b) } }
}

var producers = []producer{
	// ---- package fp: seq.go, iterator.go ----
	from("fp.IteratorOfSeq", func(d []int) fp.Iterator[int] { return fp.IteratorOfSeq(d) }, ident, false),
	{"fp.IteratorOfOption", func(x *mc.X, _ [][]int) {
		v := x.Choose(3, "option(0=None)")
		o, want := fp.None[int](), []int{}
		if v > 0 {
			o, want = fp.Some(v), []int{v}
		}
		drive(x, spec[int]{name: "fp.IteratorOfOption", label: fmt.Sprintf("IteratorOfOption(%v)", o), want: want, build: func(e *env) fp.Iterator[int] { return fp.IteratorOfOption(o) }})
	}},
	over("Iterator.Take", func(x *mc.X) (string, func(*env, fp.Iterator[int]) fp.Iterator[int], func([]int) []int) {
		n := pickN(x)
		return fmt.Sprintf("Take(%d)", n), func(e *env, in fp.Iterator[int]) fp.Iterator[int] { return in.Take(n) }, func(d []int) []int { return take(d, n) }
	}),
	over("Iterator.Drop", func(x *mc.X) (string, func(*env, fp.Iterator[int]) fp.Iterator[int], func([]int) []int) {
		n := pickN(x)
		return fmt.Sprintf("Drop(%d)", n), func(e *env, in fp.Iterator[int]) fp.Iterator[int] { return in.Drop(n) }, func(d []int) []int { return drop(d, n) }
	}),
	over("Iterator.TakeWhile", func(x *mc.X) (string, func(*env, fp.Iterator[int]) fp.Iterator[int], func([]int) []int) {
		p := pickPred(x)
		return "TakeWhile(" + p.name + ")", func(e *env, in fp.Iterator[int]) fp.Iterator[int] { return in.TakeWhile(p.inst(e)) }, func(d []int) []int { return takeWhile(d, p.f) }
	}),
	over("Iterator.DropWhile", func(x *mc.X) (string, func(*env, fp.Iterator[int]) fp.Iterator[int], func([]int) []int) {
		p := pickPred(x)
		return "DropWhile(" + p.name + ")", func(e *env, in fp.Iterator[int]) fp.Iterator[int] { return in.DropWhile(p.inst(e)) }, func(d []int) []int { return dropWhile(d, p.f) }
	}),
	over("Iterator.Filter", func(x *mc.X) (string, func(*env, fp.Iterator[int]) fp.Iterator[int], func([]int) []int) {
		p := pickPred(x)
		return "Filter(" + p.name + ")", func(e *env, in fp.Iterator[int]) fp.Iterator[int] { return in.Filter(p.inst(e)) }, func(d []int) []int { return filter(d, p.f, true) }
	}),
	over("Iterator.FilterNot", func(x *mc.X) (string, func(*env, fp.Iterator[int]) fp.Iterator[int], func([]int) []int) {
		p := pickPred(x)
		return "FilterNot(" + p.name + ")", func(e *env, in fp.Iterator[int]) fp.Iterator[int] { return in.FilterNot(p.inst(e)) }, func(d []int) []int { return filter(d, p.f, false) }
	}),
	over("Iterator.TapEach", func(x *mc.X) (string, func(*env, fp.Iterator[int]) fp.Iterator[int], func([]int) []int) {
		return "TapEach", func(e *env, in fp.Iterator[int]) fp.Iterator[int] { return in.TapEach(func(int) { e.tick() }) }, ident
	}),
	over("Iterator.Appended", func(x *mc.X) (string, func(*env, fp.Iterator[int]) fp.Iterator[int], func([]int) []int) {
		return "Appended(9)", func(e *env, in fp.Iterator[int]) fp.Iterator[int] { return in.Appended(9) }, func(d []int) []int { return append(cp(d), 9) }
	}),
	over("Iterator.Map", func(x *mc.X) (string, func(*env, fp.Iterator[int]) fp.Iterator[int], func([]int) []int) {
		f := func(v int) int { return v + 10 }
		return "Map(+10)", func(e *env, in fp.Iterator[int]) fp.Iterator[int] {
			return in.Map(func(v int) int { e.tick(); return f(v) })
		}, func(d []int) []int { return mapInts(d, f) }
	}),
	{"Iterator.Concat", func(x *mc.X, inputs [][]int) {
		shape := x.Choose(4, "shape")
		data := pickInput(x, inputs)
		var parts [][]int
		if shape == 0 {
			parts = splits(x, data, 2)
		} else {
			parts = splits(x, data, 3)
		}
		label := []string{"a.Concat(b)", "a.Concat(b).Concat(c)", "a.Concat(b.Concat(c))", "a.Concat(b).Concat(c.Concat(zero))"}[shape]
		drive(x, spec[int]{name: "Iterator.Concat", label: fmt.Sprintf("%s with parts %v", label, parts), want: cp(data), build: func(e *env) fp.Iterator[int] {
			its := make([]fp.Iterator[int], len(parts))
			for i, p := range parts {
				its[i] = newSrc(e, p).iter()
			}
			switch shape {
			case 0:
				return its[0].Concat(its[1])
			case 1:
				return its[0].Concat(its[1]).Concat(its[2])
			case 2:
				return its[0].Concat(its[1].Concat(its[2]))
			}
			var zero fp.Iterator[int]
			return its[0].Concat(its[1]).Concat(its[2].Concat(zero))
		}})
	}},
	{"Iterator.FlatMap", func(x *mc.X, inputs [][]int) { flatMapProducer(x, inputs, "Iterator.FlatMap", false) }},
	from("fp.MakePullIterator", func(d []int) fp.Iterator[int] { return fp.MakePullIterator(slices.Values(d)) }, ident, false),

	// ---- package fp: map.go, set.go ----
	{"fp.Map(zero).Iterator", func(x *mc.X, _ [][]int) {
		which := x.Choose(3, "Iterator/Keys/Values")
		var m fp.Map[int, int]
		switch which {
		case 0:
			drive(x, spec[T2]{name: "fp.Map(zero).Iterator", label: "zero Map.Iterator()", want: []T2{}, build: func(e *env) fp.Iterator[T2] { return m.Iterator() }})
		case 1:
			drive(x, spec[int]{name: "fp.Map(zero).Iterator", label: "zero Map.Keys()", want: []int{}, build: func(e *env) fp.Iterator[int] { return m.Keys() }})
		default:
			drive(x, spec[int]{name: "fp.Map(zero).Iterator", label: "zero Map.Values()", want: []int{}, build: func(e *env) fp.Iterator[int] { return m.Values() }})
		}
	}},
	from("fp.Map(UnsafeGoMap).Iterator", func(d []int) fp.Iterator[T2] { return fpMapOf(d).Iterator() }, goMapPairs, true),
	from("fp.Map(UnsafeGoMap).Keys", func(d []int) fp.Iterator[int] { return fpMapOf(d).Keys() }, indices, true),
	from("fp.Map(UnsafeGoMap).Values", func(d []int) fp.Iterator[int] { return fpMapOf(d).Values() }, ident, true),
	from("fp.UnsafeGoMap.Iterator", func(d []int) fp.Iterator[T2] {
		m := fp.UnsafeGoMap[int, int]{}
		for i, v := range d {
			m[i] = v
		}
		return m.Iterator()
	}, goMapPairs, true),
	from("fp.IteratorOfGoMap", func(d []int) fp.Iterator[T2] { return fp.IteratorOfGoMap(goMap(d)) }, goMapPairs, true),
	{"fp.Set(zero).Iterator", func(x *mc.X, _ [][]int) {
		var s fp.Set[int]
		drive(x, spec[int]{name: "fp.Set(zero).Iterator", label: "zero Set.Iterator()", want: []int{}, build: func(e *env) fp.Iterator[int] { return s.Iterator() }})
	}},
	from("fp.Set(UnsafeGoSet).Iterator", func(d []int) fp.Iterator[int] { return fpSetOf(d).Iterator() }, distinct, true),
	from("fp.UnsafeGoSet.Iterator", func(d []int) fp.Iterator[int] {
		s := fp.UnsafeGoSet[int]{}
		for _, v := range d {
			s[v] = true
		}
		return s.Iterator()
	}, distinct, true),
	from("fp.IteratorOfGoSet", func(d []int) fp.Iterator[int] { return fp.IteratorOfGoSet(goSet(d)) }, distinct, true),

	// ---- package iterator ----
	from("iterator.Pull", func(d []int) fp.Iterator[int] { return iterator.Pull(slices.Values(d)) }, ident, false),
	{"iterator.Empty", func(x *mc.X, _ [][]int) {
		drive(x, spec[int]{name: "iterator.Empty", label: "Empty()", want: []int{}, build: func(e *env) fp.Iterator[int] { return iterator.Empty[int]() }})
	}},
	{"iterator.FromList", func(x *mc.X, inputs [][]int) {
		kind := x.Choose(4, "list kind")
		data := pickInput(x, inputs)
		label := []string{"FromList(list.Of)", "List(list.Generate)", "FromList(cons cells)", "FromList(zero ListAdaptor)"}[kind]
		want := cp(data)
		if kind == 3 {
			want = []int{}
		}
		drive(x, spec[int]{name: "iterator.FromList", label: fmt.Sprintf("%s %v", label, data), want: want, build: func(e *env) fp.Iterator[int] {
			switch kind {
			case 0:
				return iterator.FromList(list.Of(data...))
			case 1:
				return iterator.List(lazyList(e, data))
			case 2:
				l := list.Empty[int]()
				for i := len(data) - 1; i >= 0; i-- {
					l = list.Concat(data[i], l)
				}
				return iterator.FromList(l)
			}
			return iterator.FromList[int](fp.ListAdaptor[int]{})
		}})
	}},
	{"iterator.FromOption", func(x *mc.X, _ [][]int) {
		v := x.Choose(3, "option(0=None)")
		o, want := fp.None[int](), []int{}
		if v > 0 {
			o, want = fp.Some(v), []int{v}
		}
		drive(x, spec[int]{name: "iterator.FromOption", label: fmt.Sprintf("FromOption(%v)", o), want: want, build: func(e *env) fp.Iterator[int] { return iterator.FromOption(o) }})
	}},
	from("iterator.Of", func(d []int) fp.Iterator[int] { return iterator.Of(d...) }, ident, false),
	from("iterator.FromSeq", func(d []int) fp.Iterator[int] { return iterator.FromSeq(d) }, ident, false),
	from("iterator.FromSlice", func(d []int) fp.Iterator[int] { return iterator.FromSlice(d) }, ident, false),
	from("iterator.ReverseSeq", func(d []int) fp.Iterator[int] { return iterator.ReverseSeq(d) }, reversed, false),
	from("iterator.ReverseSlice", func(d []int) fp.Iterator[int] { return iterator.ReverseSlice(d) }, reversed, false),
	{"iterator.FromPtr", func(x *mc.X, _ [][]int) {
		v := x.Choose(3, "ptr(0=nil)")
		var p *int
		want := []int{}
		if v > 0 {
			p, want = &v, []int{v}
		}
		drive(x, spec[int]{name: "iterator.FromPtr", label: fmt.Sprintf("FromPtr(%v)", want), want: want, build: func(e *env) fp.Iterator[int] { return iterator.FromPtr(p) }})
	}},
	from("iterator.FromMap", func(d []int) fp.Iterator[T2] { return iterator.FromMap(goMap(d)) }, goMapPairs, true),
	from("iterator.FromMapKey", func(d []int) fp.Iterator[int] { return iterator.FromMapKey(goMap(d)) }, indices, true),
	from("iterator.FromMapValue", func(d []int) fp.Iterator[int] { return iterator.FromMapValue(goMap(d)) }, ident, true),
	over("iterator.Map", func(x *mc.X) (string, func(*env, fp.Iterator[int]) fp.Iterator[int], func([]int) []int) {
		f := func(v int) int { return v + 10 }
		return "iterator.Map(+10)", func(e *env, in fp.Iterator[int]) fp.Iterator[int] {
			return iterator.Map(in, func(v int) int { e.tick(); return f(v) })
		}, func(d []int) []int { return mapInts(d, f) }
	}),
	over("iterator.Lift", func(x *mc.X) (string, func(*env, fp.Iterator[int]) fp.Iterator[int], func([]int) []int) {
		f := func(v int) int { return v + 10 }
		return "iterator.Lift(+10)", func(e *env, in fp.Iterator[int]) fp.Iterator[int] { return iterator.Lift(f)(in) }, func(d []int) []int { return mapInts(d, f) }
	}),
	over("iterator.FilterMap", func(x *mc.X) (string, func(*env, fp.Iterator[int]) fp.Iterator[int], func([]int) []int) {
		p := pickPred(x)
		return "iterator.FilterMap(" + p.name + "?Some(v+10))", func(e *env, in fp.Iterator[int]) fp.Iterator[int] {
				return iterator.FilterMap(in, func(v int) fp.Option[int] {
					e.tick()
					if p.f(v) {
						return fp.Some(v + 10)
					}
					return fp.None[int]()
				})
			}, func(d []int) []int {
				return mapInts(filter(d, p.f, true), func(v int) int { return v + 10 })
			}
	}),
	{"iterator.FlatMap", func(x *mc.X, inputs [][]int) { flatMapProducer(x, inputs, "iterator.FlatMap", true) }},
	{"iterator.Flatten", func(x *mc.X, inputs [][]int) {
		data := pickInput(x, inputs)
		parts := splits(x, data, 3)
		drive(x, spec[int]{name: "iterator.Flatten", label: fmt.Sprintf("Flatten(%v)", parts), want: cp(data), build: func(e *env) fp.Iterator[int] {
			its := []fp.Iterator[int]{}
			for _, p := range parts {
				its = append(its, newSrc(e, p).iter())
			}
			return iterator.Flatten(fp.IteratorOfSeq(its))
		}})
	}},
	over("iterator.Concat", func(x *mc.X) (string, func(*env, fp.Iterator[int]) fp.Iterator[int], func([]int) []int) {
		return "iterator.Concat(9,src)", func(e *env, in fp.Iterator[int]) fp.Iterator[int] { return iterator.Concat(9, in) }, func(d []int) []int { return append([]int{9}, d...) }
	}),
	{"iterator.Compose", func(x *mc.X, _ [][]int) {
		a := x.Choose(3, "arg")
		f1 := func(v int) fp.Iterator[int] { return iterator.Range(0, v) }
		f2 := func(v int) fp.Iterator[int] { return iterator.Of(v, v+10) }
		want := []int{}
		for i := 0; i < a; i++ {
			want = append(want, i, i+10)
		}
		drive(x, spec[int]{name: "iterator.Compose", label: fmt.Sprintf("Compose(Range(0,_), Of(_,_+10))(%d)", a), want: want, build: func(e *env) fp.Iterator[int] { return iterator.Compose(f1, f2)(a) }})
	}},
	{"iterator.ComposePure", func(x *mc.X, _ [][]int) {
		drive(x, spec[int]{name: "iterator.ComposePure", label: "ComposePure(+1)(4)", want: []int{5}, build: func(e *env) fp.Iterator[int] {
			return iterator.ComposePure(func(v int) int { return v + 1 })(4)
		}})
	}},
	{"iterator.Zip", func(x *mc.X, inputs [][]int) {
		a, b := pickInput(x, inputs), mc.Pick(x, "other", [][]int{{}, {7}, {7, 8, 9, 7, 8}})
		want := []T2{}
		for i := 0; i < len(a) && i < len(b); i++ {
			want = append(want, T2{I1: a[i], I2: b[i]})
		}
		drive(x, spec[T2]{name: "iterator.Zip", label: fmt.Sprintf("Zip(%v,%v)", a, b), want: want, build: func(e *env) fp.Iterator[T2] {
			return iterator.Zip(newSrc(e, a).iter(), newSrc(e, b).iter())
		}})
	}},
	{"iterator.Zip(other,src)", func(x *mc.X, inputs [][]int) {
		a, b := pickInput(x, inputs), mc.Pick(x, "other", [][]int{{}, {7}, {7, 8, 9, 7, 8}})
		want := []T2{}
		for i := 0; i < len(a) && i < len(b); i++ {
			want = append(want, T2{I1: b[i], I2: a[i]})
		}
		drive(x, spec[T2]{name: "iterator.Zip(other,src)", label: fmt.Sprintf("Zip(%v,%v)", b, a), want: want, build: func(e *env) fp.Iterator[T2] {
			return iterator.Zip(newSrc(e, b).iter(), newSrc(e, a).iter())
		}})
	}},
	{"iterator.Zip3", func(x *mc.X, inputs [][]int) {
		a, b, c := pickInput(x, inputs), mc.Pick(x, "b", [][]int{{}, {7}, {7, 8, 9, 7, 8}}), mc.Pick(x, "c", [][]int{{4}, {4, 5, 6, 4, 5}})
		want := []fp.Tuple3[int, int, int]{}
		for i := 0; i < len(a) && i < len(b) && i < len(c); i++ {
			want = append(want, fp.Tuple3[int, int, int]{I1: b[i], I2: a[i], I3: c[i]})
		}
		drive(x, spec[fp.Tuple3[int, int, int]]{name: "iterator.Zip3", label: fmt.Sprintf("Zip3(%v,%v,%v)", b, a, c), want: want, build: func(e *env) fp.Iterator[fp.Tuple3[int, int, int]] {
			return iterator.Zip3(newSrc(e, b).iter(), newSrc(e, a).iter(), newSrc(e, c).iter())
		}})
	}},
	from("iterator.ZipWithIndex", func(d []int) fp.Iterator[T2] { return iterator.ZipWithIndex(fp.IteratorOfSeq(d)) }, goMapPairs, false),
	over("iterator.Scan", func(x *mc.X) (string, func(*env, fp.Iterator[int]) fp.Iterator[int], func([]int) []int) {
		return "iterator.Scan(1,+)", func(e *env, in fp.Iterator[int]) fp.Iterator[int] {
				return iterator.Scan(in, 1, func(a, v int) int { e.tick(); return a + v })
			}, func(d []int) []int {
				out, acc := []int{1}, 1
				for _, v := range d {
					acc += v
					out = append(out, acc)
				}
				return out
			}
	}),
	{"iterator.Generate", func(x *mc.X, _ [][]int) {
		drive(x, spec[int]{name: "iterator.Generate", label: "Generate(0,1,4,9,...)", want: []int{0, 1, 4, 9, 16, 25, 36, 49}, infinite: true, build: func(e *env) fp.Iterator[int] {
			i := 0
			return iterator.Generate(func() int { e.tick(); v := i * i; i++; return v })
		}})
	}},
	{"iterator.Range", func(x *mc.X, _ [][]int) {
		from, to := x.Choose(4, "from")-1, x.Choose(5, "to")-1
		want := []int{}
		for i := from; i < to; i++ {
			want = append(want, i)
		}
		drive(x, spec[int]{name: "iterator.Range", label: fmt.Sprintf("Range(%d,%d)", from, to), want: want, build: func(e *env) fp.Iterator[int] { return iterator.Range(from, to) }})
	}},
	{"iterator.RangeClosed", func(x *mc.X, _ [][]int) {
		from, to := x.Choose(4, "from")-1, x.Choose(5, "to")-2
		want := []int{}
		for i := from; i <= to; i++ {
			want = append(want, i)
		}
		drive(x, spec[int]{name: "iterator.RangeClosed", label: fmt.Sprintf("RangeClosed(%d,%d)", from, to), want: want, build: func(e *env) fp.Iterator[int] { return iterator.RangeClosed(from, to) }})
	}},
	// one side alone (the other side is never touched)
	oneSide("iterator.Duplicate.left", 0, true), oneSide("iterator.Duplicate.right", 0, false),
	oneSide("iterator.Span.left", 1, true), oneSide("iterator.Span.right", 1, false),
	oneSide("iterator.Partition.left", 2, true), oneSide("iterator.Partition.right", 2, false),
	// applicative plumbing: only call-pattern independence is demanded (self reference)
	{"iterator.Ap", func(x *mc.X, inputs [][]int) {
		nf := x.Choose(3, "functions")
		data := pickInput(x, inputs)
		drive(x, spec[int]{name: "iterator.Ap", label: fmt.Sprintf("Ap(%d functions, %v)", nf, data), self: true, build: func(e *env) fp.Iterator[int] {
			fs := []fp.Func1[int, int]{}
			for i := 0; i < nf; i++ {
				k := 10 * (i + 1)
				fs = append(fs, func(v int) int { e.tick(); return v + k })
			}
			return iterator.Ap(fp.IteratorOfSeq(fs), newSrc(e, data).iter())
		}})
	}},
	{"iterator.Map2", func(x *mc.X, inputs [][]int) {
		a := pickInput(x, inputs)
		b := mc.Pick(x, "b", [][]int{{}, {7}, {7, 8}})
		drive(x, spec[int]{name: "iterator.Map2", label: fmt.Sprintf("Map2(%v,%v,a*10+b)", a, b), self: true, build: func(e *env) fp.Iterator[int] {
			return iterator.Map2(newSrc(e, a).iter(), newSrc(e, b).iter(), func(p, q int) int { e.tick(); return p*10 + q })
		}})
	}},
	{"iterator.Flap", func(x *mc.X, _ [][]int) {
		nf := x.Choose(3, "functions")
		which := x.Choose(3, "Flap/Flap2/Flap3")
		name := []string{"iterator.Flap", "iterator.Flap2", "iterator.Flap3"}[which]
		drive(x, spec[int]{name: "iterator.Flap", label: fmt.Sprintf("%s over %d functions", name, nf), self: true, build: func(e *env) fp.Iterator[int] {
			switch which {
			case 0:
				fs := []fp.Func1[int, int]{}
				for i := 0; i < nf; i++ {
					k := 10 * (i + 1)
					fs = append(fs, func(v int) int { return v + k })
				}
				return iterator.Flap(fp.IteratorOfSeq(fs))(1)
			case 1:
				fs := []fp.Func1[int, fp.Func1[int, int]]{}
				for i := 0; i < nf; i++ {
					k := 10 * (i + 1)
					fs = append(fs, curried2(func(a, b int) int { return a + b + k }))
				}
				return iterator.Flap2(fp.IteratorOfSeq(fs))(1)(2)
			}
			fs := []fp.Func1[int, fp.Func1[int, fp.Func1[int, int]]]{}
			for i := 0; i < nf; i++ {
				k := 10 * (i + 1)
				fs = append(fs, func(a int) fp.Func1[int, fp.Func1[int, int]] {
					return curried2(func(b, c int) int { return a + b + c + k })
				})
			}
			return iterator.Flap3(fp.IteratorOfSeq(fs))(1)(2)(3)
		}})
	}},
	{"iterator.FlapMap/Method", func(x *mc.X, inputs [][]int) {
		which := x.Choose(5, "FlapMap/Method1/Method2/Method3/Method4")
		data := pickInput(x, inputs)
		name := []string{"FlapMap", "Method1", "Method2", "Method3", "Method4"}[which]
		drive(x, spec[int]{name: "iterator.FlapMap/Method", label: fmt.Sprintf("iterator.%s over %v", name, data), self: true, build: func(e *env) fp.Iterator[int] {
			in := newSrc(e, data).iter()
			switch which {
			case 0:
				return iterator.FlapMap(func(a, b int) int { return a*10 + b }, in)(7)
			case 1:
				return iterator.Method1(in, func(a, b int) int { return a*10 + b })(7)
			case 2:
				return iterator.Method2(in, func(a, b, c int) int { return a*100 + b*10 + c })(7, 8)
			case 3:
				return iterator.Method3(in, func(a, b, c int) int { return a*100 + b*10 + c })(7, 8)
			}
			return iterator.Method4(in, func(a, b, c, d int) int { return a*1000 + b*100 + c*10 + d })(7, 8, 9)
		}})
	}},

	// ---- seq, option, try ----
	from("seq.Iterator", func(d []int) fp.Iterator[int] { return seq.Iterator(fp.Seq[int](d)) }, ident, false),
	{"option.Iterator", func(x *mc.X, _ [][]int) {
		v := x.Choose(3, "option(0=None)")
		o, want := fp.None[int](), []int{}
		if v > 0 {
			o, want = fp.Some(v), []int{v}
		}
		drive(x, spec[int]{name: "option.Iterator", label: fmt.Sprintf("option.Iterator(%v)", o), want: want, build: func(e *env) fp.Iterator[int] { return option.Iterator(o) }})
	}},
	{"option.Traverse", func(x *mc.X, inputs [][]int) {
		which := x.Choose(3, "Traverse/TraverseFunc/SequenceIterator")
		data := pickInput(x, inputs)
		f := func(v int) fp.Option[int] { return fp.Some(v + 10) }
		name := []string{"option.Traverse", "option.TraverseFunc", "option.SequenceIterator"}[which]
		drive(x, spec[int]{name: "option.Traverse", label: fmt.Sprintf("%s over %v", name, data), want: mapInts(data, func(v int) int { return v + 10 }), build: func(e *env) fp.Iterator[int] {
			in := newSrc(e, data).iter()
			switch which {
			case 0:
				return option.Traverse(in, f).Get()
			case 1:
				return option.TraverseFunc(f)(in).Get()
			}
			return option.SequenceIterator(iterator.Map(in, f)).Get()
		}})
	}},
	{"try.Iterator", func(x *mc.X, _ [][]int) {
		v := x.Choose(3, "try(0=Failure)")
		t, want := fp.Failure[int](errBoom), []int{}
		if v > 0 {
			t, want = fp.Success(v), []int{v}
		}
		drive(x, spec[int]{name: "try.Iterator", label: fmt.Sprintf("try.Iterator(%v)", t), want: want, build: func(e *env) fp.Iterator[int] { return try.Iterator(t) }})
	}},
	{"try.Traverse", func(x *mc.X, inputs [][]int) {
		which := x.Choose(3, "Traverse/TraverseFunc/SequenceIterator")
		data := pickInput(x, inputs)
		f := func(v int) fp.Try[int] { return fp.Success(v + 10) }
		name := []string{"try.Traverse", "try.TraverseFunc", "try.SequenceIterator"}[which]
		drive(x, spec[int]{name: "try.Traverse", label: fmt.Sprintf("%s over %v", name, data), want: mapInts(data, func(v int) int { return v + 10 }), build: func(e *env) fp.Iterator[int] {
			in := newSrc(e, data).iter()
			switch which {
			case 0:
				return try.Traverse(in, f).Get()
			case 1:
				return try.TraverseFunc(f)(in).Get()
			}
			return try.SequenceIterator(iterator.Map(in, f)).Get()
		}})
	}},

	// ---- immutable, mutable (small; the large node kinds are in hamtProducers) ----
	from("immutable.Map.Iterator", func(d []int) fp.Iterator[T2] { return immutable.Map(hash.Number[int](), goMapPairs(d)...).Iterator() }, goMapPairs, true),
	from("immutable.Map.Keys", func(d []int) fp.Iterator[int] { return immutable.Map(hash.Number[int](), goMapPairs(d)...).Keys() }, indices, true),
	from("immutable.Map.Values", func(d []int) fp.Iterator[int] { return immutable.Map(hash.Number[int](), goMapPairs(d)...).Values() }, ident, true),
	from("immutable.Set.Iterator", func(d []int) fp.Iterator[int] { return immutable.Set(hash.Number[int](), d...).Iterator() }, distinct, true),
	from("immutable.MapBuilder.Build.Iterator", func(d []int) fp.Iterator[T2] {
		b := immutable.MapBuilder[int, int](hash.Number[int]())
		for i, v := range d {
			b = b.Add(i, v)
		}
		return b.Build().Iterator()
	}, goMapPairs, true),
	from("immutable.SetBuilder.Build.Iterator", func(d []int) fp.Iterator[int] {
		b := immutable.SetBuilder(hash.Number[int]())
		for _, v := range d {
			b = b.Add(v)
		}
		return b.Build().Iterator()
	}, distinct, true),
	from("mutable.MapOf.Iterator", func(d []int) fp.Iterator[T2] { return mutable.MapOf(goMap(d)).Iterator() }, goMapPairs, true),
	from("mutable.MapOf.Keys", func(d []int) fp.Iterator[int] { return mutable.MapOf(goMap(d)).Keys() }, indices, true),
	from("mutable.MapOf.Values", func(d []int) fp.Iterator[int] { return mutable.MapOf(goMap(d)).Values() }, ident, true),
	from("mutable.Map.Iterator", func(d []int) fp.Iterator[T2] { return mutable.Map[int, int](goMap(d)).Iterator() }, goMapPairs, true),
	from("mutable.EmptyMap.Iterator", func(d []int) fp.Iterator[T2] { return mutable.EmptyMap[int, int]().Iterator() }, func([]int) []T2 { return []T2{} }, true),
	from("mutable.Set.Iterator", func(d []int) fp.Iterator[int] { return mutable.Set[int](goSet(d)).Iterator() }, distinct, true),
	from("mutable.SetOf.Iterator", func(d []int) fp.Iterator[int] { return mutable.SetOf(d...).Iterator() }, distinct, true),
	from("mutable.CopyOnWriteMap.Iterator", func(d []int) fp.Iterator[T2] {
		m := &mutable.CopyOnWriteMap[int, int]{}
		for i, v := range d {
			m.Updated(i, v)
		}
		return m.Iterator()
	}, goMapPairs, true),
}

func oneSide(name string, which int, left bool) producer {
	return producer{name, func(x *mc.X, inputs [][]int) {
		p := preds[0]
		if which > 0 {
			p = pickPred(x)
		}
		data := pickInput(x, inputs)
		var want []int
		switch {
		case which == 0:
			want = cp(data)
		case which == 1 && left:
			want = takeWhile(data, p.f)
		case which == 1:
			want = dropWhile(data, p.f)
		default:
			want = filter(data, p.f, left)
		}
		drive(x, spec[int]{name: name, label: fmt.Sprintf("%s(%s) over %v", name, p.name, data), want: want, build: func(e *env) fp.Iterator[int] {
			in := newSrc(e, data).iter()
			var l, r fp.Iterator[int]
			switch which {
			case 0:
				l, r = iterator.Duplicate(in)
			case 1:
				l, r = iterator.Span(in, p.inst(e))
			default:
				l, r = iterator.Partition(in, p.inst(e))
			}
			if left {
				return l
			}
			return r
		}})
	}}
}

// flatMapProducer: sub-iterators of every flavour, including the zero value and iterator.Empty.
func flatMapProducer(x *mc.X, inputs [][]int, name string, pkg bool) {
	g := x.Choose(5, "sub-iterators")
	data := pickInput(x, inputs)
	sub := func(v int) []int {
		switch g {
		case 0:
			if v == 0 {
				return nil
			}
			return []int{v, v + 10}
		case 1:
			return []int{v}
		case 2:
			return nil
		}
		if g == 4 { // inner lengths 0, 1, 2 by element: every kind of boundary inside the output
			switch v {
			case 1:
				return []int{v}
			case 2:
				return []int{v, v + 10}
			}
			return nil
		}
		if v == 1 {
			return []int{v, v, v}
		}
		return nil
	}
	want := []int{}
	for _, v := range data {
		want = append(want, sub(v)...)
	}
	label := []string{"v==0?zero:[v,v+10]", "[v]", "Empty", "v==1?[v,v,v]:zero", "0:zero 1:[v] 2:[v,v+10]"}[g]
	drive(x, spec[int]{name: name, label: fmt.Sprintf("%s(%s) over %v", name, label, data), want: want, build: func(e *env) fp.Iterator[int] {
		f := func(v int) fp.Iterator[int] {
			e.tick()
			s := sub(v)
			if s == nil {
				if g == 2 {
					return iterator.Empty[int]()
				}
				var zero fp.Iterator[int]
				return zero
			}
			return newSrc(e, s).iter()
		}
		if pkg {
			return iterator.FlatMap(newSrc(e, data).iter(), f)
		}
		return newSrc(e, data).iter().FlatMap(f)
	}})
}

// ---- large hash tries: every node kind of immutable.Map's iterator ------------------------------

type hasherSpec struct {
	name string
	h    func(int) uint32
}

var hashers = []hasherSpec{
	{"hash.Number", nil},
	{"constant(all keys collide)", func(int) uint32 { return 7 }},
	{"k%3 (collision nodes below a branch)", func(k int) uint32 { return uint32(k % 3) }},
	{"k<<5 (second level)", func(k int) uint32 { return uint32(k) << 5 }},
	{"k%2 | k<<10", func(k int) uint32 { return uint32(k%2) | uint32(k)<<10 }},
}

func (h hasherSpec) hashable() fp.Hashable[int] {
	if h.h == nil {
		return hash.Number[int]()
	}
	return hash.New[int](fp.EqGiven[int](), h.h)
}

var hamtSizes = []int{0, 1, 2, 3, 8, 9, 16, 17, 33, 40}

func hamtProducers() []producer {
	var out []producer
	for _, hs := range hashers {
		hs := hs
		out = append(out, producer{"immutable.Map.Iterator[" + hs.name + "]", func(x *mc.X, _ [][]int) {
			n := mc.Pick(x, "size", hamtSizes)
			shape := x.Choose(4, "Map/Set/after-removals/Keys")
			pairs := []T2{}
			keys := []int{}
			for i := 0; i < n; i++ {
				pairs = append(pairs, as.Tuple2(i*3+1, i))
				keys = append(keys, i*3+1)
			}
			name := "immutable.Map.Iterator[" + hs.name + "]"
			bounded := n > 3
			switch shape {
			case 0:
				drive(x, spec[T2]{name: name, label: fmt.Sprintf("immutable.Map of %d keys, hasher %s", n, hs.name), want: pairs, unordered: true, bounded: bounded,
					build: func(e *env) fp.Iterator[T2] { return immutable.Map(hs.hashable(), pairs...).Iterator() }})
			case 1:
				drive(x, spec[int]{name: name, label: fmt.Sprintf("immutable.Set of %d keys, hasher %s", n, hs.name), want: keys, unordered: true, bounded: bounded,
					build: func(e *env) fp.Iterator[int] { return immutable.Set(hs.hashable(), keys...).Iterator() }})
			case 2:
				// built larger, then every other key removed (exercises shrunken nodes)
				kept := []T2{}
				for i, p := range pairs {
					if i%2 == 0 {
						kept = append(kept, p)
					}
				}
				drive(x, spec[T2]{name: name, label: fmt.Sprintf("immutable.Map of %d keys after removing every other key, hasher %s", n, hs.name), want: kept, unordered: true, bounded: len(kept) > 3,
					build: func(e *env) fp.Iterator[T2] {
						m := immutable.Map(hs.hashable(), pairs...)
						for i, p := range pairs {
							if i%2 == 1 {
								m = m.Removed(p.I1)
							}
						}
						return m.Iterator()
					}})
			default:
				drive(x, spec[int]{name: name, label: fmt.Sprintf("immutable.Map.Keys of %d keys, hasher %s", n, hs.name), want: keys, unordered: true, bounded: bounded,
					build: func(e *env) fp.Iterator[int] { return immutable.Map(hs.hashable(), pairs...).Keys() }})
			}
		}})
	}
	return out
}
