package main

import (
	"fmt"

	"github.com/csgura/fp"
	"github.com/csgura/fp/iterator"
	"verif/mc"
)

var twoNames = []string{"iterator.Duplicate", "iterator.Span", "iterator.Partition"}

func twoRefs(which int, p pred, data []int) (wl, wr []int) {
	switch which {
	case 0:
		return cp(data), cp(data)
	case 1:
		return takeWhile(data, p.f), dropWhile(data, p.f)
	}
	return filter(data, p.f, true), filter(data, p.f, false)
}

func twoBuild(which int, p pred, e *env, in fp.Iterator[int]) (fp.Iterator[int], fp.Iterator[int]) {
	switch which {
	case 0:
		return iterator.Duplicate(in)
	case 1:
		return iterator.Span(in, p.inst(e))
	}
	return iterator.Partition(in, p.inst(e))
}

type sideState struct {
	name    string
	it      fp.Iterator[int]
	want    []int
	pos     int
	pending bool
	seenEnd bool
	blind   int
}

// twoSided: every interleaving of HasNext/Next calls on the two sides that respects each side's
// protocol, up to maxSteps calls in total, with at most maxRedundant repeated HasNext calls and
// at most one blind Next per side.
func twoSided(which int, inputs [][]int, extraSteps, maxRedundant int) func(x *mc.X) {
	return func(x *mc.X) {
		name := twoNames[which]
		x.Tag(name)
		p := preds[0]
		if which > 0 {
			p = pickPred(x)
		}
		data := pickInput(x, inputs)
		wl, wr := twoRefs(which, p, data)
		e := newEnv(x)
		s := newSrc(e, data)
		var sides [2]*sideState
		if pv := mc.Catch(func() {
			l, r := twoBuild(which, p, e, s.iter())
			sides[0] = &sideState{name: "left", it: l, want: wl}
			sides[1] = &sideState{name: "right", it: r, want: wr}
		}); pv != nil {
			x.Fail(name+"/construct-panic", "%s(%s) over %v: %v", name, p.name, data, pv)
		}
		label := fmt.Sprintf("%s(%s) over %v (left %v, right %v)", name, p.name, data, wl, wr)
		maxSteps := 2*(len(wl)+len(wr)) + extraSteps
		redundant, switches, last := 0, 0, -1
		for step := 0; step < maxSteps; step++ {
			// enabled operations: for each side HasNext (first, or redundant while budget lasts),
			// Next after a true HasNext, one blind Next once the side is exhausted
			type opt struct {
				side int
				next bool
			}
			var opts []opt
			for i, sd := range sides {
				has := sd.pos < len(sd.want)
				needed := (!sd.pending && has) || (!has && !sd.seenEnd)
				if needed || redundant < maxRedundant {
					opts = append(opts, opt{i, false})
				}
				if (sd.pending && has) || (!has && sd.blind == 0) {
					opts = append(opts, opt{i, true})
				}
			}
			if len(opts) == 0 {
				break
			}
			o := opts[0]
			if len(opts) > 1 {
				o = opts[x.Choose(len(opts), "operation")]
			}
			sd := sides[o.side]
			if last >= 0 && last != o.side {
				switches++
			}
			last = o.side
			has := sd.pos < len(sd.want)
			if !o.next {
				if sd.pending || (!has && sd.seenEnd) {
					redundant++
				}
				if !has {
					sd.seenEnd = true
				}
				h, pv := catchBool(sd.it.HasNext)
				x.Logf("%s.HasNext -> %v (reference %v)", sd.name, h, has)
				if pv != nil {
					kind := "hasnext-panic"
					if e.trip {
						kind = "nonterm"
					}
					x.Fail(name+"/"+kind, "%s: %s.HasNext after %d elements panicked: %v", label, sd.name, sd.pos, pv)
				}
				if h != has {
					x.Fail(name+"/hasnext", "%s: %s.HasNext after %d elements = %v, reference %v", label, sd.name, sd.pos, h, has)
				}
				sd.pending = h
				continue
			}
			v, pv := catchVal(sd.it.Next)
			x.Logf("%s.Next -> %v panic=%v", sd.name, v, pv)
			if e.trip {
				x.Fail(name+"/nonterm", "%s: %s.Next does not return", label, sd.name)
			}
			if has {
				if pv != nil {
					x.Fail(name+"/next-panic", "%s: %s.Next #%d after a true HasNext panicked: %v", label, sd.name, sd.pos, pv)
				}
				if v != sd.want[sd.pos] {
					x.Fail(name+"/next-value", "%s: %s.Next #%d = %d, reference %d", label, sd.name, sd.pos, v, sd.want[sd.pos])
				}
				sd.pos++
				sd.pending = false
			} else {
				if pv == nil {
					x.Fail(name+"/exhausted-next-returns", "%s: %s.Next on the exhausted side returned %d instead of panicking", label, sd.name, v)
				}
				sd.blind++
			}
		}
		if s.pulls > len(data) {
			x.Fail(name+"/pulls", "%s: %d pulls for %d source elements", label, s.pulls, len(data))
		}
		drained := sides[0].pos == len(wl) && sides[1].pos == len(wr)
		if drained {
			x.Tag("two-sided:both-drained")
			if s.pulls != len(data) {
				// every source element belongs to one side (Duplicate: to both): all were delivered
				x.Fail(name+"/pulls", "%s: both sides drained but %d pulls for %d source elements", label, s.pulls, len(data))
			}
		}
		x.ObserveInt(sides[0].pos)
		x.ObserveInt(sides[1].pos)
		x.ObserveInt(s.pulls)
		x.ObserveInt(switches)
		if switches >= 2 && sides[0].pos+sides[1].pos >= 2 {
			x.NonTrivial()
		}
	}
}

// concurrent: thread L drains the left side, thread R the right side; every interleaving at the
// library's mutex operations and at the scheduling points inside the shared source.
func concurrent(which int, inputs [][]int) func(x *mc.X) {
	return func(x *mc.X) {
		name := twoNames[which]
		x.Tag(name)
		data := pickInput(x, inputs)
		p := preds[0]
		if which > 0 {
			p = preds[x.Choose(2, "pred")]
		}
		wl, wr := twoRefs(which, p, data)
		e := newEnv(x)
		s := newSrc(e, data)
		s.point = func(note string) { x.Point("source", note) }
		l, r := twoBuild(which, p, e, s.iter())
		var gl, gr []int
		var pl, pr any
		drain := func(it fp.Iterator[int], out *[]int, pv *any) func() {
			return func() {
				*pv = mc.Catch(func() {
					for it.HasNext() {
						*out = append(*out, it.Next())
					}
				})
			}
		}
		x.Go("L", drain(l, &gl, &pl))
		x.Go("R", drain(r, &gr, &pr))
		blocked := x.AwaitQuiescence()
		if x.HasFailed() {
			return
		}
		label := fmt.Sprintf("%s(%s) over %v, one thread per side", name, p.name, data)
		if len(blocked) > 0 {
			x.Fail(name+"/conc-blocked", "%s: threads still blocked: %v", label, blocked)
		}
		if pl != nil || pr != nil {
			x.Fail(name+"/conc-panic", "%s: panic while draining: left %v, right %v (left got %v, right got %v)", label, pl, pr, gl, gr)
		}
		if fmt.Sprint(gl) != fmt.Sprint(wl) || fmt.Sprint(gr) != fmt.Sprint(wr) {
			x.Fail(name+"/conc-value", "%s: left %v right %v, reference left %v right %v", label, gl, gr, wl, wr)
		}
		if s.pulls != len(data) {
			x.Fail(name+"/conc-pulls", "%s: %d pulls for %d source elements", label, s.pulls, len(data))
		}
		x.Observe(gl, gr)
		if x.Interacted() {
			x.NonTrivial()
		}
	}
}
