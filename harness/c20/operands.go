package main

import (
	"fmt"

	"github.com/csgura/fp"
	"github.com/csgura/fp/iterator"
	"verif/mc"
)

// Multi-operand functions with every combination of operand lengths 0..3 (each operand an
// instrumented source of its own; operand i yields i*10+1, i*10+2, ...).

func operand(i, n int) []int {
	out := make([]int, n)
	for j := range out {
		out[j] = i*10 + j + 1
	}
	return out
}

func pickLens(x *mc.X, arity int) [][]int {
	ops := make([][]int, arity)
	for i := range ops {
		ops[i] = operand(i, x.Choose(4, fmt.Sprintf("length of operand %d", i)))
	}
	return ops
}

func minLen(ops [][]int) int {
	n := len(ops[0])
	for _, o := range ops {
		if len(o) < n {
			n = len(o)
		}
	}
	return n
}

type T3 = fp.Tuple3[int, int, int]

var operandProducers = []producer{
	{"iterator.Zip[operand lengths]", func(x *mc.X, _ [][]int) {
		ops := pickLens(x, 2)
		want := []T2{}
		for i := 0; i < minLen(ops); i++ {
			want = append(want, T2{I1: ops[0][i], I2: ops[1][i]})
		}
		drive(x, spec[T2]{name: "iterator.Zip[operand lengths]", label: fmt.Sprintf("Zip(%v,%v)", ops[0], ops[1]), want: want, build: func(e *env) fp.Iterator[T2] {
			return iterator.Zip(newSrc(e, ops[0]).iter(), newSrc(e, ops[1]).iter())
		}})
	}},
	{"iterator.Zip3[operand lengths]", func(x *mc.X, _ [][]int) {
		ops := pickLens(x, 3)
		want := []T3{}
		for i := 0; i < minLen(ops); i++ {
			want = append(want, T3{I1: ops[0][i], I2: ops[1][i], I3: ops[2][i]})
		}
		drive(x, spec[T3]{name: "iterator.Zip3[operand lengths]", label: fmt.Sprintf("Zip3(%v,%v,%v)", ops[0], ops[1], ops[2]), want: want, build: func(e *env) fp.Iterator[T3] {
			return iterator.Zip3(newSrc(e, ops[0]).iter(), newSrc(e, ops[1]).iter(), newSrc(e, ops[2]).iter())
		}})
	}},
	{"Iterator.Concat[operand lengths]", func(x *mc.X, _ [][]int) {
		shape := x.Choose(2, "nesting")
		ops := pickLens(x, 3)
		want := append(append(cp(ops[0]), ops[1]...), ops[2]...)
		label := []string{"a.Concat(b).Concat(c)", "a.Concat(b.Concat(c))"}[shape]
		drive(x, spec[int]{name: "Iterator.Concat[operand lengths]", label: fmt.Sprintf("%s with %v", label, ops), want: want, bounded: len(want) > 4, build: func(e *env) fp.Iterator[int] {
			a, b, c := newSrc(e, ops[0]).iter(), newSrc(e, ops[1]).iter(), newSrc(e, ops[2]).iter()
			if shape == 0 {
				return a.Concat(b).Concat(c)
			}
			return a.Concat(b.Concat(c))
		}})
	}},
	{"iterator.Flatten[operand lengths]", func(x *mc.X, _ [][]int) {
		ops := pickLens(x, 3)
		want := append(append(cp(ops[0]), ops[1]...), ops[2]...)
		drive(x, spec[int]{name: "iterator.Flatten[operand lengths]", label: fmt.Sprintf("Flatten(%v)", ops), want: want, bounded: len(want) > 4, build: func(e *env) fp.Iterator[int] {
			return iterator.Flatten(fp.IteratorOfSeq([]fp.Iterator[int]{newSrc(e, ops[0]).iter(), newSrc(e, ops[1]).iter(), newSrc(e, ops[2]).iter()}))
		}})
	}},
	// applicative plumbing: call-pattern independence against the canonical drain (self reference)
	{"iterator.Map2[operand lengths]", func(x *mc.X, _ [][]int) {
		ops := pickLens(x, 2)
		drive(x, spec[int]{name: "iterator.Map2[operand lengths]", label: fmt.Sprintf("Map2(%v,%v)", ops[0], ops[1]), self: true, build: func(e *env) fp.Iterator[int] {
			return iterator.Map2(newSrc(e, ops[0]).iter(), newSrc(e, ops[1]).iter(), func(p, q int) int { e.tick(); return p*100 + q })
		}})
	}},
	{"iterator.Ap[operand lengths]", func(x *mc.X, _ [][]int) {
		ops := pickLens(x, 2)
		drive(x, spec[int]{name: "iterator.Ap[operand lengths]", label: fmt.Sprintf("Ap(%d functions,%v)", len(ops[0]), ops[1]), self: true, build: func(e *env) fp.Iterator[int] {
			fs := iterator.Map(newSrc(e, ops[0]).iter(), func(k int) fp.Func1[int, int] { return func(v int) int { return k*100 + v } })
			return iterator.Ap(fs, newSrc(e, ops[1]).iter())
		}})
	}},
}
