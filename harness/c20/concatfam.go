package main

import (
	"fmt"

	"github.com/csgura/fp"
	"github.com/csgura/fp/iterator"
	"verif/mc"
)

// Concat/Appended keep hidden per-iterator state (the private `concat` list that a later Concat
// flattens); a stage deriving its result from a copy of its receiver can inherit it. The family
// X -> M -> Y (and X -> M -> Y -> M') is driven through the protocol patterns; every instance is
// built from fresh iterator values, no iterator value is used twice.

type shape struct {
	name  string
	ref   func(in []int) []int
	build func(e *env, in fp.Iterator[int]) fp.Iterator[int]
}

func lit(vals ...int) fp.Iterator[int] { return fp.IteratorOfSeq(vals) }

var concatShapes = []shape{
	{"Concat(src,[7 8])", func(in []int) []int { return append(cp(in), 7, 8) },
		func(e *env, in fp.Iterator[int]) fp.Iterator[int] { return in.Concat(lit(7, 8)) }},
	{"Concat([7 8],src)", func(in []int) []int { return append([]int{7, 8}, in...) },
		func(e *env, in fp.Iterator[int]) fp.Iterator[int] { return lit(7, 8).Concat(in) }},
	{"Appended(9)", func(in []int) []int { return append(cp(in), 9) },
		func(e *env, in fp.Iterator[int]) fp.Iterator[int] { return in.Appended(9) }},
	{"Concat(src,Empty)", cp,
		func(e *env, in fp.Iterator[int]) fp.Iterator[int] { return in.Concat(iterator.Empty[int]()) }},
	{"Concat(src,zero)", cp,
		func(e *env, in fp.Iterator[int]) fp.Iterator[int] { var z fp.Iterator[int]; return in.Concat(z) }},
	{"Concat(zero,src)", cp,
		func(e *env, in fp.Iterator[int]) fp.Iterator[int] { var z fp.Iterator[int]; return z.Concat(in) }},
	{"Concat(src,[7].Concat([8]))", func(in []int) []int { return append(cp(in), 7, 8) },
		func(e *env, in fp.Iterator[int]) fp.Iterator[int] { return in.Concat(lit(7).Concat(lit(8))) }},
	{"Concat([7].Concat([8]),src)", func(in []int) []int { return append([]int{7, 8}, in...) },
		func(e *env, in fp.Iterator[int]) fp.Iterator[int] { return lit(7).Concat(lit(8)).Concat(in) }},
}

func plus10(v int) int { return v + 10 }
func lt8(v int) bool   { return v < 8 }
func odd(v int) bool   { return v%2 == 1 }

func flat(in []int, g func(int) []int) []int {
	out := []int{}
	for _, v := range in {
		out = append(out, g(v)...)
	}
	return out
}

func dupOdd(v int) []int {
	if v%2 == 1 {
		return []int{v, v}
	}
	return nil
}

// middle stages: every Iterator method and package function returning an iterator built from its argument
var middles = []shape{
	{"Iterator.Map", func(in []int) []int { return mapInts(in, plus10) },
		func(e *env, in fp.Iterator[int]) fp.Iterator[int] {
			return in.Map(func(v int) int { e.tick(); return plus10(v) })
		}},
	{"iterator.Map", func(in []int) []int { return mapInts(in, plus10) },
		func(e *env, in fp.Iterator[int]) fp.Iterator[int] { return iterator.Map(in, plus10) }},
	{"iterator.Lift", func(in []int) []int { return mapInts(in, plus10) },
		func(e *env, in fp.Iterator[int]) fp.Iterator[int] { return iterator.Lift(plus10)(in) }},
	{"Iterator.Filter", func(in []int) []int { return filter(in, lt8, true) },
		func(e *env, in fp.Iterator[int]) fp.Iterator[int] {
			return in.Filter(func(v int) bool { e.tick(); return lt8(v) })
		}},
	{"Iterator.FilterNot", func(in []int) []int { return filter(in, odd, false) },
		func(e *env, in fp.Iterator[int]) fp.Iterator[int] { return in.FilterNot(odd) }},
	{"Iterator.Take", func(in []int) []int { return take(in, 3) },
		func(e *env, in fp.Iterator[int]) fp.Iterator[int] { return in.Take(3) }},
	{"Iterator.Drop", func(in []int) []int { return drop(in, 1) },
		func(e *env, in fp.Iterator[int]) fp.Iterator[int] { return in.Drop(1) }},
	{"Iterator.Drop(0)", cp,
		func(e *env, in fp.Iterator[int]) fp.Iterator[int] { return in.Drop(0) }},
	{"Iterator.TakeWhile", func(in []int) []int { return takeWhile(in, lt8) },
		func(e *env, in fp.Iterator[int]) fp.Iterator[int] { return in.TakeWhile(lt8) }},
	{"Iterator.DropWhile", func(in []int) []int { return dropWhile(in, odd) },
		func(e *env, in fp.Iterator[int]) fp.Iterator[int] { return in.DropWhile(odd) }},
	{"Iterator.TapEach", cp,
		func(e *env, in fp.Iterator[int]) fp.Iterator[int] { return in.TapEach(func(int) { e.tick() }) }},
	{"Iterator.FlatMap", func(in []int) []int { return flat(in, dupOdd) },
		func(e *env, in fp.Iterator[int]) fp.Iterator[int] {
			return in.FlatMap(func(v int) fp.Iterator[int] { e.tick(); return fp.IteratorOfSeq(dupOdd(v)) })
		}},
	{"iterator.FlatMap", func(in []int) []int { return flat(in, dupOdd) },
		func(e *env, in fp.Iterator[int]) fp.Iterator[int] {
			return iterator.FlatMap(in, func(v int) fp.Iterator[int] { return fp.IteratorOfSeq(dupOdd(v)) })
		}},
	{"iterator.FilterMap", func(in []int) []int { return mapInts(filter(in, odd, true), plus10) },
		func(e *env, in fp.Iterator[int]) fp.Iterator[int] {
			return iterator.FilterMap(in, func(v int) fp.Option[int] {
				if odd(v) {
					return fp.Some(plus10(v))
				}
				return fp.None[int]()
			})
		}},
	{"iterator.Scan", func(in []int) []int {
		out, acc := []int{1}, 1
		for _, v := range in {
			acc += v
			out = append(out, acc)
		}
		return out
	}, func(e *env, in fp.Iterator[int]) fp.Iterator[int] {
		return iterator.Scan(in, 1, func(a, v int) int { return a + v })
	}},
	{"iterator.ZipWithIndex", func(in []int) []int {
		out := []int{}
		for i, v := range in {
			out = append(out, i*100+v)
		}
		return out
	}, func(e *env, in fp.Iterator[int]) fp.Iterator[int] {
		return iterator.Map(iterator.ZipWithIndex(in), func(t fp.Tuple2[int, int]) int { return t.I1*100 + t.I2 })
	}},
	{"iterator.Zip", func(in []int) []int {
		out := []int{}
		o := []int{1, 2, 3, 4, 5, 6, 7, 8, 9}
		for i := 0; i < len(in) && i < len(o); i++ {
			out = append(out, in[i]*100+o[i])
		}
		return out
	}, func(e *env, in fp.Iterator[int]) fp.Iterator[int] {
		return iterator.Map(iterator.Zip(in, lit(1, 2, 3, 4, 5, 6, 7, 8, 9)), func(t fp.Tuple2[int, int]) int { return t.I1*100 + t.I2 })
	}},
	{"iterator.Concat(head,_)", func(in []int) []int { return append([]int{5}, in...) },
		func(e *env, in fp.Iterator[int]) fp.Iterator[int] { return iterator.Concat(5, in) }},
	{"iterator.Duplicate.left", cp,
		func(e *env, in fp.Iterator[int]) fp.Iterator[int] { l, _ := iterator.Duplicate(in); return l }},
	{"iterator.Span.left", func(in []int) []int { return takeWhile(in, lt8) },
		func(e *env, in fp.Iterator[int]) fp.Iterator[int] { l, _ := iterator.Span(in, lt8); return l }},
	{"iterator.Span.right", func(in []int) []int { return dropWhile(in, odd) },
		func(e *env, in fp.Iterator[int]) fp.Iterator[int] { _, r := iterator.Span(in, odd); return r }},
	{"iterator.Partition.left", func(in []int) []int { return filter(in, odd, true) },
		func(e *env, in fp.Iterator[int]) fp.Iterator[int] { l, _ := iterator.Partition(in, odd); return l }},
	{"iterator.Partition.right", func(in []int) []int { return filter(in, odd, false) },
		func(e *env, in fp.Iterator[int]) fp.Iterator[int] { _, r := iterator.Partition(in, odd); return r }},
	{"iterator.FromList(ToList)", cp,
		func(e *env, in fp.Iterator[int]) fp.Iterator[int] { return iterator.FromList(iterator.ToList(in)) }},
}

var narrowMiddles = []string{"Iterator.Map", "Iterator.Filter", "Iterator.Take"}

func middleByName(n string) shape {
	for _, m := range middles {
		if m.name == n {
			return m
		}
	}
	panic("no middle stage " + n)
}

// concatFamily registers one scenario per middle stage M (X -> M -> Y) and one for the four-stage
// pipelines. Inputs up to length 3; the bounded pattern family for outputs longer than 3 elements,
// every H/N string otherwise.
func concatFamily(r *mc.Registry, inputs [][]int) []string {
	var names []string
	run := func(x *mc.X, name string, stages []shape) {
		data := pickInput(x, inputs)
		want := data
		labels := ""
		for _, s := range stages {
			want = s.ref(want)
			labels += " | " + s.name
		}
		drive(x, spec[int]{name: name, label: fmt.Sprintf("src%s over %v", labels, data), want: want, bounded: len(want) > 3,
			build: func(e *env) fp.Iterator[int] {
				it := newSrc(e, data).iter()
				for _, s := range stages {
					it = s.build(e, it)
				}
				return it
			}})
	}
	for _, m := range middles {
		m := m
		name := "X|" + m.name + "|Y"
		names = append(names, name)
		sc := r.Seq("concat-state/"+name, func(x *mc.X) {
			xs := concatShapes[x.Choose(len(concatShapes), "X")]
			ys := concatShapes[x.Choose(len(concatShapes), "Y")]
			run(x, name, []shape{xs, m, ys})
		})
		sc.SplitDepth = 3
		sc.TickLimit = 10_000_000
	}
	sc := r.Seq("concat-state/X|M|Y|M'", func(x *mc.X) {
		m1 := middleByName(narrowMiddles[x.Choose(len(narrowMiddles), "M")])
		m2 := middleByName(narrowMiddles[x.Choose(len(narrowMiddles), "M'")])
		xs := concatShapes[x.Choose(len(concatShapes), "X")]
		ys := concatShapes[x.Choose(len(concatShapes), "Y")]
		run(x, "X|"+m1.name+"|Y|"+m2.name, []shape{xs, m1, ys, m2})
	})
	sc.SplitDepth = 4
	sc.Shard = true
	sc.TickLimit = 10_000_000
	names = append(names, "X|M|Y|M' for M,M' in "+fmt.Sprint(narrowMiddles))
	return names
}
