package main

import (
	"fmt"

	"verif/mc"
)

func main() {
	mc.Main("C20", register)
}

func register(r *mc.Registry) {
	if !mc.Instrumented {
		panic("C20 must be built with the overlay (file OVERLAY): the concurrent scenarios need the library's sync.Mutex as a scheduling point")
	}
	maxLen := 3
	maxUnguarded = 0
	if r.Thorough() {
		maxLen = 4
		maxUnguarded = 1
	}
	inputs := allInputs(maxLen)
	all := append(append(append([]producer{}, producers...), operandProducers...), hamtProducers()...)
	var names []string
	for _, p := range all {
		p := p
		names = append(names, p.name)
		sc := r.Seq("proto/"+p.name, func(x *mc.X) { p.run(x, inputs) })
		sc.SplitDepth = 3
		sc.TickLimit = 10_000_000
	}
	famNames := concatFamily(r, allInputs(3))
	z := r.Seq("zero/methods", zeroScenario(zeroMethods, "zero"))
	z.SplitDepth = 1
	z = r.Seq("zero/as-argument", zeroScenario(zeroArgs, "zero-arg"))
	z.SplitDepth = 1

	twoLen, extra, red := 3, 2, 1
	if r.Thorough() {
		twoLen, extra, red = 3, 2, 2
	}
	twoInputs := allInputs(twoLen)
	for which, n := range twoNames {
		ex := extra
		if which > 0 {
			ex = extra + 2 // fewer elements in total than Duplicate: room for the calls at the exhausted ends
		}
		sc := r.Seq("two-sided/"+n, twoSided(which, twoInputs, ex, red))
		sc.SplitDepth = 4
		sc.Shard = true
		sc.TickLimit = 10_000_000
	}
	// two threads, one per side
	free := [][]int{{}, {1}, {0, 2}, {2, 0}, {1, 1}}
	bounded := [][]int{{0, 2, 1}, {2, 0, 0}, {1, 2, 0}}
	pb := 2
	if r.Thorough() {
		free = append(free, bounded...)
		bounded = [][]int{{0, 2, 1, 0}, {1, 1, 2, 0}, {2, 0, 1, 1}}
		pb = 3
	}
	for which, n := range twoNames {
		sc := r.Conc("conc/"+n, -1, concurrent(which, free))
		sc.SplitDepth = 5
		sc.Shard = true
		sc.TickLimit = 10_000_000
		sc = r.Conc(fmt.Sprintf("conc-pb%d/%s", pb, n), pb, concurrent(which, bounded))
		sc.SplitDepth = 5
		sc.Shard = true
		sc.TickLimit = 10_000_000
	}
	concInputs := map[string]any{"all interleavings": free, fmt.Sprintf("preemption bound %d", pb): bounded, "predicates": []string{preds[0].name, preds[1].name}}

	r.Rule = "proto/*: execution = (producer, its parameters, input over {0,1,2} up to the length bound, one string over {HasNext, Next} of length 2*len+4 in which Next follows a true HasNext, or is a blind Next once the reference is exhausted); every such string is run (large hash tries: the bounded family h1/h2 HasNext calls before odd/even elements plus the exhausted tail). two-sided/*: every interleaving of the two sides' calls up to 2*(len(left)+len(right))+extra calls with a bounded number of repeated HasNext calls. conc/*: every interleaving (sleep sets; a preemption bound where the bounds say so) of two draining threads at the library's Mutex.Lock/Unlock and at scheduling points inside the shared source's HasNext/Next. non-trivial = the pattern repeated a HasNext and consumed an element, or called Next on the exhausted iterator (two-sided: at least two switches between the sides and two elements delivered; conc: a context switch between started threads); distinct = distinct (elements consumed, blind Next calls, repeated HasNext calls, reference sequence)"
	r.Assumptions = []string{
		"Next on an exhausted iterator: any panic value is accepted",
		"Next without a preceding HasNext while elements remain is a legal use (every iterator of the library guards its own next) and must return the next element; failures there carry the key suffix -unguarded",
		"iterators over Go maps, fp.UnsafeGoMap/Set, immutable and mutable maps/sets: any order, compared as multisets; the driver's choices and observations do not depend on the order",
		"applicative plumbing (Ap, Map2, Flap*, FlapMap, Method*): the reference sequence is the canonical drain (for HasNext { Next }) of a second fresh instance; only independence of the call pattern is demanded there",
		"the zero-value Iterator passed to library functions must give what iterator.Empty gives (same call sites call only its methods)",
		"the overlay shim of sync.Mutex preserves mutex semantics; one scheduling point per Lock, Unlock and per call of the shared source",
	}
	r.Extra["bounds"] = map[string]any{
		"alphabet": []int{0, 1, 2}, "max_input_len": maxLen, "pattern_length": "2*len+4 (Generate: 7)",
		"producers": names, "producer_count": len(names),
		"package_iterator_exported_functions": iteratorFunctionCoverage(),
		"call_strings":                        "every string over {HasNext, Next} of length 2*len+4 in which Next follows a true HasNext or hits the exhausted iterator (thorough: plus one Next without a preceding HasNext anywhere); and the family in which each element is taken by a Next with or without a preceding HasNext (all 2^len subsets: Next;Next, HasNext;Next;Next, ...) followed by the exhausted tail; bounded family for long outputs: 0..3 HasNext calls before odd/even elements",
		"concat_state_family":                 map[string]any{"X,Y": shapeNames(concatShapes), "pipelines": famNames, "inputs": "up to length 3", "patterns": "every H/N string when the output has at most 3 elements, the bounded family (h1/h2 HasNext calls before odd/even elements, then the exhausted tail) otherwise", "note": "every instance is built from fresh iterator values; no iterator value is used twice"},
		"zero_value_methods":                  zeroNames(zeroMethods), "zero_value_as_argument": zeroNames(zeroArgs),
		"two_sided_max_input_len": twoLen, "two_sided_extra_calls": extra, "two_sided_max_repeated_hasnext": red,
		"hamt_sizes": hamtSizes, "hamt_hashers": hasherNames(),
		"concurrent_inputs": concInputs,
	}
	r.Extra["uncovered"] = []string{
		"iterator-returning functions outside the packages named by the property scope: either.Traverse*, statet.Traverse*, future.Traverse*/SequenceIterator, show and naming_case internals",
		"iterator.Flap4..Flap9 and Method5..Method9: generated from the same template as Flap3/Method3/Method4, which are covered",
		"Next without a preceding HasNext combined with repeated HasNext calls in one string: quick runs them in separate families, thorough allows one such Next inside the full strings",
		"element types other than int and tuples of int",
		"more than two threads; two threads on the same side of Duplicate (the property gives one consumer per side)",
	}
}

func shapeNames(ss []shape) []string {
	var out []string
	for _, s := range ss {
		out = append(out, s.name)
	}
	return out
}

func zeroNames(ops []zeroOp) []string {
	var out []string
	for _, o := range ops {
		out = append(out, o.name)
	}
	return out
}

func hasherNames() []string {
	var out []string
	for _, h := range hashers {
		out = append(out, h.name)
	}
	return out
}
