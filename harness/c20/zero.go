package main

import (
	"fmt"

	"github.com/csgura/fp"
	"github.com/csgura/fp/iterator"
	"github.com/csgura/fp/list"
	"github.com/csgura/fp/seq"
	"verif/mc"
)

// zeroOp is one use of the zero-value fp.Iterator. It either yields a scalar observation that
// must equal what an empty iterator gives, or an iterator whose protocol is driven.
type zeroOp struct {
	name string
	// scalar: returns the observation as a string; want is the answer of an empty iterator
	scalar func(e *env, z fp.Iterator[int]) string
	want   string
	// iter: returns an iterator that must behave like wantSeq
	iter    func(e *env, z fp.Iterator[int]) fp.Iterator[int]
	wantSeq []int
}

func called(n *int) func(int) { return func(int) { *n++ } }

var zeroMethods = []zeroOp{
	{name: "HasNext", want: "false", scalar: func(e *env, z fp.Iterator[int]) string { return sprint(z.HasNext()) }},
	{name: "NextOption", want: "None", scalar: func(e *env, z fp.Iterator[int]) string { return sprint(z.NextOption()) }},
	{name: "ToSeq", want: "0 []", scalar: func(e *env, z fp.Iterator[int]) string { s := z.ToSeq(); return fmt.Sprint(len(s), s) }},
	{name: "Count", want: "0", scalar: func(e *env, z fp.Iterator[int]) string { return sprint(z.Count()) }},
	{name: "MakeString", want: "\"\"", scalar: func(e *env, z fp.Iterator[int]) string { return fmt.Sprintf("%q", z.MakeString(",")) }},
	{name: "Find", want: "None", scalar: func(e *env, z fp.Iterator[int]) string { return sprint(z.Find(func(int) bool { return true })) }},
	{name: "Foreach", want: "0 calls", scalar: func(e *env, z fp.Iterator[int]) string {
		n := 0
		z.Foreach(called(&n))
		return fmt.Sprintf("%d calls", n)
	}},
	{name: "Exists", want: "false", scalar: func(e *env, z fp.Iterator[int]) string { return sprint(z.Exists(func(int) bool { return true })) }},
	{name: "ForAll", want: "true", scalar: func(e *env, z fp.Iterator[int]) string { return sprint(z.ForAll(func(int) bool { return false })) }},
	{name: "IsEmpty", want: "true", scalar: func(e *env, z fp.Iterator[int]) string { return sprint(z.IsEmpty()) }},
	{name: "NonEmpty", want: "false", scalar: func(e *env, z fp.Iterator[int]) string { return sprint(z.NonEmpty()) }},
	{name: "All", want: "0 yields", scalar: func(e *env, z fp.Iterator[int]) string {
		n := 0
		for range z.All() {
			n++
		}
		return fmt.Sprintf("%d yields", n)
	}},
	{name: "Take", wantSeq: []int{}, iter: func(e *env, z fp.Iterator[int]) fp.Iterator[int] { return z.Take(2) }},
	{name: "TakeWhile", wantSeq: []int{}, iter: func(e *env, z fp.Iterator[int]) fp.Iterator[int] { return z.TakeWhile(func(int) bool { return true }) }},
	{name: "Drop", wantSeq: []int{}, iter: func(e *env, z fp.Iterator[int]) fp.Iterator[int] { return z.Drop(2) }},
	{name: "DropWhile", wantSeq: []int{}, iter: func(e *env, z fp.Iterator[int]) fp.Iterator[int] { return z.DropWhile(func(int) bool { return false }) }},
	{name: "Filter", wantSeq: []int{}, iter: func(e *env, z fp.Iterator[int]) fp.Iterator[int] { return z.Filter(func(int) bool { return true }) }},
	{name: "FilterNot", wantSeq: []int{}, iter: func(e *env, z fp.Iterator[int]) fp.Iterator[int] { return z.FilterNot(func(int) bool { return false }) }},
	{name: "TapEach", wantSeq: []int{}, iter: func(e *env, z fp.Iterator[int]) fp.Iterator[int] { return z.TapEach(func(int) {}) }},
	{name: "Map", wantSeq: []int{}, iter: func(e *env, z fp.Iterator[int]) fp.Iterator[int] { return z.Map(func(v int) int { return v }) }},
	{name: "FlatMap", wantSeq: []int{}, iter: func(e *env, z fp.Iterator[int]) fp.Iterator[int] {
		return z.FlatMap(func(v int) fp.Iterator[int] { return iterator.Of(v) })
	}},
	{name: "Appended", wantSeq: []int{5}, iter: func(e *env, z fp.Iterator[int]) fp.Iterator[int] { return z.Appended(5) }},
	{name: "Concat(zero,[1 2])", wantSeq: []int{1, 2}, iter: func(e *env, z fp.Iterator[int]) fp.Iterator[int] { return z.Concat(newSrc(e, []int{1, 2}).iter()) }},
	{name: "Concat([1 2],zero)", wantSeq: []int{1, 2}, iter: func(e *env, z fp.Iterator[int]) fp.Iterator[int] { return newSrc(e, []int{1, 2}).iter().Concat(z) }},
	{name: "Concat(zero,zero)", wantSeq: []int{}, iter: func(e *env, z fp.Iterator[int]) fp.Iterator[int] { return z.Concat(z) }},
	{name: "Concat(zero,zero).Concat([3])", wantSeq: []int{3}, iter: func(e *env, z fp.Iterator[int]) fp.Iterator[int] {
		return z.Concat(z).Concat(newSrc(e, []int{3}).iter())
	}},
	{name: "self", wantSeq: []int{}, iter: func(e *env, z fp.Iterator[int]) fp.Iterator[int] { return z }},
}

// functions of the library applied to the zero value: same answers as with an empty iterator.
var zeroArgs = []zeroOp{
	{name: "iterator.ToSeq", want: "[]", scalar: func(e *env, z fp.Iterator[int]) string { return sprint([]int(iterator.ToSeq(z))) }},
	{name: "seq.Collect", want: "[]", scalar: func(e *env, z fp.Iterator[int]) string { return sprint([]int(seq.Collect(z))) }},
	{name: "iterator.Fold", want: "7", scalar: func(e *env, z fp.Iterator[int]) string {
		return sprint(iterator.Fold(z, 7, func(a, v int) int { return a + v }))
	}},
	{name: "iterator.ToList", want: "true []", scalar: func(e *env, z fp.Iterator[int]) string {
		l := iterator.ToList(z)
		return fmt.Sprint(l.IsEmpty(), l.ToSeq())
	}},
	{name: "list.Collect", want: "true []", scalar: func(e *env, z fp.Iterator[int]) string {
		l := list.Collect(z)
		return fmt.Sprint(l.IsEmpty(), l.ToSeq())
	}},
	{name: "iterator.Map", wantSeq: []int{}, iter: func(e *env, z fp.Iterator[int]) fp.Iterator[int] {
		return iterator.Map(z, func(v int) int { return v })
	}},
	{name: "iterator.FlatMap", wantSeq: []int{}, iter: func(e *env, z fp.Iterator[int]) fp.Iterator[int] {
		return iterator.FlatMap(z, func(v int) fp.Iterator[int] { return iterator.Of(v) })
	}},
	{name: "iterator.FilterMap", wantSeq: []int{}, iter: func(e *env, z fp.Iterator[int]) fp.Iterator[int] {
		return iterator.FilterMap(z, func(v int) fp.Option[int] { return fp.Some(v) })
	}},
	{name: "iterator.Concat(9,zero)", wantSeq: []int{9}, iter: func(e *env, z fp.Iterator[int]) fp.Iterator[int] { return iterator.Concat(9, z) }},
	{name: "iterator.Scan", wantSeq: []int{1}, iter: func(e *env, z fp.Iterator[int]) fp.Iterator[int] {
		return iterator.Scan(z, 1, func(a, v int) int { return a + v })
	}},
	{name: "iterator.Zip(zero,[1 2])", wantSeq: []int{}, iter: func(e *env, z fp.Iterator[int]) fp.Iterator[int] {
		zz := iterator.Zip(z, newSrc(e, []int{1, 2}).iter())
		return fp.MakeIterator(zz.HasNext, func() int { return zz.Next().I2 })
	}},
	{name: "iterator.Zip([1 2],zero)", wantSeq: []int{}, iter: func(e *env, z fp.Iterator[int]) fp.Iterator[int] {
		zz := iterator.Zip(newSrc(e, []int{1, 2}).iter(), z)
		return fp.MakeIterator(zz.HasNext, func() int { return zz.Next().I1 })
	}},
	{name: "iterator.ZipWithIndex", wantSeq: []int{}, iter: func(e *env, z fp.Iterator[int]) fp.Iterator[int] {
		zz := iterator.ZipWithIndex(z)
		return fp.MakeIterator(zz.HasNext, func() int { return zz.Next().I2 })
	}},
	{name: "iterator.Duplicate.left", wantSeq: []int{}, iter: func(e *env, z fp.Iterator[int]) fp.Iterator[int] { l, _ := iterator.Duplicate(z); return l }},
	{name: "iterator.Duplicate.right", wantSeq: []int{}, iter: func(e *env, z fp.Iterator[int]) fp.Iterator[int] { _, r := iterator.Duplicate(z); return r }},
	{name: "iterator.Span.right", wantSeq: []int{}, iter: func(e *env, z fp.Iterator[int]) fp.Iterator[int] {
		_, r := iterator.Span(z, func(int) bool { return true })
		return r
	}},
	{name: "iterator.Partition.left", wantSeq: []int{}, iter: func(e *env, z fp.Iterator[int]) fp.Iterator[int] {
		l, _ := iterator.Partition(z, func(int) bool { return true })
		return l
	}},
	{name: "iterator.Flatten([zero,[4],zero])", wantSeq: []int{4}, iter: func(e *env, z fp.Iterator[int]) fp.Iterator[int] {
		return iterator.Flatten(fp.IteratorOfSeq([]fp.Iterator[int]{z, newSrc(e, []int{4}).iter(), z}))
	}},
}

func zeroScenario(ops []zeroOp, prefix string) func(x *mc.X) {
	return func(x *mc.X) {
		op := ops[x.Choose(len(ops), "operation")]
		name := prefix + "." + op.name
		var z fp.Iterator[int]
		if op.iter != nil {
			drive(x, spec[int]{name: name, label: name + " on the zero-value Iterator", want: op.wantSeq,
				build: func(e *env) fp.Iterator[int] { return op.iter(e, z) }})
			return
		}
		x.Tag(name)
		e := newEnv(x)
		var got string
		pv := mc.Catch(func() { got = op.scalar(e, z) })
		x.Logf("%s -> %s panic=%v", name, got, pv)
		if pv != nil {
			x.Fail(name+"/panic", "%s on the zero-value Iterator panicked: %v (an empty iterator gives %s)", name, pv, op.want)
		}
		if got != op.want {
			x.Fail(name+"/value", "%s on the zero-value Iterator gives %s, an empty iterator gives %s", name, got, op.want)
		}
		x.Observe(name, got)
		x.NonTrivial()
	}
}
