package main

import (
	"os"
	"path/filepath"
	"regexp"
	"sort"
	"strings"

	"verif/mc"
)

// drivenIteratorFuncs: exported functions of package iterator whose result is driven through the
// protocol call strings (directly, or as the middle stage of the concat-state family).
var drivenIteratorFuncs = map[string]bool{
	"Pull": true, "Empty": true, "List": true, "FromOption": true, "FromList": true, "Of": true, "FromSeq": true,
	"FromSlice": true, "ReverseSeq": true, "ReverseSlice": true, "FromPtr": true, "FromMap": true, "FromMapKey": true,
	"FromMapValue": true, "Ap": true, "Lift": true, "Compose": true, "ComposePure": true, "Flatten": true, "Concat": true,
	"Map": true, "Map2": true, "FilterMap": true, "FlatMap": true, "Flap": true, "Flap2": true, "Flap3": true, "FlapMap": true,
	"Method1": true, "Method2": true, "Method3": true, "Method4": true, "Zip": true, "ZipWithIndex": true, "Zip3": true,
	"Scan": true, "Generate": true, "Range": true, "RangeClosed": true, "Duplicate": true, "Span": true, "Partition": true,
	"ToList": true, // as iterator.FromList(iterator.ToList(_)) in the concat-state family
}

var notDrivenReason = map[string]string{
	"ToMap": "returns a map, not an iterator (C12 terminal)", "ToGoMap": "returns a map, not an iterator (C12 terminal)",
	"ToSlice": "returns a slice (C12 terminal)", "ToSeq": "returns a slice (C12 terminal)",
	"ToSet": "returns a set (C12 terminal)", "ToGoSet": "returns a set (C12 terminal)",
	"Reduce": "returns a value (C12 terminal)", "Fold": "returns a value (C12 terminal)", "FoldTry": "returns a value (C12 terminal)",
	"FoldFuture": "returns a future (C06)", "FoldError": "returns a value (C12 terminal)", "FoldOption": "returns a value (C12 terminal)",
	"FoldRight": "returns a lazy.Eval (C12 terminal)", "GroupBy": "returns a map (C12 terminal)", "Sort": "returns a slice (C12 terminal)",
	"Min": "returns an option (C12 terminal)", "Max": "returns an option (C12 terminal)",
}

var funcDecl = regexp.MustCompile(`(?m)^func ([A-Z][A-Za-z0-9_]*)[\[(]`)

// iteratorFunctionCoverage reads the exported functions of <repo>/iterator/*.go (the tree under
// test) and reports which are driven, which are not and why; a function this harness does not
// know is listed as unclassified, so that a new iterator-returning function cannot go unnoticed.
func iteratorFunctionCoverage() map[string]any {
	files, _ := filepath.Glob(filepath.Join(mc.RepoDir(), "iterator", "*.go"))
	sort.Strings(files)
	var driven, unclassified []string
	notDriven := map[string]string{}
	seen := map[string]bool{}
	for _, f := range files {
		if strings.HasSuffix(f, "_test.go") {
			continue
		}
		b, err := os.ReadFile(f)
		if err != nil {
			continue
		}
		for _, m := range funcDecl.FindAllStringSubmatch(string(b), -1) {
			name := m[1]
			if seen[name] {
				continue
			}
			seen[name] = true
			switch {
			case drivenIteratorFuncs[name]:
				driven = append(driven, name)
			case notDrivenReason[name] != "":
				notDriven[name] = notDrivenReason[name]
			case (strings.HasPrefix(name, "Flap") || strings.HasPrefix(name, "Method")) && len(name) <= 8:
				notDriven[name] = "generated from the same template as Flap3/Method3/Method4, which are driven"
			default:
				unclassified = append(unclassified, name)
			}
		}
	}
	sort.Strings(driven)
	sort.Strings(unclassified)
	return map[string]any{"driven": driven, "not_driven": notDriven, "unclassified(new function, not driven)": unclassified}
}
