// C12 — Iterator and lazy List combinators agree with the eager slice computation, terminate,
// and pull only what the demand requires (+2).
//
// Vocabulary used in all files of this harness:
//
//	stage     one combinator instance int-stream -> int-stream with its parameters chosen
//	terminal  one consuming function (Fold, ToSeq, Min ...) whose result is rendered as a string
//	pipeline  1..3 stages, optionally followed by a terminal
//	demand    (d, h): consume d outputs with HasNext/Next, then (h) ask HasNext once more
//	direct    the pipeline exactly as a user would write it
//	wrapped   the same pipeline with a counting/checking pass-through ("tap") between stages:
//	          gives per-stage pull counts (laziness), per-stage blame for wrong values
//	wildcard  values >= 100 that never occur in a real source; they appear only in the
//	          continuations of the brute-force need computation: bit j of (v-100) is the answer
//	          the predicate-like parameter of the stage at pipeline position j gives on v, so no
//	          parameter is constant on the extended alphabet (a generic implementation cannot
//	          know that a predicate is constant without pulling)
package main

import (
	"fmt"
	"strings"

	"verif/mc"
)

const wBase = 100

func isW(v int) bool       { return v >= wBase }
func wbit(v, pos int) bool { return (v-wBase)>>uint(pos)&1 == 1 }
func wild(bits int) int    { return wBase + bits }
func small(v int) int      { return ((v % 10) + 10) % 10 } // keeps ordinary values below the wildcards

// env is the budget of one run (one construction + consumption of a pipeline).
type env struct {
	x       *mc.X
	ticks   int
	budget  int
	tripped bool
}

type tripped struct{}

func (e *env) tick() {
	e.x.Tick()
	e.ticks++
	if e.ticks > e.budget {
		e.tripped = true
		panic(tripped{})
	}
}

// ---- parameter alphabets -------------------------------------------------------------

type pred struct {
	name string
	f    func(int) bool
}

var preds = []pred{
	{"<2", func(v int) bool { return v < 2 }},
	{"even", func(v int) bool { return v%2 == 0 }},
	{"true", func(v int) bool { return true }},
	{"false", func(v int) bool { return false }},
	{"==1", func(v int) bool { return v == 1 }},
}

// at binds the predicate to a pipeline position (wildcard semantics).
func (p pred) at(pos int) func(int) bool {
	return func(v int) bool {
		if isW(v) {
			return wbit(v, pos)
		}
		return p.f(v)
	}
}

type mapfn struct {
	name string
	f    func(int) int
}

var mapfns = []mapfn{
	{"+1", func(v int) int { return small(v + 1) }},
	{"const7", func(v int) int { return 7 }},
	{"2-v", func(v int) int { return small(2 - v) }},
	{"id", func(v int) int { return v }},
}

func (m mapfn) pure() func(int) int {
	return func(v int) int {
		if isW(v) {
			return v
		}
		return m.f(v)
	}
}

type flatfn struct {
	name string
	f    func(int) []int
}

var flatfns = []flatfn{
	{"v==0?[]:[v,v+1]", func(v int) []int {
		if v == 0 {
			return nil
		}
		return []int{v, small(v + 1)}
	}},
	{"[v]", func(v int) []int { return []int{v} }},
	{"[]", func(v int) []int { return nil }},
	{"[v,v]", func(v int) []int { return []int{v, v} }},
}

func (g flatfn) at(pos int) func(int) []int {
	return func(v int) []int {
		if isW(v) {
			if wbit(v, pos) {
				return []int{v}
			}
			return nil
		}
		return g.f(v)
	}
}

type optfn struct {
	name string
	f    func(int) (int, bool)
}

var optfns = []optfn{
	{"v<2?Some(v+1)", func(v int) (int, bool) { return small(v + 1), v < 2 }},
	{"Some(v)", func(v int) (int, bool) { return v, true }},
	{"None", func(v int) (int, bool) { return 0, false }},
	{"even?Some(v)", func(v int) (int, bool) { return v, v%2 == 0 }},
}

func (o optfn) at(pos int) func(int) (int, bool) {
	return func(v int) (int, bool) {
		if isW(v) {
			return v, wbit(v, pos)
		}
		return o.f(v)
	}
}

type foldfn struct {
	name string
	f    func(acc, v int) int
}

var scanfns = []foldfn{
	{"(acc+v)%10", func(a, v int) int { return small(a + v) }},
	{"max", func(a, v int) int {
		if v > a {
			return v
		}
		return a
	}},
	{"v", func(a, v int) int { return v }},
}

func (f foldfn) pure() func(int, int) int {
	return func(a, v int) int {
		if isW(v) {
			return v
		}
		if isW(a) {
			return a
		}
		return f.f(a, v)
	}
}

// enc renders a pair as one ordinary value (wildcards pass through).
func enc(a, b int) int {
	if isW(a) {
		return a
	}
	if isW(b) {
		return b
	}
	return (a*4 + b) % 97
}

func enc3(a, b, c int) int { return enc(enc(a, b), c) }

// ---- inputs ----------------------------------------------------------------------------

func allInputs(maxLen int) [][]int {
	out := [][]int{{}}
	prev := [][]int{{}}
	for l := 1; l <= maxLen; l++ {
		var cur [][]int
		for _, p := range prev {
			for v := 0; v < 3; v++ {
				cur = append(cur, append(append([]int(nil), p...), v))
			}
		}
		out = append(out, cur...)
		prev = cur
	}
	return out
}

// ---- demand answers ---------------------------------------------------------------------

// sameAnswers: does the demand (d,h) get the same answers on out as on real?
func sameAnswers(out, real []int, d int, h bool) bool {
	k := d
	if len(real) < k {
		k = len(real)
	}
	if len(out) < k {
		return false
	}
	for i := 0; i < k; i++ {
		if out[i] != real[i] {
			return false
		}
	}
	if len(real) < d {
		return len(out) == len(real) // the end was seen at position len(real)
	}
	if h {
		return (len(out) > d) == (len(real) > d)
	}
	return true
}

// continuation families for the brute-force need computation.
func contFamily(alphabet []int, maxLen int, runs []int) [][]int {
	out := [][]int{{}}
	prev := [][]int{{}}
	for l := 1; l <= maxLen; l++ {
		var cur [][]int
		for _, p := range prev {
			for _, v := range alphabet {
				cur = append(cur, append(append([]int(nil), p...), v))
			}
		}
		out = append(out, cur...)
		prev = cur
	}
	for _, v := range alphabet {
		for _, k := range runs {
			r := make([]int, k)
			for i := range r {
				r[i] = v
			}
			out = append(out, r)
		}
	}
	return out
}

// stageFamily: continuations used for one stage in isolation (its own wildcard bit is the only
// one that matters, so all-bits-clear and all-bits-set suffice).
var stageFamily = contFamily([]int{0, 1, 2, wild(0), wild(7)}, 2, []int{3, 4, 5, 6, 8})

// pipeFamily[k]: continuations for a whole pipeline of k parameterised positions.
var pipeFamily = func() [][][]int {
	var out [][][]int
	for k := 0; k <= 4; k++ {
		al := []int{0, 1, 2}
		for b := 0; b < 1<<uint(k); b++ {
			al = append(al, wild(b))
		}
		if k == 0 {
			al = append(al, wild(0))
		}
		out = append(out, contFamily(al, 2, []int{4, 8, 12}))
	}
	return out
}()

// determines: do the first n elements of in fix the answers of demand (d,h) on ref, for every
// continuation of the family?
func determines(ref func([]int) []int, in []int, n int, real []int, d int, h bool, fam [][]int) bool {
	buf := make([]int, 0, n+16)
	for _, c := range fam {
		buf = append(append(buf[:0], in[:n]...), c...)
		if !sameAnswers(ref(buf), real, d, h) {
			return false
		}
	}
	return true
}

// lazyViolation reports the smallest n <= pulls-3 that already determines the answers (so that
// pulls > need+2), or -1.
func lazyViolation(ref func([]int) []int, in []int, pulls, d int, h bool, floor int) int {
	if pulls <= 2 || pulls <= floor+2 {
		return -1
	}
	real := ref(in)
	for n := 0; n <= pulls-3 && n <= len(in); n++ {
		if determines(ref, in, n, real, d, h, stageFamily) {
			return n
		}
	}
	return -1
}

func determinesStr(ref func([]int) string, in []int, n int, real string, fam [][]int) bool {
	buf := make([]int, 0, n+16)
	for _, c := range fam {
		buf = append(append(buf[:0], in[:n]...), c...)
		if ref(buf) != real {
			return false
		}
	}
	return true
}

func lazyViolationStr(ref func([]int) string, in []int, pulls int) int {
	if pulls <= 2 {
		return -1
	}
	real := ref(in)
	for n := 0; n <= pulls-3 && n <= len(in); n++ {
		if determinesStr(ref, in, n, real, stageFamily) {
			return n
		}
	}
	return -1
}

// ---- small helpers ------------------------------------------------------------------------

func eqInts(a, b []int) bool {
	if len(a) != len(b) {
		return false
	}
	for i := range a {
		if a[i] != b[i] {
			return false
		}
	}
	return true
}

func cp(a []int) []int { return append([]int(nil), a...) }

func join(kinds []string) string { return strings.Join(kinds, "|") }

func sprint(v any) string { return fmt.Sprint(v) }

// finding is what one run (direct or wrapped) found wrong.
type finding struct {
	culprit string // catalogue name of the combinator blamed ("" = not attributed)
	what    string // value | panic | nonterm | lazy | unbounded | memo
	msg     string
}

func (f *finding) String() string { return f.culprit + "/" + f.what + ": " + f.msg }
