package main

import (
	"errors"
	"fmt"
	"sort"
	"strings"

	"github.com/csgura/fp"
	"github.com/csgura/fp/hash"
	"github.com/csgura/fp/iterator"
	"github.com/csgura/fp/lazy"
	"github.com/csgura/fp/list"
	"github.com/csgura/fp/option"
	"github.com/csgura/fp/ord"
	"github.com/csgura/fp/seq"
	"github.com/csgura/fp/try"
	"verif/mc"
)

type itkind struct {
	name string
	mk   func(x *mc.X, pos int, reduced bool) iterm
}

// ---- reference helpers (plain loops) --------------------------------------------------------

func step(acc, v int) int { return (acc*7 + v + 1) % 1000003 } // order sensitive

func refFoldLeft(in []int) int {
	acc := 3
	for _, v := range in {
		acc = step(acc, v)
	}
	return acc
}

func refFoldRight(in []int) int {
	acc := 3
	for i := len(in) - 1; i >= 0; i-- {
		acc = step(acc, in[i])
	}
	return acc
}

// a lawful non-commutative monoid on int: the polynomial hash of a string, (h, B^len) packed
// as B^len*hM + h; identity (0,1) = hM. Elements are mapped to single-symbol strings by
// encSingle (harness glue) before they reach the library, so every value is a packed pair.
const hM, hB = 1000003, 131

func encSingle(v int) int { return hB*hM + (v+1)%hM }

func catCombine(x, y int) int {
	hx, px := x%hM, x/hM
	hy, py := y%hM, y/hM
	return (px*py%hM)*hM + (hx*py+hy)%hM
}

type imonoid struct {
	e       *env
	cb      *int
	combine func(a, b int) int
	empty   int
}

func (m imonoid) Combine(a, b int) int { m.e.tick(); *m.cb++; return m.combine(a, b) }
func (m imonoid) Empty() int           { return m.empty }

type monoidSpec struct {
	name    string
	combine func(a, b int) int
	empty   int
}

var monoids = []monoidSpec{
	{"string-hash(non-commutative)", catCombine, hM},
	{"sum", func(a, b int) int { return (a + b) % (hM * hM) }, 0},
}

// refReduce: left fold from Empty over the encoded elements.
func refReduce(m monoidSpec) func([]int) string {
	return func(in []int) string {
		acc := m.empty
		for _, v := range in {
			acc = m.combine(acc, encSingle(v))
		}
		return sprint(acc)
	}
}

var errStop = errors.New("stop")

func optStr(o fp.Option[int]) string {
	if o.IsDefined() {
		return fmt.Sprintf("Some(%d)", o.Get())
	}
	return "None"
}

func tryStr(t fp.Try[int]) string {
	if t.IsSuccess() {
		return fmt.Sprintf("Success(%d)", t.Get())
	}
	return "Failure(" + t.Failed().Get().Error() + ")"
}

func refFind(p func(int) bool) func([]int) string {
	return func(in []int) string {
		for _, v := range in {
			if p(v) {
				return fmt.Sprintf("Some(%d)", v)
			}
		}
		return "None"
	}
}

// foldM-like reference: stop at the first element for which stop() holds.
func refFoldUntil(stop func(int) bool, okf, failf string) func([]int) string {
	return func(in []int) string {
		acc := 3
		for _, v := range in {
			if stop(v) {
				return failf
			}
			acc = step(acc, v)
		}
		return fmt.Sprintf(okf, acc)
	}
}

func groupStr(m map[int]fp.Seq[int]) string {
	keys := []int{}
	for k := range m {
		keys = append(keys, k)
	}
	sort.Ints(keys)
	var sb strings.Builder
	for _, k := range keys {
		fmt.Fprintf(&sb, "%d:%v;", k, []int(m[k]))
	}
	return sb.String()
}

func refGroup(in []int) string {
	m := map[int]fp.Seq[int]{}
	for _, v := range in {
		m[v%2] = append(m[v%2], v)
	}
	return groupStr(m)
}

func refLastWins(in []int) string { // index%3 -> last value
	m := map[int]int{}
	for i, v := range in {
		m[i%3] = v
	}
	return mapStr(m)
}

func mapStr(m map[int]int) string {
	keys := []int{}
	for k := range m {
		keys = append(keys, k)
	}
	sort.Ints(keys)
	var sb strings.Builder
	for _, k := range keys {
		fmt.Fprintf(&sb, "%d:%d;", k, m[k])
	}
	return sb.String()
}

func refSet(in []int) string {
	m := map[int]bool{}
	for _, v := range in {
		m[v] = true
	}
	keys := []int{}
	for k := range m {
		keys = append(keys, k)
	}
	sort.Ints(keys)
	return fmt.Sprint(keys)
}

func fpMapStr(m fp.Map[int, int]) string {
	g := map[int]int{}
	n := 0
	it := m.Iterator()
	for it.HasNext() {
		t := it.Next()
		g[t.I1] = t.I2
		n++
	}
	s := mapStr(g)
	if n != len(g) || m.Size() != len(g) {
		s += fmt.Sprintf("(size %d, iterated %d, distinct %d)", m.Size(), n, len(g))
	}
	for k, v := range g {
		if got := m.Get(k); !got.IsDefined() || got.Get() != v {
			s += fmt.Sprintf("(Get(%d)=%v)", k, got)
		}
	}
	return s
}

func fpSetStr(s fp.Set[int]) string {
	keys := []int{}
	it := s.Iterator()
	for it.HasNext() {
		keys = append(keys, it.Next())
	}
	sort.Ints(keys)
	r := fmt.Sprint(keys)
	if s.Size() != len(keys) {
		r += fmt.Sprintf("(size %d)", s.Size())
	}
	return r
}

func pairs(it fp.Iterator[int]) fp.Iterator[fp.Tuple2[int, int]] {
	i := 0
	return fp.MakeIterator(func() bool { return it.HasNext() }, func() fp.Tuple2[int, int] {
		v := it.Next()
		t := fp.Tuple2[int, int]{I1: i % 3, I2: v}
		i++
		return t
	})
}

func refMin(in []int) string {
	if len(in) == 0 {
		return "None"
	}
	m := in[0]
	for _, v := range in {
		if v < m {
			m = v
		}
	}
	return fmt.Sprintf("Some(%d)", m)
}

func refMax(in []int) string {
	if len(in) == 0 {
		return "None"
	}
	m := in[0]
	for _, v := range in {
		if v > m {
			m = v
		}
	}
	return fmt.Sprintf("Some(%d)", m)
}

func refSorted(in []int) string {
	s := cp(in)
	sort.Ints(s)
	return fmt.Sprint(s)
}

func refFirst(k int) func([]int) string {
	return func(in []int) string {
		if k > len(in) {
			return fmt.Sprint(in) + "$"
		}
		return fmt.Sprint(in[:k])
	}
}

// walk the first k cells of a list (NonEmpty, Head, Tail); "$" marks that the end was seen.
func walkList(l fp.List[int], k int) string {
	out := []int{}
	cur := l
	for i := 0; i < k; i++ {
		if !cur.NonEmpty() {
			return fmt.Sprint(out) + "$"
		}
		out = append(out, cur.Head())
		cur = cur.Tail()
	}
	return fmt.Sprint(out)
}

func simple(name string, ref func([]int) string, run func(e *env, cb *int, it fp.Iterator[int]) string) itkind {
	return itkind{name, func(x *mc.X, pos int, red bool) iterm { return iterm{label: name, ref: ref, run: run} }}
}

func seqStr(in []int) string { return fmt.Sprint(in) }

var iterTermKinds = []itkind{
	simple("Iterator.ToSeq", seqStr, func(e *env, cb *int, it fp.Iterator[int]) string { return fmt.Sprint(it.ToSeq()) }),
	simple("iterator.ToSeq", seqStr, func(e *env, cb *int, it fp.Iterator[int]) string { return fmt.Sprint([]int(iterator.ToSeq(it))) }),
	simple("iterator.ToSlice", seqStr, func(e *env, cb *int, it fp.Iterator[int]) string { return fmt.Sprint(iterator.ToSlice(it)) }),
	simple("seq.Collect", seqStr, func(e *env, cb *int, it fp.Iterator[int]) string { return fmt.Sprint([]int(seq.Collect(it))) }),
	simple("Iterator.Count", func(in []int) string { return sprint(len(in)) }, func(e *env, cb *int, it fp.Iterator[int]) string { return sprint(it.Count()) }),
	simple("Iterator.MakeString", func(in []int) string {
		s := []string{}
		for _, v := range in {
			s = append(s, sprint(v))
		}
		return strings.Join(s, ",")
	}, func(e *env, cb *int, it fp.Iterator[int]) string { return it.MakeString(",") }),
	simple("Iterator.Foreach", seqStr, func(e *env, cb *int, it fp.Iterator[int]) string {
		out := []int{}
		it.Foreach(func(v int) { e.tick(); *cb++; out = append(out, v) })
		return fmt.Sprint(out)
	}),
	{"Iterator.Find", func(x *mc.X, pos int, red bool) iterm {
		p := pickPred(x, red)
		pp := p.at(pos)
		return iterm{label: "Find(" + p.name + ")", shortCircuit: true, ref: refFind(pp),
			run: func(e *env, cb *int, it fp.Iterator[int]) string { return optStr(it.Find(ipred(e, cb, pp))) }}
	}},
	{"Iterator.Exists", func(x *mc.X, pos int, red bool) iterm {
		p := pickPred(x, red)
		pp := p.at(pos)
		return iterm{label: "Exists(" + p.name + ")", shortCircuit: true, ref: func(in []int) string {
			for _, v := range in {
				if pp(v) {
					return "true"
				}
			}
			return "false"
		}, run: func(e *env, cb *int, it fp.Iterator[int]) string { return sprint(it.Exists(ipred(e, cb, pp))) }}
	}},
	{"Iterator.ForAll", func(x *mc.X, pos int, red bool) iterm {
		p := pickPred(x, red)
		pp := p.at(pos)
		return iterm{label: "ForAll(" + p.name + ")", shortCircuit: true, ref: func(in []int) string {
			for _, v := range in {
				if !pp(v) {
					return "false"
				}
			}
			return "true"
		}, run: func(e *env, cb *int, it fp.Iterator[int]) string { return sprint(it.ForAll(ipred(e, cb, pp))) }}
	}},
	{"Iterator.IsEmpty/NonEmpty", func(x *mc.X, pos int, red bool) iterm {
		return iterm{label: "IsEmpty,NonEmpty", shortCircuit: true, ref: func(in []int) string { return fmt.Sprint(len(in) == 0, len(in) != 0) },
			run: func(e *env, cb *int, it fp.Iterator[int]) string { return fmt.Sprint(it.IsEmpty(), it.NonEmpty()) }}
	}},
	{"Iterator.NextOption", func(x *mc.X, pos int, red bool) iterm {
		k := 1 + x.Choose(2, "times")
		return iterm{label: fmt.Sprintf("NextOption x%d", k), shortCircuit: true, ref: func(in []int) string {
			s := ""
			for i := 0; i < k; i++ {
				if i < len(in) {
					s += fmt.Sprintf("Some(%d)", in[i])
				} else {
					s += "None"
				}
			}
			return s
		}, run: func(e *env, cb *int, it fp.Iterator[int]) string {
			s := ""
			for i := 0; i < k; i++ {
				s += optStr(it.NextOption())
			}
			return s
		}}
	}},
	{"Iterator.All", func(x *mc.X, pos int, red bool) iterm {
		k := []int{99, 0, 1, 2}[x.Choose(4, "break-after")]
		return iterm{label: fmt.Sprintf("range All() break after %d", k), shortCircuit: k < 99, ref: func(in []int) string {
			if k+1 < len(in) {
				return fmt.Sprint(in[:k+1])
			}
			return fmt.Sprint(in)
		}, run: func(e *env, cb *int, it fp.Iterator[int]) string {
			out := []int{}
			for v := range it.All() {
				e.tick()
				out = append(out, v)
				if len(out) > k {
					break
				}
			}
			return fmt.Sprint(out)
		}}
	}},
	simple("iterator.Fold", func(in []int) string { return sprint(refFoldLeft(in)) }, func(e *env, cb *int, it fp.Iterator[int]) string {
		return sprint(iterator.Fold(it, 3, func(a, v int) int { e.tick(); *cb++; return step(a, v) }))
	}),
	{"iterator.FoldTry", func(x *mc.X, pos int, red bool) iterm {
		p := pickPred(x, red)
		pp := p.at(pos)
		return iterm{label: "FoldTry(fail on " + p.name + ")", shortCircuit: true, ref: refFoldUntil(pp, "Success(%d)", "Failure(stop)"),
			run: func(e *env, cb *int, it fp.Iterator[int]) string {
				return tryStr(iterator.FoldTry(it, 3, func(a, v int) fp.Try[int] {
					e.tick()
					*cb++
					if pp(v) {
						return fp.Failure[int](errStop)
					}
					return fp.Success(step(a, v))
				}))
			}}
	}},
	{"try.FoldM", func(x *mc.X, pos int, red bool) iterm {
		p := pickPred(x, red)
		pp := p.at(pos)
		return iterm{label: "try.FoldM(fail on " + p.name + ")", shortCircuit: true, ref: refFoldUntil(pp, "Success(%d)", "Failure(stop)"),
			run: func(e *env, cb *int, it fp.Iterator[int]) string {
				return tryStr(try.FoldM(it, 3, func(a, v int) fp.Try[int] {
					e.tick()
					*cb++
					if pp(v) {
						return fp.Failure[int](errStop)
					}
					return fp.Success(step(a, v))
				}))
			}}
	}},
	{"iterator.FoldOption", func(x *mc.X, pos int, red bool) iterm {
		p := pickPred(x, red)
		pp := p.at(pos)
		return iterm{label: "FoldOption(None on " + p.name + ")", shortCircuit: true, ref: refFoldUntil(pp, "Some(%d)", "None"),
			run: func(e *env, cb *int, it fp.Iterator[int]) string {
				return optStr(iterator.FoldOption(it, 3, func(a, v int) fp.Option[int] {
					e.tick()
					*cb++
					if pp(v) {
						return fp.None[int]()
					}
					return fp.Some(step(a, v))
				}))
			}}
	}},
	{"option.FoldM", func(x *mc.X, pos int, red bool) iterm {
		p := pickPred(x, red)
		pp := p.at(pos)
		return iterm{label: "option.FoldM(None on " + p.name + ")", shortCircuit: true, ref: refFoldUntil(pp, "Some(%d)", "None"),
			run: func(e *env, cb *int, it fp.Iterator[int]) string {
				return optStr(option.FoldM(it, 3, func(a, v int) fp.Option[int] {
					e.tick()
					*cb++
					if pp(v) {
						return fp.None[int]()
					}
					return fp.Some(step(a, v))
				}))
			}}
	}},
	{"iterator.FoldError", func(x *mc.X, pos int, red bool) iterm {
		p := pickPred(x, red)
		pp := p.at(pos)
		return iterm{label: "FoldError(error on " + p.name + ")", shortCircuit: true, ref: func(in []int) string {
			seen := []int{}
			for _, v := range in {
				seen = append(seen, v)
				if pp(v) {
					return fmt.Sprintf("%v %v", seen, "stop")
				}
			}
			return fmt.Sprintf("%v %v", seen, "<nil>")
		}, run: func(e *env, cb *int, it fp.Iterator[int]) string {
			seen := []int{}
			err := iterator.FoldError(it, func(v int) error {
				e.tick()
				*cb++
				seen = append(seen, v)
				if pp(v) {
					return errStop
				}
				return nil
			})
			return fmt.Sprintf("%v %v", seen, err)
		}}
	}},
	simple("iterator.FoldRight", func(in []int) string { return sprint(refFoldRight(in)) }, func(e *env, cb *int, it fp.Iterator[int]) string {
		return sprint(iterator.FoldRight(it, 3, func(v int, rest lazy.Eval[int]) lazy.Eval[int] {
			e.tick()
			*cb++
			return rest.Map(func(r int) int { return step(r, v) })
		}).Get())
	}),
	{"iterator.FoldRight(short-circuit)", func(x *mc.X, pos int, red bool) iterm {
		p := pickPred(x, red)
		pp := p.at(pos)
		return iterm{label: "FoldRight(stop at " + p.name + ")", shortCircuit: true, ref: func(in []int) string {
			end := len(in)
			acc := 3
			for i, v := range in {
				if pp(v) {
					end = i
					acc = v
					break
				}
			}
			for i := end - 1; i >= 0; i-- {
				acc = step(acc, in[i])
			}
			return sprint(acc)
		}, run: func(e *env, cb *int, it fp.Iterator[int]) string {
			return sprint(iterator.FoldRight(it, 3, func(v int, rest lazy.Eval[int]) lazy.Eval[int] {
				e.tick()
				*cb++
				if pp(v) {
					return lazy.Done(v)
				}
				return rest.Map(func(r int) int { return step(r, v) })
			}).Get())
		}}
	}},
	{"iterator.Reduce", func(x *mc.X, pos int, red bool) iterm {
		m := monoids[x.Choose(len(monoids), "monoid")]
		return iterm{label: "Reduce(" + m.name + ")", ref: refReduce(m), run: func(e *env, cb *int, it fp.Iterator[int]) string {
			return sprint(iterator.Reduce[int](glue(it, encSingle), imonoid{e, cb, m.combine, m.empty}))
		}}
	}},
	simple("iterator.GroupBy", refGroup, func(e *env, cb *int, it fp.Iterator[int]) string {
		return groupStr(iterator.GroupBy(it, func(v int) int { e.tick(); *cb++; return v % 2 }))
	}),
	simple("iterator.ToMap", refLastWins, func(e *env, cb *int, it fp.Iterator[int]) string {
		return fpMapStr(iterator.ToMap(pairs(it), hash.Number[int]()))
	}),
	simple("iterator.ToGoMap", refLastWins, func(e *env, cb *int, it fp.Iterator[int]) string { return mapStr(iterator.ToGoMap(pairs(it))) }),
	simple("iterator.ToSet", refSet, func(e *env, cb *int, it fp.Iterator[int]) string {
		return fpSetStr(iterator.ToSet(it, hash.Number[int]()))
	}),
	simple("iterator.ToGoSet", refSet, func(e *env, cb *int, it fp.Iterator[int]) string {
		keys := []int{}
		for k, ok := range iterator.ToGoSet(it) {
			if ok {
				keys = append(keys, k)
			}
		}
		sort.Ints(keys)
		return fmt.Sprint(keys)
	}),
	simple("iterator.Min", refMin, func(e *env, cb *int, it fp.Iterator[int]) string { return optStr(iterator.Min(it, ord.Given[int]())) }),
	simple("iterator.Max", refMax, func(e *env, cb *int, it fp.Iterator[int]) string { return optStr(iterator.Max(it, ord.Given[int]())) }),
	simple("iterator.Sort", refSorted, func(e *env, cb *int, it fp.Iterator[int]) string {
		return fmt.Sprint([]int(iterator.Sort(it, ord.Given[int]())))
	}),
	{"iterator.ToList", func(x *mc.X, pos int, red bool) iterm {
		k := []int{99, 0, 1, 2}[x.Choose(4, "cells")]
		return iterm{label: fmt.Sprintf("ToList, walk %d cells twice", k), shortCircuit: k < 99, look: 1, ref: func(in []int) string { return refFirst(k)(in) + refFirst(k)(in) },
			run: func(e *env, cb *int, it fp.Iterator[int]) string {
				l := iterator.ToList(it)
				return walkList(l, k) + walkList(l, k)
			}}
	}},
	{"list.Collect", func(x *mc.X, pos int, red bool) iterm {
		k := []int{99, 0, 1, 2}[x.Choose(4, "cells")]
		return iterm{label: fmt.Sprintf("list.Collect, walk %d cells twice", k), shortCircuit: k < 99, look: 1, ref: func(in []int) string { return refFirst(k)(in) + refFirst(k)(in) },
			run: func(e *env, cb *int, it fp.Iterator[int]) string {
				l := list.Collect(it)
				return walkList(l, k) + walkList(l, k)
			}}
	}},
}

func init() {
	for i := range iterTermKinds {
		k := iterTermKinds[i]
		mk := k.mk
		iterTermKinds[i].mk = func(x *mc.X, pos int, red bool) iterm {
			t := mk(x, pos, red)
			t.kind = k.name
			return t
		}
	}
}
