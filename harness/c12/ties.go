package main

import (
	"fmt"
	"sort"
	"strings"

	"github.com/csgura/fp"
	"github.com/csgura/fp/eq"
	"github.com/csgura/fp/hash"
	"github.com/csgura/fp/iterator"
	"github.com/csgura/fp/lazy"
	"github.com/csgura/fp/list"
	"github.com/csgura/fp/ord"
	"github.com/csgura/fp/seq"
	"verif/mc"
)

// Ties: distinguishable elements that the Ord / Eq / Hashable / key function given to the
// operation treats as equivalent. item{Key, Tag}: the instances look at Key only, Tag tells
// equivalent elements apart. Oracle: the Iterator and the List function give exactly what the
// eager counterpart in package seq gives on the same elements (which of several equivalent
// elements is chosen, their relative order, which duplicate key wins).

type item struct{ Key, Tag int }

func (i item) String() string { return fmt.Sprintf("%d%c", i.Key, 'a'+rune(i.Tag)) }

var itemAlphabet = []item{{1, 0}, {1, 1}, {2, 0}, {2, 1}}

func allItemInputs(maxLen int) [][]item {
	out := [][]item{{}}
	prev := [][]item{{}}
	for l := 1; l <= maxLen; l++ {
		var cur [][]item
		for _, p := range prev {
			for _, v := range itemAlphabet {
				cur = append(cur, append(append([]item(nil), p...), v))
			}
		}
		out = append(out, cur...)
		prev = cur
	}
	return out
}

func keyOf(i item) int { return i.Key }

type ordSpec struct {
	name string
	mk   func() fp.Ord[item]
}

var itemOrds = []ordSpec{
	{"ord.GivenField(Key)", func() fp.Ord[item] { return ord.GivenField(keyOf) }},
	{"ord.ContraMap(ord.Given[int], Key)", func() fp.Ord[item] { return ord.ContraMap(ord.Given[int](), keyOf) }},
	{"ord.FromCompare(Key)", func() fp.Ord[item] { return ord.FromCompare(func(a, b item) int { return a.Key - b.Key }) }},
	{"ord.GivenField(Key).Reversed()", func() fp.Ord[item] { return ord.GivenField(keyOf).Reversed() }},
	{"ord.FromCompare(Key,Tag) (total)", func() fp.Ord[item] {
		return ord.FromCompare(func(a, b item) int {
			if a.Key != b.Key {
				return a.Key - b.Key
			}
			return a.Tag - b.Tag
		})
	}},
}

var keyHasher = hash.New[item](eq.New(func(a, b item) bool { return a.Key == b.Key }), func(i item) uint32 { return uint32(i.Key) })

// ---- sources (fresh per call, instrumented) ----

func itemIter(e *env, kind int, data []item) fp.Iterator[item] {
	switch kind {
	case 1:
		return fp.IteratorOfSeq(append([]item(nil), data...))
	case 2:
		return iterator.FromList(itemList(e, 0, data))
	}
	pos := 0
	return fp.MakeIterator(func() bool { e.tick(); return pos < len(data) }, func() item {
		e.tick()
		if pos >= len(data) {
			panic("next on empty iterator (harness source)")
		}
		v := data[pos]
		pos++
		return v
	})
}

func itemList(e *env, kind int, data []item) fp.List[item] {
	switch kind {
	case 1:
		return list.Of(append([]item(nil), data...)...)
	case 2:
		return list.Collect(itemIter(e, 0, data))
	}
	return list.Generate(func(i int) fp.Option[item] {
		e.tick()
		if i < len(data) {
			return fp.Some(data[i])
		}
		return fp.None[item]()
	})
}

var itemIterKinds = []string{"MakeIterator(harness)", "fp.IteratorOfSeq", "iterator.FromList(list.Generate)"}
var itemListKinds = []string{"list.Generate", "list.Of", "list.Collect(iterator)"}

// ---- rendering ----

func groupItems(m map[int]fp.Seq[item]) string {
	keys := []int{}
	for k := range m {
		keys = append(keys, k)
	}
	sort.Ints(keys)
	var sb strings.Builder
	for _, k := range keys {
		fmt.Fprintf(&sb, "%d:%v;", k, []item(m[k]))
	}
	return sb.String()
}

func sortedStrings(ss []string) string {
	sort.Strings(ss)
	return strings.Join(ss, ",")
}

func fpMapItems(m fp.Map[item, int]) string {
	var ss []string
	it := m.Iterator()
	for it.HasNext() {
		t := it.Next()
		ss = append(ss, fmt.Sprintf("%v->%d", t.I1, t.I2))
	}
	return fmt.Sprintf("size %d {%s}", m.Size(), sortedStrings(ss))
}

func fpSetItems(s fp.Set[item]) string {
	var ss []string
	it := s.Iterator()
	for it.HasNext() {
		ss = append(ss, it.Next().String())
	}
	return fmt.Sprintf("size %d {%s}", s.Size(), sortedStrings(ss))
}

func goMapItems(m map[int]item) string {
	var ss []string
	for k, v := range m {
		ss = append(ss, fmt.Sprintf("%d->%v", k, v))
	}
	return sortedStrings(ss)
}

func goSetItems(m map[item]bool) string {
	var ss []string
	for k, ok := range m {
		if ok {
			ss = append(ss, k.String())
		}
	}
	return sortedStrings(ss)
}

func indexed(data []item) []fp.Tuple2[item, int] {
	out := make([]fp.Tuple2[item, int], len(data))
	for i, v := range data {
		out[i] = fp.Tuple2[item, int]{I1: v, I2: i}
	}
	return out
}

func keyed(data []item) []fp.Tuple2[int, item] {
	out := make([]fp.Tuple2[int, item], len(data))
	for i, v := range data {
		out[i] = fp.Tuple2[int, item]{I1: v.Key, I2: v}
	}
	return out
}

func pairIter[A, B any](e *env, ps []fp.Tuple2[A, B]) fp.Iterator[fp.Tuple2[A, B]] {
	pos := 0
	return fp.MakeIterator(func() bool { e.tick(); return pos < len(ps) }, func() fp.Tuple2[A, B] {
		e.tick()
		v := ps[pos]
		pos++
		return v
	})
}

func pairList[A, B any](e *env, ps []fp.Tuple2[A, B]) fp.List[fp.Tuple2[A, B]] {
	return list.Generate(func(i int) fp.Option[fp.Tuple2[A, B]] {
		e.tick()
		if i < len(ps) {
			return fp.Some(ps[i])
		}
		return fp.None[fp.Tuple2[A, B]]()
	})
}

// two lawful, non-commutative monoids on item (identity: the zero item, which is not in the alphabet)
type itemMonoid struct{ first bool }

func (m itemMonoid) Empty() item { return item{} }
func (m itemMonoid) Combine(a, b item) item {
	if a == (item{}) {
		return b
	}
	if b == (item{}) {
		return a
	}
	if m.first {
		return a
	}
	return b
}

// keepKey: an order-sensitive fold step that only looks at keys: keeps the accumulated element
// while the key stays the same, otherwise moves to the new element.
func keepKey(acc item, v item) item {
	if acc.Key == v.Key {
		return acc
	}
	return v
}

// tieOp is one operation family: the eager seq result, the iterator result(s), the list result(s).
type tieOp struct {
	name   string
	params int // number of parameter choices (ords ...)
	label  func(p int) string
	eager  func(p int, data []item) string
	iter   map[string]func(e *env, p int, it func() fp.Iterator[item], data []item) string
	list   map[string]func(e *env, p int, l func() fp.List[item], data []item) string
}

func ordLabel(p int) string { return itemOrds[p].name }
func noLabel(int) string    { return "" }

var keyPreds = []struct {
	name string
	f    func(item) bool
}{
	{"Key==2", func(i item) bool { return i.Key == 2 }},
	{"Key==1", func(i item) bool { return i.Key == 1 }},
}

var tieOps = []tieOp{
	{name: "Min", params: len(itemOrds), label: ordLabel,
		eager: func(p int, d []item) string { return fmt.Sprint(seq.Min(d, itemOrds[p].mk())) },
		iter: map[string]func(*env, int, func() fp.Iterator[item], []item) string{
			"iterator.Min": func(e *env, p int, it func() fp.Iterator[item], d []item) string {
				return fmt.Sprint(iterator.Min(it(), itemOrds[p].mk()))
			}},
		list: map[string]func(*env, int, func() fp.List[item], []item) string{
			"list.Min": func(e *env, p int, l func() fp.List[item], d []item) string {
				return fmt.Sprint(list.Min(l(), itemOrds[p].mk()))
			}}},
	{name: "Max", params: len(itemOrds), label: ordLabel,
		eager: func(p int, d []item) string { return fmt.Sprint(seq.Max(d, itemOrds[p].mk())) },
		iter: map[string]func(*env, int, func() fp.Iterator[item], []item) string{
			"iterator.Max": func(e *env, p int, it func() fp.Iterator[item], d []item) string {
				return fmt.Sprint(iterator.Max(it(), itemOrds[p].mk()))
			}},
		list: map[string]func(*env, int, func() fp.List[item], []item) string{
			"list.Max": func(e *env, p int, l func() fp.List[item], d []item) string {
				return fmt.Sprint(list.Max(l(), itemOrds[p].mk()))
			}}},
	{name: "Sort", params: len(itemOrds), label: ordLabel,
		eager: func(p int, d []item) string {
			return fmt.Sprint([]item(seq.Sort(append([]item(nil), d...), itemOrds[p].mk())))
		},
		iter: map[string]func(*env, int, func() fp.Iterator[item], []item) string{
			"iterator.Sort": func(e *env, p int, it func() fp.Iterator[item], d []item) string {
				return fmt.Sprint([]item(iterator.Sort(it(), itemOrds[p].mk())))
			}},
		list: map[string]func(*env, int, func() fp.List[item], []item) string{
			"list.Sort": func(e *env, p int, l func() fp.List[item], d []item) string {
				return fmt.Sprint([]item(list.Sort(l(), itemOrds[p].mk())))
			}}},
	{name: "GroupBy", params: 2, label: func(p int) string { return []string{"by Key", "by Tag"}[p] },
		eager: func(p int, d []item) string { return groupItems(seq.GroupBy(d, groupKey(p))) },
		iter: map[string]func(*env, int, func() fp.Iterator[item], []item) string{
			"iterator.GroupBy": func(e *env, p int, it func() fp.Iterator[item], d []item) string {
				return groupItems(iterator.GroupBy(it(), groupKey(p)))
			}},
		list: map[string]func(*env, int, func() fp.List[item], []item) string{
			"list.GroupBy": func(e *env, p int, l func() fp.List[item], d []item) string {
				return groupItems(list.GroupBy(l(), groupKey(p)))
			}}},
	{name: "ToMap", params: 1, label: func(int) string { return "Hashable on Key only, value = position" },
		eager: func(p int, d []item) string { return fpMapItems(seq.ToMap(indexed(d), keyHasher)) },
		iter: map[string]func(*env, int, func() fp.Iterator[item], []item) string{
			"iterator.ToMap": func(e *env, p int, it func() fp.Iterator[item], d []item) string {
				return fpMapItems(iterator.ToMap(pairIter(e, indexed(d)), keyHasher))
			}},
		list: map[string]func(*env, int, func() fp.List[item], []item) string{
			"list.ToMap": func(e *env, p int, l func() fp.List[item], d []item) string {
				return fpMapItems(list.ToMap(pairList(e, indexed(d)), keyHasher))
			}}},
	{name: "ToGoMap", params: 1, label: func(int) string { return "key = Key, value = element" },
		eager: func(p int, d []item) string { return goMapItems(seq.ToGoMap(keyed(d))) },
		iter: map[string]func(*env, int, func() fp.Iterator[item], []item) string{
			"iterator.ToGoMap": func(e *env, p int, it func() fp.Iterator[item], d []item) string {
				return goMapItems(iterator.ToGoMap(pairIter(e, keyed(d))))
			}},
		list: map[string]func(*env, int, func() fp.List[item], []item) string{
			"list.ToGoMap": func(e *env, p int, l func() fp.List[item], d []item) string {
				return goMapItems(list.ToGoMap(pairList(e, keyed(d))))
			}}},
	{name: "ToSet", params: 1, label: func(int) string { return "Hashable on Key only" },
		eager: func(p int, d []item) string { return fpSetItems(seq.ToSet(d, keyHasher)) },
		iter: map[string]func(*env, int, func() fp.Iterator[item], []item) string{
			"iterator.ToSet": func(e *env, p int, it func() fp.Iterator[item], d []item) string {
				return fpSetItems(iterator.ToSet(it(), keyHasher))
			}},
		list: map[string]func(*env, int, func() fp.List[item], []item) string{
			"list.ToSet": func(e *env, p int, l func() fp.List[item], d []item) string {
				return fpSetItems(list.ToSet(l(), keyHasher))
			}}},
	{name: "ToGoSet", params: 1, label: noLabel,
		eager: func(p int, d []item) string { return goSetItems(seq.ToGoSet(d)) },
		iter: map[string]func(*env, int, func() fp.Iterator[item], []item) string{
			"iterator.ToGoSet": func(e *env, p int, it func() fp.Iterator[item], d []item) string {
				return goSetItems(iterator.ToGoSet(it()))
			}},
		list: map[string]func(*env, int, func() fp.List[item], []item) string{
			"list.ToGoSet": func(e *env, p int, l func() fp.List[item], d []item) string { return goSetItems(list.ToGoSet(l())) }}},
	{name: "Find", params: len(keyPreds), label: func(p int) string { return keyPreds[p].name },
		eager: func(p int, d []item) string { return fmt.Sprint(fp.Seq[item](d).Find(keyPreds[p].f)) },
		iter: map[string]func(*env, int, func() fp.Iterator[item], []item) string{
			"Iterator.Find": func(e *env, p int, it func() fp.Iterator[item], d []item) string {
				return fmt.Sprint(it().Find(keyPreds[p].f))
			},
			"Iterator.Filter+NextOption": func(e *env, p int, it func() fp.Iterator[item], d []item) string {
				return fmt.Sprint(it().Filter(keyPreds[p].f).NextOption())
			}},
		list: map[string]func(*env, int, func() fp.List[item], []item) string{}},
	{name: "Filter", params: len(keyPreds), label: func(p int) string { return keyPreds[p].name },
		eager: func(p int, d []item) string { return fmt.Sprint([]item(fp.Seq[item](d).Filter(keyPreds[p].f))) },
		iter: map[string]func(*env, int, func() fp.Iterator[item], []item) string{
			"Iterator.Filter": func(e *env, p int, it func() fp.Iterator[item], d []item) string {
				return fmt.Sprint(it().Filter(keyPreds[p].f).ToSeq())
			},
			"iterator.Partition.left": func(e *env, p int, it func() fp.Iterator[item], d []item) string {
				l, _ := iterator.Partition(it(), keyPreds[p].f)
				return fmt.Sprint(l.ToSeq())
			}},
		list: map[string]func(*env, int, func() fp.List[item], []item) string{}},
	{name: "Span", params: len(keyPreds), label: func(p int) string { return keyPreds[p].name },
		eager: func(p int, d []item) string {
			l, r := seq.Span(d, keyPreds[p].f)
			return fmt.Sprint([]item(l), []item(r))
		},
		iter: map[string]func(*env, int, func() fp.Iterator[item], []item) string{
			"iterator.Span": func(e *env, p int, it func() fp.Iterator[item], d []item) string {
				l, r := iterator.Span(it(), keyPreds[p].f)
				ls := l.ToSeq()
				return fmt.Sprint(ls, r.ToSeq())
			}},
		list: map[string]func(*env, int, func() fp.List[item], []item) string{}},
	{name: "Partition", params: len(keyPreds), label: func(p int) string { return keyPreds[p].name },
		eager: func(p int, d []item) string {
			l, r := seq.Partition(d, keyPreds[p].f)
			return fmt.Sprint([]item(l), []item(r))
		},
		iter: map[string]func(*env, int, func() fp.Iterator[item], []item) string{
			"iterator.Partition": func(e *env, p int, it func() fp.Iterator[item], d []item) string {
				l, r := iterator.Partition(it(), keyPreds[p].f)
				rs := r.ToSeq()
				return fmt.Sprint(l.ToSeq(), rs)
			}},
		list: map[string]func(*env, int, func() fp.List[item], []item) string{}},
	{name: "Reduce", params: 2, label: func(p int) string { return []string{"monoid keep-first", "monoid keep-last"}[p] },
		eager: func(p int, d []item) string { return fmt.Sprint(seq.Reduce[item](d, itemMonoid{p == 0})) },
		iter: map[string]func(*env, int, func() fp.Iterator[item], []item) string{
			"iterator.Reduce": func(e *env, p int, it func() fp.Iterator[item], d []item) string {
				return fmt.Sprint(iterator.Reduce[item](it(), itemMonoid{p == 0}))
			}},
		list: map[string]func(*env, int, func() fp.List[item], []item) string{
			"list.Reduce": func(e *env, p int, l func() fp.List[item], d []item) string {
				return fmt.Sprint(list.Reduce[item](l(), itemMonoid{p == 0}))
			}}},
	{name: "FoldMap", params: 2, label: func(p int) string { return []string{"monoid keep-first", "monoid keep-last"}[p] },
		eager: func(p int, d []item) string {
			return fmt.Sprint(seq.FoldMap[item, item](d, itemMonoid{p == 0}, fp.Id[item]))
		},
		iter: map[string]func(*env, int, func() fp.Iterator[item], []item) string{},
		list: map[string]func(*env, int, func() fp.List[item], []item) string{
			"list.FoldMap": func(e *env, p int, l func() fp.List[item], d []item) string {
				return fmt.Sprint(list.FoldMap[item, item](l(), itemMonoid{p == 0}, fp.Id[item]))
			}}},
	{name: "Fold", params: 1, label: func(int) string { return "keep the element while the key repeats" },
		eager: func(p int, d []item) string { return fmt.Sprint(seq.Fold(d, item{}, keepKey)) },
		iter: map[string]func(*env, int, func() fp.Iterator[item], []item) string{
			"iterator.Fold": func(e *env, p int, it func() fp.Iterator[item], d []item) string {
				return fmt.Sprint(iterator.Fold(it(), item{}, keepKey))
			}},
		list: map[string]func(*env, int, func() fp.List[item], []item) string{
			"list.Fold": func(e *env, p int, l func() fp.List[item], d []item) string {
				return fmt.Sprint(list.Fold(l(), item{}, keepKey))
			},
			"list.FoldLeft": func(e *env, p int, l func() fp.List[item], d []item) string {
				return fmt.Sprint(list.FoldLeft(l(), item{}, keepKey))
			},
			"list.FoldLeftUsingMap": func(e *env, p int, l func() fp.List[item], d []item) string {
				return fmt.Sprint(list.FoldLeftUsingMap(l(), item{}, keepKey))
			}}},
	{name: "FoldRight", params: 1, label: func(int) string { return "keep the element while the key repeats, from the right" },
		eager: func(p int, d []item) string { return fmt.Sprint(seq.FoldRight(d, item{}, foldRightStep).Get()) },
		iter: map[string]func(*env, int, func() fp.Iterator[item], []item) string{
			"iterator.FoldRight": func(e *env, p int, it func() fp.Iterator[item], d []item) string {
				return fmt.Sprint(iterator.FoldRight(it(), item{}, foldRightStep).Get())
			}},
		list: map[string]func(*env, int, func() fp.List[item], []item) string{
			"list.FoldRight": func(e *env, p int, l func() fp.List[item], d []item) string {
				return fmt.Sprint(list.FoldRight(l(), item{}, foldRightStep).Get())
			},
			"list.FoldRightUsingMap": func(e *env, p int, l func() fp.List[item], d []item) string {
				return fmt.Sprint(list.FoldRightUsingMap(l(), item{}, func(v, acc item) item { return keepKey(acc, v) }))
			}}},
	{name: "Scan", params: 1, label: func(int) string { return "keep the element while the key repeats" },
		eager: func(p int, d []item) string { return fmt.Sprint([]item(seq.Scan(d, item{}, keepKey))) },
		iter: map[string]func(*env, int, func() fp.Iterator[item], []item) string{
			"iterator.Scan": func(e *env, p int, it func() fp.Iterator[item], d []item) string {
				return fmt.Sprint(iterator.Scan(it(), item{}, keepKey).ToSeq())
			}},
		list: map[string]func(*env, int, func() fp.List[item], []item) string{
			"list.Scan": func(e *env, p int, l func() fp.List[item], d []item) string {
				return fmt.Sprint(list.Scan(l(), item{}, keepKey).ToSeq())
			}}},
}

func groupKey(p int) func(item) int {
	if p == 0 {
		return func(i item) int { return i.Key }
	}
	return func(i item) int { return i.Tag }
}

func foldRightStep(v item, rest lazy.Eval[item]) lazy.Eval[item] {
	return rest.Map(func(acc item) item { return keepKey(acc, v) })
}

func sortedKeys[V any](m map[string]V) []string {
	var ks []string
	for k := range m {
		ks = append(ks, k)
	}
	sort.Strings(ks)
	return ks
}

// tiesScenario: operation x parameter x source kinds x input; every Iterator and List variant
// of the operation against the eager seq result on the same elements.
func tiesScenario(inputs [][]item) func(x *mc.X) {
	return func(x *mc.X) {
		op := tieOps[x.Choose(len(tieOps), "operation")]
		p := 0
		if op.params > 1 {
			p = x.Choose(op.params, "parameter")
		}
		ik := x.Choose(len(itemIterKinds), "iterator source")
		lk := x.Choose(len(itemListKinds), "list source")
		data := mc.Pick(x, "input", inputs)
		x.Tag("ties:" + op.name)
		e := &env{x: x, budget: 4000}
		var want string
		if pv := mc.Catch(func() { want = op.eager(p, append([]item(nil), data...)) }); pv != nil {
			x.Fail("seq."+op.name+"/panic", "seq.%s(%s) over %v panicked: %v", op.name, op.label(p), data, pv)
		}
		x.Logf("seq.%s(%s) over %v = %s", op.name, op.label(p), data, want)
		for _, name := range sortedKeys(op.iter) {
			f := op.iter[name]
			var got string
			pv := mc.Catch(func() { got = f(e, p, func() fp.Iterator[item] { return itemIter(e, ik, data) }, data) })
			x.Logf("%s over %s = %s panic=%v", name, itemIterKinds[ik], got, pv)
			x.Tag(name)
			if pv != nil {
				what := "panic"
				if e.tripped {
					what = "nonterm"
				}
				x.Fail(name+"/"+what, "%s(%s) over %s %v: %v", name, op.label(p), itemIterKinds[ik], data, pv)
			}
			if got != want {
				x.Fail(name+"/differs-from-seq", "%s(%s) over %s %v = %s, the eager seq.%s on the same elements = %s", name, op.label(p), itemIterKinds[ik], data, got, op.name, want)
			}
		}
		for _, name := range sortedKeys(op.list) {
			f := op.list[name]
			var got string
			pv := mc.Catch(func() { got = f(e, p, func() fp.List[item] { return itemList(e, lk, data) }, data) })
			x.Logf("%s over %s = %s panic=%v", name, itemListKinds[lk], got, pv)
			x.Tag(name)
			if pv != nil {
				what := "panic"
				if e.tripped {
					what = "nonterm"
				}
				x.Fail(name+"/"+what, "%s(%s) over %s %v: %v", name, op.label(p), itemListKinds[lk], data, pv)
			}
			if got != want {
				x.Fail(name+"/differs-from-seq", "%s(%s) over %s %v = %s, the eager seq.%s on the same elements = %s", name, op.label(p), itemListKinds[lk], data, got, op.name, want)
			}
		}
		x.Observe(op.name, p, want)
		// non-trivial: two distinguishable elements with the same key are present
		seen := map[int]int{}
		for _, v := range data {
			seen[v.Key] |= 1 << uint(v.Tag)
		}
		for _, m := range seen {
			if m == 3 {
				x.NonTrivial()
				x.Tag("ties:input-has-equivalent-distinguishable-elements")
				break
			}
		}
	}
}
