package main

import (
	"fmt"

	"github.com/csgura/fp"
	"github.com/csgura/fp/iterator"
	"github.com/csgura/fp/list"
	"verif/mc"
)

// istage is one Iterator combinator instance (parameters fixed).
type istage struct {
	kind  string // catalogue name, e.g. "Iterator.Filter"
	label string // with parameters
	ref   func(in []int) []int
	build func(e *env, cb *int, in fp.Iterator[int]) fp.Iterator[int]
	// floor: elements of the input that count as needed whatever the demand (Drop(n) skips its
	// n elements when it is constructed; DESIGN C12 counts them as needed).
	floor func(in []int) int
	// eagerN > 0: the stage consumes eagerN elements of its input when it is constructed.
	eagerN int
	// look: documented look-ahead of the combinator, in elements of its own input beyond what the
	// demand on its output requires (end-to-end bound): 1 for the one-element prefetch of
	// ToList/Collect and for Zip, which asks its first argument before its second.
	look int
}

type ikind struct {
	name string
	mk   func(x *mc.X, pos int, reduced bool) istage
}

func alpha[T any](a []T, reduced bool) []T {
	if reduced && len(a) > 2 {
		return a[:2]
	}
	return a
}

func pickPred(x *mc.X, reduced bool) pred {
	p := alpha(preds, reduced)
	return p[x.Choose(len(p), "pred")]
}

func ipred(e *env, cb *int, p func(int) bool) func(int) bool {
	return func(v int) bool { e.tick(); *cb++; return p(v) }
}

func ifn(e *env, cb *int, f func(int) int) func(int) int {
	return func(v int) int { e.tick(); *cb++; return f(v) }
}

// glue adapts an iterator of any element type to an int iterator without using library
// combinators.
func glue[T any](it fp.Iterator[T], f func(T) int) fp.Iterator[int] {
	return fp.MakeIterator(func() bool { return it.HasNext() }, func() int { return f(it.Next()) })
}

var counts = []int{1, 2, 0, 3}

func refFilter(p func(int) bool, keep bool) func([]int) []int {
	return func(in []int) []int {
		out := []int{}
		for _, v := range in {
			if p(v) == keep {
				out = append(out, v)
			}
		}
		return out
	}
}

func refTakeWhile(p func(int) bool) func([]int) []int {
	return func(in []int) []int {
		out := []int{}
		for _, v := range in {
			if !p(v) {
				break
			}
			out = append(out, v)
		}
		return out
	}
}

func refDropWhile(p func(int) bool) func([]int) []int {
	return func(in []int) []int {
		i := 0
		for i < len(in) && p(in[i]) {
			i++
		}
		return cp(in[i:])
	}
}

func refMap(f func(int) int) func([]int) []int {
	return func(in []int) []int {
		out := make([]int, 0, len(in))
		for _, v := range in {
			out = append(out, f(v))
		}
		return out
	}
}

func refFlat(g func(int) []int) func([]int) []int {
	return func(in []int) []int {
		out := []int{}
		for _, v := range in {
			out = append(out, g(v)...)
		}
		return out
	}
}

func refOpt(o func(int) (int, bool)) func([]int) []int {
	return func(in []int) []int {
		out := []int{}
		for _, v := range in {
			if r, ok := o(v); ok {
				out = append(out, r)
			}
		}
		return out
	}
}

func refTake(n int) func([]int) []int {
	return func(in []int) []int {
		if n > len(in) {
			return cp(in)
		}
		return cp(in[:n])
	}
}

func refDrop(n int) func([]int) []int {
	return func(in []int) []int {
		if n > len(in) {
			return []int{}
		}
		return cp(in[n:])
	}
}

func refScan(zero int, f func(int, int) int) func([]int) []int {
	return func(in []int) []int {
		out := []int{zero}
		acc := zero
		for _, v := range in {
			acc = f(acc, v)
			out = append(out, acc)
		}
		return out
	}
}

func refZipL(other []int) func([]int) []int { // Zip(src, other)
	return func(in []int) []int {
		out := []int{}
		for i := 0; i < len(in) && i < len(other); i++ {
			out = append(out, enc(in[i], other[i]))
		}
		return out
	}
}

func refZipR(other []int) func([]int) []int { // Zip(other, src)
	return func(in []int) []int {
		out := []int{}
		for i := 0; i < len(in) && i < len(other); i++ {
			out = append(out, enc(other[i], in[i]))
		}
		return out
	}
}

func refZipIndex(in []int) []int {
	out := []int{}
	for i, v := range in {
		out = append(out, enc(i, v))
	}
	return out
}

var zipOthers = [][]int{{5, 6, 5, 6, 5, 6, 5, 6, 5, 6, 5, 6, 5, 6, 5, 6, 5, 6, 5, 6, 5, 6, 5, 6, 5, 6, 5, 6, 5, 6, 5, 6, 5, 6, 5, 6, 5, 6, 5, 6, 5, 6, 5, 6, 5, 6, 5, 6}, {5, 6}, {}}
var concatOthers = [][]int{{7, 8}, {}, {7}}

func pickOther(x *mc.X, others [][]int, reduced bool, label string) []int {
	o := alpha(others, reduced)
	return o[x.Choose(len(o), label)]
}

func short(a []int) string {
	if len(a) > 4 {
		return fmt.Sprintf("%v..(%d)", a[:3], len(a))
	}
	return fmt.Sprint(a)
}

var iterKinds = []ikind{
	{"Iterator.Filter", func(x *mc.X, pos int, red bool) istage {
		p := pickPred(x, red)
		pp := p.at(pos)
		return istage{label: "Filter(" + p.name + ")", ref: refFilter(pp, true),
			build: func(e *env, cb *int, in fp.Iterator[int]) fp.Iterator[int] { return in.Filter(ipred(e, cb, pp)) }}
	}},
	{"Iterator.FilterNot", func(x *mc.X, pos int, red bool) istage {
		p := pickPred(x, red)
		pp := p.at(pos)
		// the wildcard bit is the answer of the user predicate; FilterNot keeps where it is false
		return istage{label: "FilterNot(" + p.name + ")", ref: refFilter(pp, false),
			build: func(e *env, cb *int, in fp.Iterator[int]) fp.Iterator[int] { return in.FilterNot(ipred(e, cb, pp)) }}
	}},
	{"Iterator.TakeWhile", func(x *mc.X, pos int, red bool) istage {
		p := pickPred(x, red)
		pp := p.at(pos)
		return istage{label: "TakeWhile(" + p.name + ")", ref: refTakeWhile(pp),
			build: func(e *env, cb *int, in fp.Iterator[int]) fp.Iterator[int] { return in.TakeWhile(ipred(e, cb, pp)) }}
	}},
	{"Iterator.DropWhile", func(x *mc.X, pos int, red bool) istage {
		p := pickPred(x, red)
		pp := p.at(pos)
		return istage{label: "DropWhile(" + p.name + ")", ref: refDropWhile(pp),
			build: func(e *env, cb *int, in fp.Iterator[int]) fp.Iterator[int] { return in.DropWhile(ipred(e, cb, pp)) }}
	}},
	{"Iterator.Map", func(x *mc.X, pos int, red bool) istage {
		m := alpha(mapfns, red)[x.Choose(len(alpha(mapfns, red)), "fn")]
		f := m.pure()
		return istage{label: "Map(" + m.name + ")", ref: refMap(f),
			build: func(e *env, cb *int, in fp.Iterator[int]) fp.Iterator[int] { return in.Map(ifn(e, cb, f)) }}
	}},
	{"iterator.Map", func(x *mc.X, pos int, red bool) istage {
		m := alpha(mapfns, red)[x.Choose(len(alpha(mapfns, red)), "fn")]
		f := m.pure()
		return istage{label: "iterator.Map(" + m.name + ")", ref: refMap(f),
			build: func(e *env, cb *int, in fp.Iterator[int]) fp.Iterator[int] { return iterator.Map(in, ifn(e, cb, f)) }}
	}},
	{"Iterator.FlatMap", func(x *mc.X, pos int, red bool) istage {
		g := alpha(flatfns, red)[x.Choose(len(alpha(flatfns, red)), "flatfn")]
		gg := g.at(pos)
		return istage{label: "FlatMap(" + g.name + ")", ref: refFlat(gg),
			build: func(e *env, cb *int, in fp.Iterator[int]) fp.Iterator[int] {
				return in.FlatMap(func(v int) fp.Iterator[int] { e.tick(); *cb++; return fp.IteratorOfSeq(gg(v)) })
			}}
	}},
	{"iterator.FlatMap", func(x *mc.X, pos int, red bool) istage {
		g := alpha(flatfns, red)[x.Choose(len(alpha(flatfns, red)), "flatfn")]
		gg := g.at(pos)
		return istage{label: "iterator.FlatMap(" + g.name + ")", ref: refFlat(gg),
			build: func(e *env, cb *int, in fp.Iterator[int]) fp.Iterator[int] {
				return iterator.FlatMap(in, func(v int) fp.Iterator[int] { e.tick(); *cb++; return fp.IteratorOfSeq(gg(v)) })
			}}
	}},
	{"iterator.FilterMap", func(x *mc.X, pos int, red bool) istage {
		o := alpha(optfns, red)[x.Choose(len(alpha(optfns, red)), "optfn")]
		oo := o.at(pos)
		return istage{label: "iterator.FilterMap(" + o.name + ")", ref: refOpt(oo),
			build: func(e *env, cb *int, in fp.Iterator[int]) fp.Iterator[int] {
				return iterator.FilterMap(in, func(v int) fp.Option[int] {
					e.tick()
					*cb++
					if r, ok := oo(v); ok {
						return fp.Some(r)
					}
					return fp.None[int]()
				})
			}}
	}},
	{"Iterator.Take", func(x *mc.X, pos int, red bool) istage {
		n := alpha(counts, red)[x.Choose(len(alpha(counts, red)), "n")]
		return istage{label: fmt.Sprintf("Take(%d)", n), ref: refTake(n),
			build: func(e *env, cb *int, in fp.Iterator[int]) fp.Iterator[int] { return in.Take(n) }}
	}},
	{"Iterator.Drop", func(x *mc.X, pos int, red bool) istage {
		n := alpha(counts, red)[x.Choose(len(alpha(counts, red)), "n")]
		return istage{label: fmt.Sprintf("Drop(%d)", n), ref: refDrop(n), eagerN: n,
			floor: func(in []int) int {
				if n > len(in) {
					return len(in)
				}
				return n
			},
			build: func(e *env, cb *int, in fp.Iterator[int]) fp.Iterator[int] { return in.Drop(n) }}
	}},
	{"Iterator.Concat(src,tail)", func(x *mc.X, pos int, red bool) istage {
		o := pickOther(x, concatOthers, red, "tail")
		return istage{label: "Concat(src," + short(o) + ")", ref: func(in []int) []int { return append(cp(in), o...) },
			build: func(e *env, cb *int, in fp.Iterator[int]) fp.Iterator[int] { return in.Concat(fp.IteratorOfSeq(o)) }}
	}},
	{"Iterator.Concat(head,src)", func(x *mc.X, pos int, red bool) istage {
		o := pickOther(x, concatOthers, red, "head")
		return istage{label: "Concat(" + short(o) + ",src)", ref: func(in []int) []int { return append(cp(o), in...) },
			build: func(e *env, cb *int, in fp.Iterator[int]) fp.Iterator[int] { return fp.IteratorOfSeq(o).Concat(in) }}
	}},
	{"Iterator.Appended", func(x *mc.X, pos int, red bool) istage {
		return istage{label: "Appended(9)", ref: func(in []int) []int { return append(cp(in), 9) },
			build: func(e *env, cb *int, in fp.Iterator[int]) fp.Iterator[int] { return in.Appended(9) }}
	}},
	{"iterator.Concat", func(x *mc.X, pos int, red bool) istage {
		return istage{label: "iterator.Concat(9,src)", ref: func(in []int) []int { return append([]int{9}, in...) },
			build: func(e *env, cb *int, in fp.Iterator[int]) fp.Iterator[int] { return iterator.Concat(9, in) }}
	}},
	{"iterator.Zip(src,other)", func(x *mc.X, pos int, red bool) istage {
		o := pickOther(x, zipOthers, red, "other")
		return istage{label: "Zip(src," + short(o) + ")", ref: refZipL(o), look: 1,
			build: func(e *env, cb *int, in fp.Iterator[int]) fp.Iterator[int] {
				return glue(iterator.Zip(in, fp.IteratorOfSeq(o)), func(t fp.Tuple2[int, int]) int { return enc(t.I1, t.I2) })
			}}
	}},
	{"iterator.Zip(other,src)", func(x *mc.X, pos int, red bool) istage {
		o := pickOther(x, zipOthers, red, "other")
		return istage{label: "Zip(" + short(o) + ",src)", ref: refZipR(o),
			build: func(e *env, cb *int, in fp.Iterator[int]) fp.Iterator[int] {
				return glue(iterator.Zip(fp.IteratorOfSeq(o), in), func(t fp.Tuple2[int, int]) int { return enc(t.I1, t.I2) })
			}}
	}},
	{"iterator.Zip3", func(x *mc.X, pos int, red bool) istage {
		o := pickOther(x, zipOthers, red, "other")
		r := func(in []int) []int {
			out := []int{}
			for i := 0; i < len(in) && i < len(o) && i < len(zipOthers[0]); i++ {
				out = append(out, enc3(o[i], in[i], zipOthers[0][i]))
			}
			return out
		}
		return istage{label: "Zip3(" + short(o) + ",src,long)", ref: r,
			build: func(e *env, cb *int, in fp.Iterator[int]) fp.Iterator[int] {
				return glue(iterator.Zip3(fp.IteratorOfSeq(o), in, fp.IteratorOfSeq(zipOthers[0])), func(t fp.Tuple3[int, int, int]) int { return enc3(t.I1, t.I2, t.I3) })
			}}
	}},
	{"iterator.ZipWithIndex", func(x *mc.X, pos int, red bool) istage {
		return istage{label: "ZipWithIndex", ref: refZipIndex,
			build: func(e *env, cb *int, in fp.Iterator[int]) fp.Iterator[int] {
				return glue(iterator.ZipWithIndex(in), func(t fp.Tuple2[int, int]) int { return enc(t.I1, t.I2) })
			}}
	}},
	{"iterator.Scan", func(x *mc.X, pos int, red bool) istage {
		s := alpha(scanfns, red)[x.Choose(len(alpha(scanfns, red)), "scanfn")]
		f := s.pure()
		return istage{label: "Scan(1," + s.name + ")", ref: refScan(1, f),
			build: func(e *env, cb *int, in fp.Iterator[int]) fp.Iterator[int] {
				return iterator.Scan(in, 1, func(a, v int) int { e.tick(); *cb++; return f(a, v) })
			}}
	}},
	{"Iterator.TapEach", func(x *mc.X, pos int, red bool) istage {
		return istage{label: "TapEach", ref: cp,
			build: func(e *env, cb *int, in fp.Iterator[int]) fp.Iterator[int] {
				return in.TapEach(func(int) { e.tick(); *cb++ })
			}}
	}},
	{"iterator.Span.left", func(x *mc.X, pos int, red bool) istage {
		p := pickPred(x, red)
		pp := p.at(pos)
		return istage{label: "Span(" + p.name + ").left", ref: refTakeWhile(pp),
			build: func(e *env, cb *int, in fp.Iterator[int]) fp.Iterator[int] {
				l, _ := iterator.Span(in, ipred(e, cb, pp))
				return l
			}}
	}},
	{"iterator.Span.right", func(x *mc.X, pos int, red bool) istage {
		p := pickPred(x, red)
		pp := p.at(pos)
		return istage{label: "Span(" + p.name + ").right", ref: refDropWhile(pp),
			build: func(e *env, cb *int, in fp.Iterator[int]) fp.Iterator[int] {
				_, r := iterator.Span(in, ipred(e, cb, pp))
				return r
			}}
	}},
	{"iterator.Partition.left", func(x *mc.X, pos int, red bool) istage {
		p := pickPred(x, red)
		pp := p.at(pos)
		return istage{label: "Partition(" + p.name + ").left", ref: refFilter(pp, true),
			build: func(e *env, cb *int, in fp.Iterator[int]) fp.Iterator[int] {
				l, _ := iterator.Partition(in, ipred(e, cb, pp))
				return l
			}}
	}},
	{"iterator.Partition.right", func(x *mc.X, pos int, red bool) istage {
		p := pickPred(x, red)
		pp := p.at(pos)
		return istage{label: "Partition(" + p.name + ").right", ref: refFilter(pp, false),
			build: func(e *env, cb *int, in fp.Iterator[int]) fp.Iterator[int] {
				_, r := iterator.Partition(in, ipred(e, cb, pp))
				return r
			}}
	}},
	{"iterator.Duplicate.left", func(x *mc.X, pos int, red bool) istage {
		return istage{label: "Duplicate.left", ref: cp,
			build: func(e *env, cb *int, in fp.Iterator[int]) fp.Iterator[int] {
				l, _ := iterator.Duplicate(in)
				return l
			}}
	}},
	{"iterator.Duplicate.right", func(x *mc.X, pos int, red bool) istage {
		return istage{label: "Duplicate.right", ref: cp,
			build: func(e *env, cb *int, in fp.Iterator[int]) fp.Iterator[int] {
				_, r := iterator.Duplicate(in)
				return r
			}}
	}},
	{"iterator.ToList+FromList", func(x *mc.X, pos int, red bool) istage {
		return istage{label: "FromList(ToList(src))", ref: cp, look: 1,
			build: func(e *env, cb *int, in fp.Iterator[int]) fp.Iterator[int] {
				return iterator.FromList(iterator.ToList(in))
			}}
	}},
	{"list.Collect+iterator.List", func(x *mc.X, pos int, red bool) istage {
		return istage{label: "iterator.List(list.Collect(src))", ref: cp, look: 1,
			build: func(e *env, cb *int, in fp.Iterator[int]) fp.Iterator[int] { return iterator.List(list.Collect(in)) }}
	}},
}

func init() {
	for i := range iterKinds {
		k := iterKinds[i]
		mk := k.mk
		iterKinds[i].mk = func(x *mc.X, pos int, red bool) istage {
			s := mk(x, pos, red)
			s.kind = k.name
			return s
		}
	}
}
