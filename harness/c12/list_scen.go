package main

import (
	"fmt"

	"github.com/csgura/fp"
	"github.com/csgura/fp/list"
	"verif/mc"
)

func chooseListStages(x *mc.X, k int, reduced bool) []lstage {
	idx := make([]int, k)
	for i := range idx {
		idx[i] = x.Choose(len(listKinds), fmt.Sprintf("stage%d", i))
	}
	st := make([]lstage, k)
	for i := range idx {
		st[i] = listKinds[idx[i]].mk(x, i, reduced)
		x.Tag(st[i].kind)
	}
	return st
}

func pickListSource(x *mc.X, sources []lsrcKind) lsrcKind {
	if len(sources) == 1 {
		return sources[0]
	}
	sk := sources[x.Choose(len(sources), "source")]
	x.Tag("source:" + sk.name)
	return sk
}

// listDemand: k list stages (0 = the source list alone), every input, every number of cells
// k = 0..len(out)+1 in every demand pattern, followed by a complete re-traversal.
func listDemand(k int, reduced bool, inputs [][]int, sources []lsrcKind) func(x *mc.X) {
	return func(x *mc.X) {
		p := &lpipe{stages: chooseListStages(x, k, reduced)}
		sk := pickListSource(x, sources)
		data := mc.Pick(x, "input", inputs)
		outs := p.outputs(data)
		out := data
		if k > 0 {
			out = outs[k-1]
		}
		x.Logf("pipeline %s over %s %v, reference output %v", join(p.labels()), sk.name, data, out)
		for c := 0; c <= len(out)+1; c++ {
			for pat := 0; pat < nPatterns; pat++ {
				p.check(x, sk, data, outs, c, pat)
				x.Tag("demands")
			}
		}
		observeInts(x, out)
		if len(data) >= 2 && len(out) >= 1 && (k == 0 || !eqInts(out, data)) {
			x.NonTrivial()
		}
	}
}

func listTerminal(k int, reduced bool, inputs [][]int, sources []lsrcKind) func(x *mc.X) {
	return func(x *mc.X) {
		ti := x.Choose(len(listTermKinds), "terminal")
		st := chooseListStages(x, k, reduced)
		t := listTermKinds[ti].mk(x, k, reduced)
		x.Tag(t.kind)
		p := &lpipe{stages: st, term: &t}
		sk := pickListSource(x, sources)
		data := mc.Pick(x, "input", inputs)
		outs := p.outputs(data)
		final := data
		if k > 0 {
			final = outs[k-1]
		}
		want := t.ref(final)
		x.Logf("pipeline %s over %s %v, reference result %s", join(p.labels()), sk.name, data, want)
		p.check(x, sk, data, outs, 0, 0)
		x.Observe(want)
		if len(data) >= 2 {
			x.NonTrivial()
		}
	}
}

func listUnbounded(k int, reduced bool, withTerm bool) func(x *mc.X) {
	return func(x *mc.X) {
		var p *lpipe
		if withTerm {
			ti := x.Choose(len(listTermKinds), "terminal")
			st := chooseListStages(x, k, reduced)
			t := listTermKinds[ti].mk(x, k, reduced)
			x.Tag(t.kind)
			p = &lpipe{stages: st, term: &t}
		} else {
			p = &lpipe{stages: chooseListStages(x, k, reduced)}
		}
		sk := unboundedListSources[x.Choose(len(unboundedListSources), "source")]
		x.Tag("source:" + sk.name)
		data := streamPrefix(sk.stream, horizon)
		outs := p.outputs(data)
		x.Logf("pipeline %s over unbounded %s", join(p.labels()), sk.name)
		ran := 0
		one := func(c, pat int) {
			if p.check(x, sk, data, outs, c, pat) {
				x.Tag("unbounded:answered")
				ran++
			} else {
				x.Tag("unbounded:excluded(reference needs the whole source)")
			}
		}
		if withTerm {
			one(0, 0)
		} else {
			for c := 0; c <= 5; c++ {
				for pat := 0; pat < nPatterns; pat++ {
					one(c, pat)
				}
			}
		}
		x.ObserveInt(ran)
		if ran > 0 {
			x.NonTrivial()
		}
	}
}

// listSources: list.Range / RangeClosed / ReverseSeq / ReverseSlice / Empty / FromOption / FromPtr.
func listSources(inputs [][]int) func(x *mc.X) {
	return func(x *mc.X) {
		which := x.Choose(5, "producer")
		var name string
		var got, want []int
		pv := mc.Catch(func() {
			switch which {
			case 0, 1:
				from, to := x.Choose(6, "from")-2, x.Choose(7, "to")-2
				want = []int{}
				if which == 0 {
					name = "list.Range"
					for i := from; i < to; i++ {
						want = append(want, i)
					}
					got = list.Range(from, to).ToSeq()
				} else {
					name = "list.RangeClosed"
					for i := from; i <= to; i++ {
						want = append(want, i)
					}
					got = list.RangeClosed(from, to).ToSeq()
				}
			case 2:
				name = "list.ReverseSeq"
				data := mc.Pick(x, "input", inputs)
				want = reversed(data)
				got = list.ReverseSeq(cp(data)).ToSeq()
			case 3:
				name = "list.ReverseSlice"
				data := mc.Pick(x, "input", inputs)
				want = reversed(data)
				got = list.ReverseSlice(cp(data)).ToSeq()
			case 4:
				name = "list.FromOption/FromPtr/Empty"
				v := x.Choose(3, "value")
				want = []int{}
				switch v {
				case 0:
					got = append(list.Empty[int]().ToSeq(), list.FromOption(fp.None[int]()).ToSeq()...)
					got = append(got, list.FromPtr[int](nil).ToSeq()...)
				default:
					want = []int{v, v}
					got = append(list.FromOption(fp.Some(v)).ToSeq(), list.FromPtr(&v).ToSeq()...)
				}
			}
		})
		x.Tag(name)
		if pv != nil {
			x.Fail(name+"/panic", "%s: %v", name, pv)
		}
		if !eqInts(got, want) {
			x.Fail(name+"/value", "%s yields %v, reference %v", name, got, want)
		}
		observeInts(x, got)
		if len(want) >= 2 {
			x.NonTrivial()
		}
	}
}

func registerLists(r *mc.Registry, add func(string, int, func(*mc.X)), inputs, inputs3 [][]int) {
	add("list/demand/p0", 2, listDemand(0, false, inputs, finiteListSources))
	add("list/demand/p1", 2, listDemand(1, false, inputs, finiteListSources))
	add("list/demand/p2", 2, listDemand(2, false, inputs, finiteListSources[:2]))
	add("list/term/p0", 2, listTerminal(0, false, inputs, finiteListSources))
	termInputs := inputs3
	if r.Thorough() {
		termInputs = inputs
	}
	add("list/term/p1", 2, listTerminal(1, false, termInputs, finiteListSources[:2]))
	add("list/unbounded/p0", 2, listUnbounded(0, false, false))
	add("list/unbounded/p1", 2, listUnbounded(1, false, false))
	add("list/unbounded/p2", 2, listUnbounded(2, false, false))
	add("list/unbounded/term/p0", 2, listUnbounded(0, false, true))
	add("list/unbounded/term/p1", 2, listUnbounded(1, false, true))
	add("list/sources", 2, listSources(inputs))
	if r.Thorough() {
		add("list/demand/p3", 3, listDemand(3, true, inputs3, finiteListSources[:2]))
		add("list/term/p2", 3, listTerminal(2, true, inputs3, finiteListSources[:1]))
		add("list/unbounded/p3", 3, listUnbounded(3, true, false))
	}
}
