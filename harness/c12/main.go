package main

import (
	"fmt"
	"verif/mc"
)

func main() {
	mc.Main("C12", func(r *mc.Registry) {
		register(r)
	})
}

func names[T any](a []T, f func(T) string) []string {
	var out []string
	for _, v := range a {
		out = append(out, f(v))
	}
	return out
}

func register(r *mc.Registry) {
	maxLen := 4
	if r.Thorough() {
		maxLen = 5
	}
	inputs := allInputs(maxLen)
	inputs3 := allInputs(3)
	big := 50_000_000

	add := func(name string, depth int, fn func(x *mc.X)) {
		sc := r.Seq(name, fn)
		sc.SplitDepth = depth
		sc.TickLimit = big // the drivers enforce their own per-run budgets and name the culprit
	}

	// ---- Iterator ----
	add("iter/demand/p1", 2, iterDemand(1, false, inputs, finiteSources))
	add("iter/demand/p2", 2, iterDemand(2, false, inputs, finiteSources[:1]))
	add("iter/term/p0", 2, iterTerminal(0, false, inputs, finiteSources))
	termInputs := inputs3 // quick: terminals after one stage on inputs up to length 3
	if r.Thorough() {
		termInputs = inputs
	}
	add("iter/term/p1", 2, iterTerminal(1, false, termInputs, finiteSources[:1]))
	add("iter/unbounded/p1", 2, iterUnbounded(1, false, false))
	add("iter/unbounded/p2", 2, iterUnbounded(2, false, false))
	add("iter/unbounded/term/p0", 2, iterUnbounded(0, false, true))
	add("iter/unbounded/term/p1", 2, iterUnbounded(1, false, true))
	inputs2 := allInputs(2)
	add("iter/e2e/p1", 2, iterE2E(1, false, inputs3))
	if r.Thorough() {
		add("iter/e2e/p2", 2, iterE2E(2, false, inputs3))
		add("iter/e2e/p3", 3, iterE2E(3, true, inputs2))
	} else {
		add("iter/e2e/p2", 2, iterE2E(2, true, inputs2))
	}
	add("iter/concat-state/p3", 3, iterConcatState(false, inputs3))
	add("iter/concat-state/p4", 4, iterConcatState(true, inputs3))
	tieLen := 4
	if r.Thorough() {
		tieLen = 5
	}
	add("ties/ops", 3, tiesScenario(allItemInputs(tieLen)))
	add("multi-operand", 3, multiOperand())
	add("iter/two-sided", 3, iterTwoSided(inputs))
	add("iter/sources", 2, iterSources(inputs))
	if r.Thorough() {
		add("iter/demand/p3", 3, iterDemand(3, true, inputs3, finiteSources[:1]))
		add("iter/term/p2", 3, iterTerminal(2, true, inputs3, finiteSources[:1]))
		add("iter/unbounded/p3", 3, iterUnbounded(3, true, false))
	}

	registerLists(r, add, inputs, inputs3)

	r.Rule = "execution = (pipeline of 1..3 combinators chosen from the catalogue, their parameters, source kind, input sequence); inside one execution every demand (consume d = 0..len(out)+1 outputs with HasNext/Next, with and without one more HasNext) is run twice on a fresh source: the pipeline as written (direct) and with a checking pass-through between the stages (wrapped, gives per-stage pull counts and blame). Compared with an eager slice computation written with plain loops. non-trivial = input of length >= 2 whose reference output is non-empty and differs from the input (terminals: input length >= 2; unbounded: at least one demand was answerable); distinct = distinct reference outputs/results"
	r.Assumptions = []string{
		"the reference (plain loops over slices in the harness) is the meaning of 'the corresponding eager fp.Seq/slice computation'",
		"need(stage, input, demand) = the shortest input prefix that fixes the demand's answers for every continuation from {0,1,2, wildcard-true, wildcard-false}^{0..2} and constant runs up to length 8, computed by brute force with the reference; a wildcard is a fresh value on which the stage's own predicate-like parameter answers either way, so no parameter is constant; the bound is pulls <= need+2 per stage, against the demand its consumer actually placed on it; Drop(n)'s n skipped elements count as needed",
		"unbounded sources: a demand is run only if the first 24 elements determine its answers for every continuation (otherwise the reference itself needs the whole source: excluded, counted in the census); it must then be answered with at most 36 pulls",
		"non-termination is decided by a budget of 4000 (lists: 6000) callback invocations/pulls/probes per run on inputs of length <= 5",
		"list demand = the cells whose emptiness/head/tail the consumer asked for; a memoised list evaluates each cell at most once = generator(i) of list.Generate/GenerateFrom is invoked at most once per index over the demand and a complete re-traversal (and an iterator-backed list yields the same values again)",
		"multi-operand functions (scenario multi-operand): every operand is its own instrumented source, all combinations of operand lengths 0..3, optionally one operand unbounded; values against the eager computation (checked against package seq where it has the function), pulls per operand <= need+2 with the other operands fixed; iterator.Map2/Ap give each element of the first operand the SAME second-operand iterator, so their agreement with seq is recorded in the census as an observation only (applicative semantics are C01's subject), list.Map2/Ap are compared strictly and go through every demand, with each operand position in turn unbounded and never slice-backed (list.Generate, list.Map over it, list.Recurrence1); a demand that would see the end of an output computed on a truncated unbounded operand is run only where that end is real (zips; Map2/Ap with a finite first operand)",
		"besides the HasNext/Next demands every finite Iterator pipeline is drained once with Next alone (Next x len(out), then HasNext): legal because every iterator of the library guards its own next; key suffix /next-without-hasnext",
		"on finite sources the direct (unwrapped) multi-stage pipeline is run for the largest demand only: the calls of every smaller demand are a prefix of its calls",
		"ties (scenario ties/ops): elements item{Key,Tag} with Ord/Eq/Hashable/key functions that look at Key only; the Iterator and List functions must give exactly what the eager package-seq counterpart gives on the same elements (which of several equivalent elements Min/Max/ToSet/ToMap keep, the order Sort leaves them in, group order, which duplicate key wins); the oracle there is the library's own seq function, not a harness loop",
		"end-to-end bound (Iterator pipelines): needs are propagated from the consumer to the original source, need_i = shortest prefix of stage i's reference input that fixes its answers to what stage i+1 may ask (brute force, bisection), allow_i = max(need_i, Drop's eager skip) + declared look-ahead (0; ToList/Collect prefetch 1; Zip(src,other) 1 because Zip asks its first argument first); a trailing HasNext that the reference answers with true counts as asking for that element; pulls from the original source <= allow_0 + 2; checked on inputs followed by a tail of 8 irrelevant elements (scenarios iter/e2e/*) and on the unbounded generators (a run must come back within the bound whenever allow_0 is finite)",
	}
	r.Extra["bounds"] = map[string]any{
		"alphabet": []int{0, 1, 2}, "max_input_len": maxLen, "max_pipeline": map[bool]int{false: 2, true: 3}[r.Thorough()],
		"predicates":                  names(preds, func(p pred) string { return p.name }),
		"map_functions":               names(mapfns, func(p mapfn) string { return p.name }),
		"flatmap_functions":           names(flatfns, func(p flatfn) string { return p.name }),
		"filtermap_functions":         names(optfns, func(p optfn) string { return p.name }),
		"scan_functions":              names(scanfns, func(p foldfn) string { return p.name }),
		"take_drop_counts":            counts,
		"iterator_stage_catalogue":    names(iterKinds, func(k ikind) string { return k.name }),
		"iterator_terminal_catalogue": names(iterTermKinds, func(k itkind) string { return k.name }),
		"list_stage_catalogue":        names(listKinds, func(k lkind) string { return k.name }),
		"list_terminal_catalogue":     names(listTermKinds, func(k ltkind) string { return k.name }),
		"finite_sources":              names(finiteSources, func(k isrcKind) string { return k.name }),
		"unbounded_sources":           names(unboundedSources, func(k isrcKind) string { return k.name }),
		"finite_list_sources":         names(finiteListSources, func(k lsrcKind) string { return k.name }),
		"unbounded_list_sources":      names(unboundedListSources, func(k lsrcKind) string { return k.name }),
		"list_demand_patterns":        patNames,
		"terminals_after_one_stage":   "quick: inputs up to length 3; thorough: the full input bound",
		"pipelines_of_3":              "thorough only, inputs up to length 3, first two entries of every parameter alphabet",
		"ties":                        map[string]any{"alphabet": fmt.Sprint(itemAlphabet), "max_input_len": tieLen, "ords": names(itemOrds, func(o ordSpec) string { return o.name }), "operations": names(tieOps, func(o tieOp) string { return o.name }), "iterator_sources": itemIterKinds, "list_sources": itemListKinds},
		"budget_per_run":              4000, "unbounded_horizon": horizon, "unbounded_decided_at": decidedAt, "unbounded_pull_limit": pullLimit,
	}
	r.Extra["uncovered"] = []string{
		"iterator.FoldFuture / list.FoldFuture / seq.FoldFuture: results are futures completed on executor goroutines (C06's subject), not a sequential combinator",
		"applicative/monad plumbing of package iterator and list (Ap, Map2, Lift, Compose, ComposePure, Flatten, Flap*, Method*): not in the statement's list; defined through Map/FlatMap which are covered (laws are C01's subject)",
		"iterator.Pull / fp.MakePullIterator as a pipeline source: runs the producer on a coroutine that is only released by a finalizer; its protocol is covered by C20",
		"list.Recurrence1/Recurrence2: not named in the statement",
		"element types other than int; parameters outside the listed alphabets; inputs longer than the bound",
		"negative counts for Take/Drop",
		"all interleavings of the two sides of Duplicate/Span/Partition (C20); here: four fixed drain orders and each side alone inside pipelines",
		"end-to-end bound for lazy List pipelines: most list combinators look one cell ahead by construction (FlatMap, Combine, Scan, Collect), which over a searching upstream is unbounded in source elements and allowed by the statement; lists are judged per stage only",
	}
}
