package main

import (
	"fmt"
	"sort"

	"github.com/csgura/fp"
	"github.com/csgura/fp/hash"
	"github.com/csgura/fp/iterator"
	"github.com/csgura/fp/lazy"
	"github.com/csgura/fp/list"
	"github.com/csgura/fp/ord"
	"verif/mc"
)

type lkind struct {
	name string
	mk   func(x *mc.X, pos int, reduced bool) lstage
}

type ltkind struct {
	name string
	mk   func(x *mc.X, pos int, reduced bool) lterm
}

// lglue adapts a list of any element type to an int list without library combinators.
type gcell[T any] struct {
	inner fp.List[T]
	f     func(T) int
}

func lglue[T any](l fp.List[T], f func(T) int) fp.List[int] { return gcell[T]{l, f} }

func (c gcell[T]) IsEmpty() bool                { return c.inner.IsEmpty() }
func (c gcell[T]) NonEmpty() bool               { return c.inner.NonEmpty() }
func (c gcell[T]) Head() int                    { return c.f(c.inner.Head()) }
func (c gcell[T]) Tail() fp.List[int]           { return gcell[T]{c.inner.Tail(), c.f} }
func (c gcell[T]) Unapply() (int, fp.List[int]) { return c.Head(), c.Tail() }
func (c gcell[T]) Foreach(f func(int)) {
	var cur fp.List[int] = c
	for cur.NonEmpty() {
		f(cur.Head())
		cur = cur.Tail()
	}
}
func (c gcell[T]) ToSeq() []int {
	out := []int{}
	c.Foreach(func(v int) { out = append(out, v) })
	return out
}

var listKinds = []lkind{
	{"list.Map", func(x *mc.X, pos int, red bool) lstage {
		m := alpha(mapfns, red)[x.Choose(len(alpha(mapfns, red)), "fn")]
		f := m.pure()
		return lstage{label: "list.Map(" + m.name + ")", ref: refMap(f),
			build: func(e *env, cb *int, in fp.List[int]) fp.List[int] { return list.Map(in, ifn(e, cb, f)) }}
	}},
	{"list.FilterMap", func(x *mc.X, pos int, red bool) lstage {
		o := alpha(optfns, red)[x.Choose(len(alpha(optfns, red)), "optfn")]
		oo := o.at(pos)
		return lstage{label: "list.FilterMap(" + o.name + ")", ref: refOpt(oo),
			build: func(e *env, cb *int, in fp.List[int]) fp.List[int] {
				return list.FilterMap(in, func(v int) fp.Option[int] {
					e.tick()
					*cb++
					if r, ok := oo(v); ok {
						return fp.Some(r)
					}
					return fp.None[int]()
				})
			}}
	}},
	{"list.FlatMap", func(x *mc.X, pos int, red bool) lstage {
		g := alpha(flatfns, red)[x.Choose(len(alpha(flatfns, red)), "flatfn")]
		gg := g.at(pos)
		return lstage{label: "list.FlatMap(" + g.name + ")", ref: refFlat(gg),
			build: func(e *env, cb *int, in fp.List[int]) fp.List[int] {
				return list.FlatMap(in, func(v int) fp.List[int] { e.tick(); *cb++; return list.Of(gg(v)...) })
			}}
	}},
	{"list.Combine(src,tail)", func(x *mc.X, pos int, red bool) lstage {
		o := pickOther(x, concatOthers, red, "tail")
		return lstage{label: "list.Combine(src," + short(o) + ")", ref: func(in []int) []int { return append(cp(in), o...) },
			build: func(e *env, cb *int, in fp.List[int]) fp.List[int] { return list.Combine(in, list.Of(o...)) }}
	}},
	{"list.Combine(head,src)", func(x *mc.X, pos int, red bool) lstage {
		o := pickOther(x, concatOthers, red, "head")
		return lstage{label: "list.Combine(" + short(o) + ",src)", ref: func(in []int) []int { return append(cp(o), in...) },
			build: func(e *env, cb *int, in fp.List[int]) fp.List[int] { return list.Combine(list.Of(o...), in) }}
	}},
	{"list.Concat", func(x *mc.X, pos int, red bool) lstage {
		return lstage{label: "list.Concat(9,src)", ref: func(in []int) []int { return append([]int{9}, in...) },
			build: func(e *env, cb *int, in fp.List[int]) fp.List[int] { return list.Concat(9, in) }}
	}},
	{"list.Zip(src,other)", func(x *mc.X, pos int, red bool) lstage {
		o := pickOther(x, zipOthers, red, "other")
		return lstage{label: "list.Zip(src," + short(o) + ")", ref: refZipL(o),
			build: func(e *env, cb *int, in fp.List[int]) fp.List[int] {
				return lglue(list.Zip(in, list.Of(o...)), func(t fp.Tuple2[int, int]) int { return enc(t.I1, t.I2) })
			}}
	}},
	{"list.Zip(other,src)", func(x *mc.X, pos int, red bool) lstage {
		o := pickOther(x, zipOthers, red, "other")
		return lstage{label: "list.Zip(" + short(o) + ",src)", ref: refZipR(o),
			build: func(e *env, cb *int, in fp.List[int]) fp.List[int] {
				return lglue(list.Zip(list.Of(o...), in), func(t fp.Tuple2[int, int]) int { return enc(t.I1, t.I2) })
			}}
	}},
	{"list.Zip3", func(x *mc.X, pos int, red bool) lstage {
		o := pickOther(x, zipOthers, red, "other")
		r := func(in []int) []int {
			out := []int{}
			for i := 0; i < len(in) && i < len(o) && i < len(zipOthers[0]); i++ {
				out = append(out, enc3(o[i], in[i], zipOthers[0][i]))
			}
			return out
		}
		return lstage{label: "list.Zip3(" + short(o) + ",src,long)", ref: r,
			build: func(e *env, cb *int, in fp.List[int]) fp.List[int] {
				return lglue(list.Zip3(list.Of(o...), in, list.Of(zipOthers[0]...)), func(t fp.Tuple3[int, int, int]) int { return enc3(t.I1, t.I2, t.I3) })
			}}
	}},
	{"list.ZipWithIndex", func(x *mc.X, pos int, red bool) lstage {
		return lstage{label: "list.ZipWithIndex", ref: refZipIndex,
			build: func(e *env, cb *int, in fp.List[int]) fp.List[int] {
				return lglue(list.ZipWithIndex(in), func(t fp.Tuple2[int, int]) int { return enc(t.I1, t.I2) })
			}}
	}},
	{"list.Scan", func(x *mc.X, pos int, red bool) lstage {
		s := alpha(scanfns, red)[x.Choose(len(alpha(scanfns, red)), "scanfn")]
		f := s.pure()
		return lstage{label: "list.Scan(1," + s.name + ")", ref: refScan(1, f),
			build: func(e *env, cb *int, in fp.List[int]) fp.List[int] {
				return list.Scan(in, 1, func(a, v int) int { e.tick(); *cb++; return f(a, v) })
			}}
	}},
	{"iterator.FromList+list.Collect", func(x *mc.X, pos int, red bool) lstage {
		return lstage{label: "list.Collect(iterator.FromList(src))", ref: cp,
			build: func(e *env, cb *int, in fp.List[int]) fp.List[int] { return list.Collect(iterator.FromList(in)) }}
	}},
	{"iterator.List+iterator.ToList", func(x *mc.X, pos int, red bool) lstage {
		return lstage{label: "iterator.ToList(iterator.List(src))", ref: cp,
			build: func(e *env, cb *int, in fp.List[int]) fp.List[int] { return iterator.ToList(iterator.List(in)) }}
	}},
}

func lsimple(name string, ref func([]int) string, run func(e *env, cb *int, l fp.List[int]) string) ltkind {
	return ltkind{name, func(x *mc.X, pos int, red bool) lterm { return lterm{label: name, ref: ref, run: run} }}
}

func lpairs(l fp.List[int]) fp.List[fp.Tuple2[int, int]] {
	return list.Collect(pairs(iterator.FromList(l)))
}

var listTermKinds = []ltkind{
	lsimple("List.ToSeq", seqStr, func(e *env, cb *int, l fp.List[int]) string { return fmt.Sprint(append([]int{}, l.ToSeq()...)) }),
	lsimple("List.Foreach", seqStr, func(e *env, cb *int, l fp.List[int]) string {
		out := []int{}
		l.Foreach(func(v int) { e.tick(); *cb++; out = append(out, v) })
		return fmt.Sprint(out)
	}),
	{"list.Head", func(x *mc.X, pos int, red bool) lterm {
		return lterm{label: "list.Head", shortCircuit: true, ref: func(in []int) string {
			if len(in) == 0 {
				return "None"
			}
			return fmt.Sprintf("Some(%d)", in[0])
		}, run: func(e *env, cb *int, l fp.List[int]) string { return optStr(list.Head(l)) }}
	}},
	lsimple("list.Fold", func(in []int) string { return sprint(refFoldLeft(in)) }, func(e *env, cb *int, l fp.List[int]) string {
		return sprint(list.Fold(l, 3, func(a, v int) int { e.tick(); *cb++; return step(a, v) }))
	}),
	lsimple("list.FoldLeft", func(in []int) string { return sprint(refFoldLeft(in)) }, func(e *env, cb *int, l fp.List[int]) string {
		return sprint(list.FoldLeft(l, 3, func(a, v int) int { e.tick(); *cb++; return step(a, v) }))
	}),
	lsimple("list.FoldLeftUsingMap", func(in []int) string { return sprint(refFoldLeft(in)) }, func(e *env, cb *int, l fp.List[int]) string {
		return sprint(list.FoldLeftUsingMap(l, 3, func(a, v int) int { e.tick(); *cb++; return step(a, v) }))
	}),
	lsimple("list.FoldRightUsingMap", func(in []int) string { return sprint(refFoldRight(in)) }, func(e *env, cb *int, l fp.List[int]) string {
		return sprint(list.FoldRightUsingMap(l, 3, func(v, a int) int { e.tick(); *cb++; return step(a, v) }))
	}),
	lsimple("list.FoldRight", func(in []int) string { return sprint(refFoldRight(in)) }, func(e *env, cb *int, l fp.List[int]) string {
		return sprint(list.FoldRight(l, 3, func(v int, rest lazy.Eval[int]) lazy.Eval[int] {
			e.tick()
			*cb++
			return rest.Map(func(r int) int { return step(r, v) })
		}).Get())
	}),
	{"list.FoldRight(short-circuit)", func(x *mc.X, pos int, red bool) lterm {
		p := pickPred(x, red)
		pp := p.at(pos)
		return lterm{label: "list.FoldRight(stop at " + p.name + ")", shortCircuit: true, ref: func(in []int) string {
			end := len(in)
			acc := 3
			for i, v := range in {
				if pp(v) {
					end = i
					acc = v
					break
				}
			}
			for i := end - 1; i >= 0; i-- {
				acc = step(acc, in[i])
			}
			return sprint(acc)
		}, run: func(e *env, cb *int, l fp.List[int]) string {
			return sprint(list.FoldRight(l, 3, func(v int, rest lazy.Eval[int]) lazy.Eval[int] {
				e.tick()
				*cb++
				if pp(v) {
					return lazy.Done(v)
				}
				return rest.Map(func(r int) int { return step(r, v) })
			}).Get())
		}}
	}},
	{"list.FoldMap", func(x *mc.X, pos int, red bool) lterm {
		m := monoids[x.Choose(len(monoids), "monoid")]
		return lterm{label: "list.FoldMap(" + m.name + ")", ref: refReduce(m), run: func(e *env, cb *int, l fp.List[int]) string {
			return sprint(list.FoldMap[int, int](l, imonoid{e, cb, m.combine, m.empty}, func(v int) int { e.tick(); return encSingle(v) }))
		}}
	}},
	{"list.Reduce", func(x *mc.X, pos int, red bool) lterm {
		m := monoids[x.Choose(len(monoids), "monoid")]
		return lterm{label: "list.Reduce(" + m.name + ")", ref: refReduce(m), run: func(e *env, cb *int, l fp.List[int]) string {
			return sprint(list.Reduce[int](lglue(l, encSingle), imonoid{e, cb, m.combine, m.empty}))
		}}
	}},
	{"list.FoldTry", func(x *mc.X, pos int, red bool) lterm {
		p := pickPred(x, red)
		pp := p.at(pos)
		return lterm{label: "list.FoldTry(fail on " + p.name + ")", shortCircuit: true, ref: refFoldUntil(pp, "Success(%d)", "Failure(stop)"),
			run: func(e *env, cb *int, l fp.List[int]) string {
				return tryStr(list.FoldTry(l, 3, func(a, v int) fp.Try[int] {
					e.tick()
					*cb++
					if pp(v) {
						return fp.Failure[int](errStop)
					}
					return fp.Success(step(a, v))
				}))
			}}
	}},
	{"list.FoldOption", func(x *mc.X, pos int, red bool) lterm {
		p := pickPred(x, red)
		pp := p.at(pos)
		return lterm{label: "list.FoldOption(None on " + p.name + ")", shortCircuit: true, ref: refFoldUntil(pp, "Some(%d)", "None"),
			run: func(e *env, cb *int, l fp.List[int]) string {
				return optStr(list.FoldOption(l, 3, func(a, v int) fp.Option[int] {
					e.tick()
					*cb++
					if pp(v) {
						return fp.None[int]()
					}
					return fp.Some(step(a, v))
				}))
			}}
	}},
	{"list.FoldError", func(x *mc.X, pos int, red bool) lterm {
		p := pickPred(x, red)
		pp := p.at(pos)
		return lterm{label: "list.FoldError(error on " + p.name + ")", shortCircuit: true, ref: func(in []int) string {
			seen := []int{}
			for _, v := range in {
				seen = append(seen, v)
				if pp(v) {
					return fmt.Sprintf("%v %v", seen, "stop")
				}
			}
			return fmt.Sprintf("%v %v", seen, "<nil>")
		}, run: func(e *env, cb *int, l fp.List[int]) string {
			seen := []int{}
			err := list.FoldError(l, func(v int) error {
				e.tick()
				*cb++
				seen = append(seen, v)
				if pp(v) {
					return errStop
				}
				return nil
			})
			return fmt.Sprintf("%v %v", seen, err)
		}}
	}},
	lsimple("list.GroupBy", refGroup, func(e *env, cb *int, l fp.List[int]) string {
		return groupStr(list.GroupBy(l, func(v int) int { e.tick(); *cb++; return v % 2 }))
	}),
	lsimple("list.ToMap", refLastWins, func(e *env, cb *int, l fp.List[int]) string {
		return fpMapStr(list.ToMap(lpairs(l), hash.Number[int]()))
	}),
	lsimple("list.ToGoMap", refLastWins, func(e *env, cb *int, l fp.List[int]) string { return mapStr(list.ToGoMap(lpairs(l))) }),
	lsimple("list.ToSet", refSet, func(e *env, cb *int, l fp.List[int]) string { return fpSetStr(list.ToSet(l, hash.Number[int]())) }),
	lsimple("list.ToGoSet", refSet, func(e *env, cb *int, l fp.List[int]) string {
		keys := []int{}
		for k, ok := range list.ToGoSet(l) {
			if ok {
				keys = append(keys, k)
			}
		}
		sort.Ints(keys)
		return fmt.Sprint(keys)
	}),
	lsimple("list.Min", refMin, func(e *env, cb *int, l fp.List[int]) string { return optStr(list.Min(l, ord.Given[int]())) }),
	lsimple("list.Max", refMax, func(e *env, cb *int, l fp.List[int]) string { return optStr(list.Max(l, ord.Given[int]())) }),
	lsimple("list.Sort", refSorted, func(e *env, cb *int, l fp.List[int]) string { return fmt.Sprint([]int(list.Sort(l, ord.Given[int]()))) }),
	{"iterator.FromList", func(x *mc.X, pos int, red bool) lterm {
		k := []int{99, 0, 1, 2}[x.Choose(4, "elements")]
		return lterm{label: fmt.Sprintf("iterator.FromList, take %d", k), shortCircuit: k < 99, ref: refFirst(k),
			run: func(e *env, cb *int, l fp.List[int]) string {
				it := iterator.FromList(l)
				out := []int{}
				for i := 0; i < k; i++ {
					if !it.HasNext() {
						return fmt.Sprint(out) + "$"
					}
					out = append(out, it.Next())
				}
				return fmt.Sprint(out)
			}}
	}},
}

func init() {
	for i := range listKinds {
		k := listKinds[i]
		mk := k.mk
		listKinds[i].mk = func(x *mc.X, pos int, red bool) lstage {
			s := mk(x, pos, red)
			s.kind = k.name
			return s
		}
	}
	for i := range listTermKinds {
		k := listTermKinds[i]
		mk := k.mk
		listTermKinds[i].mk = func(x *mc.X, pos int, red bool) lterm {
			t := mk(x, pos, red)
			t.kind = k.name
			return t
		}
	}
}
