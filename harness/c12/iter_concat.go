package main

import (
	"fmt"

	"github.com/csgura/fp"
	"github.com/csgura/fp/iterator"
	"verif/mc"
)

// Concat and Appended keep hidden per-iterator state (the private `concat` list of raw
// sub-iterators that a later Concat flattens). A stage that derives its result from a copy of
// its receiver can inherit that list. The family below puts every stage kind M between two
// concatenating stages, X -> M -> Y (and X -> M -> Y -> M'), and compares with the eager
// reference under the usual demands. Every run builds its pipeline from fresh iterator values;
// no iterator value is used twice.

func part(e *env, vals []int) fp.Iterator[int] { return fp.IteratorOfSeq(cp(vals)) }

type concatShape struct {
	name  string
	ref   func(in []int) []int
	build func(e *env, in fp.Iterator[int]) fp.Iterator[int]
}

var concatShapes = []concatShape{
	{"Concat(src,[7 8])", func(in []int) []int { return append(cp(in), 7, 8) },
		func(e *env, in fp.Iterator[int]) fp.Iterator[int] { return in.Concat(part(e, []int{7, 8})) }},
	{"Concat([7 8],src)", func(in []int) []int { return append([]int{7, 8}, in...) },
		func(e *env, in fp.Iterator[int]) fp.Iterator[int] { return part(e, []int{7, 8}).Concat(in) }},
	{"Appended(9)", func(in []int) []int { return append(cp(in), 9) },
		func(e *env, in fp.Iterator[int]) fp.Iterator[int] { return in.Appended(9) }},
	{"Concat(src,Empty)", cp,
		func(e *env, in fp.Iterator[int]) fp.Iterator[int] { return in.Concat(iterator.Empty[int]()) }},
	{"Concat(src,zero)", cp,
		func(e *env, in fp.Iterator[int]) fp.Iterator[int] { var z fp.Iterator[int]; return in.Concat(z) }},
	{"Concat(zero,src)", cp,
		func(e *env, in fp.Iterator[int]) fp.Iterator[int] { var z fp.Iterator[int]; return z.Concat(in) }},
	{"Concat(src,[7].Concat([8]))", func(in []int) []int { return append(cp(in), 7, 8) },
		func(e *env, in fp.Iterator[int]) fp.Iterator[int] {
			return in.Concat(part(e, []int{7}).Concat(part(e, []int{8})))
		}},
	{"Concat([7].Concat([8]),src)", func(in []int) []int { return append([]int{7, 8}, in...) },
		func(e *env, in fp.Iterator[int]) fp.Iterator[int] {
			return part(e, []int{7}).Concat(part(e, []int{8})).Concat(in)
		}},
}

func concatStage(x *mc.X, label string) istage {
	c := concatShapes[x.Choose(len(concatShapes), label)]
	return istage{kind: "Iterator.Concat/Appended", label: c.name, ref: c.ref,
		build: func(e *env, cb *int, in fp.Iterator[int]) fp.Iterator[int] { return c.build(e, in) }}
}

// the stage kinds used as M' in the four-stage family
var narrowKinds = []string{"Iterator.Map", "Iterator.Filter", "Iterator.Take"}

func kindByName(name string) ikind {
	for _, k := range iterKinds {
		if k.name == name {
			return k
		}
	}
	panic("no stage kind " + name)
}

// iterConcatState: X -> M -> Y (four = false) or X -> M -> Y -> M' (four = true).
func iterConcatState(four bool, inputs [][]int) func(x *mc.X) {
	return func(x *mc.X) {
		var st []istage
		if four {
			m1 := kindByName(narrowKinds[x.Choose(len(narrowKinds), "M")])
			m2 := kindByName(narrowKinds[x.Choose(len(narrowKinds), "M'")])
			xs, ys := concatStage(x, "X"), concatStage(x, "Y")
			st = []istage{xs, m1.mk(x, 1, true), ys, m2.mk(x, 3, true)}
		} else {
			m := iterKinds[x.Choose(len(iterKinds), "M")]
			xs, ys := concatStage(x, "X"), concatStage(x, "Y")
			st = []istage{xs, m.mk(x, 1, false), ys}
		}
		for _, s := range st {
			x.Tag(s.kind)
		}
		x.Tag("concat-state:" + st[1].kind)
		p := &ipipe{stages: st}
		sk := finiteSources[0]
		data := mc.Pick(x, "input", inputs)
		outs := p.outputs(data)
		out := outs[len(st)-1]
		x.Logf("pipeline %s over %s %v, reference output %v", join(p.labels()), sk.name, data, out)
		for d := 0; d <= len(out)+1; d++ {
			for _, h := range []bool{false, true} {
				p.check(x, sk, data, outs, d, h)
				x.Tag("demands")
			}
		}
		observeInts(x, out)
		if len(data) >= 1 && !eqInts(out, data) {
			x.NonTrivial()
		}
		_ = fmt.Sprint
	}
}
