package main

import (
	"fmt"
	"math"

	"github.com/csgura/fp"
	"github.com/csgura/fp/iterator"
	"github.com/csgura/fp/list"
	"verif/mc"
)

// ---- sources ---------------------------------------------------------------------------

type srcCount struct {
	pulls, probes int
	since         int // probes since the last pull (a probe in flight counts)
	limit         int // > 0: trip when more than limit elements are pulled (unbounded sources)
	limitHit      bool
}

// counted passes an iterator through, counting pulls and probes (every call ticks).
func counted(e *env, c *srcCount, it fp.Iterator[int]) fp.Iterator[int] {
	return fp.MakeIterator(func() bool {
		e.tick()
		c.probes++
		c.since++
		return it.HasNext()
	}, func() int {
		e.tick()
		if c.limit > 0 && c.pulls >= c.limit {
			c.limitHit = true
			e.tripped = true
			panic(tripped{})
		}
		v := it.Next()
		c.since = 0
		c.pulls++
		return v
	})
}

type isrcKind struct {
	name      string
	unbounded bool
	stream    func(i int) int                           // unbounded: the i-th element
	mk        func(e *env, data []int) fp.Iterator[int] // the library/own iterator before counting
}

func own(data []int, unbounded bool, stream func(int) int) fp.Iterator[int] {
	pos := 0
	return fp.MakeIterator(func() bool { return unbounded || pos < len(data) }, func() int {
		if unbounded {
			v := stream(pos)
			pos++
			return v
		}
		if pos >= len(data) {
			panic("next on empty iterator (harness source)")
		}
		v := data[pos]
		pos++
		return v
	})
}

func reversed(a []int) []int {
	out := make([]int, len(a))
	for i, v := range a {
		out[len(a)-1-i] = v
	}
	return out
}

func cyc(i int) int   { return i % 3 }
func ident(i int) int { return i }

var finiteSources = []isrcKind{
	{name: "MakeIterator(harness)", mk: func(e *env, data []int) fp.Iterator[int] { return own(data, false, nil) }},
	{name: "fp.IteratorOfSeq", mk: func(e *env, data []int) fp.Iterator[int] { return fp.IteratorOfSeq(data) }},
	{name: "iterator.ReverseSeq", mk: func(e *env, data []int) fp.Iterator[int] { return iterator.ReverseSeq(reversed(data)) }},
	{name: "iterator.FromList(list.Generate)", mk: func(e *env, data []int) fp.Iterator[int] {
		return iterator.FromList(list.Generate(func(i int) fp.Option[int] {
			e.tick()
			if i < len(data) {
				return fp.Some(data[i])
			}
			return fp.None[int]()
		}))
	}},
}

var unboundedSources = []isrcKind{
	{name: "iterator.Range(0,MaxInt)", unbounded: true, stream: ident, mk: func(e *env, _ []int) fp.Iterator[int] { return iterator.Range(0, math.MaxInt) }},
	{name: "iterator.Generate(i%3)", unbounded: true, stream: cyc, mk: func(e *env, _ []int) fp.Iterator[int] {
		i := 0
		return iterator.Generate(func() int { e.tick(); v := cyc(i); i++; return v })
	}},
	{name: "MakeIterator(harness,i%3)", unbounded: true, stream: cyc, mk: func(e *env, _ []int) fp.Iterator[int] { return own(nil, true, cyc) }},
	{name: "iterator.RangeClosed(0,MaxInt)", unbounded: true, stream: ident, mk: func(e *env, _ []int) fp.Iterator[int] { return iterator.RangeClosed(0, math.MaxInt) }},
	{name: "iterator.FromList(list.Generate(i%3))", unbounded: true, stream: cyc, mk: func(e *env, _ []int) fp.Iterator[int] {
		return iterator.FromList(list.Generate(func(i int) fp.Option[int] { e.tick(); return fp.Some(cyc(i)) }))
	}},
	{name: "iterator.FromList(list.Range(0,MaxInt))", unbounded: true, stream: ident, mk: func(e *env, _ []int) fp.Iterator[int] { return iterator.FromList(list.Range(0, math.MaxInt)) }},
}

const (
	horizon   = 40 // length of the truncated reference of an unbounded source
	decidedAt = 24 // a demand is eligible on an unbounded source if its first decidedAt elements determine the answers
	pullLimit = 36 // more pulls than this from an unbounded source = does not answer
)

func streamPrefix(f func(int) int, n int) []int {
	out := make([]int, n)
	for i := range out {
		out[i] = f(i)
	}
	return out
}

// ---- taps -------------------------------------------------------------------------------

// tap is the checking pass-through placed at the output of a stage in wrapped mode.
type tap struct {
	name        string
	e           *env
	in          fp.Iterator[int]
	expect      []int
	pulls       int
	probes      int
	probesSince int
	bad         string // the upstream stage gave a wrong answer here
	overrun     bool   // the downstream consumer called Next although the reference is exhausted
	pending     int    // 1: a HasNext call has not returned, 2: a Next call has not returned
}

// demand is what the consumer of this tap has asked for so far (a call that has not returned counts).
func (t *tap) demand() (d int, h bool) {
	if t == nil {
		return 0, false
	}
	switch t.pending {
	case 1:
		return t.pulls, true
	case 2:
		return t.pulls + 1, false
	}
	return t.pulls, t.probesSince > 0
}

func (t *tap) iter() fp.Iterator[int] {
	return fp.MakeIterator(func() bool {
		t.e.tick()
		t.probes++
		t.probesSince++
		t.pending = 1
		h := t.in.HasNext()
		t.pending = 0
		if t.e.x.Recording() {
			t.e.x.Logf("    %s.HasNext -> %v", t.name, h)
		}
		if want := t.pulls < len(t.expect); h != want && t.bad == "" {
			t.bad = fmt.Sprintf("HasNext after %d elements = %v, reference %v (reference output %v)", t.pulls, h, want, t.expect)
		}
		return h
	}, func() int {
		t.e.tick()
		if t.pulls >= len(t.expect) {
			t.overrun = true
		}
		t.pending = 2
		v := t.in.Next()
		t.pending = 0
		if t.e.x.Recording() {
			t.e.x.Logf("    %s.Next -> %d", t.name, v)
		}
		if t.pulls < len(t.expect) && v != t.expect[t.pulls] && t.bad == "" {
			t.bad = fmt.Sprintf("element #%d = %d, reference %d (reference output %v)", t.pulls, v, t.expect[t.pulls], t.expect)
		}
		t.pulls++
		t.probesSince = 0
		return v
	})
}

// ---- pipelines ----------------------------------------------------------------------------

type iterm struct {
	kind, label  string
	ref          func(in []int) string
	run          func(e *env, cb *int, it fp.Iterator[int]) string
	shortCircuit bool
	look         int // documented look-ahead in elements of its input (see istage.look)
}

type ipipe struct {
	stages []istage
	term   *iterm
}

func (p *ipipe) kinds() []string {
	var ks []string
	for _, s := range p.stages {
		ks = append(ks, s.kind)
	}
	if p.term != nil {
		ks = append(ks, p.term.kind)
	}
	return ks
}

func (p *ipipe) labels() []string {
	var ks []string
	for _, s := range p.stages {
		ks = append(ks, s.label)
	}
	if p.term != nil {
		ks = append(ks, p.term.label)
	}
	return ks
}

// outputs[i] = reference output of stage i on data.
func (p *ipipe) outputs(data []int) [][]int {
	outs := make([][]int, len(p.stages))
	cur := data
	for i, s := range p.stages {
		cur = s.ref(cur)
		outs[i] = cur
	}
	return outs
}

func (p *ipipe) ref(data []int) []int {
	cur := data
	for _, s := range p.stages {
		cur = s.ref(cur)
	}
	return cur
}

func (p *ipipe) refStr(data []int) string { return p.term.ref(p.ref(data)) }

// consume runs demand (d,h) against it and reports the first wrong answer.
func consume(it fp.Iterator[int], out []int, d int, h bool) string {
	for i := 0; i < d; i++ {
		has := it.HasNext()
		if want := i < len(out); has != want {
			return fmt.Sprintf("HasNext after %d elements = %v, reference %v (reference output %v)", i, has, want, out)
		}
		if !has {
			return ""
		}
		if v := it.Next(); v != out[i] {
			return fmt.Sprintf("element #%d = %d, reference %d (reference output %v)", i, v, out[i], out)
		}
	}
	if h {
		has := it.HasNext()
		if want := d < len(out); has != want {
			return fmt.Sprintf("HasNext after %d elements = %v, reference %v (reference output %v)", d, has, want, out)
		}
	}
	return ""
}

type irunResult struct {
	f        *finding
	srcPulls int
	// inDemand[i]: what consumer i (stage i, terminal for i == k) asked of its input, in
	// half steps 2*pulls + (1 if a HasNext followed the last pull); calls in flight count.
	// Filled for i == 0 always, for i > 0 in wrapped mode.
	inDemand []int
	spun     bool // the run did not return on an unbounded source (judged per stage in wrapped mode)
}

// run builds the pipeline over a fresh source and consumes it (demand (d,h), or the terminal).
func (p *ipipe) run(x *mc.X, sk isrcKind, data []int, outs [][]int, d int, h bool, wrapped bool) irunResult {
	e := &env{x: x, budget: 4000}
	sc := &srcCount{}
	if sk.unbounded {
		sc.limit = pullLimit
	}
	k := len(p.stages)
	cbs := make([]int, k+1)
	taps := make([]*tap, k)
	var wrong, got string
	final := data
	if k > 0 {
		final = outs[k-1]
	}
	pv := mc.Catch(func() {
		it := counted(e, sc, sk.mk(e, data))
		for i, s := range p.stages {
			it = s.build(e, &cbs[i], it)
			if wrapped {
				taps[i] = &tap{name: s.label, e: e, in: it, expect: outs[i]}
				it = taps[i].iter()
			}
		}
		if p.term != nil {
			got = p.term.run(e, &cbs[k], it)
			if want := p.term.ref(final); got != want {
				wrong = fmt.Sprintf("result %s, reference %s", got, want)
			}
		} else {
			wrong = consume(it, final, d, h)
		}
	})
	res := irunResult{srcPulls: sc.pulls, inDemand: make([]int, k+1)}
	res.inDemand[0] = 2 * sc.pulls
	if sc.since > 0 {
		res.inDemand[0]++
	}
	for i := 1; i <= k; i++ {
		if taps[i-1] != nil {
			dd, hh := taps[i-1].demand()
			res.inDemand[i] = 2 * dd
			if hh {
				res.inDemand[i]++
			}
		}
	}
	nCons := k
	if p.term != nil {
		nCons = k + 1
	}
	nameOf := func(i int) string {
		if i < k {
			return p.stages[i].kind
		}
		if p.term != nil {
			return p.term.kind
		}
		return ""
	}
	// what consumer i (stage i, or the terminal for i == k) pulled from its input
	pullsOf := func(i int) int {
		if i == 0 {
			return sc.pulls
		}
		if taps[i-1] != nil {
			return taps[i-1].pulls
		}
		return 0
	}
	activity := func(i int) int {
		a := cbs[i] + pullsOf(i)
		if i == 0 {
			a += sc.probes
		} else if taps[i-1] != nil {
			a += taps[i-1].probes
		}
		return a
	}
	perStage := wrapped || nCons == 1
	// lazy: the first stage (upstream first) that pulled more than need+2 for the demand its
	// consumer placed on it (calls that have not returned count as demanded).
	lazy := func() *finding {
		if !perStage {
			return nil
		}
		for i := 0; i < k; i++ {
			in := data
			if i > 0 {
				in = outs[i-1]
			}
			pulls := pullsOf(i)
			var dd int
			var hh bool
			switch {
			case wrapped:
				dd, hh = taps[i].demand()
			case pv != nil:
				continue // direct mode, did not return: the demand in flight is unknown
			default:
				dd, hh = d, h
				if dd > len(final) {
					dd = len(final) + 1
				}
			}
			floor := 0
			if p.stages[i].floor != nil {
				floor = p.stages[i].floor(in)
			}
			if n := lazyViolation(p.stages[i].ref, in, pulls, dd, hh, floor); n >= 0 {
				return &finding{culprit: nameOf(i), what: "lazy", msg: fmt.Sprintf(
					"%s pulled %d elements of its input %v to serve %d outputs%s, although the first %d elements already determine those answers (bound: need+2 = %d)",
					p.stages[i].label, pulls, short8(in), dd, map[bool]string{true: " and a HasNext", false: ""}[hh], n, n+2)}
			}
		}
		if p.term != nil && p.term.shortCircuit && (wrapped || k == 0) {
			in := data
			if k > 0 {
				in = outs[k-1]
			}
			pulls := pullsOf(k)
			if n := lazyViolationStr(p.term.ref, in, pulls); n >= 0 {
				return &finding{culprit: p.term.kind, what: "lazy", msg: fmt.Sprintf(
					"%s pulled %d elements of its input %v although the first %d already determine its result %s", p.term.label, pulls, short8(in), n, p.term.ref(in))}
			}
		}
		return nil
	}
	switch {
	case pv != nil && e.tripped && sc.limitHit:
		// did not answer within pullLimit pulls of an unbounded source: a defect of the stage that
		// pulled beyond need+2, legitimate if every stage stayed within its bound (then the
		// reference itself needs the whole source for what was asked)
		res.spun = true
		if f := lazy(); f != nil {
			f.what = "unbounded"
			f.msg = "does not return on an unbounded source: " + f.msg
			res.f = f
		}
	case pv != nil && e.tripped:
		f := &finding{what: "nonterm", msg: fmt.Sprintf("more than %d callback invocations/pulls/probes in one run", e.budget)}
		if perStage {
			for i := nCons - 1; i >= 0; i-- {
				if activity(i) >= e.budget/4 || (i == 0 && nCons == 1) {
					f.culprit = nameOf(i)
					break
				}
			}
		}
		res.f = f
	case pv != nil:
		f := &finding{what: "panic", msg: fmt.Sprintf("panic in a legal use: %v", pv)}
		if nCons == 1 {
			f.culprit = nameOf(0)
		} else if wrapped {
			for i := 0; i < k; i++ {
				if taps[i] != nil && taps[i].bad != "" {
					f.culprit = nameOf(i)
					break
				}
				if taps[i] != nil && taps[i].overrun && nameOf(i+1) != "" {
					f.culprit = nameOf(i + 1)
					f.msg += " (it called Next on its exhausted input)"
					break
				}
			}
		}
		res.f = f
	default:
		if wrapped {
			for i := 0; i < k; i++ {
				if taps[i].bad != "" {
					res.f = &finding{culprit: nameOf(i), what: "value", msg: taps[i].bad}
					return res
				}
			}
		}
		if wrong != "" {
			f := &finding{what: "value", msg: wrong}
			if nCons == 1 {
				f.culprit = nameOf(0)
			} else if wrapped && p.term != nil {
				f.culprit = p.term.kind // every tap agreed with the reference
			}
			res.f = f
			return res
		}
		res.f = lazy()
	}
	return res
}

func short8(a []int) string {
	if len(a) > 8 {
		return fmt.Sprintf("%v..(%d)", a[:8], len(a))
	}
	return fmt.Sprint(a)
}

// check runs direct and wrapped mode for one consumer and fails the execution on a finding.
// It reports whether the consumer was answered (false: legitimate non-termination on an
// unbounded source).
func (p *ipipe) check(x *mc.X, sk isrcKind, data []int, outs [][]int, d int, h bool) bool {
	var dr irunResult
	// The calls of demand (d,h) are a prefix of the calls of every larger demand, and a
	// multi-stage direct run only yields answers (no per-stage counts): on finite sources the
	// largest demand covers the direct runs of all smaller ones.
	if sk.unbounded || p.term != nil || len(p.stages) == 1 || (h && d == len(outs[len(outs)-1])+1) {
		dr = p.run(x, sk, data, outs, d, h, false)
	}
	if x.Recording() {
		x.Logf("  demand d=%d extraHasNext=%v, wrapped run:", d, h)
	}
	wr := p.run(x, sk, data, outs, d, h, true)
	if x.Recording() {
		x.Logf("  -> direct: %v, wrapped: %v (source pulls %d)", dr.f, wr.f, wr.srcPulls)
	}
	f := dr.f
	if f != nil {
		if f.culprit == "" && wr.f != nil {
			f.culprit = wr.f.culprit // the most upstream stage the pass-throughs saw misbehave
		}
	} else {
		f = wr.f
	}
	if f == nil && sk.unbounded {
		if ef := p.e2eCheck(x, sk, data, outs, d, h, dr, func() irunResult { return wr }); ef != nil {
			p.failE2E(x, ef, sk, data, d, h)
		}
	}
	if f == nil && dr.spun != wr.spun {
		f = &finding{what: "unbounded-direct-only", msg: fmt.Sprintf("on the unbounded source the pipeline as written returned=%v but with pass-throughs between the stages returned=%v", !dr.spun, !wr.spun)}
	}
	if f == nil {
		return !wr.spun
	}
	if f.culprit == "" {
		f.culprit = p.isolate(x, sk, data, outs, f.what)
	}
	key := f.culprit + "/" + f.what
	if f.culprit == "" {
		key = join(p.kinds()) + "/" + f.what
	}
	dem := fmt.Sprintf("demand: %d outputs, extra HasNext=%v", d, h)
	if p.term != nil {
		dem = "consumer: " + p.term.label
	}
	x.Fail(key, "%s\n pipeline: %s\n source: %s %v\n %s\n (direct run: %v; wrapped run: %v)", f.msg, join(p.labels()), sk.name, short8(data), dem, dr.f, wr.f)
	return false
}

// isolate re-runs every stage alone on its reference input (all demands) and names the first one
// that shows the same kind of failure by itself.
func (p *ipipe) isolate(x *mc.X, sk isrcKind, data []int, outs [][]int, what string) string {
	if sk.unbounded {
		return ""
	}
	solo := finiteSources[0]
	for i, s := range p.stages {
		in := data
		if i > 0 {
			in = outs[i-1]
		}
		one := &ipipe{stages: []istage{s}}
		o := one.outputs(in)
		for d := 0; d <= len(o[0])+1; d++ {
			for _, h := range []bool{false, true} {
				if r := one.run(x, solo, in, o, d, h, true); r.f != nil && (r.f.what == what || what == "panic" || what == "value") {
					return s.kind
				}
			}
		}
	}
	if p.term != nil {
		in := data
		if len(p.stages) > 0 {
			in = outs[len(p.stages)-1]
		}
		one := &ipipe{term: p.term}
		if r := one.run(x, solo, in, nil, 0, false, true); r.f != nil && (r.f.what == what || what == "panic" || what == "value") {
			return p.term.kind
		}
	}
	return ""
}
