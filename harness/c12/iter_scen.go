package main

import (
	"fmt"

	"github.com/csgura/fp"
	"github.com/csgura/fp/iterator"
	"verif/mc"
)

func observeInts(x *mc.X, a []int) {
	x.ObserveInt(len(a))
	for _, v := range a {
		x.ObserveInt(v + 1)
	}
}

func chooseStages(x *mc.X, k int, reduced bool) []istage {
	idx := make([]int, k)
	for i := range idx {
		idx[i] = x.Choose(len(iterKinds), fmt.Sprintf("stage%d", i))
	}
	st := make([]istage, k)
	for i := range idx {
		st[i] = iterKinds[idx[i]].mk(x, i, reduced)
		x.Tag(st[i].kind)
	}
	return st
}

// iterDemand: k stages, every finite input, every demand (d = 0..len(out)+1, with and without
// the extra HasNext), direct and wrapped.
func iterDemand(k int, reduced bool, inputs [][]int, sources []isrcKind) func(x *mc.X) {
	return func(x *mc.X) {
		p := &ipipe{stages: chooseStages(x, k, reduced)}
		sk := sources[0]
		if len(sources) > 1 {
			sk = sources[x.Choose(len(sources), "source")]
		}
		data := mc.Pick(x, "input", inputs)
		outs := p.outputs(data)
		out := outs[k-1]
		x.Logf("pipeline %s over %s %v, reference output %v", join(p.labels()), sk.name, data, out)
		for d := 0; d <= len(out)+1; d++ {
			for _, h := range []bool{false, true} {
				p.check(x, sk, data, outs, d, h)
				x.Tag("demands")
			}
		}
		p.blindDrain(x, sk, data, outs)
		observeInts(x, out)
		if len(data) >= 2 && len(out) >= 1 && !eqInts(out, data) {
			x.NonTrivial()
		}
	}
}

// iterTerminal: k stages followed by a consuming function.
func iterTerminal(k int, reduced bool, inputs [][]int, sources []isrcKind) func(x *mc.X) {
	return func(x *mc.X) {
		ti := x.Choose(len(iterTermKinds), "terminal")
		st := chooseStages(x, k, reduced)
		t := iterTermKinds[ti].mk(x, k, reduced)
		x.Tag(t.kind)
		p := &ipipe{stages: st, term: &t}
		sk := sources[0]
		if len(sources) > 1 {
			sk = sources[x.Choose(len(sources), "source")]
		}
		data := mc.Pick(x, "input", inputs)
		outs := p.outputs(data)
		want := p.refStr(data)
		x.Logf("pipeline %s over %s %v, reference result %s", join(p.labels()), sk.name, data, want)
		p.check(x, sk, data, outs, 0, false)
		x.Observe(want)
		if len(data) >= 2 {
			x.NonTrivial()
		}
	}
}

// iterUnbounded: pipelines over unbounded generators. Every demand d = 0..5 (with and without
// the extra HasNext) is run; a run that does not come back within pullLimit pulls is judged stage
// by stage: a stage that pulled more than need+2 for what its consumer asked is the defect;
// if every stage stayed within its bound the reference itself needs the whole source for
// that demand (DropWhile(true), Filter without further matches ...) and the case is excluded.
func iterUnbounded(k int, reduced bool, withTerm bool) func(x *mc.X) {
	return func(x *mc.X) {
		var p *ipipe
		if withTerm {
			ti := x.Choose(len(iterTermKinds), "terminal")
			st := chooseStages(x, k, reduced)
			t := iterTermKinds[ti].mk(x, k, reduced)
			x.Tag(t.kind)
			p = &ipipe{stages: st, term: &t}
		} else {
			p = &ipipe{stages: chooseStages(x, k, reduced)}
		}
		sk := unboundedSources[x.Choose(len(unboundedSources), "source")]
		x.Tag(sk.name)
		data := streamPrefix(sk.stream, horizon)
		outs := p.outputs(data)
		x.Logf("pipeline %s over unbounded %s", join(p.labels()), sk.name)
		ran := 0
		one := func(d int, h bool) {
			if p.check(x, sk, data, outs, d, h) {
				x.Tag("unbounded:answered")
				ran++
			} else {
				x.Tag("unbounded:excluded(reference needs the whole source)")
			}
		}
		if withTerm {
			one(0, false)
		} else {
			for d := 0; d <= 5; d++ {
				one(d, false)
				one(d, true)
			}
		}
		x.ObserveInt(ran)
		if ran > 0 {
			x.NonTrivial()
		}
	}
}

// iterTwoSided: Duplicate/Span/Partition with both sides drained in a few fixed orders (every
// interleaving of the two sides is C20's subject; here the values are compared with the eager
// seq.Span/seq.Partition semantics).
func iterTwoSided(inputs [][]int) func(x *mc.X) {
	return func(x *mc.X) {
		which := x.Choose(3, "combinator")
		order := x.Choose(4, "order")
		p := preds[0]
		if which > 0 {
			p = pickPred(x, false)
		}
		data := mc.Pick(x, "input", inputs)
		name := []string{"iterator.Duplicate", "iterator.Span", "iterator.Partition"}[which]
		x.Tag(name)
		var wl, wr []int
		switch which {
		case 0:
			wl, wr = cp(data), cp(data)
		case 1:
			wl, wr = refTakeWhile(p.f)(data), refDropWhile(p.f)(data)
		case 2:
			wl, wr = refFilter(p.f, true)(data), refFilter(p.f, false)(data)
		}
		e := &env{x: x, budget: 4000}
		sc := &srcCount{}
		cb := 0
		var gl, gr []int
		pv := mc.Catch(func() {
			src := counted(e, sc, own(data, false, nil))
			var l, r fp.Iterator[int]
			switch which {
			case 0:
				l, r = iterator.Duplicate(src)
			case 1:
				l, r = iterator.Span(src, ipred(e, &cb, p.f))
			case 2:
				l, r = iterator.Partition(src, ipred(e, &cb, p.f))
			}
			switch order {
			case 0:
				gl = l.ToSeq()
				gr = r.ToSeq()
			case 1:
				gr = r.ToSeq()
				gl = l.ToSeq()
			default: // alternate, starting left (2) or right (3)
				gl, gr = []int{}, []int{}
				turn := order == 2
				for {
					lh, rh := l.HasNext(), r.HasNext()
					if !lh && !rh {
						break
					}
					if (turn && lh) || !rh {
						gl = append(gl, l.Next())
					} else {
						gr = append(gr, r.Next())
					}
					turn = !turn
				}
			}
		})
		x.Logf("%s(%s) over %v, order %d: left %v right %v", name, p.name, data, order, gl, gr)
		if pv != nil {
			what := "panic"
			if e.tripped {
				what = "nonterm"
			}
			x.Fail(name+"/"+what, "%s(%s) over %v, order %d: %v", name, p.name, data, order, pv)
		}
		if !eqInts(gl, wl) || !eqInts(gr, wr) {
			x.Fail(name+"/value", "%s(%s) over %v, drain order %d: left %v right %v, reference left %v right %v", name, p.name, data, order, gl, gr, wl, wr)
		}
		if sc.pulls != len(data) {
			x.Fail(name+"/pulls", "%s(%s) over %v: %d pulls from the source for %d elements", name, p.name, data, sc.pulls, len(data))
		}
		observeInts(x, gl)
		observeInts(x, gr)
		if len(wl) > 0 && len(wr) > 0 {
			x.NonTrivial()
		}
	}
}

// iterSources: the producers named in the statement (Range, Generate) and the reversing ones.
func iterSources(inputs [][]int) func(x *mc.X) {
	return func(x *mc.X) {
		which := x.Choose(6, "producer")
		var name string
		var got, want []int
		e := &env{x: x, budget: 4000}
		pv := mc.Catch(func() {
			switch which {
			case 0, 1:
				from, to := x.Choose(6, "from")-2, x.Choose(7, "to")-2
				want = []int{}
				if which == 0 {
					name = "iterator.Range"
					for i := from; i < to; i++ {
						want = append(want, i)
					}
					got = iterator.Range(from, to).ToSeq()
				} else {
					name = "iterator.RangeClosed"
					for i := from; i <= to; i++ {
						want = append(want, i)
					}
					got = iterator.RangeClosed(from, to).ToSeq()
				}
			case 2:
				name = "iterator.Generate"
				n := x.Choose(5, "take")
				i := 0
				it := iterator.Generate(func() int { e.tick(); i++; return i * i })
				want, got = []int{}, []int{}
				for j := 1; j <= n; j++ {
					want = append(want, j*j)
					if !it.HasNext() {
						break
					}
					got = append(got, it.Next())
				}
				if i != n {
					x.Fail(name+"/lazy", "Generate called the generator %d times for %d elements", i, n)
				}
			case 3:
				name = "iterator.ReverseSeq"
				data := mc.Pick(x, "input", inputs)
				want = reversed(data)
				got = iterator.ReverseSeq(cp(data)).ToSeq()
			case 4:
				name = "iterator.ReverseSlice"
				data := mc.Pick(x, "input", inputs)
				want = reversed(data)
				got = iterator.ReverseSlice(cp(data)).ToSeq()
			case 5:
				name = "Seq.Reverse"
				data := mc.Pick(x, "input", inputs)
				want = reversed(data)
				got = fp.Seq[int](cp(data)).Reverse()
			}
		})
		x.Tag(name)
		if pv != nil {
			x.Fail(name+"/panic", "%s: %v", name, pv)
		}
		if !eqInts(got, want) {
			x.Fail(name+"/value", "%s yields %v, reference %v", name, got, want)
		}
		observeInts(x, got)
		if len(want) >= 2 {
			x.NonTrivial()
		}
	}
}
