package main

import (
	"fmt"

	"github.com/csgura/fp"
	"github.com/csgura/fp/iterator"
	"github.com/csgura/fp/list"
	"github.com/csgura/fp/seq"
	"verif/mc"
)

// Multi-operand functions: every operand is an instrumented source of its own, every combination
// of operand lengths 0..3, optionally one operand unbounded (the others finite), every demand.
// Oracle: the eager computation on the same operands (ends at the shortest operand for the zips),
// per operand pulls <= need+2 (need by brute force with the other operands fixed), and the run
// comes back whenever the reference answers (an unbounded operand does not keep a zip alive once a
// finite one is exhausted).

// operand i yields 1, 2, 3 (cyclically when unbounded); results are packed in decimal digits
func operandValues(n int) []int {
	out := make([]int, n)
	for i := range out {
		out[i] = i%3 + 1
	}
	return out
}

func pack(vs ...int) int {
	r := 0
	for _, v := range vs {
		if isW(v) {
			return v
		}
		r = r*10 + v
	}
	return r
}

type mop struct {
	name  string
	arity int
	ref   func(ops [][]int) []int
	iter  func(e *env, its []fp.Iterator[int]) fp.Iterator[int]
	lname string
	lst   func(e *env, ls []fp.List[int]) fp.List[int]
	// seqRef: the library's own eager counterpart (must agree with ref)
	seqRef func(ops [][]int) []int
	// observe: the ITERATOR variant is only compared with seq as an observation (census), not an alarm
	observe bool
	// zipLike: the output ends with the shortest operand
	zipLike bool
}

func zipRef(ops [][]int) []int {
	n := len(ops[0])
	for _, o := range ops {
		if len(o) < n {
			n = len(o)
		}
	}
	out := []int{}
	for i := 0; i < n; i++ {
		vs := make([]int, len(ops))
		for j := range ops {
			vs[j] = ops[j][i]
		}
		out = append(out, pack(vs...))
	}
	return out
}

func concatRef(ops [][]int) []int {
	out := []int{}
	for _, o := range ops {
		out = append(out, o...)
	}
	return out
}

func crossRef(ops [][]int) []int {
	out := []int{}
	for _, a := range ops[0] {
		for _, b := range ops[1] {
			out = append(out, pack(a, b))
		}
	}
	return out
}

func seqs(ops [][]int) []fp.Seq[int] {
	out := make([]fp.Seq[int], len(ops))
	for i, o := range ops {
		out[i] = fp.Seq[int](append([]int{}, o...))
	}
	return out
}

var mops = []mop{
	{name: "iterator.Zip", arity: 2, ref: zipRef, lname: "list.Zip", zipLike: true,
		iter: func(e *env, its []fp.Iterator[int]) fp.Iterator[int] {
			return glue(iterator.Zip(its[0], its[1]), func(t fp.Tuple2[int, int]) int { return pack(t.I1, t.I2) })
		},
		lst: func(e *env, ls []fp.List[int]) fp.List[int] {
			return lglue(list.Zip(ls[0], ls[1]), func(t fp.Tuple2[int, int]) int { return pack(t.I1, t.I2) })
		},
		seqRef: func(ops [][]int) []int {
			out := []int{}
			for _, t := range seq.Zip(seqs(ops)[0], seqs(ops)[1]) {
				out = append(out, pack(t.I1, t.I2))
			}
			return out
		}},
	{name: "iterator.Zip3", arity: 3, ref: zipRef, lname: "list.Zip3", zipLike: true,
		iter: func(e *env, its []fp.Iterator[int]) fp.Iterator[int] {
			return glue(iterator.Zip3(its[0], its[1], its[2]), func(t fp.Tuple3[int, int, int]) int { return pack(t.I1, t.I2, t.I3) })
		},
		lst: func(e *env, ls []fp.List[int]) fp.List[int] {
			return lglue(list.Zip3(ls[0], ls[1], ls[2]), func(t fp.Tuple3[int, int, int]) int { return pack(t.I1, t.I2, t.I3) })
		}},
	{name: "Iterator.Concat(a,b)", arity: 2, ref: concatRef, lname: "list.Combine(a,b)",
		iter:   func(e *env, its []fp.Iterator[int]) fp.Iterator[int] { return its[0].Concat(its[1]) },
		lst:    func(e *env, ls []fp.List[int]) fp.List[int] { return list.Combine(ls[0], ls[1]) },
		seqRef: func(ops [][]int) []int { return seqs(ops)[0].Concat(seqs(ops)[1]) }},
	{name: "Iterator.Concat(a,b).Concat(c)", arity: 3, ref: concatRef, lname: "list.Combine(list.Combine(a,b),c)",
		iter: func(e *env, its []fp.Iterator[int]) fp.Iterator[int] { return its[0].Concat(its[1]).Concat(its[2]) },
		lst:  func(e *env, ls []fp.List[int]) fp.List[int] { return list.Combine(list.Combine(ls[0], ls[1]), ls[2]) }},
	{name: "Iterator.Concat(a,b.Concat(c))", arity: 3, ref: concatRef, lname: "list.Combine(a,list.Combine(b,c))",
		iter: func(e *env, its []fp.Iterator[int]) fp.Iterator[int] { return its[0].Concat(its[1].Concat(its[2])) },
		lst:  func(e *env, ls []fp.List[int]) fp.List[int] { return list.Combine(ls[0], list.Combine(ls[1], ls[2])) }},
	{name: "iterator.Flatten([a,b,c])", arity: 3, ref: concatRef, lname: "list.Flatten([a,b,c])",
		iter:   func(e *env, its []fp.Iterator[int]) fp.Iterator[int] { return iterator.Flatten(fp.IteratorOfSeq(its)) },
		lst:    func(e *env, ls []fp.List[int]) fp.List[int] { return list.Flatten(list.Of(ls...)) },
		seqRef: func(ops [][]int) []int { return seq.Flatten(fp.Seq[fp.Seq[int]](seqs(ops))) }},
	{name: "iterator.Map2", arity: 2, ref: crossRef, lname: "list.Map2", observe: true,
		iter: func(e *env, its []fp.Iterator[int]) fp.Iterator[int] {
			return iterator.Map2(its[0], its[1], func(a, b int) int { e.tick(); return pack(a, b) })
		},
		lst: func(e *env, ls []fp.List[int]) fp.List[int] {
			return list.Map2(ls[0], ls[1], func(a, b int) int { e.tick(); return pack(a, b) })
		},
		seqRef: func(ops [][]int) []int {
			return seq.Map2(seqs(ops)[0], seqs(ops)[1], func(a, b int) int { return pack(a, b) })
		}},
	{name: "iterator.Ap", arity: 2, ref: crossRef, lname: "list.Ap", observe: true,
		iter: func(e *env, its []fp.Iterator[int]) fp.Iterator[int] {
			return iterator.Ap(iterator.Map(its[0], apFn), its[1])
		},
		lst: func(e *env, ls []fp.List[int]) fp.List[int] { return list.Ap(list.Map(ls[0], apFn), ls[1]) },
		seqRef: func(ops [][]int) []int {
			return seq.Ap(seq.Map(seqs(ops)[0], apFn), seqs(ops)[1])
		}},
}

func apFn(a int) fp.Func1[int, int] { return func(b int) int { return pack(a, b) } }

const unboundedOperand = 99

// operand sources
type opSrc struct {
	c     srcCount
	evals []int
}

func iterOperand(e *env, s *opSrc, n int) fp.Iterator[int] {
	if n == unboundedOperand {
		s.c.limit = pullLimit
		return counted(e, &s.c, own(nil, true, func(i int) int { return i%3 + 1 }))
	}
	return counted(e, &s.c, own(operandValues(n), false, nil))
}

// unbounded list operands are never slice-backed: list.Generate, list.Map over list.Generate,
// list.Recurrence1 (flavour chosen per execution)
var unboundedFlavours = []string{"list.Generate", "list.Map(list.Generate)", "list.Recurrence1"}

func listOperand(e *env, s *opSrc, n int, flavour int) fp.List[int] {
	if n == unboundedOperand && flavour == 2 {
		i := 0
		for len(s.evals) < 1 {
			s.evals = append(s.evals, 1) // the first element is given, not computed
		}
		return list.Recurrence1(1, func(prev int) int {
			e.tick()
			i++
			for len(s.evals) <= i {
				s.evals = append(s.evals, 0)
			}
			s.evals[i]++
			if i >= pullLimit {
				s.c.limitHit = true
				e.tripped = true
				panic(tripped{})
			}
			return prev%3 + 1
		})
	}
	l := listGenerate(e, s, n)
	if n == unboundedOperand && flavour == 1 {
		return list.Map(l, func(v int) int { e.tick(); return v })
	}
	return l
}

func listGenerate(e *env, s *opSrc, n int) fp.List[int] {
	return list.Generate(func(i int) fp.Option[int] {
		e.tick()
		for len(s.evals) <= i {
			s.evals = append(s.evals, 0)
		}
		s.evals[i]++
		if n == unboundedOperand {
			if i >= pullLimit {
				s.c.limitHit = true
				e.tripped = true
				panic(tripped{})
			}
			return fp.Some(i%3 + 1)
		}
		if i < n {
			return fp.Some(i%3 + 1)
		}
		return fp.None[int]()
	})
}

func multiOperand() func(x *mc.X) {
	return func(x *mc.X) {
		op := mops[x.Choose(len(mops), "function")]
		unb := x.Choose(op.arity+1, "unbounded operand (0=none)") - 1
		lens := make([]int, op.arity)
		ops := make([][]int, op.arity)
		for i := range lens {
			if i == unb {
				lens[i] = unboundedOperand
				ops[i] = operandValues(horizon)
				continue
			}
			lens[i] = x.Choose(4, fmt.Sprintf("length of operand %d", i))
			ops[i] = operandValues(lens[i])
		}
		flavour := 0
		if unb >= 0 {
			flavour = x.Choose(len(unboundedFlavours), "unbounded list operand built by")
			x.Tag("multi-operand:unbounded operand " + unboundedFlavours[flavour])
		}
		x.Tag(op.name)
		x.Tag(op.lname)
		out := op.ref(ops)
		label := func(name string) string {
			s := name + " with operand lengths"
			for _, l := range lens {
				if l == unboundedOperand {
					s += " unbounded"
				} else {
					s += fmt.Sprintf(" %d", l)
				}
			}
			return s
		}
		x.Logf("%s, reference output %v", label(op.name), short8(out))
		if op.seqRef != nil && unb < 0 {
			if got := op.seqRef(ops); !eqInts(got, out) {
				x.Fail("seq/"+op.name+"/reference", "the package-seq counterpart gives %v, the harness reference %v (%s)", got, out, label(op.name))
			}
		}
		if op.observe && unb < 0 {
			// iterator.Map2/Ap hand ONE second-operand iterator to every element of the first (single
			// use): value agreement with seq is recorded as an observation, not demanded (C01's
			// subject). list.Map2/Ap are compared strictly below, like every other list function.
			e := &env{x: x, budget: 4000}
			var got []int
			pv := mc.Catch(func() {
				its := make([]fp.Iterator[int], op.arity)
				for i := range its {
					its[i] = iterOperand(e, &opSrc{}, lens[i])
				}
				got = op.iter(e, its).ToSeq()
			})
			if pv != nil {
				x.Fail(op.name+"/panic", "%s: %v", label(op.name), pv)
			}
			if eqInts(got, out) {
				x.Tag("observation:" + op.name + " agrees with seq")
			} else {
				x.Tag("observation:" + op.name + " differs from seq (second operand is consumed by the first element)")
			}
		}
		maxD := len(out) + 1
		if maxD > 5 && unb >= 0 {
			maxD = 5
		}
		refOf := func(i int) func([]int) []int {
			return func(in []int) []int {
				o2 := append([][]int{}, ops...)
				o2[i] = in
				return op.ref(o2)
			}
		}
		// With an unbounded operand the reference output is computed on a truncated operand; a demand
		// that would see the END of that output is only run if the end is real: zips end with their
		// shortest finite operand; the cross products (Map2/Ap) end iff their FIRST operand is finite
		// (Ap(Nil, unbounded) is empty, Ap(unbounded, Nil) never answers); concatenations do not end.
		endReal := unb < 0 || op.zipLike || (op.observe && unb != 0)
		for d := 0; d <= maxD; d++ {
			if d > len(out) && !endReal {
				x.Tag("multi-operand:excluded(reference needs the whole unbounded operand)")
				continue
			}
			for _, h := range []bool{false, true} {
				if op.observe {
					break // the iterator variants of Map2/Ap are observed above only
				}
				if h && d >= len(out) && !endReal {
					continue
				}
				// ---- iterator ----
				e := &env{x: x, budget: 4000}
				srcs := make([]*opSrc, op.arity)
				var wrong string
				pv := mc.Catch(func() {
					its := make([]fp.Iterator[int], op.arity)
					for i := range its {
						srcs[i] = &opSrc{}
						its[i] = iterOperand(e, srcs[i], lens[i])
					}
					wrong = consume(op.iter(e, its), out, d, h)
				})
				dem := fmt.Sprintf("demand: %d outputs, extra HasNext=%v", d, h)
				if pv != nil {
					what := "panic"
					if e.tripped {
						what = "nonterm"
						if unb >= 0 && srcs[unb] != nil && srcs[unb].c.limitHit {
							what = "unbounded"
						}
					}
					if e.tripped {
						pv = fmt.Sprintf("does not return within the budget (%d pulls of an unbounded operand / %d callbacks)", pullLimit, e.budget)
					}
					x.Fail(op.name+"/"+what, "%s; %s: %v (reference output %v)", label(op.name), dem, pv, short8(out))
				}
				if wrong != "" {
					x.Fail(op.name+"/value", "%s; %s: %s", label(op.name), dem, wrong)
				}
				for i := range ops {
					if n := lazyViolation(refOf(i), ops[i], srcs[i].c.pulls, d, h, 0); n >= 0 {
						x.Fail(op.name+"/lazy", "%s; %s: pulled %d elements of operand %d although its first %d determine the answers (bound need+2)", label(op.name), dem, srcs[i].c.pulls, i, n)
					}
				}
				x.Tag("multi-operand:demands")
			}
			// ---- list: the first d cells ----
			e := &env{x: x, budget: 6000}
			lsrcs := make([]*opSrc, op.arity)
			var wrong string
			pv := mc.Catch(func() {
				ls := make([]fp.List[int], op.arity)
				for i := range ls {
					lsrcs[i] = &opSrc{}
					ls[i] = listOperand(e, lsrcs[i], lens[i], flavour)
				}
				wrong = walk(op.lst(e, ls), out, d, patForward)
			})
			dem := fmt.Sprintf("demand: first %d cells", d)
			if pv != nil {
				what := "panic"
				if e.tripped {
					what = "nonterm"
					if unb >= 0 && lsrcs[unb] != nil && lsrcs[unb].c.limitHit {
						what = "unbounded"
					}
				}
				if e.tripped {
					pv = fmt.Sprintf("does not return within the budget (%d cells of an unbounded operand / %d callbacks)", pullLimit, e.budget)
				}
				x.Fail(op.lname+"/"+what, "%s; %s: %v (reference output %v)", label(op.lname), dem, pv, short8(out))
			}
			if wrong != "" {
				x.Fail(op.lname+"/value", "%s; %s: %s", label(op.lname), dem, wrong)
			}
			k := d
			if k > len(out)+1 {
				k = len(out) + 1
			}
			for i := range ops {
				for j, c := range lsrcs[i].evals {
					if c > 1 {
						x.Fail(op.lname+"/memo", "%s; %s: cell %d of operand %d evaluated %d times", label(op.lname), dem, j, i, c)
					}
				}
				if op.observe && i == 0 && len(ops[1]) == 0 {
					// every element of the first operand contributes the empty list: FlatMap has to walk
					// all of them to find the end (it cannot know that Map over Nil is Nil)
					continue
				}
				if n := lazyViolation(refOf(i), ops[i], len(lsrcs[i].evals), k, false, 0); n >= 0 {
					x.Fail(op.lname+"/lazy", "%s; %s: evaluated %d cells of operand %d although its first %d determine the answers (bound need+2)", label(op.lname), dem, len(lsrcs[i].evals), i, n)
				}
			}
		}
		observeInts(x, out[:min(len(out), 8)])
		distinct := map[int]bool{}
		for _, l := range lens {
			distinct[l] = true
		}
		if len(distinct) > 1 {
			x.NonTrivial() // operands of different lengths
		}
	}
}
