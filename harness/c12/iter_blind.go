package main

import (
	"fmt"

	"github.com/csgura/fp"
	"verif/mc"
)

// blindDrain: the consumer knows the size and takes every element with Next alone (no HasNext in
// between: Next;Next;...), then asks HasNext once. Every iterator of the library guards its own
// next, so this is a demand pattern like any other; a combinator whose Next relies on a
// preceding HasNext (e.g. at the boundary between two sub-iterators of FlatMap) fails here.
func (p *ipipe) blindDrain(x *mc.X, sk isrcKind, data []int, outs [][]int) {
	bad := p.blindRun(x, sk, data, outs)
	if bad == "" {
		return
	}
	culprit := ""
	if len(p.stages) == 1 {
		culprit = p.stages[0].kind
	} else {
		for i, s := range p.stages {
			in := data
			if i > 0 {
				in = outs[i-1]
			}
			one := &ipipe{stages: []istage{s}}
			if one.blindRun(x, finiteSources[0], in, one.outputs(in)) != "" {
				culprit = s.kind
				break
			}
		}
	}
	if culprit == "" {
		culprit = join(p.kinds())
	}
	x.Fail(culprit+"/next-without-hasnext", "%s\n pipeline: %s\n source: %s %v\n demand: Next x %d without HasNext, then HasNext", bad, join(p.labels()), sk.name, short8(data), len(outs[len(outs)-1]))
}

func (p *ipipe) blindRun(x *mc.X, sk isrcKind, data []int, outs [][]int) string {
	e := &env{x: x, budget: 4000}
	sc := &srcCount{}
	cbs := make([]int, len(p.stages))
	out := outs[len(outs)-1]
	bad := ""
	pv := mc.Catch(func() {
		var it fp.Iterator[int] = counted(e, sc, sk.mk(e, data))
		for i, s := range p.stages {
			it = s.build(e, &cbs[i], it)
		}
		for i, w := range out {
			if v := it.Next(); v != w {
				bad = fmt.Sprintf("Next #%d (no HasNext before it) = %d, reference %d (reference output %v)", i, v, w, out)
				return
			}
		}
		if it.HasNext() {
			bad = fmt.Sprintf("HasNext after all %d elements were taken with Next alone = true (reference output %v)", len(out), out)
		}
	})
	if pv != nil {
		if e.tripped {
			return fmt.Sprintf("does not return when the %d elements are taken with Next alone", len(out))
		}
		return fmt.Sprintf("panic while the %d elements of the reference output %v are taken with Next alone (no HasNext in between): %v", len(out), out, pv)
	}
	return bad
}
