package main

import (
	"fmt"

	"verif/mc"
)

// End-to-end laziness. The per-stage bound (pulls <= need+2 against the demand the consumer
// actually placed) cannot see a stage that asks its source a question it did not need to ask:
// the question is then a demand on the upstream stage, whose pulls look justified. The end-to-end
// bound propagates the reference's needs from the consumer down to the original source:
//
//	D_k         = the consumer's demand on the last stage
//	need_i      = shortest prefix of stage i's reference input that fixes its answers to D_{i+1}
//	              for every continuation (bisection over the same brute-force test as the
//	              per-stage bound; "end" if not even the whole input does); a trailing HasNext
//	              that the reference answers with true counts as asking for that element
//	allow_i     = max(need_i, eager skip of Drop) + look_i   elements of stage i's input
//	D_i         = "consume allow_i elements" (or "see the end")
//	requirement : pulls from the original source <= allow_0 + e2eSlack
//
// look_i is the documented look-ahead of the combinator in elements of its own input (0 except
// ToList/Collect: 1, Zip(src,other): 1); e2eSlack = 2 source elements for the whole pipeline.
const e2eSlack = 2

// needOf bisects for a prefix length that determines (det(n) true, det(n-1) false); end reports
// that not even the whole input determines the answers (the consumer has to see the end).
func needOf(det func(n int) bool, l int) (n int, end bool) {
	if !det(l) {
		return l, true
	}
	lo, hi := 0, l
	for lo < hi {
		mid := (lo + hi) / 2
		if det(mid) {
			hi = mid
		} else {
			lo = mid + 1
		}
	}
	return lo, false
}

// allowances returns, for every consumer i (stage i; the terminal for i == k), how many elements
// of its input it may consume (len(input)+1 = it may run into the end), and ok=false if the
// pipeline ends in a terminal that consumes everything by nature.
func (p *ipipe) allowances(data []int, outs [][]int, d int, h bool) (allow []int, ok bool) {
	k := len(p.stages)
	allow = make([]int, k+1)
	inputOf := func(i int) []int {
		if i == 0 {
			return data
		}
		return outs[i-1]
	}
	top := k - 1
	if p.term != nil {
		in := inputOf(k)
		e := len(in) + 1 // a terminal that is not short-circuiting drains its input: for HasNext { Next }
		if p.term.shortCircuit {
			real := p.term.ref(in)
			n, end := needOf(func(n int) bool { return determinesStr(p.term.ref, in, n, real, stageFamily) }, len(in))
			e = n + p.term.look
			if end || e > len(in) {
				e = len(in) + 1
			}
		}
		allow[k] = e
		d, h = e, false
	}
	for i := top; i >= 0; i-- {
		in := inputOf(i)
		st := p.stages[i]
		real := outs[i]
		dd, hh := d, h
		if hh && len(real) > dd {
			// "is there another element" is asked of combinators that find out by locating that
			// element (Concat asks its first part before its second): count the element as asked for
			dd, hh = dd+1, false
		}
		n, end := needOf(func(n int) bool { return determines(st.ref, in, n, real, dd, hh, stageFamily) }, len(in))
		e := n
		if st.floor != nil {
			if f := st.floor(in); f > e {
				e = f
			}
		}
		if st.eagerN > len(in) {
			end = true // Drop(n) on fewer than n elements runs into the end when it is constructed
		}
		e += st.look
		if end || e > len(in) {
			e = len(in) + 1
		}
		allow[i] = e
		d, h = e, false
	}
	return allow, true
}

// e2eCheck judges one direct run against the end-to-end bound. wrapped supplies the per-consumer
// demands for the attribution (may be nil).
func (p *ipipe) e2eCheck(x *mc.X, sk isrcKind, data []int, outs [][]int, d int, h bool, dr irunResult, wrapped func() irunResult) *finding {
	if dr.f != nil {
		return nil
	}
	if !dr.spun && dr.srcPulls <= e2eSlack {
		return nil
	}
	allow, ok := p.allowances(data, outs, d, h)
	if !ok || allow[0] > len(data) {
		return nil // the reference itself reads the source to its end for this demand
	}
	bound := allow[0] + e2eSlack
	what := "e2e-lazy"
	if sk.unbounded {
		what = "e2e-unbounded"
		if bound >= pullLimit {
			return nil
		}
		if !dr.spun && dr.srcPulls <= bound {
			return nil
		}
	} else if dr.srcPulls <= bound {
		return nil
	}
	f := &finding{what: what}
	if dr.spun {
		f.msg = fmt.Sprintf("does not return on the unbounded source (more than %d pulls) although the first %d source elements determine every answer asked for (end-to-end bound %d)", pullLimit, allow[0], bound)
	} else {
		f.msg = fmt.Sprintf("pulled %d elements of the source %v although the first %d determine every answer asked for (end-to-end bound: need + declared look-ahead + %d = %d)", dr.srcPulls, short8(data), allow[0], e2eSlack, bound)
	}
	// attribution: the most downstream consumer that asked more of its input than its allowance
	if wrapped != nil {
		wr := wrapped()
		k := len(p.stages)
		for i := k; i >= 0; i-- {
			if i == k && p.term == nil {
				continue
			}
			in := data
			if i > 0 {
				in = outs[i-1]
			}
			if allow[i] > len(in) {
				continue
			}
			if wr.inDemand[i] > 2*allow[i] {
				name := ""
				if i < k {
					name = p.stages[i].kind
				} else {
					name = p.term.kind
				}
				f.culprit = name
				f.msg += fmt.Sprintf("; %s asked its input for %d elements%s, the reference needs %d", name, wr.inDemand[i]/2,
					map[bool]string{true: " and then a HasNext", false: ""}[wr.inDemand[i]%2 == 1], allow[i])
				break
			}
		}
	}
	return f
}

var e2eTails = [][]int{{7, 7, 7, 7, 7, 7, 7, 7}, {0, 0, 0, 0, 0, 0, 0, 0}}

// iterE2E: pipelines over inputs that end in a long tail of elements irrelevant to the first
// answers (8 x 7: matches none of the non-constant predicates; 8 x 0: matches all of them), every
// demand d = 0..4 with and without the trailing HasNext (this includes "consume exactly n, then
// HasNext" on Take(n)), judged by the end-to-end bound only (values are compared too).
func iterE2E(k int, reduced bool, inputs [][]int) func(x *mc.X) {
	return func(x *mc.X) {
		p := &ipipe{stages: chooseStages(x, k, reduced)}
		tail := e2eTails[x.Choose(len(e2eTails), "tail")]
		head := mc.Pick(x, "input", inputs)
		data := append(cp(head), tail...)
		sk := finiteSources[0]
		outs := p.outputs(data)
		out := outs[k-1]
		x.Logf("pipeline %s over %s %v, reference output %v", join(p.labels()), sk.name, data, out)
		maxD := len(out) + 1
		if maxD > 4 {
			maxD = 4
		}
		for d := 0; d <= maxD; d++ {
			for _, h := range []bool{false, true} {
				dr := p.run(x, sk, data, outs, d, h, false)
				if dr.f != nil && dr.f.what != "lazy" {
					p.check(x, sk, data, outs, d, h) // fails with the usual key
				}
				dr.f = nil
				f := p.e2eCheck(x, sk, data, outs, d, h, dr, func() irunResult { return p.run(x, sk, data, outs, d, h, true) })
				x.Tag("e2e:demands")
				if f != nil {
					p.failE2E(x, f, sk, data, d, h)
				}
			}
		}
		observeInts(x, out)
		if len(out) >= 1 && !eqInts(out, data) {
			x.NonTrivial()
		}
	}
}

func (p *ipipe) failE2E(x *mc.X, f *finding, sk isrcKind, data []int, d int, h bool) {
	key := f.culprit + "/" + f.what
	if f.culprit == "" {
		key = join(p.kinds()) + "/" + f.what
	}
	dem := fmt.Sprintf("demand: %d outputs, extra HasNext=%v", d, h)
	if p.term != nil {
		dem = "consumer: " + p.term.label
	}
	x.Fail(key, "%s\n pipeline: %s\n source: %s %v\n %s", f.msg, join(p.labels()), sk.name, short8(data), dem)
}
