package main

import (
	"fmt"
	"math"

	"github.com/csgura/fp"
	"github.com/csgura/fp/iterator"
	"github.com/csgura/fp/list"
	"verif/mc"
)

// ---- list taps ----------------------------------------------------------------------------

// ltap is the shared state of a checking pass-through list: every cell of the wrapped list is
// represented by an lcell that counts which cells were evaluated (asked for emptiness or head).
type ltap struct {
	e       *env
	expect  []int
	touched int // cells 0..touched-1 have been evaluated by the consumer (a call in flight counts)
	calls   int
	bad     string
	overrun bool
	limit   int // > 0: trip when more cells than this are evaluated (unbounded sources)
	hit     bool
}

type lcell struct {
	t     *ltap
	inner fp.List[int]
	idx   int
}

func (t *ltap) wrap(l fp.List[int]) fp.List[int] { return lcell{t, l, 0} }

func (c lcell) touch() {
	t := c.t
	t.e.tick()
	t.calls++
	if c.idx+1 > t.touched {
		if t.limit > 0 && c.idx+1 > t.limit {
			t.hit = true
			t.e.tripped = true
			panic(tripped{})
		}
		t.touched = c.idx + 1
	}
}

func (c lcell) IsEmpty() bool {
	c.touch()
	em := c.inner.IsEmpty()
	if want := c.idx >= len(c.t.expect); em != want && c.t.bad == "" {
		c.t.bad = fmt.Sprintf("cell %d: IsEmpty = %v, reference %v (reference output %v)", c.idx, em, want, short8(c.t.expect))
	}
	return em
}

func (c lcell) NonEmpty() bool { return !c.IsEmpty() }

func (c lcell) Head() int {
	c.touch()
	if c.idx >= len(c.t.expect) {
		c.t.overrun = true
	}
	v := c.inner.Head()
	if c.idx < len(c.t.expect) && v != c.t.expect[c.idx] && c.t.bad == "" {
		c.t.bad = fmt.Sprintf("cell %d: Head = %d, reference %d (reference output %v)", c.idx, v, c.t.expect[c.idx], short8(c.t.expect))
	}
	return v
}

// Tail counts as a demand on the cell it is taken from: the consumer is entitled to whatever
// the library does to produce the rest of a cell it (implicitly) claims to be non-empty.
func (c lcell) Tail() fp.List[int] {
	c.touch()
	return lcell{c.t, c.inner.Tail(), c.idx + 1}
}

func (c lcell) Unapply() (int, fp.List[int]) { return c.Head(), c.Tail() }

func (c lcell) Foreach(f func(int)) {
	var cur fp.List[int] = c
	for cur.NonEmpty() {
		f(cur.Head())
		cur = cur.Tail()
	}
}

func (c lcell) ToSeq() []int {
	out := []int{}
	c.Foreach(func(v int) { out = append(out, v) })
	return out
}

// ---- list sources ---------------------------------------------------------------------------

type lsrc struct {
	evals  []int // list.Generate sources: evaluations of generator(i)
	itc    *srcCount
	tap    *ltap // the source pass-through (counts cells evaluated by the first stage)
	twice  string
	hasGen bool
}

type lsrcKind struct {
	name      string
	unbounded bool
	stream    func(i int) int
	// prefetch: elements an iterator-backed source has pulled beyond the cells evaluated
	mk func(e *env, s *lsrc, data []int) fp.List[int]
}

func genOf(e *env, s *lsrc, data []int, unbounded bool, stream func(int) int, off int) func(int) fp.Option[int] {
	s.hasGen = true
	return func(i int) fp.Option[int] {
		e.tick()
		j := i - off
		for len(s.evals) <= j {
			s.evals = append(s.evals, 0)
		}
		s.evals[j]++
		if s.evals[j] > 1 && s.twice == "" {
			s.twice = fmt.Sprintf("generator(%d) evaluated %d times", i, s.evals[j])
		}
		if unbounded {
			return fp.Some(stream(j))
		}
		if j < len(data) {
			return fp.Some(data[j])
		}
		return fp.None[int]()
	}
}

var finiteListSources = []lsrcKind{
	{name: "list.Generate", mk: func(e *env, s *lsrc, data []int) fp.List[int] { return list.Generate(genOf(e, s, data, false, nil, 0)) }},
	{name: "list.Collect(iterator)", mk: func(e *env, s *lsrc, data []int) fp.List[int] {
		s.itc = &srcCount{}
		return list.Collect(counted(e, s.itc, own(data, false, nil)))
	}},
	{name: "iterator.ToList(iterator)", mk: func(e *env, s *lsrc, data []int) fp.List[int] {
		s.itc = &srcCount{}
		return iterator.ToList(counted(e, s.itc, own(data, false, nil)))
	}},
	{name: "list.Of", mk: func(e *env, s *lsrc, data []int) fp.List[int] { return list.Of(cp(data)...) }},
	{name: "list.FromSeq", mk: func(e *env, s *lsrc, data []int) fp.List[int] { return list.FromSeq(cp(data)) }},
	{name: "list.ReverseSeq", mk: func(e *env, s *lsrc, data []int) fp.List[int] { return list.ReverseSeq(reversed(data)) }},
	{name: "list.Concat(cons cells)", mk: func(e *env, s *lsrc, data []int) fp.List[int] {
		l := list.Empty[int]()
		for i := len(data) - 1; i >= 0; i-- {
			l = list.Concat(data[i], l)
		}
		return l
	}},
	{name: "list.GenerateFrom(5)", mk: func(e *env, s *lsrc, data []int) fp.List[int] {
		return list.GenerateFrom(5, genOf(e, s, data, false, nil, 5))
	}},
}

var unboundedListSources = []lsrcKind{
	{name: "list.Range(0,MaxInt)", unbounded: true, stream: ident, mk: func(e *env, s *lsrc, _ []int) fp.List[int] { return list.Range(0, math.MaxInt) }},
	{name: "list.Generate(i%3)", unbounded: true, stream: cyc, mk: func(e *env, s *lsrc, _ []int) fp.List[int] {
		return list.Generate(genOf(e, s, nil, true, cyc, 0))
	}},
	{name: "list.RangeClosed(0,MaxInt)", unbounded: true, stream: ident, mk: func(e *env, s *lsrc, _ []int) fp.List[int] { return list.RangeClosed(0, math.MaxInt) }},
	{name: "list.Collect(iterator.Range(0,MaxInt))", unbounded: true, stream: ident, mk: func(e *env, s *lsrc, _ []int) fp.List[int] {
		s.itc = &srcCount{limit: pullLimit}
		return list.Collect(counted(e, s.itc, iterator.Range(0, math.MaxInt)))
	}},
	{name: "iterator.ToList(iterator.Generate(i%3))", unbounded: true, stream: cyc, mk: func(e *env, s *lsrc, _ []int) fp.List[int] {
		s.itc = &srcCount{limit: pullLimit}
		i := 0
		return iterator.ToList(counted(e, s.itc, iterator.Generate(func() int { v := cyc(i); i++; return v })))
	}},
}

// ---- stages, terminals, pipelines ---------------------------------------------------------------

type lstage struct {
	kind, label string
	ref         func(in []int) []int
	build       func(e *env, cb *int, in fp.List[int]) fp.List[int]
}

type lterm struct {
	kind, label  string
	ref          func(in []int) string
	run          func(e *env, cb *int, l fp.List[int]) string
	shortCircuit bool
}

type lpipe struct {
	stages []lstage
	term   *lterm
}

func (p *lpipe) kinds() []string {
	var ks []string
	for _, s := range p.stages {
		ks = append(ks, s.kind)
	}
	if p.term != nil {
		ks = append(ks, p.term.kind)
	}
	return ks
}

func (p *lpipe) labels() []string {
	var ks []string
	for _, s := range p.stages {
		ks = append(ks, s.label)
	}
	if p.term != nil {
		ks = append(ks, p.term.label)
	}
	return ks
}

func (p *lpipe) outputs(data []int) [][]int {
	outs := make([][]int, len(p.stages))
	cur := data
	for i, s := range p.stages {
		cur = s.ref(cur)
		outs[i] = cur
	}
	return outs
}

// list demand patterns on the first k cells
const (
	patForward    = iota // NonEmpty, Head, Tail cell by cell
	patTailsFirst        // k-1 Tail calls without looking, then look at the last cell, then walk forward
	patUnapply           // NonEmpty, Unapply
	nPatterns
)

var patNames = []string{"forward", "tails-first", "unapply"}

// walk applies the pattern and reports the first wrong answer.
func walk(l fp.List[int], out []int, k, pat int) string {
	lookAt := func(cur fp.List[int], i int) (string, bool) {
		ne := cur.NonEmpty()
		if want := i < len(out); ne != want {
			return fmt.Sprintf("cell %d: NonEmpty = %v, reference %v (reference output %v)", i, ne, want, short8(out)), false
		}
		return "", ne
	}
	if kk := min(k, len(out)+1); pat == patTailsFirst && kk > 0 {
		// Tail is only taken from cells the reference says are non-empty
		cur := l
		for i := 0; i < kk-1; i++ {
			cur = cur.Tail()
		}
		if w, ne := lookAt(cur, kk-1); w != "" {
			return w
		} else if ne {
			if v := cur.Head(); v != out[kk-1] {
				return fmt.Sprintf("cell %d: Head = %d, reference %d (reference output %v)", kk-1, v, out[kk-1], short8(out))
			}
		}
	}
	cur := l
	for i := 0; i < k; i++ {
		w, ne := lookAt(cur, i)
		if w != "" {
			return w
		}
		if !ne {
			return ""
		}
		var v int
		if pat == patUnapply {
			v, cur = cur.Unapply()
		} else {
			v = cur.Head()
			cur = cur.Tail()
		}
		if v != out[i] {
			return fmt.Sprintf("cell %d: Head = %d, reference %d (reference output %v)", i, v, out[i], short8(out))
		}
	}
	return ""
}

type lrunResult struct {
	f    *finding
	spun bool
}

func (p *lpipe) run(x *mc.X, sk lsrcKind, data []int, outs [][]int, k, pat int, wrapped bool) lrunResult {
	e := &env{x: x, budget: 6000}
	src := &lsrc{}
	n := len(p.stages)
	cbs := make([]int, n+1)
	taps := make([]*ltap, n)
	final := data
	if n > 0 {
		final = outs[n-1]
	}
	var wrong, got, wrong2 string
	// pulls of consumer i on its input, snapshotted after the demand and before the re-traversal
	snap := make([]int, n+1)
	snapped, srcPulls := false, 0
	takeSnap := func() {
		if snapped {
			return
		}
		snapped = true
		if src.itc != nil {
			srcPulls = src.itc.pulls
		}
		for i := 0; i <= n; i++ {
			if i == 0 {
				if src.tap != nil {
					snap[i] = src.tap.touched
				}
			} else if taps[i-1] != nil {
				snap[i] = taps[i-1].touched
			}
		}
	}
	finalDemand := 0
	pv := mc.Catch(func() {
		defer takeSnap()
		raw := sk.mk(e, src, data)
		src.tap = &ltap{e: e, expect: data}
		if sk.unbounded {
			src.tap.limit = pullLimit
		}
		l := src.tap.wrap(raw)
		for i, s := range p.stages {
			l = s.build(e, &cbs[i], l)
			if wrapped {
				taps[i] = &ltap{e: e, expect: outs[i]}
				l = taps[i].wrap(l)
			}
		}
		if p.term != nil {
			got = p.term.run(e, &cbs[n], l)
			if want := p.term.ref(final); got != want {
				wrong = fmt.Sprintf("result %s, reference %s", got, want)
			}
			return
		}
		wrong = walk(l, final, k, pat)
		finalDemand = k
		if finalDemand > len(final)+1 {
			finalDemand = len(final) + 1
		}
		takeSnap()
		if wrong == "" && !sk.unbounded {
			// re-traverse everything: same values, and nothing is evaluated a second time
			again := l.ToSeq()
			if !eqInts(again, final) {
				wrong2 = fmt.Sprintf("complete re-traversal after the demand gives %v, reference %v", again, final)
			}
		}
	})
	var res lrunResult
	nCons := n
	if p.term != nil {
		nCons = n + 1
	}
	nameOf := func(i int) string {
		if i < n {
			return p.stages[i].kind
		}
		if p.term != nil {
			return p.term.kind
		}
		return ""
	}
	perStage := wrapped || nCons == 1
	lazy := func() *finding {
		if src.itc != nil && srcPulls > 2 {
			// the iterator-backed source list itself: pulls <= cells evaluated by its consumer + 2
			if v := lazyViolation(cp, data, srcPulls, snap[0], false, 0); v >= 0 {
				return &finding{culprit: sk.name, what: "lazy", msg: fmt.Sprintf(
					"%s pulled %d elements of its iterator although only the first %d cells of the list were evaluated (bound: need+2 = %d)", sk.name, srcPulls, snap[0], v+2)}
			}
		}
		if !perStage {
			return nil
		}
		for i := 0; i < n; i++ {
			in := data
			if i > 0 {
				in = outs[i-1]
			}
			pulls := snap[i]
			dd := snap[i+1] // cells of this stage's output evaluated by its consumer
			if !wrapped {
				if pv != nil {
					continue
				}
				dd = finalDemand
			}
			if v := lazyViolation(p.stages[i].ref, in, pulls, dd, false, 0); v >= 0 {
				return &finding{culprit: nameOf(i), what: "lazy", msg: fmt.Sprintf(
					"%s evaluated %d cells of its input %v to serve the first %d cells of its output, although the first %d input cells already determine them (bound: need+2 = %d)",
					p.stages[i].label, pulls, short8(in), dd, v, v+2)}
			}
		}
		if p.term != nil && p.term.shortCircuit && (wrapped || n == 0) {
			in := data
			if n > 0 {
				in = outs[n-1]
			}
			if v := lazyViolationStr(p.term.ref, in, snap[n]); v >= 0 {
				return &finding{culprit: p.term.kind, what: "lazy", msg: fmt.Sprintf(
					"%s evaluated %d cells of its input %v although the first %d already determine its result %s", p.term.label, snap[n], short8(in), v, p.term.ref(in))}
			}
		}
		return nil
	}
	limitHit := (src.tap != nil && src.tap.hit) || (src.itc != nil && src.itc.limitHit)
	switch {
	case pv != nil && e.tripped && limitHit:
		res.spun = true
		if f := lazy(); f != nil {
			f.what = "unbounded"
			f.msg = "does not return on an unbounded source: " + f.msg
			res.f = f
		}
	case pv != nil && e.tripped:
		f := &finding{what: "nonterm", msg: fmt.Sprintf("more than %d callback invocations/cell evaluations in one run", e.budget)}
		if perStage {
			for i := nCons - 1; i >= 0; i-- {
				a := cbs[i]
				if i == 0 {
					if src.tap != nil {
						a += src.tap.calls
					}
				} else if taps[i-1] != nil {
					a += taps[i-1].calls
				}
				if a >= e.budget/4 || (i == 0 && nCons == 1) {
					f.culprit = nameOf(i)
					break
				}
			}
		}
		res.f = f
	case pv != nil:
		f := &finding{what: "panic", msg: fmt.Sprintf("panic in a legal use: %v", pv)}
		if nCons == 1 {
			f.culprit = nameOf(0)
		} else if wrapped {
			for i := 0; i < n; i++ {
				if taps[i] != nil && taps[i].bad != "" {
					f.culprit = nameOf(i)
					break
				}
				if taps[i] != nil && taps[i].overrun && nameOf(i+1) != "" {
					f.culprit = nameOf(i + 1)
					f.msg += " (it asked for the head of an empty cell of its input)"
					break
				}
			}
		}
		res.f = f
	default:
		if src.tap.bad != "" {
			res.f = &finding{culprit: sk.name, what: "value", msg: "source list: " + src.tap.bad}
			return res
		}
		if wrapped {
			for i := 0; i < n; i++ {
				if taps[i].bad != "" {
					res.f = &finding{culprit: nameOf(i), what: "value", msg: taps[i].bad}
					return res
				}
			}
		}
		if wrong == "" {
			wrong = wrong2
		}
		if wrong != "" {
			f := &finding{what: "value", msg: wrong}
			if nCons == 1 {
				f.culprit = nameOf(0)
			} else if wrapped && p.term != nil {
				f.culprit = p.term.kind
			}
			res.f = f
			return res
		}
		if src.twice != "" {
			res.f = &finding{culprit: sk.name, what: "memo", msg: "a memoised list evaluated a cell twice: " + src.twice}
			return res
		}
		res.f = lazy()
	}
	return res
}

func (p *lpipe) check(x *mc.X, sk lsrcKind, data []int, outs [][]int, k, pat int) bool {
	var dr lrunResult
	// see ipipe.check: on finite sources the largest demand covers the direct runs of smaller ones
	if sk.unbounded || p.term != nil || len(p.stages) <= 1 || k == len(outs[len(outs)-1])+1 {
		dr = p.run(x, sk, data, outs, k, pat, false)
	}
	wr := p.run(x, sk, data, outs, k, pat, true)
	if x.Recording() {
		x.Logf("  demand first %d cells (%s) -> direct: %v, wrapped: %v", k, patNames[pat], dr.f, wr.f)
	}
	f := dr.f
	if f != nil {
		if f.culprit == "" && wr.f != nil {
			f.culprit = wr.f.culprit // the most upstream stage the pass-throughs saw misbehave
		}
	} else {
		f = wr.f
	}
	if f == nil && dr.spun != wr.spun {
		f = &finding{what: "unbounded-direct-only", msg: fmt.Sprintf("on the unbounded source the pipeline as written returned=%v but with pass-throughs between the stages returned=%v", !dr.spun, !wr.spun)}
	}
	if f == nil {
		return !wr.spun
	}
	if f.culprit == "" {
		f.culprit = p.isolate(x, data, outs, f.what)
	}
	key := f.culprit + "/" + f.what
	if f.culprit == "" {
		key = join(p.kinds()) + "/" + f.what
	}
	dem := fmt.Sprintf("demand: first %d cells, pattern %s", k, patNames[pat])
	if p.term != nil {
		dem = "consumer: " + p.term.label
	}
	x.Fail(key, "%s\n pipeline: %s\n source: %s %v\n %s\n (direct run: %v; wrapped run: %v)", f.msg, join(p.labels()), sk.name, short8(data), dem, dr.f, wr.f)
	return false
}

func (p *lpipe) isolate(x *mc.X, data []int, outs [][]int, what string) string {
	solo := finiteListSources[0]
	for i, s := range p.stages {
		in := data
		if i > 0 {
			in = outs[i-1]
		}
		if len(in) > 12 {
			continue
		}
		one := &lpipe{stages: []lstage{s}}
		o := one.outputs(in)
		for k := 0; k <= len(o[0])+1; k++ {
			if r := one.run(x, solo, in, o, k, patForward, true); r.f != nil && (r.f.what == what || what == "panic" || what == "value") {
				return s.kind
			}
		}
	}
	if p.term != nil {
		in := data
		if len(p.stages) > 0 {
			in = outs[len(p.stages)-1]
		}
		if len(in) <= 12 {
			one := &lpipe{term: p.term}
			if r := one.run(x, solo, in, nil, 0, 0, true); r.f != nil && (r.f.what == what || what == "panic" || what == "value") {
				return p.term.kind
			}
		}
	}
	return ""
}
