// C03 — immutable Map/Set equal a mathematical map for every history and lawful hasher.
// Explicit-state search to closure over real fp.Map/fp.Set values (package verif/hamt) plus
// stateless enumeration of builder / ToMap / ToSet histories.
package main

import (
	"fmt"
	"sort"

	"github.com/csgura/fp"
	"github.com/csgura/fp/immutable"
	"github.com/csgura/fp/iterator"
	"github.com/csgura/fp/list"
	"github.com/csgura/fp/seq"
	"verif/hamt"
	"verif/mc"
)

var active = []int{0, 1, 2, 3, 32}

func builderScenario(h hamt.Hasher, ballast int, depth int) func(x *mc.X) {
	return func(x *mc.X) {
		keys := active[:4]
		vals := []int{1, 2}
		ref := map[int]int{}
		b := immutable.MapBuilder[int, int](h)
		sb := immutable.SetBuilder[int](h)
		k := 4
		for i := 0; i < ballast; i++ {
			for k == 32 {
				k++
			}
			b.Add(k, 9)
			sb.Add(k)
			ref[k] = 9
			k++
		}
		n := x.Choose(depth+1, "len")
		hist := fmt.Sprintf("MapBuilder(%s) + %d ballast", h.Name, ballast)
		for i := 0; i < n; i++ {
			kk := mc.Pick(x, "key", keys)
			v := mc.Pick(x, "val", vals)
			b.Add(kk, v)
			sb.Add(kk)
			ref[kk] = v
			hist += fmt.Sprintf(" . Add(%d,%d)", kk, v)
		}
		x.Logf("%s . Build()", hist)
		m := b.Build()
		s := sb.Build()
		universe := append([]int{9999}, keys...)
		for kk := range ref {
			universe = append(universe, kk)
		}
		sort.Ints(universe)
		if m.Size() != len(ref) {
			x.Fail("MapBuilder/Size", "%s . Build(): Size()=%d, reference %d", hist, m.Size(), len(ref))
		}
		if s.Size() != len(ref) {
			x.Fail("SetBuilder/Size", "%s . Build(): set Size()=%d, reference %d", hist, s.Size(), len(ref))
		}
		for _, kk := range universe {
			want, ok := ref[kk]
			got := m.Get(kk)
			if got.IsDefined() != ok || (ok && got.Get() != want) {
				x.Fail("MapBuilder/Get", "%s . Build(): Get(%d)=%v, reference present=%v value=%d", hist, kk, got, ok, want)
			}
			if s.Contains(kk) != ok {
				x.Fail("SetBuilder/Contains", "%s . Build(): Contains(%d)=%v, reference %v", hist, kk, s.Contains(kk), ok)
			}
		}
		cnt := map[int]int{}
		it := m.Iterator()
		for i := 0; it.HasNext(); i++ {
			if i > len(ref)+2 {
				x.Fail("MapBuilder/Iterator-overrun", "%s: iterator does not end", hist)
			}
			e := it.Next()
			cnt[e.I1]++
			if ref[e.I1] != e.I2 {
				x.Fail("MapBuilder/Iterator-entry", "%s: iterator yields (%d,%d), reference %d", hist, e.I1, e.I2, ref[e.I1])
			}
		}
		for kk := range ref {
			if cnt[kk] != 1 {
				x.Fail("MapBuilder/Iterator-count", "%s: iterator yields key %d %d times", hist, kk, cnt[kk])
			}
		}
		els := s.Iterator().ToSeq()
		sort.Ints(els)
		var wantEls []int
		for kk := range ref {
			wantEls = append(wantEls, kk)
		}
		sort.Ints(wantEls)
		if fmt.Sprint([]int(els)) != fmt.Sprint(wantEls) {
			x.Fail("SetBuilder/Iterator", "%s: set iterator yields %v, reference %v", hist, els, wantEls)
		}
		x.Observe(len(ref), n)
		if n >= 2 {
			x.NonTrivial()
		}
	}
}

// collectors: seq/iterator/list ToMap and ToSet on every tuple sequence up to length 4
func collectorScenario(h hamt.Hasher, maxLen int) func(x *mc.X) {
	return func(x *mc.X) {
		which := x.Choose(8, "collector")
		n := x.Choose(maxLen+1, "len")
		keys := []int{0, 1, 32}
		var ts fp.Seq[fp.Tuple2[int, int]]
		var ks fp.Seq[int]
		ref := map[int]int{}
		if which >= 6 {
			// the variadic constructors: the arguments may repeat a key (the last one wins); distinct
			// padding puts the argument count below, at and above the 8-entry root array node
			pad := []int{0, 5, 7}[x.Choose(3, "padding")]
			for i := 0; i < pad; i++ {
				ts = append(ts, fp.Tuple2[int, int]{I1: 100 + i, I2: 9})
				ks = append(ks, 100+i)
				ref[100+i] = 9
			}
		}
		for i := 0; i < n; i++ {
			k := mc.Pick(x, "key", keys)
			v := x.Choose(2, "val") + 1
			ts = append(ts, fp.Tuple2[int, int]{I1: k, I2: v})
			ks = append(ks, k)
			ref[k] = v
		}
		name := []string{"seq.ToMap", "iterator.ToMap", "list.ToMap", "seq.ToSet", "iterator.ToSet", "list.ToSet", "immutable.Map", "immutable.Set"}[which]
		x.Logf("%s(%v) with hasher %s", name, ts, h.Name)
		if which < 3 || which == 6 {
			var m fp.Map[int, int]
			switch which {
			case 0:
				m = seq.ToMap(ts, h)
			case 1:
				m = iterator.ToMap(iterator.FromSeq(ts), h)
			case 2:
				m = list.ToMap(list.Collect(iterator.FromSeq(ts)), h)
			case 6:
				m = immutable.Map(h, ts...)
			}
			if m.Size() != len(ref) {
				x.Fail(name+"/Size", "%s(%v): Size()=%d, reference %d", name, ts, m.Size(), len(ref))
			}
			for _, k := range append(keys, 9999) {
				want, ok := ref[k]
				got := m.Get(k)
				if got.IsDefined() != ok || (ok && got.Get() != want) {
					x.Fail(name+"/Get", "%s(%v): Get(%d)=%v, reference present=%v value=%d (last write wins)", name, ts, k, got, ok, want)
				}
			}
			if got := len(m.Iterator().ToSeq()); got != len(ref) {
				x.Fail(name+"/Iterator", "%s(%v): iterator yields %d entries, reference %d", name, ts, got, len(ref))
			}
			for k := range ref {
				if m2 := m.Removed(k); m2.Get(k).IsDefined() || m2.Size() != len(ref)-1 {
					x.Fail(name+"/Removed", "%s(%v).Removed(%d): key still present (%v) or Size()=%d, reference %d", name, ts, k, m2.Get(k), m2.Size(), len(ref)-1)
				}
			}
			if m3 := m.Updated(7777, 1).Updated(7778, 1); m3.Size() != len(ref)+2 || len(m3.Iterator().ToSeq()) != len(ref)+2 {
				x.Fail(name+"/Updated", "%s(%v) plus two new keys: Size()=%d, iterator yields %d, reference %d", name, ts, m3.Size(), len(m3.Iterator().ToSeq()), len(ref)+2)
			}
		} else {
			var s fp.Set[int]
			switch which {
			case 3:
				s = seq.ToSet(ks, h)
			case 4:
				s = iterator.ToSet(iterator.FromSeq(ks), h)
			case 5:
				s = list.ToSet(list.Collect(iterator.FromSeq(ks)), h)
			case 7:
				s = immutable.Set(h, ks...)
			}
			if s.Size() != len(ref) {
				x.Fail(name+"/Size", "%s(%v): Size()=%d, reference %d", name, ks, s.Size(), len(ref))
			}
			for _, k := range append(keys, 9999) {
				_, ok := ref[k]
				if s.Contains(k) != ok {
					x.Fail(name+"/Contains", "%s(%v): Contains(%d)=%v, reference %v", name, ks, k, s.Contains(k), ok)
				}
			}
			if got := len(s.Iterator().ToSeq()); got != len(ref) {
				x.Fail(name+"/Iterator", "%s(%v): iterator yields %d elements, reference %d", name, ks, got, len(ref))
			}
			for k := range ref {
				if s2 := s.Excl(k); s2.Contains(k) || s2.Size() != len(ref)-1 {
					x.Fail(name+"/Excl", "%s(%v).Excl(%d): still contained (%v) or Size()=%d, reference %d", name, ks, k, s2.Contains(k), s2.Size(), len(ref)-1)
				}
			}
		}
		x.Observe(which, len(ref))
		if len(ref) < n {
			x.NonTrivial()
		}
	}
}

// drainScenario: linear grow-then-drain histories with many keys (beyond what the closure
// search can branch over): insert N keys in one of several orders, then remove all of them in one
// of several orders; the value is compared with the reference after every single step. This is
// where branch nodes with 17..32 children fill up, get more keys into occupied slots, and are
// emptied again.
func drainScenario(x *mc.X) {
	hs := []hamt.Hasher{hamt.HasherByName("identity"), hamt.HasherByName("level2"), hamt.HasherByName("high-bits"),
		{Name: "mod18", F: func(k int) uint32 { return uint32(k%18) | uint32(k/18)<<5 }},
		{Name: "mod18-collide", F: func(k int) uint32 { return uint32(k % 18) }}}
	h := hs[x.Choose(len(hs), "hasher")]
	n := []int{18, 20, 36, 40, 72}[x.Choose(5, "keys")]
	isSet := x.Bool("set")
	order := func(kind, n int) []int {
		ks := make([]int, 0, n)
		switch kind {
		case 0:
			for i := 0; i < n; i++ {
				ks = append(ks, i)
			}
		case 1:
			for i := n - 1; i >= 0; i-- {
				ks = append(ks, i)
			}
		default:
			for i := 0; i < n; i += 2 {
				ks = append(ks, i)
			}
			for i := 1; i < n; i += 2 {
				ks = append(ks, i)
			}
		}
		return ks
	}
	ins := order(x.Choose(3, "insertion order"), n)
	del := order(x.Choose(3, "removal order"), n)
	ref := map[int]int{}
	m := immutable.Map[int, int](h)
	s := immutable.Set[int](h)
	hist := fmt.Sprintf("hasher %s, %d keys", h.Name, n)
	check := func(step string) {
		size, empty := m.Size(), m.IsEmpty()
		if isSet {
			size, empty = s.Size(), s.IsEmpty()
		}
		if size != len(ref) || empty != (len(ref) == 0) {
			x.Fail("drain/Size", "%s after %s: Size()=%d IsEmpty()=%v, reference has %d keys", hist, step, size, empty, len(ref))
		}
		for k := 0; k < n; k++ {
			_, ok := ref[k]
			var got bool
			if isSet {
				got = s.Contains(k)
			} else {
				o := m.Get(k)
				got = o.IsDefined()
				if got && o.Get() != ref[k] {
					x.Fail("drain/Get", "%s after %s: Get(%d)=%v, reference %d", hist, step, k, o, ref[k])
				}
			}
			if got != ok {
				x.Fail("drain/Get", "%s after %s: key %d present=%v, reference %v", hist, step, k, got, ok)
			}
		}
		var keys []int
		if isSet {
			it := s.Iterator()
			for i := 0; it.HasNext(); i++ {
				if i > n+2 {
					x.Fail("drain/Iterator-overrun", "%s after %s: iterator does not end", hist, step)
				}
				keys = append(keys, it.Next())
			}
		} else {
			it := m.Iterator()
			for i := 0; it.HasNext(); i++ {
				if i > n+2 {
					x.Fail("drain/Iterator-overrun", "%s after %s: iterator does not end", hist, step)
				}
				e := it.Next()
				keys = append(keys, e.I1)
				if v, ok := ref[e.I1]; !ok || v != e.I2 {
					x.Fail("drain/Iterator-entry", "%s after %s: iterator yields (%d,%d), reference present=%v value=%d", hist, step, e.I1, e.I2, ok, v)
				}
			}
		}
		sort.Ints(keys)
		var want []int
		for k := range ref {
			want = append(want, k)
		}
		sort.Ints(want)
		if fmt.Sprint(keys) != fmt.Sprint(want) {
			x.Fail("drain/Iterator", "%s after %s: iterator yields keys %v, reference %v", hist, step, keys, want)
		}
	}
	for i, k := range ins {
		if isSet {
			s = s.Incl(k)
		} else {
			m = m.Updated(k, k+1)
		}
		ref[k] = k + 1
		check(fmt.Sprintf("insert #%d (key %d)", i, k))
	}
	full := s
	for i, k := range del {
		if isSet {
			s = s.Excl(k)
		} else {
			m = m.Removed(k)
		}
		delete(ref, k)
		check(fmt.Sprintf("insert all, then removal #%d (key %d)", i, k))
	}
	if isSet {
		// the drained set is the empty set for the binary operations as well
		if !s.SubsetOf(full) || s.Diff(full).Size() != 0 || full.Intersect(s).Size() != 0 || full.Diff(s).Size() != n {
			x.Fail("drain/binary", "%s: the drained set does not behave as the empty set: SubsetOf(full)=%v Diff(full).Size=%d full.Intersect(drained).Size=%d full.Diff(drained).Size=%d",
				hist, s.SubsetOf(full), s.Diff(full).Size(), full.Intersect(s).Size(), full.Diff(s).Size())
		}
	}
	x.Observe(h.Name, n, isSet)
	x.NonTrivial()
}

func main() {
	mc.Main("C03", func(r *mc.Registry) {
		r.Rule = "explicit-state search to closure per configuration (kind, hasher, ballast size, constructor): a state is a live fp.Map/fp.Set, transitions are the real operations over 5 active keys x 2 values (Updated/Removed/Removed(k1,k2)/UpdatedWith{set,clear,keep}/Concat; Incl/Excl/Concat; Diff/Intersect/SubsetOf between all pairs of the first 160 reached sets), dedup key = reflection dump of the structure + reference content; every observation (Size/IsEmpty/Get/Contains over active+ballast+never-inserted+hash-colliding probe keys, Iterator/Keys/Values drained) is compared with a Go map in every state, and again for every version at the end of the search. Builder/ToMap/ToSet histories are enumerated statelessly. Non-trivial = a configuration that reached more than one state / a builder history with >= 2 adds; distinct = distinct (configuration, states, transitions) outcomes."
		r.Assumptions = []string{
			"two values with identical structural dumps (node kinds, bitmaps, entries in storage order) and identical hasher have identical futures, so merging them loses nothing; if the dump cannot be taken the search still runs but merges only by reference content and says so (dump-failed-configs)",
			"hashers are lawful by construction (Eqv is == on int keys, Hash a pure table function)",
			"the reflection dump is only a dedup key and a census, never an oracle",
		}
		type cfgSel struct {
			hashers []string
			ballast []int
		}
		sel := cfgSel{[]string{"identity", "pairs-collide", "level2", "high-bits", "pairs-shared-path", "constant", "beside-collision"}, []int{0, 4, 14, 27}}
		if r.Thorough() {
			sel = cfgSel{nil, []int{0, 3, 4, 7, 8, 12, 13, 14, 15, 16, 27, 28}}
			for _, h := range hamt.Hashers {
				sel.hashers = append(sel.hashers, h.Name)
			}
		}
		act := active
		for _, kind := range []string{"map", "set"} {
			for _, hn := range sel.hashers {
				for _, b := range sel.ballast {
					for _, start := range []string{"builder", "updated"} {
						if start == "updated" && !r.Thorough() && b != 14 {
							continue
						}
						cfg := hamt.Config{Kind: kind, Hasher: hamt.HasherByName(hn), Ballast: b, Active: act, Values: []int{1, 2}, Start: start, Model: true}
						r.Seq("search/"+cfg.Name(), func(x *mc.X) { hamt.Search(x, cfg) }).NoShard = true
					}
				}
			}
			// no ballast, ten removable keys, one value: every subset of the keys in every reachable
			// structure, so that trie nodes also SHRINK below each threshold (a branch that is left as
			// the only child beside a removed leaf, a hash-array node falling back, ...)
			for _, hn := range []string{"identity", "level2", "high-bits", "pairs-collide"} {
				cfg := hamt.Config{Kind: kind, Hasher: hamt.HasherByName(hn), Ballast: 0, Active: []int{0, 1, 2, 3, 4, 5, 6, 32, 64, 33}, Values: []int{1}, Start: "updated", ShrinkOnly: true, Model: true}
				r.Seq("search/"+cfg.Name(), func(x *mc.X) { hamt.Search(x, cfg) }).NoShard = true
			}
			for _, b := range []int{0, 3} {
				cfg := hamt.Config{Kind: kind, Hasher: hamt.HasherByName("identity"), Ballast: b, Active: act, Values: []int{1, 2}, Start: "zero", Model: true}
				r.Seq("search/"+cfg.Name(), func(x *mc.X) { hamt.Search(x, cfg) }).NoShard = true
			}
		}
		r.Seq("drain", drainScenario).Shard = true
		depth := 4
		if r.Thorough() {
			depth = 6
		}
		for _, hn := range sel.hashers {
			for _, b := range []int{0, 6, 14} {
				h := hamt.HasherByName(hn)
				r.Seq(fmt.Sprintf("builder/%s/ballast=%d", hn, b), builderScenario(h, b, depth)).SplitDepth = 3
			}
			r.Seq("collectors/"+hn, collectorScenario(hamt.HasherByName(hn), 4)).SplitDepth = 3
		}
		r.Extra["bounds"] = map[string]any{"active_keys": act, "values": []int{1, 2}, "hashers": sel.hashers, "ballast_sizes": sel.ballast, "builder_depth": depth, "search": "closure (no depth bound), state cap 30000 per configuration"}
	})
}
