package main

import (
	"bytes"
	"fmt"
	"math"
	"strings"
	"time"
	"unicode"

	"github.com/csgura/fp"
	"github.com/csgura/fp/eq"
	"github.com/csgura/fp/hash"
)

// Component instances that are deliberately COARSER (or, where the library's default is coarse,
// FINER) than the default instance of their type, at the element types for which the library has
// special-cased instances (byte/uint8 -> eq.Bytes, string -> eq.String, time.Time -> eq.Time,
// []byte -> eq.Bytes, rune, int, float64). Every combinator is applied to each of them and checked
// against the reference built from the SUPPLIED component, so a type-specialised shortcut that
// ignores the component it was given (eq.Slice at byte falling back to bytes.Equal, ...) is seen.

func custom[T any](name string, mkDom func() []T, mkEq func() fp.Eq[T], mkHash func() fp.Hashable[T], ref func(a, b T) bool, show func(T) string) *inst[T] {
	n := newNode(name, func() []any { return anys(mkDom()) }, func(a, b any) bool { return ref(a.(T), b.(T)) }, func(v any) string { return show(v.(T)) })
	return finish(n, mkEq, mkHash)
}

func vals[T any](v ...T) func() []T { return func() []T { return v } }

func lowerBytes(b []byte) string { return strings.ToLower(string(b)) }

// registerCustom adds the coarse/fine components and every combinator over them (depth 1).
func registerCustom(c *catalogue) {
	// byte: equal modulo 4
	mod4 := func(b byte) byte { return b % 4 }
	expand1(c, custom("Coarse[byte mod 4]", vals[byte](0, 4, 1, 5, 2, 255),
		func() fp.Eq[byte] { return eq.ContraMap(eq.Given[byte](), mod4) },
		func() fp.Hashable[byte] { return hash.ContraMap(hash.Number[byte](), mod4) },
		func(a, b byte) bool { return a%4 == b%4 }, func(b byte) string { return fmt.Sprint(b) }))
	// rune: equal ignoring case
	expand1(c, custom("Coarse[rune ignoring case]", vals('a', 'A', 'b', 'B', '1'),
		func() fp.Eq[rune] { return eq.ContraMap(eq.Given[rune](), unicode.ToLower) },
		func() fp.Hashable[rune] { return hash.ContraMap(hash.Number[rune](), unicode.ToLower) },
		func(a, b rune) bool { return unicode.ToLower(a) == unicode.ToLower(b) }, func(r rune) string { return fmt.Sprintf("%q", r) }))
	// string: equal ignoring case
	expand1(c, custom("Coarse[string ignoring case]", vals("a", "A", "ab", "AB", "b", ""),
		func() fp.Eq[string] { return eq.ContraMap(eq.String, strings.ToLower) },
		func() fp.Hashable[string] { return hash.ContraMap(hash.String, strings.ToLower) },
		func(a, b string) bool { return strings.ToLower(a) == strings.ToLower(b) }, func(s string) string { return fmt.Sprintf("%q", s) }))
	// int: equal modulo 3 (through eq.New / hash.New)
	expand1(c, baseNew())
	// float64, FINER than ==: by bit pattern (0.0 and -0.0 differ)
	bits := math.Float64bits
	expand1(c, custom("Fine[float64 by bits]", vals(0, negZero(), 1.5, 1.5, -2.5),
		func() fp.Eq[float64] { return eq.ContraMap(eq.Given[uint64](), bits) },
		func() fp.Hashable[float64] { return hash.ContraMap(hash.Number[uint64](), bits) },
		func(a, b float64) bool { return bits(a) == bits(b) }, func(f float64) string { return showNum(f) }))
	// time.Time, coarser than eq.Time: the same second
	t0 := time.Date(2024, 2, 29, 12, 0, 0, 5, time.UTC)
	kst := time.FixedZone("KST", 9*3600)
	unix := func(t time.Time) int64 { return t.Unix() }
	showT := func(t time.Time) string { return t.Format(time.RFC3339Nano) }
	expand1(c, custom("Coarse[time.Time to the second]", vals(t0, t0.Add(7*time.Nanosecond), t0.In(kst), t0.Add(time.Second), t0.Add(-time.Hour)),
		func() fp.Eq[time.Time] { return eq.ContraMap(eq.Given[int64](), unix) },
		func() fp.Hashable[time.Time] { return hash.ContraMap(hash.Number[int64](), unix) },
		func(a, b time.Time) bool { return a.Unix() == b.Unix() }, showT))
	// time.Time, FINER than eq.Time: the same instant in the same zone
	// (28 bytes: strings produced inside an instance live on the heap, where the bytes after the
	// string are not under the harness's control; a length that is a multiple of 4 keeps a hash
	// that reads whole words from looking at them, so a defect of that kind is reported through
	// the window values of registerWindows, deterministically, and not through these)
	zoned := func(t time.Time) string {
		_, off := t.Zone()
		return fmt.Sprintf("%020d|%+07d", t.UnixNano(), off)
	}
	expand1(c, custom("Fine[time.Time with zone]", vals(t0, t0.In(kst), t0.In(time.UTC), t0.Add(time.Nanosecond), t0.In(kst).Add(0)),
		func() fp.Eq[time.Time] { return eq.ContraMap(eq.String, zoned) },
		func() fp.Hashable[time.Time] { return hash.ContraMap(hash.String, zoned) },
		func(a, b time.Time) bool { return zoned(a) == zoned(b) }, showT))
	// []byte, coarser than eq.Bytes: equal ignoring case
	showB := func(b []byte) string {
		if b == nil {
			return "nil"
		}
		return fmt.Sprintf("%q", string(b))
	}
	expand1(c, custom("Coarse[[]byte ignoring case]", func() [][]byte {
		return [][]byte{[]byte("a"), []byte("A"), []byte("ab"), []byte("AB"), nil, {}, []byte("b")}
	},
		func() fp.Eq[[]byte] { return eq.ContraMap(eq.String, lowerBytes) },
		func() fp.Hashable[[]byte] { return hash.ContraMap(hash.String, lowerBytes) },
		func(a, b []byte) bool { return lowerBytes(a) == lowerBytes(b) }, showB))
	// []byte, FINER than eq.Bytes: nil and empty differ
	fineB := func(a, b []byte) bool { return bytes.Equal(a, b) && (a == nil) == (b == nil) }
	expand1(c, custom("Fine[[]byte nil != empty]", func() [][]byte { return [][]byte{nil, {}, {1}, {1}, {2}} },
		func() fp.Eq[[]byte] { return eq.New(fineB) },
		func() fp.Hashable[[]byte] {
			return hash.New(eq.New(fineB), func(b []byte) uint32 {
				if b == nil {
					return 7
				}
				return hash.Bytes.Hash(b)
			})
		},
		fineB, showB))
}

// registerWindows adds string and []byte values that are equal but sit in DIFFERENT memory with a
// DIFFERENT byte following them: windows parent[:k] of parents content+"XXXX", content+"YYYY",
// content+"ZZZZ" built at run time (so that the compiler cannot merge them), for every length
// k = 0..12 (every length mod 4 and mod 8). An instance that looks beyond the end of its argument
// (word-wise loads with a wrong tail mask) gives Eqv-equal values different hashes — and does so
// deterministically here, because the bytes after each value are the harness's.
func registerWindows(c *catalogue) {
	const content = "abcdefghijkl"
	for k := 0; k <= 12; k++ {
		k := k
		parents := func() []string {
			var out []string
			for _, tail := range []string{"XXXX", "YYYY", "ZZZZ"} {
				var b strings.Builder
				b.WriteString(content[:k])
				b.WriteString(tail)
				out = append(out, b.String())
			}
			// a different value of the same length
			var b strings.Builder
			if k > 0 {
				b.WriteString(content[:k-1])
				b.WriteString("#")
			}
			b.WriteString("XXXX")
			return append(out, b.String())
		}
		sw := custom(fmt.Sprintf("String/windows[len %d]", k),
			func() []string {
				var out []string
				for _, p := range parents() {
					out = append(out, p[:k])
				}
				return out
			},
			func() fp.Eq[string] { return eq.String }, func() fp.Hashable[string] { return hash.String },
			func(a, b string) bool { return a == b }, func(s string) string { return fmt.Sprintf("%q", s) })
		bw := custom(fmt.Sprintf("Bytes/windows[len %d]", k),
			func() [][]byte {
				var out [][]byte
				for _, p := range parents() {
					out = append(out, []byte(p)[:k])
				}
				return out
			},
			func() fp.Eq[[]byte] { return eq.Bytes }, func() fp.Hashable[[]byte] { return hash.Bytes },
			func(a, b []byte) bool { return bytes.Equal(a, b) }, func(b []byte) string { return fmt.Sprintf("%q|cap%d", string(b), cap(b)) })
		sw.n.head, bw.n.head = "String/windows", "Bytes/windows" // one key for all lengths
		if k == 3 || k == 7 || k == 11 {
			// every combinator over them (Option, Seq, Slice, Ptr, GoMap, FpMap, tuples, HCons, ContraMap)
			expand1(c, sw)
			expand1(c, bw)
		} else {
			c.add(sw.n)
			c.add(bw.n)
		}
	}
}
