// C09 — Eq instances are equivalences and Hashable agrees with Eq.
//
// Every instance expression of the eq and hash packages over a small type grammar (all types
// to nesting depth 2, every tuple arity and HCons chain length 1..21) is run on ALL triples of
// a value domain that contains different representations of equal values (nil vs empty,
// 0.0 vs -0.0, two pointers to equal targets, one instant in two zones). The reference is
// component-wise equality written with plain loops in inst.go.
package main

import (
	"fmt"
	"math"
	"strings"

	"github.com/csgura/fp"
	"github.com/csgura/fp/hlist"
	"verif/mc"
)

// arities holds the component instances used by the generated tuple / HCons blocks.
type arities struct {
	kInt  *inst[int]
	kStr  *inst[string]
	kFlt  *inst[float64]
	kSli  *inst[[]int]
	kOpt  *inst[fp.Option[string]]
	kPtr  *inst[*int]
	kSeq  *inst[fp.Seq[float64]]
	hnil  *inst[hlist.Nil]
	tuple [22]*node
	hcons [22]*node
}

// arityInst builds the instance of one tuple arity / HCons chain length. Its domain has the
// base value, an all-alternative-representation copy, and for EVERY position k a value that
// differs from the base in position k only, so an implementation that skips a position
// cannot pass.
func arityInst[T any](head string, n int, e func() fp.Eq[T], h func() fp.Hashable[T], mk func(c []any) T, split func(any) []any, open, sep, close string, kids ...*node) *inst[T] {
	mkDom := func() []any {
		rs := make([]reps, n)
		for j := range rs {
			rs[j] = kids[j].freshReps() // fresh storage for every component
		}
		build := func(def int, set ...int) any {
			c := make([]any, n)
			for j := range c {
				c[j] = rs[j].at(def)
			}
			for _, k := range set {
				c[k] = rs[k].at(2)
			}
			return mk(c)
		}
		dom := []any{build(0), build(1), build(2), build(1, n-1)}
		for k := 0; k < n; k++ {
			dom = append(dom, build(0, k))
		}
		return dom
	}
	nd := &node{name: head, head: head, depth: 2, kids: kids, dom: mkDom(), mkDom: mkDom, cSize: 4, ref: prodRef(kids, split), show: prodShow(kids, split, open, sep, close), memo: map[string]string{}, known: map[string]bool{}}
	nd.mut = prodMut(kids, split)
	return finish(nd, e, h)
}

func buildCatalogue() (grammar *catalogue, extra *catalogue, ar *arities) {
	hn := baseHNil()
	grammar = &catalogue{hnil: hn}
	extra = &catalogue{hnil: hn}

	ints := []int{0, 1, 2, -1, 1<<33 + 1}
	floats := []float64{0, negZero(), 1.5, -2.5, math.Inf(1)}
	bInt := number("int", ints)
	bStr := baseString()
	bFlt := number("float64", floats)
	bBool := given("bool", []bool{false, true})
	bTime := baseTime()
	bBytes := baseBytes()

	// the grammar closed to depth 2 over every base type
	// (depth 2 — every combinator applied to every combinator — over float64, the base type with
	// two representations of one value; depth 1 over the other base types. Every further Go type
	// instantiates all methods of fp.Seq/fp.Option/fp.Map/lazy.Eval again: ~0.3 CPU-seconds of
	// compile time per type.)
	expand2(grammar, bFlt)
	expand1(grammar, bStr)
	expand1(grammar, bInt)
	expand1(grammar, bBool)
	expand1(grammar, bTime)
	expand1(grammar, bBytes)
	// every combinator over deliberately coarse / fine component instances at the element types
	// the library special-cases (custom.go)
	registerCustom(grammar)
	registerWindows(grammar)

	// instances outside the closure
	extra.add(hn.n)
	extra.add(given("string", []string{"", "a", "b", "ab"}).n)
	extra.add(number("int8", []int8{0, 1, -1, 127, -128}).n)
	extra.add(number("int16", []int16{0, 1, -1, 32767, -32768}).n)
	extra.add(number("int32", []int32{0, 1, -1, math.MaxInt32, math.MinInt32}).n)
	extra.add(number("int64", []int64{0, 1, -1, math.MaxInt64, math.MinInt64, 1 << 32}).n)
	extra.add(number("uint", []uint{0, 1, 2, math.MaxUint, 1 << 32}).n)
	extra.add(number("uint8", []uint8{0, 1, 2, 255}).n)
	extra.add(number("uint16", []uint16{0, 1, 65535}).n)
	extra.add(number("uint32", []uint32{0, 1, math.MaxUint32}).n)
	extra.add(number("uint64", []uint64{0, 1, math.MaxUint64, 1 << 32, 1<<32 - 1}).n)
	extra.add(number("uintptr", []uintptr{0, 1, 1 << 40}).n)
	extra.add(number("float32", []float32{0, float32(negZero()), 1.5, -2.5, float32(math.Inf(-1))}).n)
	type myInt int
	extra.add(number("~int", []myInt{0, 1, -1}).n)
	extra.add(given("fp.Tuple2[int,string]", []fp.Tuple2[int, string]{{I1: 0, I2: ""}, {I1: 0, I2: "a"}, {I1: 1, I2: ""}, {I1: 0, I2: ""}}).n)
	extra.add(given("[2]float64", [][2]float64{{0, 0}, {0, negZero()}, {1, 0}, {0, 1}}).n)
	p, q := new(int), new(int)
	extra.add(given("*int", []*int{nil, p, q, p}).n) // Given on pointers is identity
	extra.add(fpMapHamtOf(bInt).n)
	extra.add(fpMapHamtOf(bStr).n)
	extra.add(fpMapHamtOf(bFlt).n)
	extra.add(ptrGivenOf(bInt).n)
	extra.add(ptrGivenOf(bStr).n)
	extra.add(ptrGivenOf(bFlt).n)
	extra.add(ptrGivenOf(bBool).n)
	extra.add(optionOf(ptrGivenOf(bFlt)).n)

	ar = &arities{kInt: bInt, kStr: bStr, kFlt: bFlt, kSli: sliceOf(bInt), kOpt: optionOf(bStr), kPtr: ptrOf(bInt), kSeq: seqOf(bFlt), hnil: hn}
	registerArities(extra, ar)
	// the library builds TupleN from TupleN-1 of the tail (and HCons^n from HCons^n-1), and the
	// blocks are typed so that the tail of block n is block n-1: a defect of one arity is
	// attributed to that arity, not to every larger one
	for k := 2; k <= 21; k++ {
		ar.tuple[k].kids = append(ar.tuple[k].kids, ar.tuple[k-1])
		ar.hcons[k].kids = append(ar.hcons[k].kids, ar.hcons[k-1])
	}
	return
}

func lawScenario(r *mc.Registry, name string, nodes []*node) {
	if len(nodes) == 0 {
		return
	}
	sc := r.Seq(name, func(x *mc.X) {
		n := nodes[x.Choose(len(nodes), "instance")]
		a := x.Choose(len(n.dom), "a")
		b := x.Choose(len(n.dom), "b")
		cs := n.cSize
		if x.Thorough() {
			cs = len(n.dom) // thorough: all triples for the arity blocks too
		}
		c := x.Choose(cs, "c")
		x.Tag(n.name)
		// one family per execution, so a defect of the eq-package instance cannot hide one of
		// the hash-package instance of the same type
		fam := "eq"
		if n.hasHash() {
			fam = mc.Pick(x, "family", []string{"eq", "hash"})
		}
		law, msg := n.law(fam, a, b, c)
		x.Logf("%s.%s on a=%s b=%s c=%s: %s", fam, n.name, n.show(n.dom[a]), n.show(n.dom[b]), n.show(n.dom[c]), orOK(law))
		if law != "" {
			cu := n.culprit(fam)
			via := ""
			if cu != n {
				via = fmt.Sprintf(" (attributed to the component instance %s.%s, which violates %q on its own domain)", fam, cu.name, cu.selfcheck(fam))
			}
			x.Fail(fam+"."+cu.head+"/"+law, "%s%s", msg, via)
		}
		// outcome: which of the three are equal (by the reference, already compared with the
		// library's answer above)
		l1 := n.pattern(a, b, c)
		x.Observe(fam, n.name, l1)
		if a != b && b != c && a != c {
			x.NonTrivial()
		}
		if a != b && l1[0] == '1' {
			x.Tag("pairs: equal values, different representation")
			if fam == "hash" {
				x.Tag("pairs: hash agreement demanded on different representations")
			}
		}
		if a != b && b != c && a != c && l1 == "111" {
			x.Tag("triples: transitivity premise holds on three representations")
		}
	})
	sc.SplitDepth = 2
}

// historyScenario: every call/write sequence of depth histDepth on one long-lived instance.
func historyScenario(r *mc.Registry, nodes []*node) (mutableNodes int) {
	for _, n := range nodes {
		n.histAlphabet()
		if n.mutable {
			mutableNodes++
		}
	}
	sc := r.Seq("history", func(x *mc.X) {
		n := nodes[x.Choose(len(nodes), "instance")]
		ops := n.histAlphabet()
		seq := make([]int, histDepth)
		writes, calls := 0, 0
		for d := range seq {
			seq[d] = x.Choose(len(ops), "step")
			if ops[seq[d]].kind == "mut" {
				writes++
			} else {
				calls++
			}
		}
		x.Tag("history: " + n.name)
		law, fam, msg, trace := n.history(seq)
		for _, t := range trace {
			x.Logf("%s", t)
		}
		if law != "" {
			cu := n.histCulprit()
			via := ""
			if cu != n {
				via = fmt.Sprintf(" (attributed to the component instance %s, which violates %q in the history family on its own)", cu.name, cu.histcheck())
			}
			x.Fail(fam+"."+cu.head+"/"+law, "%s%s", msg, via)
		}
		x.Observe(n.name, strings.Join(trace, ";"))
		if writes > 0 && calls > 0 {
			x.NonTrivial()
			x.Tag("history: sequences with a write into a referent between calls")
		}
	})
	sc.SplitDepth = 2
	return
}

func orOK(s string) string {
	if s == "" {
		return "ok"
	}
	return "VIOLATES " + s
}

func main() {
	mc.Main("C09", func(r *mc.Registry) {
		r.Rule = "history: execution = (instance expression, sequence of histDepth steps) for EVERY sequence over the alphabet {Hash(a|b|c), Eqv of each pair, and for operands with a mutable referent a write of new contents in place (*p = v, s[0] = v, m[\"a\"] = v; operands 0 and 2, two contents)} on ONE long-lived constructed instance; each call must equal what a freshly constructed instance answers for the current values, and afterwards Eqv(a,b) => Hash(a)==Hash(b) on the long-lived instance; the library instances of the law family are constructed anew inside every execution as well; execution = (instance expression, a, b, c, family eq|hash) with a,b,c ranging over the whole value domain of the instance's type (all triples; for the arity blocks in the quick tier c ranges over 4 values, a and b over all n+4 values, one of which differs from the base in position k only, for every k); each execution evaluates Eqv(a,a), Eqv(a,b), Eqv(b,a), Eqv(b,c), Eqv(a,c) and Hash(a) twice, Hash(b) on the library's instance and compares with component-wise equality computed by plain loops; the operand domain is built fresh inside every execution; the slice-like carriers (Seq, Slice, Bytes) contain aliasing values — views base[:1], base[:2], base (same start, different lengths) and base[1:] of one array next to an independent copy of base[:2] — and hand (view, copy, longer view) to every enclosing combinator; non-trivial = a, b, c are three different domain elements; distinct outcome = (family, instance, equality pattern of the triple)"
		r.Assumptions = []string{
			"NaN is excluded from the float domains (the property excludes it)",
			"Hash values are free: only determinism and Eqv(a,b) => Hash(a)==Hash(b) are demanded",
			"nil and empty slices/maps, 0.0 and -0.0, one instant in two time zones are equal values (no components differ); eq.Given on pointers is identity",
			"component instances handed to a combinator are the library's own instances of the smaller type (verified as separate catalogue entries)",
		}
		grammar, extra, ar := buildCatalogue()
		var d0, d1, d2 []*node
		for _, n := range grammar.nodes {
			switch n.depth {
			case 0:
				d0 = append(d0, n)
			case 1:
				d1 = append(d1, n)
			default:
				d2 = append(d2, n)
			}
		}
		var tup, hc []*node
		quickAr := map[int]bool{1: true, 2: true, 3: true, 21: true}
		for k := 1; k <= 21; k++ {
			if r.Thorough() || quickAr[k] {
				tup = append(tup, ar.tuple[k])
				hc = append(hc, ar.hcons[k])
			}
		}
		// two scenarios only: violations are de-duplicated per (scenario, key); the per-instance
		// execution counts are in the census
		grammarNodes := append(append(append(append([]*node{}, d0...), extra.nodes...), d1...), d2...)
		lawScenario(r, "grammar", grammarNodes)
		lawScenario(r, "arity", append(append([]*node{}, tup...), hc...))
		if r.Thorough() {
			histDepth = 4
		}
		histNodes := append(append(append([]*node{}, grammarNodes...), tup...), hc...)
		mutableNodes := historyScenario(r, histNodes)

		heads := map[string]int{}
		hashable := 0
		all := append(append(append(append([]*node{}, d0...), extra.nodes...), d1...), d2...)
		all = append(append(all, tup...), hc...)
		for _, n := range all {
			heads[n.head]++
			if n.hasHash() {
				hashable++
			}
		}
		r.Extra["bounds"] = map[string]any{
			"instance_expressions":                     len(all),
			"of_which_also_hash_instances":             hashable,
			"nesting_depth":                            2,
			"history_depth":                            histDepth,
			"history_instances":                        len(histNodes),
			"history_instances_with_mutable_referents": mutableNodes,
			"domain_cap_per_type":                      domCap,
			"tuple_arities":                            len(tup),
			"hcons_chain_lengths":                      len(hc),
			"instances_per_head_constructor":           heads,
		}
		r.Extra["uncovered"] = []string{
			"eq.Given/hash.Number at NaN: excluded by the property",
			"hash.Number for floats outside the uint64 range other than +-Inf (the float-to-uint64 conversion is implementation-defined but deterministic; determinism is what is checked)",
			"eq.FpMap with key types other than string (the key only goes through fp.Map.Get, covered by C03)",
			"eq.Ptr/hash.Ptr on recursive (self-referential) types: the lazy.Eval argument is exercised with lazy.Call, not with a cyclic instance",
			"predicates of the eq package that are not Eq instances (GivenValue, NotNilAnd, SomeAnd, ...) are outside the statement",
			"nesting depth 2 over base types other than float64 (the combinators are parametric in the element type; depth 1 covers all six base types); nesting depth 3 and beyond",
		}
	})
}
