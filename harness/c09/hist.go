package main

import (
	"fmt"
	"strings"
)

// The history-independence family. ONE constructed instance is kept alive over a sequence of
// calls (Hash, Eqv) interleaved with steps that write new contents into the referent of an
// operand IN PLACE (same address: *p = v, s[0] = v, m["a"] = v). Every call's result must be what
// a freshly constructed instance answers for the current values of the arguments — the results
// are a function of the current values, not of the call history or of addresses — and after the
// sequence Eqv(a,b) => Hash(a)==Hash(b) must still hold on the long-lived instance.
// Every sequence of the given depth over the alphabet is run (exhaustive, not sampled).

type histOp struct {
	kind string // "hash", "eqv", "mut"
	i, j int    // operand indices (mut: j = which contents)
}

func (n *node) doMut(v any, pick int) bool {
	if n.mut == nil {
		return false
	}
	return n.mut(v, pick)
}

// operands of the history family: three values of a freshly built domain
func (n *node) histValues() []any {
	dom, r := n.fresh()
	if n.histOperands != nil {
		return n.histOperands(dom, r)
	}
	return []any{r.x, r.xa, r.y}
}

// histAlphabet is fixed per node at registration: Hash of each operand (if there is a Hashable),
// Eqv of each unordered pair, and — if some operand has a mutable referent — writes of two
// different contents into operands 0 and 2.
func (n *node) histAlphabet() []histOp {
	if n.histOps != nil {
		return n.histOps
	}
	var ops []histOp
	if n.hasHash() {
		for i := 0; i < 3; i++ {
			ops = append(ops, histOp{"hash", i, 0})
		}
	}
	ops = append(ops, histOp{"eqv", 0, 1}, histOp{"eqv", 0, 2}, histOp{"eqv", 1, 2})
	vals := n.histValues() // a throw-away domain to see which operands can be written
	for _, i := range []int{0, 2} {
		if n.doMut(vals[i], 0) {
			n.mutable = true
			ops = append(ops, histOp{"mut", i, 0}, histOp{"mut", i, 1})
		}
	}
	n.histOps = ops
	return ops
}

// history runs one sequence; "" = holds. fam is "eq" or "hash" (which package's instance failed).
func (n *node) history(seq []int) (law, fam, msg string, trace []string) {
	ops := n.histAlphabet()
	vals := n.histValues()
	long := n.mkFuncs() // the long-lived instance
	name := []string{"a", "b", "c"}
	defer func() {
		if r := recover(); r != nil {
			law, fam, msg = "panic", "eq", fmt.Sprintf("%s panicked in the call sequence [%s]: %v", n.name, strings.Join(trace, "; "), r)
		}
	}()
	fail := func(l, f, format string, args ...any) (string, string, string, []string) {
		return l, f, fmt.Sprintf("%s.%s: ", f, n.name) + fmt.Sprintf(format, args...) + " — call sequence on one instance: " + strings.Join(trace, "; "), trace
	}
	for _, k := range seq {
		op := ops[k]
		switch op.kind {
		case "hash":
			v := vals[op.i]
			got := long.hashf(v)
			want := n.mkFuncs().hashf(v)
			trace = append(trace, fmt.Sprintf("Hash(%s=%s)=%d", name[op.i], n.show(v), got))
			if got != want {
				return fail("hash-depends-on-history", "hash", "Hash(%s)=%d on the long-lived instance, a freshly constructed instance gives %d for the same value %s", name[op.i], got, want, n.show(v))
			}
		case "eqv":
			a, b := vals[op.i], vals[op.j]
			fresh := n.mkFuncs()
			got, want := long.eqv(a, b), fresh.eqv(a, b)
			trace = append(trace, fmt.Sprintf("Eqv(%s=%s,%s=%s)=%v", name[op.i], n.show(a), name[op.j], n.show(b), got))
			if got != want {
				return fail("eqv-depends-on-history", "eq", "Eqv(%s,%s)=%v on the long-lived instance, a freshly constructed instance gives %v for the same values %s, %s", name[op.i], name[op.j], got, want, n.show(a), n.show(b))
			}
			if long.heqv != nil {
				if got, want := long.heqv(a, b), fresh.heqv(a, b); got != want {
					return fail("eqv-depends-on-history", "hash", "Eqv(%s,%s)=%v on the long-lived instance, a freshly constructed instance gives %v for the same values %s, %s", name[op.i], name[op.j], got, want, n.show(a), n.show(b))
				}
			}
		case "mut":
			before := n.show(vals[op.i])
			n.doMut(vals[op.i], op.j)
			trace = append(trace, fmt.Sprintf("write into the referent of %s: %s becomes %s", name[op.i], before, n.show(vals[op.i])))
		}
	}
	if long.heqv != nil {
		for i := 0; i < 3; i++ {
			for j := i + 1; j < 3; j++ {
				a, b := vals[i], vals[j]
				if long.heqv(a, b) {
					if ha, hb := long.hashf(a), long.hashf(b); ha != hb {
						return fail("hash-agrees-with-eqv-after-history", "hash", "after the sequence Eqv(%s,%s) but Hash(%s)=%d, Hash(%s)=%d for %s, %s", name[i], name[j], name[i], ha, name[j], hb, n.show(a), n.show(b))
					}
				}
			}
		}
	}
	return "", "", "", trace
}

// histcheck: first law the instance violates in the history family on its own ("" if none);
// used to attribute a failure of a composite instance to its component.
func (n *node) histcheck() string {
	if n.known["hist"] {
		return n.memo["hist"]
	}
	res := ""
	nops := len(n.histAlphabet())
	seq := make([]int, histDepth)
	var rec func(d int) bool
	rec = func(d int) bool {
		if d == histDepth {
			l, _, _, _ := n.history(seq)
			if l != "" {
				res = l
				return true
			}
			return false
		}
		for k := 0; k < nops; k++ {
			seq[d] = k
			if rec(d + 1) {
				return true
			}
		}
		return false
	}
	rec(0)
	n.known["hist"], n.memo["hist"] = true, res
	return res
}

func (n *node) histCulprit() *node {
	for _, k := range n.kids {
		if k.histcheck() != "" {
			return k.histCulprit()
		}
	}
	return n
}

var histDepth = 3
