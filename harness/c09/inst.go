package main

import (
	"fmt"
	"math"
	"strings"
	"time"

	"github.com/csgura/fp"
	"github.com/csgura/fp/as"
	"github.com/csgura/fp/eq"
	"github.com/csgura/fp/hash"
	"github.com/csgura/fp/hlist"
	"github.com/csgura/fp/immutable"
	"github.com/csgura/fp/lazy"
)

// node is one instance expression with its type erased: the library's Eq built by the eq
// package, the library's Hashable built by the hash package (absent when a component has no
// Hashable), a small value domain and the boring reference equality (component-wise, plain
// loops). Only the thin typed shell inst[T] is generic; the oracle itself is ordinary code.
// (A fully generic harness instantiates ~10^4 functions and takes minutes to compile.)
type node struct {
	name  string // e.g. Option(Seq(Number[int]))
	head  string // e.g. Option   (the constructor a defect is attributed to)
	depth int
	kids  []*node
	// dom is a prototype of the value domain (sizes, printing, outcome census); mkDom builds the
	// domain FRESH and is called inside every execution, so the operands of one execution are
	// never shared with another, and slice-like carriers can contain values that ALIAS one
	// another (views base[:1], base[:2], base, base[1:] of one array next to independent copies)
	dom   []any
	mkDom func() []any
	// pick chooses the representatives handed to the enclosing combinator; nil = by the reference
	// equality (pickRepresentatives)
	pick  func(dom []any) reps
	cSize int // how many values the third operand ranges over

	// mkFuncs constructs the library's instances ANEW (eq-package instance, hash-package instance,
	// all their component instances) and returns them type-erased. The law family builds one per
	// execution; the history family keeps one alive over a sequence of calls and compares it with
	// freshly constructed ones.
	mkFuncs  func() funcs
	hashable bool                // the expression has a hash-package instance too
	ref      func(a, b any) bool // reference: component-wise equality
	// mut writes into the referent of v IN PLACE (same address, new contents; pick selects which
	// contents): *p = .., s[0] = .., m["a"] = ..; composite values pass it to their first mutable
	// component. It returns false when v has no mutable referent (nil, empty, immutable type).
	mut func(v any, pick int) bool
	// histOperands chooses the three operands of the history family (nil = the representatives)
	histOperands func(dom []any, r reps) []any
	histOps      []histOp
	mutable      bool // some operand of the history family has a mutable referent
	show         func(a any) string
	memo         map[string]string
	known        map[string]bool
}

// funcs is one constructed instance pair with its type erased.
type funcs struct {
	eqv   func(a, b any) bool // eq-package instance
	heqv  func(a, b any) bool // hash-package instance, Eqv (nil = no Hashable)
	hashf func(a any) uint32  // hash-package instance, Hash
}

// inst is the typed shell used to hand the library's instance to the next combinator: factories,
// so that every construction of an enclosing instance constructs its components anew.
type inst[T any] struct {
	n      *node
	mkEq   func() fp.Eq[T]
	mkHash func() fp.Hashable[T] // nil = no Hashable
}

func (n *node) hasHash() bool { return n.hashable }

func finish[T any](n *node, mkEq func() fp.Eq[T], mkHash func() fp.Hashable[T]) *inst[T] {
	n.hashable = mkHash != nil
	n.mkFuncs = func() funcs {
		e := mkEq()
		f := funcs{eqv: func(a, b any) bool { return e.Eqv(a.(T), b.(T)) }}
		if mkHash != nil {
			h := mkHash()
			f.heqv = func(a, b any) bool { return h.Eqv(a.(T), b.(T)) }
			f.hashf = func(a any) uint32 { return h.Hash(a.(T)) }
		}
		return f
	}
	return &inst[T]{n, mkEq, mkHash}
}

// finishV: instances that are package variables of the library (there is only one of each).
func finishV[T any](n *node, e fp.Eq[T], h fp.Hashable[T]) *inst[T] {
	var mh func() fp.Hashable[T]
	if h != nil {
		mh = func() fp.Hashable[T] { return h }
	}
	return finish(n, func() fp.Eq[T] { return e }, mh)
}

// reps are the values of a type that an enclosing combinator builds its own domain from.
// xa is a different representation of a value equal to x when the type has one (otherwise xa is
// x again); y differs from x whenever the type has two values; rest are the other domain values.
type reps struct {
	x, xa, y any
	rest     []any
}

// elems: x, xa, y, then the rest.
func (r reps) elems() []any { return append([]any{r.x, r.xa, r.y}, r.rest...) }

func (r reps) at(k int) any {
	switch k {
	case 0:
		return r.x
	case 1:
		return r.xa
	}
	return r.y
}

// capFor: the slice-like carriers get two more values (the aliasing views).
func capFor(head string) int {
	switch head {
	case "Seq", "Slice", "Bytes":
		return domCap + 2
	}
	return domCap
}

// fixed wraps a domain of immutable values.
func fixed[T any](s []T) func() []any { return func() []any { return anys(s) } }

func newNode(head string, mk func() []any, ref func(a, b any) bool, show func(any) string, kids ...*node) *node {
	names := make([]string, len(kids))
	depth := 0
	for j, k := range kids {
		names[j] = k.name
		if k.depth+1 > depth {
			depth = k.depth + 1
		}
	}
	name := head
	if len(kids) > 0 {
		name = head + "(" + strings.Join(names, ",") + ")"
	}
	lim := capFor(head)
	mkDom := func() []any {
		d := mk()
		if len(d) > lim {
			d = d[:lim]
		}
		return d
	}
	dom := mkDom()
	return &node{name: name, head: head, depth: depth, kids: kids, dom: dom, mkDom: mkDom, cSize: len(dom), ref: ref, show: show, memo: map[string]string{}, known: map[string]bool{}}
}

// fresh builds the domain anew and picks the representatives from it.
func (n *node) fresh() ([]any, reps) {
	d := n.mkDom()
	if n.pick != nil {
		return d, n.pick(d)
	}
	return d, n.pickRepresentatives(d)
}

func (n *node) freshReps() reps { _, r := n.fresh(); return r }

// pickRepresentatives chooses x, xa (equal to x, different representation if the domain has such
// a pair), y (different from x) and the remaining values.
func (n *node) pickRepresentatives(d []any) reps {
	p, q := 0, -1
outer:
	for a := 0; a < len(d); a++ {
		for b := a + 1; b < len(d); b++ {
			if n.ref(d[a], d[b]) {
				p, q = a, b
				break outer
			}
		}
	}
	r := reps{x: d[p], xa: d[p], y: d[p]}
	if q >= 0 {
		r.xa = d[q]
	}
	yi := -1
	for k, v := range d {
		if !n.ref(d[p], v) {
			r.y, yi = v, k
			break
		}
	}
	for k, v := range d {
		if k != p && k != q && k != yi {
			r.rest = append(r.rest, v)
		}
	}
	return r
}

// law runs the oracle on dom[a], dom[b], dom[c] for family "eq" or "hash"; "" = holds.
// It is the whole oracle: reflexive, symmetric, transitive, Eqv = component-wise equality,
// Hash deterministic, Eqv-equal values hash equally. Nothing is demanded of hash values.
func (n *node) law(fam string, ia, ib, ic int) (law, msg string) {
	dom, _ := n.fresh() // the operands of this execution
	a, b, c := dom[ia], dom[ib], dom[ic]
	f := n.mkFuncs() // instances constructed for this execution
	e := f.eqv
	if fam == "hash" {
		e = f.heqv
	}
	defer func() {
		if r := recover(); r != nil {
			law, msg = "panic", fmt.Sprintf("%s.%s panicked on a=%s b=%s c=%s: %v", fam, n.name, n.show(a), n.show(b), n.show(c), r)
		}
	}()
	aa, ab, ba, bc, ac := e(a, a), e(a, b), e(b, a), e(b, c), e(a, c)
	switch {
	case !aa:
		return "reflexive", fmt.Sprintf("%s.%s: Eqv(a,a)=false for a=%s", fam, n.name, n.show(a))
	case ab != ba:
		return "symmetric", fmt.Sprintf("%s.%s: Eqv(a,b)=%v but Eqv(b,a)=%v for a=%s b=%s", fam, n.name, ab, ba, n.show(a), n.show(b))
	case ab && bc && !ac:
		return "transitive", fmt.Sprintf("%s.%s: Eqv(a,b) and Eqv(b,c) but not Eqv(a,c) for a=%s b=%s c=%s", fam, n.name, n.show(a), n.show(b), n.show(c))
	}
	// the Hashable contract is stated in terms of the instance's own Eqv, so it is looked at
	// before Eqv is compared with the reference
	if fam == "hash" {
		ha, ha2, hb := f.hashf(a), f.hashf(a), f.hashf(b)
		if ha != ha2 {
			return "hash-deterministic", fmt.Sprintf("hash.%s: Hash(a) returned %d then %d for a=%s", n.name, ha, ha2, n.show(a))
		}
		if ab && ha != hb {
			return "hash-agrees-with-eqv", fmt.Sprintf("hash.%s: Eqv(a,b) but Hash(a)=%d, Hash(b)=%d for a=%s b=%s", n.name, ha, hb, n.show(a), n.show(b))
		}
	}
	if ab != n.ref(a, b) {
		return "componentwise", fmt.Sprintf("%s.%s: Eqv(a,b)=%v but component-wise equality is %v, for a=%s b=%s", fam, n.name, ab, n.ref(a, b), n.show(a), n.show(b))
	}
	return "", ""
}

// pattern is the equality pattern of a triple by the reference.
func (n *node) pattern(a, b, c int) string {
	bit := func(b bool) string {
		if b {
			return "1"
		}
		return "0"
	}
	return bit(n.ref(n.dom[a], n.dom[b])) + bit(n.ref(n.dom[b], n.dom[c])) + bit(n.ref(n.dom[a], n.dom[c]))
}

// selfcheck returns the first law the instance violates on its own domain ("" if none).
func (n *node) selfcheck(fam string) string {
	if fam == "hash" && !n.hasHash() {
		return ""
	}
	if n.known[fam] {
		return n.memo[fam]
	}
	res := ""
outer:
	for a := range n.dom {
		for b := range n.dom {
			for c := 0; c < n.cSize; c++ {
				if l, _ := n.law(fam, a, b, c); l != "" {
					res = l
					break outer
				}
			}
		}
	}
	n.known[fam] = true
	n.memo[fam] = res
	return res
}

// culprit descends to the innermost component instance that is itself unlawful on its own
// domain, so that one defect is reported under one constructor, not under every expression
// that contains it.
func (n *node) culprit(fam string) *node {
	for _, k := range n.kids {
		if k.selfcheck(fam) != "" {
			return k.culprit(fam)
		}
	}
	return n
}

const domCap = 8

// ---------- base instances ----------

func negZero() float64 { return math.Copysign(0, -1) }

func showNum(v any) string {
	switch f := v.(type) {
	case float64:
		if f == 0 && math.Signbit(f) {
			return "-0"
		}
	case float32:
		if f == 0 && math.Signbit(float64(f)) {
			return "-0"
		}
	}
	return fmt.Sprint(v)
}

func anys[T any](s []T) []any {
	out := make([]any, len(s))
	for i, v := range s {
		out[i] = v
	}
	return out
}

func given[T comparable](tname string, dom []T) *inst[T] {
	n := newNode("Given["+tname+"]", fixed(dom), func(a, b any) bool { return a.(T) == b.(T) }, showNum)
	return finish[T](n, eq.Given[T], nil)
}

func number[T fp.ImplicitNum](tname string, dom []T) *inst[T] {
	n := newNode("Number["+tname+"]", fixed(dom), func(a, b any) bool { return a.(T) == b.(T) }, showNum)
	return finish(n, eq.Given[T], hash.Number[T])
}

func baseString() *inst[string] {
	n := newNode("String", fixed([]string{"", "a", "b", "ab", "ba"}), func(a, b any) bool { return a.(string) == b.(string) }, func(v any) string { return fmt.Sprintf("%q", v) })
	return finishV(n, eq.String, hash.String)
}

func baseBytes() *inst[[]byte] {
	mk := func() []any {
		base := []byte{1, 2, 1}
		// nil, empty, view base[:2], an independent copy of it, the longer view base, then
		// base[:1], base[1:] and independent values
		return anys([][]byte{nil, {}, base[:2], {1, 2}, base, base[:1], base[1:], {2, 1}, {1}, {2}})
	}
	n := newNode("Bytes", mk,
		func(x, y any) bool {
			a, b := x.([]byte), y.([]byte)
			if len(a) != len(b) {
				return false
			}
			for k := range a {
				if a[k] != b[k] {
					return false
				}
			}
			return true
		},
		func(v any) string {
			if v.([]byte) == nil {
				return "nil"
			}
			return fmt.Sprint(v)
		})
	n.pick = pickAliasing
	n.mut = func(v any, pick int) bool {
		b := v.([]byte)
		if len(b) == 0 {
			return false
		}
		b[0] = byte(1 + pick)
		return true
	}
	return finishV(n, eq.Bytes, hash.Bytes)
}

func baseTime() *inst[time.Time] {
	t0 := time.Date(2024, 2, 29, 12, 0, 0, 5, time.UTC)
	kst := time.FixedZone("KST", 9*3600)
	dom := []time.Time{t0, t0.In(kst), t0.Add(time.Nanosecond), t0.Add(-time.Hour), {}, time.Time{}.In(kst), time.Unix(0, 0), time.Unix(0, 0).UTC()}
	n := newNode("Time", fixed(dom),
		func(x, y any) bool {
			a, b := x.(time.Time), y.(time.Time)
			return a.Unix() == b.Unix() && a.Nanosecond() == b.Nanosecond()
		},
		func(v any) string { return v.(time.Time).Format(time.RFC3339Nano) })
	return finishV[time.Time](n, eq.Time, nil)
}

func baseHNil() *inst[hlist.Nil] {
	n := newNode("HNil", fixed([]hlist.Nil{{}, hlist.Empty()}), func(a, b any) bool { return true }, func(any) string { return "HNil" })
	return finishV(n, eq.HNil, hash.HNil)
}

// user-supplied functions through eq.New / hash.New
func baseNew() *inst[int] {
	mkE := func() fp.Eq[int] { return eq.New(func(a, b int) bool { return a%3 == b%3 }) }
	n := newNode("New[int mod 3]", fixed([]int{0, 1, 2, 3, 4, 6}), func(a, b any) bool { return a.(int)%3 == b.(int)%3 }, showNum)
	return finish(n, mkE, func() fp.Hashable[int] { return hash.New(mkE(), func(a int) uint32 { return uint32(a % 3) }) })
}

// ---------- combinators: the typed part only converts between T and its components ----------

func optionOf[T any](k *inst[T]) *inst[fp.Option[T]] {
	mk := func() []any {
		dom := []any{fp.None[T](), fp.Option[T]{}}
		for _, v := range k.n.freshReps().elems() {
			dom = append(dom, fp.Some(v.(T)))
		}
		return dom
	}
	get := func(v any) (any, bool) {
		o := v.(fp.Option[T])
		if o.IsDefined() {
			return o.Get(), true
		}
		return nil, false
	}
	n := newNode("Option", mk, optRef(k.n, get), optShow(k.n, get, "None", "Some(", ")"), k.n)
	n.mut = func(v any, pick int) bool {
		e, ok := get(v)
		return ok && k.n.doMut(e, pick)
	}
	var mh func() fp.Hashable[fp.Option[T]]
	if k.mkHash != nil {
		mh = func() fp.Hashable[fp.Option[T]] { return hash.Option(k.mkHash()) }
	}
	return finish(n, func() fp.Eq[fp.Option[T]] { return eq.Option(k.mkEq()) }, mh)
}

func optRef(k *node, get func(any) (any, bool)) func(a, b any) bool {
	return func(a, b any) bool {
		av, aok := get(a)
		bv, bok := get(b)
		if aok != bok {
			return false
		}
		return !aok || k.ref(av, bv)
	}
}

func optShow(k *node, get func(any) (any, bool), none, pre, post string) func(any) string {
	return func(v any) string {
		e, ok := get(v)
		if !ok {
			return none
		}
		return pre + k.show(e) + post
	}
}

// The domain of a slice-like carrier over an element type with representatives x, xa, y:
//
//	base := [x y xa]                      one backing array
//	0 nil          1 empty
//	2 base[:2]     a VIEW                 [x y]
//	3 [x y]        an independent copy of it
//	4 base         the LONGER view, same start, [x y xa]
//	5 base[:1]     a shorter view, same start
//	6 base[1:]     a view with a different start, [y xa]
//	7 [y x]   8 [xa]   9 [xa y]           independent values (7 equals 6 and 9 equals 2 when xa ~ x)
//
// so that all pairs and triples include (independent copy, view, longer view of the same array).
// The representatives handed to an enclosing combinator are x = the view, xa = the copy, y = the
// longer view, so every instance nested over a sequence compares them as well.
func aliasingSlices[T any](r reps) [][]T {
	x, xa, y := r.x.(T), r.xa.(T), r.y.(T)
	base := []T{x, y, xa}
	return [][]T{nil, {}, base[:2], {x, y}, base, base[:1], base[1:], {y, x}, {xa}, {xa, y}}
}

func pickAliasing(d []any) reps {
	return reps{x: d[2], xa: d[3], y: d[4], rest: append(append([]any{}, d[:2]...), d[5:]...)}
}

func listRef(k *node, split func(any) ([]any, bool)) func(a, b any) bool {
	return func(a, b any) bool {
		as, _ := split(a)
		bs, _ := split(b)
		if len(as) != len(bs) {
			return false
		}
		for j := range as {
			if !k.ref(as[j], bs[j]) {
				return false
			}
		}
		return true
	}
}

func listShow(k *node, split func(any) ([]any, bool)) func(any) string {
	return func(v any) string {
		es, isNil := split(v)
		if isNil {
			return "nil"
		}
		s := make([]string, len(es))
		for j := range es {
			s[j] = k.show(es[j])
		}
		return "[" + strings.Join(s, " ") + "]"
	}
}

func splitSlice[T any](s []T) ([]any, bool) { return anys(s), s == nil }

// writeFirst: s[0] = x or y of the element type (same array, new contents)
func writeFirst[T any](k *node, s []T, pick int) bool {
	if len(s) == 0 {
		return false
	}
	s[0] = k.freshReps().at(2 * pick).(T)
	return true
}

func seqOf[T any](k *inst[T]) *inst[fp.Seq[T]] {
	mk := func() []any {
		var dom []any
		for _, sl := range aliasingSlices[T](k.n.freshReps()) {
			dom = append(dom, fp.Seq[T](sl))
		}
		return dom
	}
	split := func(v any) ([]any, bool) { return splitSlice[T](v.(fp.Seq[T])) }
	n := newNode("Seq", mk, listRef(k.n, split), listShow(k.n, split), k.n)
	n.pick = pickAliasing
	n.mut = func(v any, pick int) bool { return writeFirst[T](k.n, v.(fp.Seq[T]), pick) }
	var mh func() fp.Hashable[fp.Seq[T]]
	if k.mkHash != nil {
		mh = func() fp.Hashable[fp.Seq[T]] { return hash.Seq(k.mkHash()) }
	}
	return finish(n, func() fp.Eq[fp.Seq[T]] { return eq.Seq(k.mkEq()) }, mh)
}

func sliceOf[T any](k *inst[T]) *inst[[]T] {
	mk := func() []any { return anys(aliasingSlices[T](k.n.freshReps())) }
	split := func(v any) ([]any, bool) { return splitSlice[T](v.([]T)) }
	n := newNode("Slice", mk, listRef(k.n, split), listShow(k.n, split), k.n)
	n.pick = pickAliasing
	n.mut = func(v any, pick int) bool { return writeFirst[T](k.n, v.([]T), pick) }
	var mh func() fp.Hashable[[]T]
	if k.mkHash != nil {
		mh = func() fp.Hashable[[]T] { return hash.Slice(k.mkHash()) }
	}
	return finish(n, func() fp.Eq[[]T] { return eq.Slice(k.mkEq()) }, mh)
}

func ptrTo[T any](v any) any { t := v.(T); return &t }

func ptrNode[T any](head string, k *node) *node {
	mk := func() []any {
		r := k.freshReps()
		p4 := ptrTo[T](r.y)
		dom := []any{(*T)(nil), ptrTo[T](r.x), ptrTo[T](r.x), ptrTo[T](r.xa), p4, p4}
		for _, v := range r.rest {
			dom = append(dom, ptrTo[T](v))
		}
		return dom
	}
	get := func(v any) (any, bool) {
		p := v.(*T)
		if p == nil {
			return nil, false
		}
		return *p, true
	}
	n := newNode(head, mk, optRef(k, get), optShow(k, get, "nil", "&", ""), k)
	n.mut = func(v any, pick int) bool { // *p = x or y of the pointee type (same address)
		p := v.(*T)
		if p == nil {
			return false
		}
		*p = k.freshReps().at(2 * pick).(T)
		return true
	}
	// operands of the history family: two pointers to equal targets and one to a different target
	n.histOperands = func(dom []any, r reps) []any { return []any{dom[1], dom[2], dom[4]} }
	return n
}

func ptrOf[T any](k *inst[T]) *inst[*T] {
	n := ptrNode[T]("Ptr", k.n)
	var mh func() fp.Hashable[*T]
	if k.mkHash != nil {
		mh = func() fp.Hashable[*T] { return hash.Ptr(lazy.Call(func() fp.Hashable[T] { return k.mkHash() })) }
	}
	return finish(n, func() fp.Eq[*T] { return eq.Ptr(lazy.Call(func() fp.Eq[T] { return k.mkEq() })) }, mh)
}

// PtrGiven has no counterpart in hash.
func ptrGivenOf[T comparable](k *inst[T]) *inst[*T] {
	return finish[*T](ptrNode[T]("PtrGiven", k.n), eq.PtrGiven[T], nil)
}

// mapShapes: key/value-index lists into (x, xa, y) in insertion order; nil = nil/zero map
var mapShapes = [][][2]any{nil, {}, {{"a", 0}}, {{"a", 1}}, {{"a", 2}}, {{"b", 0}}, {{"a", 0}, {"b", 2}}, {{"b", 2}, {"a", 1}}}

var mapKeys = []string{"a", "b", "c"}

func mapRef(k *node, get func(m any, key string) (any, bool)) func(a, b any) bool {
	return func(a, b any) bool {
		for _, key := range mapKeys {
			av, aok := get(a, key)
			bv, bok := get(b, key)
			if aok != bok || (aok && !k.ref(av, bv)) {
				return false
			}
		}
		return true
	}
}

func mapShow(k *node, get func(m any, key string) (any, bool), kind func(any) string) func(any) string {
	return func(v any) string {
		var s []string
		for _, key := range mapKeys {
			if e, ok := get(v, key); ok {
				s = append(s, key+":"+k.show(e))
			}
		}
		return kind(v) + "[" + strings.Join(s, " ") + "]"
	}
}

func goMapOf[T any](k *inst[T]) *inst[map[string]T] {
	mk := func() []any {
		var dom []any
		r := k.n.freshReps()
		for _, sh := range mapShapes {
			var m map[string]T
			if sh != nil {
				m = map[string]T{}
				for _, kv := range sh {
					m[kv[0].(string)] = r.at(kv[1].(int)).(T)
				}
			}
			dom = append(dom, m)
		}
		return dom
	}
	get := func(m any, key string) (any, bool) { v, ok := m.(map[string]T)[key]; return v, ok }
	kind := func(m any) string {
		if m.(map[string]T) == nil {
			return "nilmap"
		}
		return "map"
	}
	n := newNode("GoMap", mk, mapRef(k.n, get), mapShow(k.n, get, kind), k.n)
	n.mut = func(v any, pick int) bool { // m["a"] = x or y of the value type (same map)
		m := v.(map[string]T)
		if m == nil {
			return false
		}
		m["a"] = k.n.freshReps().at(2 * pick).(T)
		return true
	}
	return finish[map[string]T](n, func() fp.Eq[map[string]T] { return eq.GoMap[string](k.mkEq()) }, nil)
}

// fpMapNode: the values of fp.Map[string,T]. With hamt=false every map grows from the zero
// value (fp.UnsafeGoMap behind the MapBase interface) or from an explicitly empty UnsafeGoMap;
// with hamt=true most are immutable.Map (the HAMT). The HAMT is instantiated for the base types
// only: one instantiation costs about a second of compile time.
func fpMapNode[T any](k *node, empty func() fp.Map[string, T]) *node {
	mk := func() []any {
		var dom []any
		r := k.freshReps()
		for j, sh := range mapShapes {
			var m fp.Map[string, T] // the zero value
			if sh != nil && j != 3 {
				m = empty()
			}
			// shape 3 always grows from the zero value
			for _, kv := range sh {
				m = m.Updated(kv[0].(string), r.at(kv[1].(int)).(T))
			}
			dom = append(dom, m)
		}
		return dom
	}
	get := func(m any, key string) (any, bool) {
		o := m.(fp.Map[string, T]).Get(key)
		if o.IsDefined() {
			return o.Get(), true
		}
		return nil, false
	}
	kind := func(m any) string {
		v := m.(fp.Map[string, T])
		if v.Base == nil {
			return "fp.Map/zero"
		} else if _, ok := v.Base.(fp.UnsafeGoMap[string, T]); ok {
			return "fp.Map/gomap"
		}
		return "fp.Map/hamt"
	}
	return newNode("FpMap", mk, mapRef(k, get), mapShow(k, get, kind), k)
}

func fpMapOf[T any](k *inst[T]) *inst[fp.Map[string, T]] {
	n := fpMapNode[T](k.n, func() fp.Map[string, T] { return fp.MakeMap[string, T](fp.UnsafeGoMap[string, T]{}) })
	return finish[fp.Map[string, T]](n, func() fp.Eq[fp.Map[string, T]] { return eq.FpMap[string](k.mkEq()) }, nil)
}

func fpMapHamtOf[T any](k *inst[T]) *inst[fp.Map[string, T]] {
	n := fpMapNode[T](k.n, func() fp.Map[string, T] { return immutable.Map[string, T](hash.String) })
	n.name = "FpMap/hamt(" + k.n.name + ")"
	return finish[fp.Map[string, T]](n, func() fp.Eq[fp.Map[string, T]] { return eq.FpMap[string](k.mkEq()) }, nil)
}

// product types: split returns the components
func prodRef(kids []*node, split func(any) []any) func(a, b any) bool {
	return func(a, b any) bool {
		as, bs := split(a), split(b)
		for j, k := range kids {
			if !k.ref(as[j], bs[j]) {
				return false
			}
		}
		return true
	}
}

func prodShow(kids []*node, split func(any) []any, open, sep, close string) func(any) string {
	return func(v any) string {
		es := split(v)
		s := make([]string, len(kids))
		for j, k := range kids {
			s[j] = k.show(es[j])
		}
		return open + strings.Join(s, sep) + close
	}
}

// prodMut passes a write to the first component that has a mutable referent.
func prodMut(kids []*node, split func(any) []any) func(v any, pick int) bool {
	return func(v any, pick int) bool {
		for j, c := range split(v) {
			if j < len(kids) && kids[j].doMut(c, pick) {
				return true
			}
		}
		return false
	}
}

func tuple1Of[T any](k *inst[T]) *inst[fp.Tuple1[T]] {
	mk := func() []any {
		var dom []any
		for _, v := range k.n.freshReps().elems() {
			dom = append(dom, as.Tuple1(v.(T)))
		}
		return dom
	}
	split := func(v any) []any { return []any{v.(fp.Tuple1[T]).I1} }
	kids := []*node{k.n}
	n := newNode("Tuple1", mk, prodRef(kids, split), prodShow(kids, split, "(", ",", ")"), kids...)
	n.mut = prodMut(kids, split)
	var mh func() fp.Hashable[fp.Tuple1[T]]
	if k.mkHash != nil {
		mh = func() fp.Hashable[fp.Tuple1[T]] { return hash.Tuple1(k.mkHash()) }
	}
	return finish(n, func() fp.Eq[fp.Tuple1[T]] { return eq.Tuple1(k.mkEq()) }, mh)
}

var pairShapes = [][2]int{{0, 0}, {0, 1}, {1, 0}, {0, 2}, {2, 0}, {2, 2}, {1, 2}, {2, 1}}

func tuple2Of[T any](k *inst[T]) *inst[fp.Tuple2[T, T]] {
	mk := func() []any {
		var dom []any
		r := k.n.freshReps()
		for _, sh := range pairShapes {
			dom = append(dom, as.Tuple2(r.at(sh[0]).(T), r.at(sh[1]).(T)))
		}
		return dom
	}
	split := func(v any) []any { t := v.(fp.Tuple2[T, T]); return []any{t.I1, t.I2} }
	kids := []*node{k.n, k.n}
	n := newNode("Tuple2", mk, prodRef(kids, split), prodShow(kids, split, "(", ",", ")"), kids...)
	n.mut = prodMut(kids, split)
	var mh func() fp.Hashable[fp.Tuple2[T, T]]
	if k.mkHash != nil {
		mh = func() fp.Hashable[fp.Tuple2[T, T]] { return hash.Tuple2(k.mkHash(), k.mkHash()) }
	}
	return finish(n, func() fp.Eq[fp.Tuple2[T, T]] { return eq.Tuple2(k.mkEq(), k.mkEq()) }, mh)
}

func hconsOf[T any](k *inst[T], nilI *inst[hlist.Nil]) *inst[hlist.Cons[T, hlist.Nil]] {
	mk := func() []any {
		var dom []any
		for _, v := range k.n.freshReps().elems() {
			dom = append(dom, hlist.Concat(v.(T), hlist.Empty()))
		}
		return dom
	}
	split := func(v any) []any { c := v.(hlist.Cons[T, hlist.Nil]); return []any{c.Head(), hlist.Tail(c)} }
	kids := []*node{k.n, nilI.n}
	n := newNode("HCons", mk, prodRef(kids, split), prodShow(kids, split, "", "::", ""), kids...)
	n.mut = prodMut(kids, split)
	var mh func() fp.Hashable[hlist.Cons[T, hlist.Nil]]
	if k.mkHash != nil {
		mh = func() fp.Hashable[hlist.Cons[T, hlist.Nil]] { return hash.HCons(k.mkHash(), nilI.mkHash()) }
	}
	return finish(n, func() fp.Eq[hlist.Cons[T, hlist.Nil]] { return eq.HCons(k.mkEq(), nilI.mkEq()) }, mh)
}

// box is the source type of ContraMap: tag is ignored by the getter, so boxes with equal v and
// different tag are different representations of Eqv-equal values.
type box[T any] struct {
	v   T
	tag int
}

func unbox[T any](b box[T]) T { return b.v }

func contraMapOf[T any](k *inst[T]) *inst[box[T]] {
	mk := func() []any {
		r := k.n.freshReps()
		dom := []any{box[T]{r.x.(T), 0}, box[T]{r.x.(T), 1}, box[T]{r.xa.(T), 2}, box[T]{r.y.(T), 3}, box[T]{r.y.(T), 0}}
		for j, v := range r.rest {
			dom = append(dom, box[T]{v.(T), 5 + j})
		}
		return dom
	}
	ref := func(a, b any) bool { return k.n.ref(a.(box[T]).v, b.(box[T]).v) }
	show := func(v any) string { b := v.(box[T]); return fmt.Sprintf("box{%s #%d}", k.n.show(b.v), b.tag) }
	n := newNode("ContraMap", mk, ref, show, k.n)
	n.mut = func(v any, pick int) bool { return k.n.doMut(v.(box[T]).v, pick) }
	var mh func() fp.Hashable[box[T]]
	if k.mkHash != nil {
		mh = func() fp.Hashable[box[T]] { return hash.ContraMap(k.mkHash(), unbox[T]) }
	}
	return finish(n, func() fp.Eq[box[T]] { return eq.ContraMap(k.mkEq(), unbox[T]) }, mh)
}

// ---------- closure of the grammar to a depth bound. expand2 -> expand1 -> expand0 are three
// different generic functions, so the set of instantiated types is finite and fixed at compile
// time without a generator. ----------

type catalogue struct {
	nodes []*node
	hnil  *inst[hlist.Nil]
}

func (c *catalogue) add(n *node) { c.nodes = append(c.nodes, n) }

func expand0[T any](c *catalogue, k *inst[T]) { c.add(k.n) }

func expand1[T any](c *catalogue, k *inst[T]) {
	c.add(k.n)
	expand0(c, optionOf(k))
	expand0(c, seqOf(k))
	expand0(c, sliceOf(k))
	expand0(c, ptrOf(k))
	expand0(c, goMapOf(k))
	expand0(c, fpMapOf(k))
	expand0(c, tuple1Of(k))
	expand0(c, tuple2Of(k))
	expand0(c, hconsOf(k, c.hnil))
	expand0(c, contraMapOf(k))
}

func expand2[T any](c *catalogue, k *inst[T]) {
	c.add(k.n)
	expand1(c, optionOf(k))
	expand1(c, seqOf(k))
	expand1(c, sliceOf(k))
	expand1(c, ptrOf(k))
	expand1(c, goMapOf(k))
	expand1(c, fpMapOf(k))
	expand1(c, tuple1Of(k))
	expand1(c, tuple2Of(k))
	expand1(c, hconsOf(k, c.hnil))
	expand1(c, contraMapOf(k))
}
