package drv

import (
	"fmt"
	"sort"
	"strings"

	"verif/harness/c01/apiscan"
	"verif/mc"
)

// Case is one generated driver: a combinator of one monad package at one arity.
type Case struct {
	Monad string // package name
	Name  string // exported function (or Type.Method)
	Arity int    // 0 when the name carries no arity
	Fail  bool   // Option/Try/Either/StateT
	Group string // catalogue | builder | transformer
	Run   func(e *Env)
}

// QuickArities are the arities run by the quick tier (fixed-arity combinators always run).
var QuickArities = map[int]bool{0: true, 1: true, 2: true, 3: true, 9: true}

// Register adds the catalogue scenarios of one property ("C01": every monad, result equality and
// the laws; "C02": the failure monads, first failure and call log) and the coverage report.
func Register(r *mc.Registry, prop string, cases []Case, covered map[string][]string) {
	Covered = covered
	var names []string
	skipped := map[string][]string{}
	for _, c := range cases {
		c := c
		if prop == "C02" && !c.Fail {
			continue
		}
		if !r.Thorough() && !QuickArities[c.Arity] {
			skipped[c.Monad] = append(skipped[c.Monad], c.Name)
			continue
		}
		name := c.Monad + "." + c.Name
		names = append(names, name)
		sc := r.Seq(name, func(x *mc.X) {
			e := NewEnv(x, prop, name, c.Fail)
			c.Run(e)
		})
		sc.SplitDepth = 3
	}
	if prop == "C01" {
		registerLaws(r)
	}
	r.Extra["bounds"] = map[string]any{
		"element_type":         "string (every type parameter of every combinator is instantiated at string; state and fn1 argument at int)",
		"arities":              arities(r.Thorough()),
		"operand_vectors":      "every vector over {success_i, failure_i} (Option/Try/Either/StateT) resp. {[], [v], [v w]} (Seq/List/Iterator) resp. every constructor (Eval, fn0, fn1) at every operand position",
		"callback_letters":     map[string]int{"option": KLOption, "try": KLTry, "either": KLEither, "statet": KLStatet, "seq": KLSeq, "list": KLList, "iterator": KLIterator, "lazy": KLEval, "fn0": KLFn0, "fn1": KLFn1},
		"error_families":       "Try/StateT positions and callbacks fail, per execution, with the private sentinels e_i or (one family per rotation) with the library's own errors: fp.ErrOptionEmpty built by try.Failure, fp.ErrOptionEmpty built by try.FromOption(option.None()), fp.ErrTryNotFailed, fp.ErrFutureNotFailed, a distinct fp.Error(404, \"Option.empty\") look-alike, and fmt.Errorf(\"%w\", fp.ErrOptionEmpty); over the rotations every position fails with every one of them",
		"iterator_sources":     "every combinator that consumes an Iterator (FoldM, Traverse, TraverseFunc, SequenceIterator, try.Traverse_) is driven by an instrumented source whose HasNext/Next are logged callbacks, in three variants: the plain source, the source behind Iterator.Filter with a logged predicate, the source behind iterator.FilterMap with a logged function (both with rejected elements before every element and after the last); the definition pulls the next element inside the continuation of the previous one (StateT: the fold drains the source while building the action)",
		"zero_values":          "the legal zero values are operands: lazy.Eval[T]{} (every Eval operand position and a callback letter; value = zero T), fp.Iterator[T]{} (= empty), fp.Option[T]{} (= None), nil Seq; a zero fp.Try is not a value of the domain (Failed().Get() panics on it)",
		"traverse_elements":    "0..3 elements (thorough: 0..4), every subset of elements on which the function fails",
		"compositions":         "every expression tree of depth <= 2 over {operand, Map, Replace, LiftM, Flatten.Map, Map2, Ap.Map, FlatMap2, Map.Zip} per generated package (thorough: plus every unary node on top of such a tree), every failing subset of its operands, every letter of its callbacks",
		"initial_states":       States,
		"builder_method_kinds": "every method vector for builders of up to 3 stages (thorough: 4); beyond that the vectors kind_i = (b + d*i) mod K for every base b and stride d in {0,1}",
		"generated_drivers":    len(cases),
		"scenarios_catalogue":  len(names),
		"skipped_in_quick":     skipped,
	}
	switch prop {
	case "C01":
		r.Rule = "one scenario per (package, combinator, arity) and per (package, law); an execution = one operand vector (every position independently: failure_i or success_i for Option/Try/Either/StateT, [] / [v] / [v w] for Seq/List/Iterator, every constructor for Eval/fn0/fn1), one letter per callback from the package's alphabet, for traverse-like combinators a length 0..3 and a subset of elements on which the function fails, for builders a method per stage; the library call and the combinator's definition (that package's FlatMap and unit only) are evaluated on separately built inputs and rendered structurally (Try: flag, value, error identity; Iterator/List: drained elements; Eval: Get; StateT/fn1: results on the initial states 0,1,2; returned functions are applied); laws: every m of Dom(M) x every f,g of a 6-letter alphabet; non-trivial = at least one position failed / was empty (catalogue), every law instance; distinct = distinct rendered result"
		r.Assumptions = []string{
			"callbacks are total and deterministic; every type parameter is instantiated at string (state and fn1 argument at int), so a defect that depends on the element type is out of reach",
			"the definition of a combinator is the FlatMap/unit term documented in genfp/generator/gen_monad.go, gen_traverse.go, gen_monad_transformers.go (sequential traverse: the function of element i+1 is applied inside the continuation of element i)",
			"an Iterator operand is single use: the definition receives its own fresh copy and, like the library, binds every operand once",
			"compositions of combinators are covered only as far as the library itself composes them (every combinator is checked against its definition in isolation)",
		}
	case "C02":
		r.Rule = "catalogue scenarios as in C01 restricted to option/try/either/statet (and the try SeqT/OptionT functions): an execution = one subset of failing positions x callback letters; every user callback (continuation, supplier, traverse/fold function, predicate, StateT operand) appends (id, arguments) to a call log; oracle: the result carries the failure token of the first failing position (error identity for Try/StateT) and the call log of the library call equals the call log of the definition evaluated with the same callbacks; recover scenarios: every Recover*/OrElse*/Or* method x every value of a small domain x handler letters; capture scenarios: function x panic value (none, \"s\", error, 7, nil, struct{}{}, two runtime errors) x return shape; non-trivial = an execution in which at least one position failed / the receiver was a failure / the function panicked; distinct = distinct (result, number of callback calls)"
		r.Assumptions = []string{
			"operands of Option/Try/Either combinators are values: only callbacks, suppliers and StateT operands can be observed not to run",
			"the definition of a combinator is its FlatMap/unit term (sequential for traverse-like combinators); the first failing position is the leftmost failing argument in that term",
			"future.Apply/Apply2 are run on a synchronous executor (no goroutine); their behaviour on the default goroutine executor is left to C06",
			"which state a state-aware StateT recover handler receives is not demanded here (C17)",
		}
	}
	r.Post = func(p *mc.PostCtx) {
		p.Extra["uncovered"] = Uncovered(prop)
	}
}

func arities(thorough bool) []int {
	var out []int
	for a := 1; a <= 9; a++ {
		if thorough || QuickArities[a] {
			out = append(out, a)
		}
	}
	return out
}

// excluded: exported members of the monad packages that the catalogue deliberately leaves to
// other checks, by name prefix, with the reason.
var excluded = []struct{ pkg, prefix, reason string }{
	{"try", "Func", "arity-indexed lifting of (R, error) functions: defining-equation check C14"},
	{"try", "Pure", "Pure0..PureN: arity-indexed lifting of plain functions (C14); try.Pure itself is the unit used by every definition"},
	{"try", "Unit", "arity-indexed lifting (C14)"},
	{"try", "Ptr", "arity-indexed lifting (C14)"},
	{"try", "Curried", "arity-indexed lifting (C14)"},
	{"try", "Success", "constructor (used as operand)"},
	{"try", "Failure", "constructor (used as operand)"},
	{"try", "FlatMap", "primitive of the definitions; laws"},
	{"try", "Apply", "constructor from (v, err); exercised by the C02 panic/return scenarios through Call"},
	{"try", "Of", "C02 panic scenarios"},
	{"try", "Call", "C02 panic scenarios"},
	{"try", "FromOption", "conversion, used by the builder definitions"},
	{"try", "FromPtr", "conversion"},
	{"try", "Fold", "eliminator, not a monadic combinator"},
	{"try", "FoldRight", "eliminator"},
	{"try", "ToSeq", "conversion"},
	{"try", "Iterator", "conversion"},
	{"option", "Pure", "unit; Pure0/Pure1 lifting (C14)"},
	{"option", "Some", "constructor"},
	{"option", "None", "constructor"},
	{"option", "ConstNone", "constant function"},
	{"option", "Of", "constructor from nilable"},
	{"option", "Ptr", "constructor"},
	{"option", "String", "constructor"},
	{"option", "NonZero", "constructor"},
	{"option", "NonEmptySlice", "constructor"},
	{"option", "FromTry", "conversion"},
	{"option", "FlatMap", "primitive of the definitions; laws"},
	{"option", "FlatPtr", "conversion"},
	{"option", "Fold", "eliminator"},
	{"option", "ToSeq", "conversion"},
	{"option", "Iterator", "conversion"},
	{"option", "Deref", "conversion"},
	{"either", "Left", "constructor"},
	{"either", "Right", "constructor"},
	{"either", "NotRight", "constructor"},
	{"either", "Pure", "unit"},
	{"either", "Swap", "not a monadic combinator"},
	{"either", "FlatMap", "primitive; laws"},
	{"either", "Fold", "eliminator"},
	{"either", "Foreach", "eliminator"},
	{"either", "OrElse", "C02 recover scenarios"},
	{"either", "Exists", "eliminator"},
	{"either", "ForAll", "eliminator"},
	{"statet", "Run", "state primitive (C17)"},
	{"statet", "Merge", "state primitive (C17)"},
	{"statet", "Put", "state primitive (C17)"},
	{"statet", "Get", "state primitive (C17)"},
	{"statet", "Modify", "state primitive (C17)"},
	{"statet", "Pure", "unit"},
	{"statet", "FromTry", "state primitive (C17)"},
	{"statet", "FlatMap", "primitive; laws (FlatMap2.. are covered)"},
	{"statet", "Transform", "state/Try eliminator (C17)"},
	{"statet", "MapWithState", "reads the state (C17)"},
	{"statet", "MapT", "Try-level map (C17)"},
	{"statet", "PeekState", "state primitive (C17)"},
	{"seq", "", "collection operation, not a monadic combinator: iterator/list/seq semantics C12, folds C11"},
	{"list", "", "collection operation, not a monadic combinator: C12"},
	{"iterator", "", "collection operation, not a monadic combinator: C12/C20"},
	{"lazy", "", "trampoline constructors and helpers: C16"},
	{"fn1", "", "arrow helpers, not monadic combinators"},
}

// Uncovered scans the tree under test and lists the exported functions and methods of the monad
// packages that no rule exercises, with the reason when the omission is deliberate
// ("" = no rule knows this member).
func Uncovered(prop string) []map[string]string {
	scope := apiscan.Packages
	if prop == "C02" { // the statement is about Try/Option/Either/StateT combinators
		scope = []string{"option", "try", "either", "statet"}
	}
	api, err := apiscan.Scan(mc.RepoDir(), scope)
	if err != nil {
		return []map[string]string{{"error": err.Error()}}
	}
	var out []map[string]string
	blanket := map[string][]string{}
	var pkgs []string
	for p := range api {
		pkgs = append(pkgs, p)
	}
	sort.Strings(pkgs)
	for _, p := range pkgs {
		cov := map[string]bool{}
		for _, n := range Covered[p] {
			cov[n] = true
		}
		for _, n := range handCovered[prop][p] {
			cov[n] = true
		}
		for _, n := range api[p] {
			if cov[n] {
				continue
			}
			reason := ""
			best := -1
			for _, ex := range excluded {
				if ex.pkg == p && strings.HasPrefix(n, ex.prefix) && len(ex.prefix) > best {
					reason, best = ex.reason, len(ex.prefix)
				}
			}
			if best == 0 { // whole-package exclusion: one entry per package
				blanket[p] = append(blanket[p], n)
				continue
			}
			out = append(out, map[string]string{"member": p + "." + n, "reason": reason})
		}
	}
	out = compactFamilies(out)
	for _, p := range pkgs {
		if ns := blanket[p]; len(ns) > 0 {
			reason := ""
			for _, ex := range excluded {
				if ex.pkg == p && ex.prefix == "" {
					reason = ex.reason
				}
			}
			out = append(out, map[string]string{"member": p + ".{" + strings.Join(ns, ",") + "}", "reason": reason})
		}
	}
	return out
}

// compactFamilies folds arity families (try.Func0, try.Func1, ... with one reason) into one entry.
func compactFamilies(in []map[string]string) []map[string]string {
	var out []map[string]string
	idx := map[string]int{}
	for _, u := range in {
		m := u["member"]
		stem := strings.TrimRight(m, "0123456789")
		if stem == m {
			out = append(out, u)
			continue
		}
		k := stem + "|" + u["reason"]
		if i, ok := idx[k]; ok {
			out[i]["member"] += "," + m[len(stem):]
			continue
		}
		idx[k] = len(out)
		out = append(out, map[string]string{"member": stem + "{N} for N=" + m[len(stem):], "reason": u["reason"]})
	}
	return out
}

// Covered is the generated table of API members exercised by some rule (set by Register).
var Covered map[string][]string

// handCovered: members exercised by hand-written scenarios (laws; C02 recover/panic scenarios).
var handCovered = map[string]map[string][]string{
	"C01": {
		"option": {"FlatMap", "Pure", "Some", "None"}, "try": {"FlatMap", "Pure", "Success", "Failure"},
		"either": {"FlatMap", "Pure", "Left", "Right"}, "statet": {"FlatMap", "Pure"},
		"seq": {"FlatMap", "Pure"}, "list": {"FlatMap", "Of"}, "iterator": {"FlatMap", "Of"},
		"lazy": {"FlatMap", "Done", "Call", "TailCall"}, "fn0": {"FlatMap", "Pure"}, "fn1": {"FlatMap", "Pure"},
	},
	"C02": {
		"try":    {"Of", "Call", "CallUnit", "Apply"},
		"either": {"OrElse", "OrElseGet"},
	},
}

var _ = fmt.Sprint
