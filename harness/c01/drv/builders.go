package drv

import (
	"github.com/csgura/fp"
)

// A Stage is the operand of one builder step (ApplicativeN / ChainN). Kind is the builder
// method used at the step; methods that take a Try/Option (or a supplier/continuation
// returning one) can fail, the others cannot. The same Stage serves the library call (Val, M,
// Opt, ValFn, MFn, OptFn, Fm, Mp, Hfm, Hmp) and the definition (Ref), and logs the same
// entries on both sides.

func stageCanFail(kind string) bool {
	switch kind {
	case "Ap", "ApFunc", "Map", "HListMap":
		return false
	}
	return true
}

// ---- try -----------------------------------------------------------------------------------

type TryStage struct {
	e    *Env
	I    int
	Kind string
	fail bool
}

func NewTryStage(e *Env, i int, kind string) *TryStage {
	s := &TryStage{e: e, I: i, Kind: kind}
	if stageCanFail(kind) {
		tok := ErrName(e.Err(i))
		if kind == "ApOption" || kind == "ApOptionFunc" {
			tok = "ErrOptionEmpty"
		}
		s.fail = e.Fail(i, tok)
	} else {
		e.Position(i, false, "")
	}
	return s
}

func (s *TryStage) Val() string { return "v" + Itoa(s.I) }
func (s *TryStage) M() fp.Try[string] {
	if s.fail {
		return FailedTry[string](s.e, s.I)
	}
	return fp.Success(s.Val())
}
func (s *TryStage) Opt() fp.Option[string] {
	if s.fail {
		return fp.None[string]()
	}
	return fp.Some(s.Val())
}
func (s *TryStage) sup() { s.e.Call("sup" + Itoa(s.I)) }
func (s *TryStage) ValFn() func() string {
	return func() string { s.sup(); return s.Val() }
}
func (s *TryStage) MFn() func() fp.Try[string] {
	return func() fp.Try[string] { s.sup(); return s.M() }
}
func (s *TryStage) OptFn() func() fp.Option[string] {
	return func() fp.Option[string] { s.sup(); return s.Opt() }
}
func (s *TryStage) Fm(prev string) fp.Try[string]  { s.e.Call("fm"+Itoa(s.I), prev); return s.M() }
func (s *TryStage) Mp(prev string) string          { s.e.Call("map"+Itoa(s.I), prev); return s.Val() }
func (s *TryStage) Hfm(prev string) fp.Try[string] { s.e.Call("hfm"+Itoa(s.I), prev); return s.M() }
func (s *TryStage) Hmp(prev string) string         { s.e.Call("hmap"+Itoa(s.I), prev); return s.Val() }

// Ref is the stage's operand as a Try, evaluated where the definition needs it.
func (s *TryStage) Ref(prevHead, prevList string) fp.Try[string] {
	fromOpt := func(o fp.Option[string]) fp.Try[string] {
		if o.IsDefined() {
			return fp.Success(o.Get())
		}
		return fp.Failure[string](fp.ErrOptionEmpty)
	}
	switch s.Kind {
	case "Ap":
		return fp.Success(s.Val())
	case "ApTry":
		return s.M()
	case "ApOption":
		return fromOpt(s.Opt())
	case "ApFunc":
		return fp.Success(s.ValFn()())
	case "ApTryFunc":
		return s.MFn()()
	case "ApOptionFunc":
		return fromOpt(s.OptFn()())
	case "FlatMap":
		return s.Fm(prevHead)
	case "Map":
		return fp.Success(s.Mp(prevHead))
	case "HListFlatMap":
		return s.Hfm(prevList)
	case "HListMap":
		return fp.Success(s.Hmp(prevList))
	}
	panic("unknown stage kind " + s.Kind)
}

// ---- option --------------------------------------------------------------------------------

type OptionStage struct {
	e    *Env
	I    int
	Kind string
	fail bool
}

func NewOptionStage(e *Env, i int, kind string) *OptionStage {
	s := &OptionStage{e: e, I: i, Kind: kind}
	if stageCanFail(kind) {
		s.fail = e.Fail(i, "None")
	} else {
		e.Position(i, false, "")
	}
	return s
}

func (s *OptionStage) Val() string { return "v" + Itoa(s.I) }
func (s *OptionStage) M() fp.Option[string] {
	if s.fail {
		return fp.None[string]()
	}
	return fp.Some(s.Val())
}
func (s *OptionStage) sup() { s.e.Call("sup" + Itoa(s.I)) }
func (s *OptionStage) ValFn() func() string {
	return func() string { s.sup(); return s.Val() }
}
func (s *OptionStage) MFn() func() fp.Option[string] {
	return func() fp.Option[string] { s.sup(); return s.M() }
}
func (s *OptionStage) Fm(prev string) fp.Option[string] { s.e.Call("fm"+Itoa(s.I), prev); return s.M() }
func (s *OptionStage) Mp(prev string) string            { s.e.Call("map"+Itoa(s.I), prev); return s.Val() }
func (s *OptionStage) Hfm(prev string) fp.Option[string] {
	s.e.Call("hfm"+Itoa(s.I), prev)
	return s.M()
}
func (s *OptionStage) Hmp(prev string) string { s.e.Call("hmap"+Itoa(s.I), prev); return s.Val() }

func (s *OptionStage) Ref(prevHead, prevList string) fp.Option[string] {
	switch s.Kind {
	case "Ap":
		return fp.Some(s.Val())
	case "ApOption":
		return s.M()
	case "ApFunc":
		return fp.Some(s.ValFn()())
	case "ApOptionFunc":
		return s.MFn()()
	case "FlatMap":
		return s.Fm(prevHead)
	case "Map":
		return fp.Some(s.Mp(prevHead))
	case "HListFlatMap":
		return s.Hfm(prevList)
	case "HListMap":
		return fp.Some(s.Hmp(prevList))
	}
	panic("unknown stage kind " + s.Kind)
}
